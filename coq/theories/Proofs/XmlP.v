(* C09 — proofs about the XML backend: on xml_safe reports the generated xml_load_* invert the generated xml_save_*,
   and the (modelled) text layer xml_norm is the identity on the trees produced. *)
From Coq Require Import List NArith ZArith Bool Lia.
Import ListNotations.
From LCC Require Import Base.Util Model.Report Model.Time Model.Json Model.Xml gen.TablesCodec Model.CodecFile Proofs.JsonP.

Ltac split_and :=
  repeat match goal with
         | H : (_ && _)%bool = true |- _ => apply andb_true_iff in H; destruct H
         end.

Lemma filter_map_all {A B} (p : B -> bool) (g : A -> B) l : (forall x, p (g x) = true) -> filter p (map g l) = map g l.
Proof. intro H. induction l as [|x l IH]; simpl; [reflexivity|]. rewrite H, IH. reflexivity. Qed.
Lemma filter_map_none {A B} (p : B -> bool) (g : A -> B) l : (forall x, p (g x) = false) -> filter p (map g l) = [].
Proof. intro H. induction l as [|x l IH]; simpl; [reflexivity|]. rewrite H, IH. reflexivity. Qed.
Lemma filter_app' {A} (p : A -> bool) l1 l2 : filter p (l1 ++ l2) = filter p l1 ++ filter p l2.
Proof. induction l1 as [|x l1 IH]; simpl; [reflexivity|]. destruct (p x); simpl; rewrite IH; reflexivity. Qed.

Lemma xml_ind' (P : xml -> Prop) :
  (forall t a tx c, Forall P c -> P (Elem t a tx c)) -> forall e, P e.
Proof.
  intro H. fix IH 1. intros [t a tx c]. apply H.
  induction c as [|x c IHc]; constructor; [apply IH | exact IHc].
Qed.

(* ---------------- the text layer is the identity on clean trees ---------------- *)
Fixpoint xml_clean (e : xml) : bool :=
  match e with
  | Elem t a tx c =>
      str_chars_ok t && forallb (fun kv => str_chars_ok (fst kv) && str_chars_ok (snd kv)) a &&
      match tx with Some s => text_safe s | None => true end &&
      match c with [] => true | _ => match tx with None => true | Some _ => false end end &&
      forallb xml_clean c
  end.

Lemma xml_char_facts c : xml_char c = true -> surrogate c = false /\ N.eqb poison c = false.
Proof.
  unfold xml_char, surrogate, poison. intro H.
  repeat rewrite orb_true_iff in H. repeat rewrite andb_true_iff in H. rewrite ?N.eqb_eq, ?N.leb_le in H.
  split.
  - apply andb_false_iff. destruct (N.leb_spec 55296 c); [right; apply N.leb_gt; lia | left; reflexivity].
  - apply N.eqb_neq. lia.
Qed.
Lemma chars_ok_facts s : str_chars_ok s = true -> str_has_surrogate s = false /\ str_poisoned s = false.
Proof.
  unfold str_chars_ok, str_has_surrogate, str_poisoned. induction s as [|c s IH]; cbn [forallb existsb]; [auto|].
  intro H. apply andb_true_iff in H as [H1 H2]. destruct (xml_char_facts c H1) as [A B]. destruct (IH H2) as [C D].
  rewrite A, B, C, D. auto.
Qed.
Lemma norm_eol_id s : existsb (N.eqb 13) s = false -> norm_eol s = s.
Proof.
  induction s as [|c s IH]; [reflexivity|]. cbn [existsb]. intro H. apply orb_false_iff in H as [H1 H2].
  rewrite N.eqb_sym in H1. cbn [norm_eol]. rewrite H1. rewrite IH by exact H2. reflexivity.
Qed.
Lemma text_safe_norm s : text_safe s = true ->
  norm_text (Some s) = match s with [] => None | _ => Some s end /\ str_chars_ok s = true.
Proof.
  unfold text_safe. intro H. apply andb_true_iff in H as [H2 H3].
  apply negb_true_iff in H3. split; [|exact H2].
  destruct s as [|c s]; [reflexivity|]. unfold norm_text. rewrite norm_eol_id by exact H3. reflexivity.
Qed.

Lemma mapM_id_forall {A} (f : A -> res A) l : Forall (fun x => f x = Ok x) l -> mapM f l = Ok l.
Proof. intro H. apply mapM_id_in. rewrite Forall_forall in H. exact H. Qed.

Lemma clean_norm e : xml_clean e = true -> xml_norm e = Ok (xml_strip e).
Proof.
  induction e as [t a tx c IH] using xml_ind'. cbn [xml_clean xml_norm xml_strip]. intro H.
  repeat (apply andb_true_iff in H; destruct H as [H ?]).
  assert (Ha : forallb (fun kv : str * str => str_chars_ok (snd kv)) a = true).
  { eapply forallb_impl; [|eassumption]. intros x _ Hx. apply andb_true_iff in Hx. tauto. }
  rewrite Ha.
  assert (Ht : text_chars_ok tx = true /\ (match c with [] => norm_text tx | _ => None end) =
               (match c with [] => match tx with Some [] => None | x => x end | _ => None end)).
  { destruct tx as [s|]; cbn [text_chars_ok]; [|destruct c; auto].
    destruct (text_safe_norm s) as [A B]; [assumption|]. split; [exact B|]. destruct c; [|reflexivity].
    rewrite A. destruct s; reflexivity. }
  destruct Ht as [Ht1 Ht2]. rewrite Ht1, Ht2. cbn [andb].
  match goal with |- bind ?m _ = _ => assert (Hm : m = Ok (map xml_strip c)) end.
  { clear - IH H0. induction c as [|x c IHc]; [reflexivity|]. cbn [forallb] in H0. apply andb_true_iff in H0 as [Hx Hc].
    inversion IH; subst. rewrite H1 by exact Hx. cbn [bind map]. rewrite IHc by assumption. reflexivity. }
  rewrite Hm. reflexivity.
Qed.

Lemma strip_depth e : xml_depth (xml_strip e) = xml_depth e.
Proof.
  induction e as [t a tx c IH] using xml_ind'. cbn [xml_strip xml_depth]. f_equal.
  induction c as [|x c IHc]; [reflexivity|]. inversion IH; subst. cbn [map fold_right]. rewrite H1, IHc by assumption. reflexivity.
Qed.

Lemma clean_not_poisoned e : xml_clean e = true -> xml_poisoned e = false /\ xml_has_surrogate e = false.
Proof.
  induction e as [t a tx c IH] using xml_ind'. cbn [xml_clean xml_poisoned xml_has_surrogate]. intro H.
  repeat (apply andb_true_iff in H; destruct H as [H ?]).
  assert (A1 : existsb (fun kv : str * str => str_poisoned (snd kv)) a = false /\
               existsb (fun kv : str * str => str_has_surrogate (fst kv) || str_has_surrogate (snd kv)) a = false).
  { clear - H3. induction a as [|[k v] a IHa]; [auto|]. cbn [forallb existsb fst snd] in *.
    apply andb_true_iff in H3 as [Hkv Ha]. apply andb_true_iff in Hkv as [Hk Hv].
    destruct (chars_ok_facts k Hk) as [K1 K2]. destruct (chars_ok_facts v Hv) as [V1 V2]. destruct (IHa Ha) as [I1 I2].
    rewrite K1, V1, V2, I1, I2. auto. }
  destruct A1 as [A1 A2].
  assert (A3 : match tx with Some s => str_poisoned s | None => false end = false /\
               match tx with Some s => str_has_surrogate s | None => false end = false).
  { destruct tx as [s|]; [|auto]. destruct (text_safe_norm s) as [_ B]; [assumption|]. destruct (chars_ok_facts s B). auto. }
  destruct A3 as [A3 A4].
  assert (A5 : existsb xml_poisoned c = false /\ existsb xml_has_surrogate c = false).
  { clear - IH H0. induction c as [|x c IHc]; [auto|]. cbn [forallb existsb] in *. apply andb_true_iff in H0 as [Hx Hc].
    inversion IH; subst. destruct (H1 Hx) as [P1 P2]. destruct (IHc H2 Hc) as [Q1 Q2]. rewrite P1, P2, Q1, Q2. auto. }
  destruct A5 as [A5 A6]. destruct (chars_ok_facts t H) as [T1 _].
  rewrite A1, A2, A3, A4, A5, A6, T1. auto.
Qed.

Section XmlRoundTrip.
Variable tc : textcodec.
Hypothesis Hc : codec_ok tc.

Ltac xsimp :=
  cbn -[xml_load_time xml_save_time xml_load_bool xml_save_bool xml_save_steps_children xml_load_step xml_save_test
        xml_load_test xml_save_suite xml_load_suite mapM map tests_dict dict_of_pairs xml_depth suite_depth
        xml_save_result_attrs xml_save_result_children].

Lemma xtime_rt z : xml_load_time tc (xml_save_time tc (Some z)) = Ok z.
Proof. destruct Hc as [Ht _]. unfold xml_load_time, xml_save_time. cbn. rewrite Ht. reflexivity. Qed.
Lemma xbool_rt b : xml_load_bool (xml_save_bool b) = Ok b.
Proof. destruct b; reflexivity. Qed.

Ltac xrw := repeat (first [rewrite xtime_rt | rewrite xbool_rt]; cbn [bind req_some of_option]).

(* The loaders are applied to what the text layer returns: xml_strip of the saved tree ("" texts of leaf elements are None). *)
Lemma xsteps_rt steps : forallb step_safe steps = true ->
  mapM (fun e => xml_load_step tc e) (map xml_strip (xml_save_steps_children tc steps)) = Ok steps.
Proof.
  intro Hs. unfold xml_save_steps_children. rewrite map_map. apply mapM_map_id_in. intros [d st en logs] Hin.
  rewrite forallb_forall in Hs. specialize (Hs _ Hin). unfold step_safe in Hs. cbn [st_description st_start st_logs] in Hs.
  split_and. destruct st as [st|]; [|discriminate].
  unfold xml_load_step. destruct en as [en|]; xsimp; xrw.
  all: rewrite map_map; rewrite mapM_map_id_in; [reflexivity|].
  all: match goal with H : forallb log_safe ?l = true |- _ => rewrite forallb_forall in H; rename H into Hl end.
  all: intros [lv m t|ds ok dt t|ds f im t|ds u t] Hlog; specialize (Hl _ Hlog); unfold log_safe in Hl; split_and.
  all: try (destruct dt as [[|c0 dt]|]; try discriminate); try destruct m; try destruct f; try destruct u; xsimp; xrw; reflexivity.
Qed.

Lemma steps_children_filter k steps :
  filter (has_tag k) (map xml_strip (xml_save_steps_children tc steps)) =
  if str_eqb K_step k then map xml_strip (xml_save_steps_children tc steps) else [].
Proof.
  unfold xml_save_steps_children. rewrite map_map. destruct (str_eqb K_step k) eqn:E;
    [apply filter_map_all | apply filter_map_none]; intro x; unfold has_tag; cbn [xtag xml_strip]; exact E.
Qed.

(* filter (has_tag K) over a children list made of ++ / map / literal segments *)
Ltac tag_dec := let x := fresh "x" in intro x; try reflexivity; destruct x; reflexivity.
Ltac filt :=
  repeat first
    [ rewrite filter_app'
    | rewrite steps_children_filter
    | rewrite filter_map_all by tag_dec
    | rewrite filter_map_none by tag_dec
    | progress xsimp ].
(* the same, for every `filter (has_tag K) C` of the goal, each computed on its own *)
Ltac filt_all C :=
  repeat match goal with
  | |- context [filter (has_tag ?K) C] =>
      let l := fresh "l" in let F := fresh "F" in
      evar (l : list xml);
      assert (F : filter (has_tag K) C = l) by (subst C l; filt; rewrite ?app_nil_r; reflexivity);
      rewrite F; clear F; subst l
  end.
(* children of a stripped element: push xml_strip through ++ and map *)
Ltac push_strip := rewrite ?map_app, ?map_map; cbn [map].

(* tags / properties / info: "" comes back through `or ""` *)
Ltac xtexts_tac :=
  rewrite mapM_map_id by (first [intros [|? ?]; reflexivity | intros [? [|? ?]]; reflexivity]); cbn [bind].
(* links: the optional name attribute written under `if link[1] is not None:` comes back as it is *)
Ltac xlinks_tac :=
  rewrite mapM_map_id by (intros [[|? ?] [?|]]; reflexivity); cbn [bind].

Lemma xtest_rt t : test_safe t = true -> meta_unique (t_meta t) = true ->
  xml_load_test tc (xml_strip (xml_save_test tc t)) = Ok t.
Proof.
  destruct t as [[n d tg pr lk] [st en s sd steps]]. unfold test_safe, meta_safe, result_safe, meta_unique.
  cbn [t_meta t_result m_name m_description m_tags m_properties m_links r_start r_end r_status r_status_details r_steps].
  intros Hs Hu. split_and.
  unfold xml_save_test, xml_load_test, xml_save_node_metadata_attrs, xml_save_node_metadata_children,
    xml_save_result_attrs, xml_save_result_children, xfindall.
  cbn [xml_strip xchildren r_steps t_result t_meta m_tags m_properties m_links]. push_strip.
  filt.
  destruct st as [st|]; [|discriminate].
  destruct s as [[|c1 s]|]; try discriminate; destruct sd as [sd|]; destruct en as [en|];
    xsimp; xrw.
  all: rewrite ?app_nil_r; rewrite xsteps_rt by assumption; cbn [bind].
  all: xtexts_tac; xtexts_tac; xlinks_tac.
  all: rewrite dict_of_pairs_id by assumption; reflexivity.
Qed.

(* ---- the attributes / children written for a setup or teardown result: what each lookup used by the loader returns ---- *)
Lemma res_facts r : result_safe r = true ->
  exists z, r_start r = Some z /\
  assoc K_start__time (xml_save_result_attrs tc r) = Some (xml_save_time tc (Some z)) /\
  assoc K_end__time (xml_save_result_attrs tc r) =
    match r_end r with Some e => Some (xml_save_time tc (Some e)) | None => None end /\
  assoc K_status (xml_save_result_attrs tc r) = r_status r /\
  assoc K_status__details (xml_save_result_attrs tc r) = r_status_details r /\
  mapM (fun e => xml_load_step tc e) (filter (has_tag K_step) (map xml_strip (xml_save_result_children tc r))) = Ok (r_steps r).
Proof.
  destruct r as [st en s sd steps]. unfold result_safe.
  cbn [r_start r_end r_status r_status_details r_steps]. intro H. split_and.
  destruct st as [st|]; [|discriminate]. exists st. split; [reflexivity|].
  unfold xml_save_result_attrs, xml_save_result_children. cbn [r_steps].
  rewrite steps_children_filter, str_eqb_refl. rewrite xsteps_rt by assumption.
  destruct s as [[|c1 s]|]; try discriminate; destruct sd as [sd|]; destruct en as [en|];
    xsimp; repeat split; reflexivity.
Qed.

Lemma xsuite_rt s : forall fuel, suite_safe s = true -> suite_unique s = true -> (suite_depth s <= fuel)%nat ->
  xml_load_suite tc fuel (xml_strip (xml_save_suite tc s)) = Ok s.
Proof.
  induction s as [m st en su td tests subs IH] using suite_ind'. intros fuel Hs Hu Hd.
  destruct fuel as [|fuel]; [simpl in Hd; lia|].
  destruct m as [n d tg pr lk].
  cbn [suite_safe suite_unique] in Hs, Hu. unfold meta_safe, meta_unique in Hs, Hu.
  cbn [m_name m_description m_tags m_properties m_links] in Hs, Hu. split_and.
  assert (Hsub : mapM (fun e => xml_load_suite tc fuel e) (map (fun x => xml_strip (xml_save_suite tc x)) subs) = Ok subs).
  { apply mapM_map_id_in. intros x Hx. rewrite Forall_forall in IH. apply IH; [exact Hx | | |].
    - match goal with H : forallb suite_safe subs = true |- _ => rewrite forallb_forall in H; apply H; exact Hx end.
    - match goal with H : forallb suite_unique subs = true |- _ => rewrite forallb_forall in H; apply H; exact Hx end.
    - cbn [suite_depth] in Hd. pose proof (fold_max_le suite_depth x subs Hx). lia. }
  assert (Htests : mapM (fun e => xml_load_test tc e) (map (fun x => xml_strip (xml_save_test tc x)) tests) = Ok tests).
  { apply mapM_map_id_in. intros x Hx. apply xtest_rt.
    - match goal with H : forallb test_safe tests = true |- _ => rewrite forallb_forall in H; apply H; exact Hx end.
    - match goal with H : forallb (fun t => nodup_keys _) tests = true |- _ =>
        rewrite forallb_forall in H; apply (H x Hx) end. }
  destruct st as [st|]; [|discriminate].
  cbn [xml_save_suite xml_load_suite].
  unfold xml_save_node_metadata_attrs, xml_save_node_metadata_children, xfind, xfindall.
  cbn [xml_strip xchildren m_name m_description m_tags m_properties m_links].
  destruct su as [su|];
    [match goal with H : oresult_safe (Some su) = true |- _ =>
       destruct (res_facts su H) as (zs & Hs1 & Hs2 & Hs3 & Hs4 & Hs5 & Hs6); destruct su as [s1 s2 s3 s4 s5];
       cbn [r_start r_end r_status r_status_details r_steps] in Hs1, Hs3, Hs4, Hs5, Hs6; subst s1 end|];
  (destruct td as [td|];
    [match goal with H : oresult_safe (Some td) = true |- _ =>
       destruct (res_facts td H) as (zt & Ht1 & Ht2 & Ht3 & Ht4 & Ht5 & Ht6); destruct td as [t1 t2 t3 t4 t5];
       cbn [r_start r_end r_status r_status_details r_steps] in Ht1, Ht3, Ht4, Ht5, Ht6; subst t1 end|]).
  all: destruct en as [en|].
  all: push_strip; cbn [xml_strip].
  all: match goal with |- context [filter _ ?c] => set (C := c) end; filt_all C; subst C.
  all: xsimp; xrw.
  all: unfold xattr, xhas_attr, xattr_opt, has_key; cbn [xattrs];
       rewrite ?Hs2, ?Hs3, ?Hs4, ?Hs5, ?Hs6, ?Ht2, ?Ht3, ?Ht4, ?Ht5, ?Ht6.
  all: try destruct s2; try destruct t2; xsimp; xrw.
  all: rewrite ?Hs6, ?Ht6; cbn [bind].
  all: xtexts_tac; xtexts_tac; xlinks_tac.
  all: rewrite Htests; cbn [bind]; rewrite Hsub; cbn [bind].
  all: rewrite dict_of_pairs_id by assumption; rewrite tests_dict_id by assumption; reflexivity.
Qed.

Lemma xml_depth_child x t a tx c : In x c -> (xml_depth x < xml_depth (Elem t a tx c))%nat.
Proof. intro H. cbn [xml_depth]. pose proof (fold_max_le xml_depth x c H). lia. Qed.

Lemma xsuite_depth_le s : (suite_depth s <= xml_depth (xml_save_suite tc s))%nat.
Proof.
  induction s as [m st en su td tests subs IH] using suite_ind'.
  cbn [suite_depth xml_save_suite xml_depth]. apply le_n_S. apply fold_max_lub. intros x Hx.
  rewrite Forall_forall in IH. specialize (IH x Hx).
  etransitivity; [exact IH|]. apply (fold_max_le xml_depth). repeat rewrite in_app_iff.
  pose proof (in_map (xml_save_suite tc) _ _ Hx). tauto.
Qed.

Theorem xml_report_rt now r : xml_safeb r = true -> unique_keys r ->
  xml_load_report tc (xml_strip (xml_save_report tc now r)) = Ok (with_saving (Some now) r).
Proof.
  intros Hs Hu. destruct r as [title info st en sav nb su td suites].
  unfold unique_keys, unique_keysb in Hu. unfold xml_safeb in Hs.
  cbn [rp_suites rp_title rp_info rp_start rp_session_setup rp_session_teardown] in Hs, Hu. split_and.
  unfold xml_save_report, xml_load_report, with_saving, xfind, xfindall.
  cbn [xml_strip xchildren rp_suites rp_title rp_info rp_start rp_end rp_nb_threads rp_session_setup rp_session_teardown].
  assert (Hsu : mapM (fun e => xml_load_suite tc (xml_depth e) e) (map (fun x => xml_strip (xml_save_suite tc x)) suites) = Ok suites).
  { apply mapM_map_id_in. intros x Hx. apply xsuite_rt; [| |rewrite strip_depth; apply xsuite_depth_le].
    - match goal with H : forallb suite_safe suites = true |- _ => rewrite forallb_forall in H; apply H; exact Hx end.
    - rewrite forallb_forall in Hu. apply Hu. exact Hx. }
  destruct st as [st|]; [|discriminate].
  destruct su as [su|];
    [match goal with H : oresult_safe (Some su) = true |- _ =>
       destruct (res_facts su H) as (zs & Hs1 & Hs2 & Hs3 & Hs4 & Hs5 & Hs6); destruct su as [s1 s2 s3 s4 s5];
       cbn [r_start r_end r_status r_status_details r_steps] in Hs1, Hs3, Hs4, Hs5, Hs6; subst s1 end|];
  (destruct td as [td|];
    [match goal with H : oresult_safe (Some td) = true |- _ =>
       destruct (res_facts td H) as (zt & Ht1 & Ht2 & Ht3 & Ht4 & Ht5 & Ht6); destruct td as [t1 t2 t3 t4 t5];
       cbn [r_start r_end r_status r_status_details r_steps] in Ht1, Ht3, Ht4, Ht5, Ht6; subst t1 end|]).
  all: destruct en as [en|].
  all: push_strip; cbn [xml_strip].
  all: match goal with |- context [filter _ ?c] => set (C := c) end; filt_all C; subst C.
  all: xsimp; xrw.
  all: destruct Hc as [_ Hi]; rewrite Hi; cbn [of_option bind].
  all: destruct title; xsimp.
  all: unfold xattr, xhas_attr, xattr_opt, has_key; cbn [xattrs];
       rewrite ?Hs2, ?Hs3, ?Hs4, ?Hs5, ?Hs6, ?Ht2, ?Ht3, ?Ht4, ?Ht5, ?Ht6.
  all: try destruct s2; try destruct t2; xsimp; xrw.
  all: rewrite ?Hs6, ?Ht6; cbn [bind].
  all: xtexts_tac.
  all: rewrite Hsu; cbn [bind]; reflexivity.
Qed.

(* ---------------- the trees written for xml_safe reports are clean ---------------- *)
Hypothesis Hx : codec_xml_ok tc.

Lemma time_chars o : is_some o = true -> str_chars_ok (xml_save_time tc o) = true.
Proof. destruct o; [|discriminate]. intros _. apply (proj1 Hx). Qed.

Ltac csimp := cbn -[str_chars_ok text_safe attr_safe oattr_safe xml_save_time xml_save_bool xml_save_steps_children
                    xml_save_test xml_save_suite map].
Ltac leaf :=
  first [ assumption | reflexivity | apply time_chars; first [assumption | reflexivity] | apply (proj2 Hx)
        | match goal with |- str_chars_ok (xml_save_bool ?b) = true => destruct b; reflexivity end ].
Ltac conj := repeat match goal with |- (_ && _)%bool = true => apply andb_true_intro; split end.

Definition attrs_ok (a : list (str * str)) : bool := forallb (fun kv => str_chars_ok (fst kv) && str_chars_ok (snd kv)) a.
Lemma clean_elem_none t a c :
  str_chars_ok t = true -> attrs_ok a = true -> forallb xml_clean c = true -> xml_clean (Elem t a None c) = true.
Proof. intros H1 H2 H3. cbn [xml_clean]. fold (attrs_ok a). rewrite H1, H2, H3. destruct c; reflexivity. Qed.
Lemma clean_leaf t a s :
  str_chars_ok t = true -> attrs_ok a = true -> text_safe s = true -> xml_clean (Elem t a (Some s) []) = true.
Proof. intros H1 H2 H3. cbn [xml_clean]. fold (attrs_ok a). rewrite H1, H2, H3. reflexivity. Qed.
Lemma attrs_ok_app a b : attrs_ok (a ++ b) = attrs_ok a && attrs_ok b.
Proof. apply forallb_app. Qed.

Ltac attrs_tac := unfold attrs_ok; csimp; conj; leaf.
Ltac elem_tac :=
  first [ apply clean_leaf; [reflexivity | attrs_tac | assumption]
        | apply clean_elem_none; [reflexivity | attrs_tac | ] ].

Lemma steps_clean steps : forallb step_safe steps = true -> forallb xml_clean (xml_save_steps_children tc steps) = true.
Proof.
  unfold xml_save_steps_children. rewrite forallb_map. apply forallb_impl. intros [d st en logs] _ H.
  unfold step_safe in H. cbn [st_description st_start st_logs] in H. split_and.
  cbn [st_description st_start st_end st_logs].
  apply clean_elem_none; [reflexivity | destruct en; attrs_tac |].
  rewrite forallb_map. eapply forallb_impl; [|eassumption].
  intros [lv m t|ds ok dt t|ds f im t|ds u t] _ Hl; unfold log_safe in Hl; split_and.
  1,3,4: elem_tac.
  destruct dt as [dt|]; [cbn [otext_safe] in *; split_and; elem_tac | elem_tac; reflexivity].
Qed.

Lemma result_clean r : result_safe r = true ->
  attrs_ok (xml_save_result_attrs tc r) = true /\ forallb xml_clean (xml_save_result_children tc r) = true.
Proof.
  destruct r as [st en s sd steps]. unfold result_safe. cbn [r_start r_end r_status r_status_details r_steps].
  intro H. split_and. split.
  - unfold xml_save_result_attrs. cbn [r_start r_end r_status r_status_details].
    destruct s as [[|c1 s]|]; try discriminate; destruct sd as [[|c2 sd]|]; try discriminate; destruct en;
      cbn [oattr_safe] in *; split_and; attrs_tac.
  - unfold xml_save_result_children. cbn [r_steps]. apply steps_clean. assumption.
Qed.

Lemma meta_clean m : meta_safe m = true ->
  attrs_ok (xml_save_node_metadata_attrs m) = true /\ forallb xml_clean (xml_save_node_metadata_children m) = true.
Proof.
  destruct m as [n d tg pr lk]. unfold meta_safe. cbn [m_name m_description m_tags m_properties m_links].
  intro H. split_and. split.
  - unfold xml_save_node_metadata_attrs. attrs_tac.
  - unfold xml_save_node_metadata_children. cbn [m_tags m_properties m_links].
    rewrite !forallb_app, !forallb_map. conj.
    + eapply forallb_impl; [|eassumption]. intros x _ Hs. elem_tac.
    + eapply forallb_impl; [|eassumption]. intros [k v] _ Hs. cbn [fst snd] in *. split_and. elem_tac.
    + eapply forallb_impl; [|eassumption]. intros [u [[|c o]|]] _ Hs; cbn [fst snd oattr_safe] in *; split_and;
        try discriminate; elem_tac.
Qed.

Lemma test_clean t : test_safe t = true -> xml_clean (xml_save_test tc t) = true.
Proof.
  destruct t as [m r]. unfold test_safe. cbn [t_meta t_result]. intro H. split_and.
  destruct (meta_clean m) as [M1 M2]; [assumption|]. destruct (result_clean r) as [R1 R2]; [assumption|].
  unfold xml_save_test. cbn [t_meta t_result].
  apply clean_elem_none; [reflexivity | rewrite attrs_ok_app, M1, R1; reflexivity | rewrite forallb_app, M2, R2; reflexivity].
Qed.

Lemma oresult_clean K o : str_chars_ok K = true -> oresult_safe o = true ->
  forallb xml_clean (match o with Some r => [Elem K (xml_save_result_attrs tc r) None (xml_save_result_children tc r)] | None => [] end) = true.
Proof.
  intros HK H. destruct o as [r|]; [|reflexivity]. cbn [oresult_safe] in H. destruct (result_clean r H) as [R1 R2].
  cbn [forallb]. rewrite clean_elem_none by assumption. reflexivity.
Qed.

Lemma suite_clean s : suite_safe s = true -> xml_clean (xml_save_suite tc s) = true.
Proof.
  induction s as [m st en su td tests subs IH] using suite_ind'. cbn [suite_safe]. intro H. split_and.
  destruct (meta_clean m) as [M1 M2]; [assumption|].
  cbn [xml_save_suite]. apply clean_elem_none; [reflexivity | |].
  - rewrite !attrs_ok_app, M1. destruct en; attrs_tac.
  - rewrite !forallb_app, M2, !forallb_map. rewrite !oresult_clean by (reflexivity || assumption). conj; try reflexivity.
    + eapply forallb_impl; [|eassumption]. intros x _ Hs. apply test_clean. exact Hs.
    + rewrite Forall_forall in IH. eapply forallb_impl; [|eassumption]. intros x Hin Hs. apply IH; assumption.
Qed.

Lemma report_clean now r : xml_safeb r = true -> xml_clean (xml_save_report tc now r) = true.
Proof.
  destruct r as [title info st en sav nb su td suites]. unfold xml_safeb.
  cbn [rp_suites rp_title rp_info rp_start rp_session_setup rp_session_teardown]. intro H. split_and.
  unfold xml_save_report. cbn [rp_suites rp_title rp_info rp_start rp_end rp_nb_threads rp_session_setup rp_session_teardown].
  apply clean_elem_none; [reflexivity | destruct en; attrs_tac |].
  rewrite !forallb_app, !forallb_map. rewrite !oresult_clean by (reflexivity || assumption). conj; try reflexivity.
  - cbn [forallb]. rewrite clean_leaf by (reflexivity || assumption). reflexivity.
  - eapply forallb_impl; [|eassumption]. intros [k v] _ Hs. cbn [fst snd] in *. split_and. elem_tac.
  - eapply forallb_impl; [|eassumption]. intros x _ Hs. apply suite_clean. exact Hs.
Qed.

(* tree level with the text layer: _unserialize_report (parse (write (serialize_report_as_xml_tree report))) *)
Theorem xml_tree_rt now r : xml_safeb r = true -> unique_keys r ->
  bind (xml_norm (xml_save_report tc now r)) (xml_load_report tc) = Ok (with_saving (Some now) r).
Proof.
  intros Hs Hu. rewrite (clean_norm _ (report_clean now r Hs)). cbn [bind]. apply xml_report_rt; assumption.
Qed.

(* file level: save with the XML backend, load through reporting.loader *)
Theorem xml_file_rt now r : xml_safeb r = true -> unique_keys r ->
  save_then_load tc BXml now r = Ok (with_saving (Some now) r).
Proof.
  intros Hs Hu. pose proof (report_clean now r Hs) as Cl.
  destruct (clean_not_poisoned _ Cl) as [P1 P2].
  unfold save_then_load, backend_save, xml_save_file. rewrite P1, P2. cbn [bind].
  unfold default_backends, loader_load, backend_load, xml_load_file. rewrite (clean_norm _ Cl). cbn [bind].
  unfold xml_save_report at 1 2. unfold xattr. cbn [xtag xattrs].
  change (str_eqb K_lemoncheesecake__report K_lemoncheesecake__report) with true. cbn [negb].
  match goal with |- context [assoc K_report__version ?l] => change (assoc K_report__version l) with (Some K_1u2e1) end.
  cbn [of_option bind]. change (parse_version K_1u2e1) with (Some (11, 1)%Z).
  change ((2 * 10 ^ 1 <=? 11)%Z) with false. cbn iota.
  rewrite xml_report_rt by assumption. reflexivity.
Qed.
End XmlRoundTrip.