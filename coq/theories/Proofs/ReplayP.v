(* C18: feeding the replay of a report to a fresh ReportWriter rebuilds the report (Model/Replay.v, Model/Writer.v). *)
From Coq Require Import List NArith ZArith Bool Lia.
Import ListNotations.
From LCC Require Import Base.Util Model.Report Model.Events Model.Writer Model.Replay Proofs.WriterP.

(* ---------------- small facts ---------------- *)
Lemma option_eqb_str_eq : forall a b, option_eqb str_eqb a b = true -> a = b.
Proof. destruct a, b; simpl; intros; try discriminate; auto. f_equal. apply str_eqb_eq. assumption. Qed.

Lemma option_eqb_Z_eq : forall a b, option_eqb Z.eqb a b = true -> a = b.
Proof. destruct a, b; simpl; intros; try discriminate; auto. f_equal. apply Z.eqb_eq. assumption. Qed.

Lemma existsb_false_in : forall A (f : A -> bool) l x, existsb f l = false -> In x l -> f x = false.
Proof.
  induction l; simpl; intros; [contradiction|].
  apply orb_false_iff in H. destruct H. destruct H0; subst; auto.
Qed.

Lemma truthy_inv : forall o, truthy_time o = true -> exists t, o = Some t /\ Z.eqb t 0 = false.
Proof. destruct o; simpl; intros; try discriminate. exists z. split; auto. apply negb_true_iff. assumption. Qed.

Lemma end_ok_cases : forall now o, end_ok o = true ->
  (o = None /\ truthy_time o = false) \/ (exists t, o = Some t /\ truthy_time o = true /\ event_time now o = t).
Proof.
  destruct o; simpl; intros; [right|left; auto].
  exists z. apply negb_true_iff in H. rewrite H. auto.
Qed.

Lemma rev_case : forall A (l : list A), l = [] \/ exists l0 x, l = l0 ++ [x].
Proof. intros. destruct l using rev_ind; [left; reflexivity|right; eauto]. Qed.

Lemma set_steps_self : forall r, set_steps r (r_steps r ++ []) = r.
Proof. destruct r. unfold set_steps. simpl. rewrite app_nil_r. reflexivity. Qed.

Section SuiteInd.
  Variable P : suite_result -> Prop.
  Hypothesis H : forall m a e x y tests subs, Forall P subs -> P (SuiteResult m a e x y tests subs).
  Fixpoint suite_ind' (s : suite_result) : P s :=
    match s with
    | SuiteResult m a e x y tests subs =>
        H m a e x y tests subs
          ((fix go (l : list suite_result) : Forall P l :=
              match l with [] => Forall_nil _ | u :: r => Forall_cons _ (suite_ind' u) (go r) end) subs)
    end.
End SuiteInd.

(* the tests of a suite with the key the writer gives them during a replay: (0, position) *)
Fixpoint number_from (i : Z) (l : list test_result) : list (Z * test_result) :=
  match l with
  | [] => []
  | t :: r => (test_key 0 i, t) :: number_from (Z.succ i) r
  end.

Lemma sort_number_from : forall l i, sort_by fst (number_from i l) = number_from i l.
Proof.
  induction l as [|t l IH]; intro i; [reflexivity|].
  unfold sort_by in *. cbn [number_from fold_right]. rewrite IH.
  destruct l as [|t' l']; [reflexivity|]. cbn [number_from insert_by fst].
  replace (Z.leb (test_key 0 i) (test_key 0 (Z.succ i))) with true; [reflexivity|].
  symmetry. apply Z.leb_le. unfold test_key. lia.
Qed.

Lemma map_snd_number_from : forall l i, map snd (number_from i l) = l.
Proof. induction l; intro i; simpl; auto. rewrite IHl. reflexivity. Qed.

(* the live image of a loaded report: suite ranks 0, test keys (0, position), children in the same order *)
Fixpoint embed (s : suite_result) : lsuite :=
  match s with
  | SuiteResult m a e x y tests subs => LSuite m 0 a e x y (number_from 0 tests) (map embed subs)
  end.

Lemma ls_name_embed : forall s, ls_name (embed s) = m_name (s_meta_of s).
Proof. destruct s; reflexivity. Qed.

Lemma norm_embed : forall s, norm_suite (embed s) = s.
Proof.
  induction s using suite_ind'. cbn [embed norm_suite]. f_equal.
  - rewrite sort_number_from. apply map_snd_number_from.
  - rewrite map_map. rewrite (sort_by_const _ fst 0%Z).
    + rewrite map_map. simpl. induction H; simpl; auto. rewrite H, IHForall. reflexivity.
    + intros x0 Hx. apply in_map_iff in Hx. destruct Hx as [u [Hu _]]. subst. simpl. destruct u; reflexivity.
Qed.

Lemma norm_embed_list : forall l,
  map snd (sort_by fst (map (fun u => (ls_rank u, norm_suite u)) (map embed l))) = l.
Proof.
  intros. rewrite map_map. rewrite (sort_by_const _ fst 0%Z).
  - rewrite map_map. simpl. induction l; simpl; auto. rewrite norm_embed, IHl. reflexivity.
  - intros x0 Hx. apply in_map_iff in Hx. destruct Hx as [u [Hu _]]. subst. simpl. destruct u; reflexivity.
Qed.

Section Identity.
  Variable now : Z.
  Variable th : tid.

  (* ---------------- logs, steps ---------------- *)
  Lemma replay_logs_ok : forall loc build, rlens loc build -> forall d logs r l0 st_s acc A,
    forallb (fun l => negb (Z.eqb (log_time l) 0)) logs = true ->
    r_steps r = l0 ++ [mkStep d st_s None acc] ->
    lookup_active th A = Some (loc, length l0) ->
    apply_all (build r A) (map (replay_log now th loc d) logs)
    = Ok (build (set_steps r (l0 ++ [mkStep d st_s None (acc ++ logs)])) A).
  Proof.
    intros loc build [H1 [H2 H3]] d. induction logs as [|lg logs IH]; intros r l0 st_s acc A Hok Hr HA.
    - simpl. rewrite app_nil_r. rewrite <- Hr. f_equal. f_equal. destruct r; reflexivity.
    - simpl in Hok. apply andb_true_iff in Hok. destruct Hok as [Ht Hok].
      apply negb_true_iff in Ht.
      assert (Hone : forall e lg', event_steplog e = Some lg' ->
                (match e with
                 | ELog l _ t _ _ _ | ECheck l _ t _ _ _ _ | ELogAttachment l _ t _ _ _ _ | ELogUrl l _ t _ _ _ => (l, t)
                 | _ => (LocSessionSetup, 0%Z) end) = (loc, th) ->
                apply (build r A) e = Ok (build (set_steps r (l0 ++ [mkStep d st_s None (acc ++ [lg'])])) A)).
      { intros e lg' He Hl.
        assert (Hadd : add_step_log loc th lg' (build r A)
                       = Ok (build (set_steps r (l0 ++ [mkStep d st_s None (acc ++ [lg'])])) A)).
        { unfold add_step_log. rewrite H1. cbn [put bind]. rewrite H2, HA.
          unfold upd_step. cbn [fst snd]. rewrite H1. rewrite Hr. rewrite upd_nth_last. reflexivity. }
        destruct e; try discriminate He; cbn in Hl; inversion Hl; subst; cbn [apply]; rewrite He; exact Hadd. }
      cbn [map apply_all].
      assert (Hev : exists lg', event_steplog (replay_log now th loc d lg) = Some lg' /\ lg' = lg /\
                 (match replay_log now th loc d lg with
                  | ELog l _ t _ _ _ | ECheck l _ t _ _ _ _ | ELogAttachment l _ t _ _ _ _ | ELogUrl l _ t _ _ _ => (l, t)
                  | _ => (LocSessionSetup, 0%Z) end) = (loc, th)).
      { destruct lg; simpl in Ht; cbn [replay_log event_steplog event_time]; rewrite Ht; eauto. }
      destruct Hev as [lg' [He [Heq Hl]]]. subst lg'.
      rewrite (Hone _ _ He Hl). cbn [bind].
      rewrite (IH _ l0 st_s (acc ++ [lg]) A Hok); auto.
      rewrite <- app_assoc. reflexivity.
  Qed.

  Lemma replay_step_ok : forall loc build, rlens loc build -> forall st r A, step_ok st = true ->
    exists A', apply_all (build r A) (replay_step now th loc st) = Ok (build (set_steps r (r_steps r ++ [st])) A').
  Proof.
    intros loc build HL st r A Hok. pose proof HL as [H1 [H2 H3]].
    unfold step_ok in Hok. apply andb_true_iff in Hok. destruct Hok as [Hok Hlogs].
    apply andb_true_iff in Hok. destruct Hok as [Hs He].
    destruct (truthy_inv _ Hs) as [s [Hs1 Hs2]].
    destruct st as [d sst sen logs]. cbn [st_start st_end st_logs st_description] in *. subst sst.
    unfold replay_step. cbn [st_start st_end st_logs st_description].
    cbn [apply_all apply]. rewrite H1. cbn [put bind fst snd]. rewrite H3.
    unfold event_time at 1. rewrite Hs2.
    set (A1 := set_active th (loc, length (r_steps r)) (w_active (build r A))).
    rewrite apply_all_app.
    rewrite (replay_logs_ok loc build HL d logs _ (r_steps r) (Some s) [] A1); auto.
    2: apply lookup_set_active.
    cbn [bind app].
    destruct (end_ok_cases now _ He) as [[E1 E2]|[t [E1 [E2 E3]]]]; rewrite E2.
    - exists A1. subst sen. reflexivity.
    - exists A1. cbn [apply_all apply]. rewrite H2. unfold A1 at 1. rewrite lookup_set_active.
      unfold upd_step. cbn [fst snd]. rewrite H1. cbn [set_steps r_steps].
      rewrite upd_nth_last. rewrite E3. subst sen. reflexivity.
  Qed.

  Lemma replay_steps_ok : forall loc build, rlens loc build -> forall steps r A, forallb step_ok steps = true ->
    exists A', apply_all (build r A) (replay_steps replay_step now th loc steps)
               = Ok (build (set_steps r (r_steps r ++ steps)) A').
  Proof.
    intros loc build HL. induction steps as [|st steps IH]; intros r A Hok.
    - exists A. simpl. rewrite set_steps_self. reflexivity.
    - simpl in Hok. apply andb_true_iff in Hok. destruct Hok as [H1 H2].
      unfold replay_steps. cbn [flat_map]. rewrite apply_all_app.
      destruct (replay_step_ok loc build HL st r A H1) as [A1 E1]. rewrite E1. cbn [bind].
      destruct (IH (set_steps r (r_steps r ++ [st])) A1 H2) as [A2 E2].
      exists A2. unfold replay_steps in E2. rewrite E2. cbn [set_steps r_steps r_start r_end r_status r_status_details].
      rewrite <- app_assoc. reflexivity.
  Qed.

  (* ---------------- a result that was started: Start, steps, End-if-ended ---------------- *)
  Lemma result_rebuild_open : forall r0, result_ok r0 = true -> truthy_time (r_end r0) = false ->
    set_steps (initialize_result (event_time now (r_start r0))) ([] ++ r_steps r0) = r0.
  Proof.
    intros r0 H He. unfold result_ok in H. repeat (apply andb_true_iff in H; destruct H as [H ?]).
    destruct r0 as [s e st sd steps]. cbn in *.
    destruct (truthy_inv _ H) as [t [Ht1 Ht2]]. subst s. unfold event_time at 1. rewrite Ht2.
    destruct (end_ok_cases now _ H3) as [[E1 E2]|[t' [E1 [E2 E3]]]]; [|congruence].
    subst e. destruct sd; [discriminate|].
    apply option_eqb_str_eq in H0. cbn in H0. subst st. reflexivity.
  Qed.

  Lemma result_rebuild_ended : forall r0, result_ok r0 = true -> truthy_time (r_end r0) = true ->
    finalize_result (event_time now (r_end r0))
                    (set_steps (initialize_result (event_time now (r_start r0))) ([] ++ r_steps r0)) = r0.
  Proof.
    intros r0 H He. unfold result_ok in H. repeat (apply andb_true_iff in H; destruct H as [H ?]).
    destruct r0 as [s e st sd steps]. cbn in *.
    destruct (truthy_inv _ H) as [t [Ht1 Ht2]]. subst s. unfold event_time at 2. rewrite Ht2.
    destruct (end_ok_cases now _ H3) as [[E1 E2]|[t' [E1 [E2 E3]]]]; [congruence|].
    subst e. destruct sd; [discriminate|].
    apply option_eqb_str_eq in H0. cbn in H0. subst st.
    unfold finalize_result, result_successful. cbn. cbn in E3. rewrite E3. reflexivity.
  Qed.

  Lemma result_ok_steps : forall r0, result_ok r0 = true -> forallb step_ok (r_steps r0) = true.
  Proof. intros r0 H. unfold result_ok in H. repeat (apply andb_true_iff in H; destruct H as [H ?]). assumption. Qed.

  (* a setup / teardown slot *)
  Lemma replay_phase_ok : forall loc (buildo : option result -> list (tid * sref) -> wstate) start_ev end_ev,
    rlens loc (fun r A => buildo (Some r) A) ->
    (forall t A, apply (buildo None A) (start_ev t) = Ok (buildo (Some (initialize_result t)) A)) ->
    (forall t r A, apply (buildo (Some r) A) (end_ev t) = Ok (buildo (Some (finalize_result t r)) A)) ->
    forall o A, opt_result_ok o = true ->
    exists A', apply_all (buildo None A) (replay_phase replay_step now th loc start_ev end_ev o) = Ok (buildo o A').
  Proof.
    intros loc buildo start_ev end_ev HL Hstart Hend o A Hok.
    destruct o as [r0|]; [|exists A; reflexivity].
    cbn [opt_result_ok] in Hok. unfold replay_phase.
    cbn [apply_all]. rewrite Hstart. cbn [bind]. rewrite apply_all_app.
    destruct (replay_steps_ok loc _ HL (r_steps r0) (initialize_result (event_time now (r_start r0))) A
                (result_ok_steps _ Hok)) as [A1 E1].
    rewrite E1. cbn [bind]. exists A1.
    destruct (truthy_time (r_end r0)) eqn:Et.
    - cbn [apply_all]. rewrite Hend. cbn [bind]. cbn [r_steps initialize_result].
      rewrite result_rebuild_ended; auto.
    - cbn [apply_all]. cbn [r_steps initialize_result]. rewrite result_rebuild_open; auto.
  Qed.

  (* ---------------- tests ---------------- *)
  Lemma on_suite_here' : forall (f : lsuite -> res lsuite) c l m rk st en su td ts us a b x y A,
    ctx_ok c -> name_taken (m_name m) l = false ->
    on_suite (ctx_path c ++ [m_name m]) f (mkW a b x y (plug c (l ++ [LSuite m rk st en su td ts us])) A)
    = bind (f (LSuite m rk st en su td ts us)) (fun s' => Ok (mkW a b x y (plug c (l ++ [s'])) A)).
  Proof. intros. apply (on_suite_here f c l (LSuite m rk st en su td ts us)); auto. Qed.

  Lemma replay_test_ok : forall c l a b x y m rk st en su td ts us pos t A,
    ctx_ok c -> name_taken (m_name m) l = false -> test_taken (m_name (t_meta t)) ts = false -> test_ok t = true ->
    exists es A', replay_test replay_step now th (ctx_path c ++ [m_name m]) pos t = (es, None) /\
      apply_all (mkW a b x y (plug c (l ++ [LSuite m rk st en su td ts us])) A) es
      = Ok (mkW a b x y (plug c (l ++ [LSuite m rk st en su td (ts ++ [(test_key 0 pos, t)]) us])) A').
  Proof.
    intros c l a b x y m rk st en su td ts us pos t A Hc Hl Ht Hok.
    destruct t as [tm r]. cbn [t_meta t_result] in *.
    assert (Hadd : forall r1, add_test (mkNode (ctx_path c ++ [m_name m]) tm (test_key 0 pos)) r1 (LSuite m rk st en su td ts us)
                              = Ok (LSuite m rk st en su td (ts ++ [(test_key 0 pos, mkTest tm r1)]) us)).
    { intro. unfold add_test. cbn. unfold test_taken in Ht. rewrite Ht. reflexivity. }
    unfold test_ok in Hok. cbn [t_result] in Hok. unfold replay_test. cbn [t_result t_meta].
    destruct (bypassed r) eqn:Hb.
    - (* skipped / disabled *)
      repeat (apply andb_true_iff in Hok; destruct Hok as [Hok ?]).
      destruct r as [s e status sd steps]. cbn in *.
      destruct (truthy_inv _ Hok) as [t0 [Ht1 Ht2]]. subst s.
      apply option_eqb_Z_eq in H0. subst e. destruct steps; [|discriminate].
      destruct status as [stt|]; [|discriminate].
      apply orb_true_iff in Hb.
      assert (Hpf : str_eqb stt s_passed || str_eqb stt s_failed = false).
      { destruct Hb as [Hb|Hb]; apply str_eqb_eq in Hb; subst; reflexivity. }
      rewrite Hpf. unfold event_time. rewrite Ht2.
      destruct (str_eqb stt s_skipped) eqn:Hsk.
      + apply str_eqb_eq in Hsk. subst stt. eexists. exists A. split; [reflexivity|].
        cbn [apply_all apply n_parent]. rewrite on_suite_here'; auto. rewrite Hadd. reflexivity.
      + destruct Hb as [Hb|Hb]; [congruence|]. rewrite Hb. apply str_eqb_eq in Hb. subst stt.
        eexists. exists A. split; [reflexivity|].
        cbn [apply_all apply n_parent]. rewrite on_suite_here'; auto. rewrite Hadd. reflexivity.
    - (* a test that was started *)
      assert (Hst : match r_status r with
                    | None => True
                    | Some stt => str_eqb stt s_passed || str_eqb stt s_failed = true end).
      { pose proof Hok as Hok'. unfold result_ok in Hok'. repeat (apply andb_true_iff in Hok'; destruct Hok' as [Hok' ?]).
        apply option_eqb_str_eq in H. rewrite H. unfold computed_status.
        destruct (r_end r); auto. destruct (forallb step_successful (r_steps r)); reflexivity. }
      set (started := fire (ETestStart (mkNode (ctx_path c ++ [m_name m]) tm (test_key 0 pos)) (event_time now (r_start r))
             :: replay_steps replay_step now th (LocTest (node_path (mkNode (ctx_path c ++ [m_name m]) tm (test_key 0 pos)))) (r_steps r)
             ++ (if truthy_time (r_end r) then [ETestEnd (mkNode (ctx_path c ++ [m_name m]) tm (test_key 0 pos)) (event_time now (r_end r))] else []))).
      assert (Hsame : match r_status r with
                      | None => started
                      | Some st0 => if str_eqb st0 s_passed || str_eqb st0 s_failed then started
                                    else if str_eqb st0 s_skipped then fire [ETestSkipped (mkNode (ctx_path c ++ [m_name m]) tm (test_key 0 pos)) (r_status_details r) (event_time now (r_start r))]
                                    else if str_eqb st0 s_disabled then fire [ETestDisabled (mkNode (ctx_path c ++ [m_name m]) tm (test_key 0 pos)) (r_status_details r) (event_time now (r_start r))]
                                    else ([], Some ValueError)
                      end = started).
      { destruct (r_status r); auto. rewrite Hst. reflexivity. }
      rewrite Hsame. unfold started, fire.
      pose proof (rlens_test c l a b x y m rk st en su td ts us tm (test_key 0 pos) Hc Hl Ht) as HL.
      destruct (replay_steps_ok _ _ HL (r_steps r) (initialize_result (event_time now (r_start r))) A
                  (result_ok_steps _ Hok)) as [A1 E1].
      cbv beta in E1.
      eexists. exists A1. split; [reflexivity|].
      cbn [apply_all apply n_parent]. rewrite on_suite_here'; auto. rewrite Hadd. cbn [bind].
      rewrite apply_all_app. unfold node_path. cbn [n_parent n_meta].
      rewrite E1. cbn [bind].
      destruct (truthy_time (r_end r)) eqn:Et.
      + cbn [apply_all apply]. unfold node_path. cbn [n_parent n_meta].
        destruct HL as [HL1 _]. rewrite HL1. cbn [put drop bind].
        cbn [r_steps initialize_result]. rewrite result_rebuild_ended; auto.
      + cbn [apply_all]. cbn [r_steps initialize_result]. rewrite result_rebuild_open; auto.
  Qed.

  Lemma test_taken_app : forall n l1 l2, test_taken n (l1 ++ l2) = test_taken n l1 || test_taken n l2.
  Proof. intros. unfold test_taken. apply existsb_app. Qed.

  Lemma replay_tests_ok : forall c l a b x y m rk st en su td us tests ts pos A,
    ctx_ok c -> name_taken (m_name m) l = false ->
    (forall t, In t tests -> test_taken (m_name (t_meta t)) ts = false) ->
    distinct (map (fun t => m_name (t_meta t)) tests) = true ->
    forallb test_ok tests = true ->
    exists es A', seq_all_from (replay_test replay_step now th (ctx_path c ++ [m_name m])) pos tests = (es, None) /\
      apply_all (mkW a b x y (plug c (l ++ [LSuite m rk st en su td ts us])) A) es
      = Ok (mkW a b x y (plug c (l ++ [LSuite m rk st en su td (ts ++ number_from pos tests) us])) A').
  Proof.
    intros c l a b x y m rk st en su td us. induction tests as [|t tests IH]; intros ts pos A Hc Hl Hfresh Hd Hok.
    - exists [], A. simpl. rewrite app_nil_r. auto.
    - simpl in Hd, Hok. apply andb_true_iff in Hd. destruct Hd as [Hd1 Hd2].
      apply andb_true_iff in Hok. destruct Hok as [Hok1 Hok2]. apply negb_true_iff in Hd1.
      destruct (replay_test_ok c l a b x y m rk st en su td ts us pos t A Hc Hl (Hfresh t (or_introl eq_refl)) Hok1)
        as [es1 [A1 [R1 E1]]].
      destruct (IH (ts ++ [(test_key 0 pos, t)]) (Z.succ pos) A1 Hc Hl) as [es2 [A2 [R2 E2]]]; auto.
      { intros t' Ht'. rewrite test_taken_app. rewrite (Hfresh t' (or_intror Ht')). simpl.
        rewrite orb_false_r.
        apply (existsb_false_in _ _ _ (m_name (t_meta t')) Hd1). apply in_map_iff. eauto. }
      exists (es1 ++ es2), A2. split.
      + cbn [seq_all_from]. rewrite R1, R2. reflexivity.
      + rewrite apply_all_app, E1. cbn [bind]. rewrite E2. cbn [number_from]. rewrite <- app_assoc. reflexivity.
  Qed.

  (* ---------------- suites ---------------- *)
  Lemma suite_start_ok : forall c L a b x y A m rk t,
    ctx_ok c -> name_taken (m_name m) L = false ->
    apply (mkW a b x y (plug c L) A) (ESuiteStart (mkNode (ctx_path c) m rk) t)
    = Ok (mkW a b x y (plug c (L ++ [LSuite m rk (Some t) None None None [] []])) A).
  Proof.
    intros c L a b x y A m rk t Hc HL.
    destruct (rev_case _ c) as [E|[c0 [[l0 s0] E]]]; subst c.
    - cbn [apply n_parent ctx_path map plug n_meta n_rank w_suites]. unfold add_suite. unfold ls_name at 1. cbn [ls_meta]. rewrite HL. reflexivity.
    - cbn [apply n_parent n_meta n_rank]. rewrite ctx_path_app. cbn [snd].
      destruct (ctx_path c0 ++ [ls_name s0]) eqn:Ep; [destruct (ctx_path c0); discriminate|]. rewrite <- Ep.
      apply Forall_app in Hc. destruct Hc as [Hc0 Hf]. inversion Hf; subst. cbn [fst snd] in H1.
      rewrite !plug_app.
      rewrite <- (ls_name_set_subs s0 L).
      rewrite on_suite_here; auto. 2: rewrite ls_name_set_subs; assumption.
      rewrite ls_subs_set_subs. unfold add_suite. unfold ls_name at 1. cbn [ls_meta]. rewrite HL. cbn [bind].
      rewrite set_subs_set_subs. reflexivity.
  Qed.

  Definition suite_goal (s : suite_result) : Prop :=
    suite_ok s = true -> forall c L a b x y A, ctx_ok c -> name_taken (m_name (s_meta_of s)) L = false ->
    exists es A', replay_suite replay_step now th (ctx_path c) s = (es, None) /\
      apply_all (mkW a b x y (plug c L) A) es = Ok (mkW a b x y (plug c (L ++ [embed s])) A').

  Lemma replay_suites_loop : forall c a b x y subs,
    Forall suite_goal subs -> forallb suite_ok subs = true -> ctx_ok c -> forall U A,
    (forall u, In u subs -> name_taken (m_name (s_meta_of u)) U = false) ->
    distinct (map (fun u => m_name (s_meta_of u)) subs) = true ->
    exists es A', seq_all (replay_suite replay_step now th (ctx_path c)) subs = (es, None) /\
      apply_all (mkW a b x y (plug c U) A) es = Ok (mkW a b x y (plug c (U ++ map embed subs)) A').
  Proof.
    intros c a b x y. induction subs as [|u subs IH]; intros HP Hok Hc U A Hfresh Hd.
    - exists [], A. simpl. rewrite app_nil_r. auto.
    - inversion HP; subst. simpl in Hok, Hd.
      apply andb_true_iff in Hok. destruct Hok as [Hok1 Hok2].
      apply andb_true_iff in Hd. destruct Hd as [Hd1 Hd2]. apply negb_true_iff in Hd1.
      destruct (H1 Hok1 c U a b x y A Hc (Hfresh u (or_introl eq_refl))) as [es1 [A1 [R1 E1]]].
      destruct (IH H2 Hok2 Hc (U ++ [embed u]) A1) as [es2 [A2 [R2 E2]]]; auto.
      { intros u' Hu'. rewrite name_taken_app. rewrite (Hfresh u' (or_intror Hu')). simpl.
        rewrite orb_false_r. rewrite ls_name_embed.
        apply (existsb_false_in _ _ _ (m_name (s_meta_of u')) Hd1). apply in_map_iff. eauto. }
      exists (es1 ++ es2), A2. split.
      + cbn [seq_all]. rewrite R1, R2. reflexivity.
      + rewrite apply_all_app, E1. cbn [bind]. rewrite E2. rewrite <- app_assoc. reflexivity.
  Qed.

  Lemma go_seq_all : forall p subs,
    (fix go (l : list suite_result) : emit :=
       match l with [] => fire [] | x :: r => seq (replay_suite replay_step now th p x) (go r) end) subs
    = seq_all (replay_suite replay_step now th p) subs.
  Proof. induction subs; simpl; auto. rewrite IHsubs. reflexivity. Qed.

  Lemma replay_suite_ok : forall s, suite_goal s.
  Proof.
    induction s using suite_ind'. rename H into HP.
    unfold suite_goal. intros Hok c L ra rb rx ry A Hc HL. cbn [s_meta_of] in HL.
    cbn [suite_ok] in Hok. repeat (apply andb_true_iff in Hok; destruct Hok as [Hok ?]).
    rename H into Hsubs, H0 into Hdsubs, H1 into Hdtests, H2 into Htests, H3 into Htd, H4 into Hsu, H5 into Hen.
    destruct (truthy_inv _ Hok) as [t0 [Ea Et0]]. subst a.
    cbn [replay_suite]. rewrite go_seq_all.
    unfold node_path. cbn [n_parent n_meta].
    set (p := ctx_path c ++ [m_name m]).
    set (nd := mkNode (ctx_path c) m 0).
    (* 1. SuiteStart *)
    pose proof (suite_start_ok c L ra rb rx ry A m 0%Z t0 Hc HL) as E0.
    (* 2. setup *)
    destruct (replay_phase_ok (LocSuiteSetup p)
                (fun o A => mkW ra rb rx ry (plug c (L ++ [LSuite m 0 (Some t0) None o None [] []])) A)
                (ESuiteSetupStart nd) (ESuiteSetupEnd nd)) with (o := x) (A := A) as [A1 E1]; auto.
    { apply rlens_suite_setup; auto. }
    { intros. cbn [apply]. unfold node_path. cbn [n_parent n_meta nd]. rewrite on_suite_here'; auto. }
    { intros. cbn [apply]. unfold node_path. cbn [n_parent n_meta nd]. rewrite on_suite_here'; auto. }
    (* 3. tests *)
    destruct (replay_tests_ok c L ra rb rx ry m 0%Z (Some t0) None x None [] tests [] 0%Z A1) as [es2 [A2 [R2 E2]]]; auto.
    (* 4. sub-suites *)
    destruct (replay_suites_loop (c ++ [(L, LSuite m 0 (Some t0) None x None ([] ++ number_from 0 tests) [])])
                ra rb rx ry subs HP Hsubs) with (U := @nil lsuite) (A := A2) as [es3 [A3 [R3 E3]]]; auto.
    { apply ctx_ok_app; auto. }
    rewrite ctx_path_app in R3. unfold ls_name in R3. cbn [snd ls_meta] in R3. fold p in R3.
    rewrite !plug_app in E3. cbn [set_ls_subs app] in E3.
    (* 5. teardown *)
    destruct (replay_phase_ok (LocSuiteTeardown p)
                (fun o A => mkW ra rb rx ry (plug c (L ++ [LSuite m 0 (Some t0) None x o (number_from 0 tests) (map embed subs)])) A)
                (ESuiteTeardownStart nd) (ESuiteTeardownEnd nd)) with (o := y) (A := A3) as [A4 E4]; auto.
    { apply rlens_suite_teardown; auto. }
    { intros. cbn [apply]. unfold node_path. cbn [n_parent n_meta nd]. rewrite on_suite_here'; auto. }
    { intros. cbn [apply]. unfold node_path. cbn [n_parent n_meta nd]. rewrite on_suite_here'; auto. }
    (* assemble *)
    fold p in R2. rewrite R2, R3. unfold seq, fire. cbn [fst snd].
    eexists. exists A4. split; [reflexivity|].
    unfold event_time at 1. rewrite Et0. subst nd p.
    rewrite <- app_comm_cons. cbn [apply_all]. rewrite E0. cbn [bind].
    rewrite apply_all_app. rewrite E1. cbn [bind].
    rewrite apply_all_app. rewrite E2. cbn [bind]. change ([] ++ number_from 0 tests) with (number_from 0 tests).
    rewrite apply_all_app. rewrite E3. cbn [bind].
    rewrite apply_all_app. rewrite E4. cbn [bind].
    destruct (end_ok_cases now _ Hen) as [[E5 E6]|[t5 [E5 [E6 E7]]]]; rewrite E6.
    - subst e. reflexivity.
    - cbn [apply_all apply]. unfold node_path. cbn [n_parent n_meta]. rewrite on_suite_here'; auto.
      cbn [bind set_ls_end]. rewrite E7. subst e. reflexivity.
  Qed.

  (* ---------------- the report ---------------- *)
  Theorem replay_identity : forall r, replayable r = true ->
    exists es, replay_report_events now th r = (es, None) /\ aggregate es = Ok (tree r).
  Proof.
    intros r Hok. unfold replayable in Hok. repeat (apply andb_true_iff in Hok; destruct Hok as [Hok ?]).
    rename H into Hsuites, H0 into Hd, H1 into Htd, H2 into Hsu, H3 into Hen.
    destruct r as [title info st en sav nb su td suites]. cbn [rp_start rp_end rp_session_setup rp_session_teardown rp_suites] in *.
    destruct (truthy_inv _ Hok) as [t0 [Ea Et0]]. subst st.
    unfold replay_report_events, replay. cbn [rp_start rp_end rp_session_setup rp_session_teardown rp_suites].
    destruct (replay_phase_ok LocSessionSetup (fun o A => mkW (Some t0) None o None [] A) ESessionSetupStart ESessionSetupEnd)
      with (o := su) (A := @nil (tid * sref)) as [A1 E1]; auto.
    { apply rlens_session_setup. }
    destruct (replay_suites_loop [] (Some t0) None su None suites) with (U := @nil lsuite) (A := A1) as [es2 [A2 [R2 E2]]]; auto.
    { apply Forall_forall. intros. apply replay_suite_ok. }
    { constructor. }
    cbn [plug ctx_path map app] in R2, E2.
    destruct (replay_phase_ok LocSessionTeardown (fun o A => mkW (Some t0) None su o (map embed suites) A)
                ESessionTeardownStart ESessionTeardownEnd) with (o := td) (A := A2) as [A3 E3]; auto.
    { apply rlens_session_teardown. }
    rewrite R2. unfold seq, fire. cbn [fst snd].
    eexists. split; [reflexivity|].
    unfold aggregate. unfold event_time at 1. rewrite Et0.
    rewrite <- app_comm_cons. unfold init_wstate.
    cbn [apply_all apply]. cbn [bind]. unfold set_w_start.
    cbn [w_end w_setup w_teardown w_suites w_active].
    rewrite apply_all_app, E1. cbn [bind].
    rewrite apply_all_app, E2. cbn [bind].
    rewrite apply_all_app, E3. cbn [bind].
    destruct (end_ok_cases now _ Hen) as [[E5 E6]|[t5 [E5 [E6 E7]]]]; rewrite E6.
    - subst en. cbn [apply_all bind]. unfold normalize, tree. cbn [w_start w_end w_setup w_teardown w_suites w_active rp_start rp_end rp_session_setup rp_session_teardown rp_suites]. rewrite norm_embed_list. reflexivity.
    - cbn [apply_all apply bind]. unfold normalize, tree, set_w_end. cbn [w_start w_end w_setup w_teardown w_suites w_active rp_start rp_end rp_session_setup rp_session_teardown rp_suites]. rewrite norm_embed_list.
      rewrite E7. subst en. reflexivity.
  Qed.
End Identity.
