(* C03, inside one phase: "torn down exactly once ... in reverse order of setup ... what was already set up is still torn
   down" for the setup / teardown function lists of runner.py (RunContext.run_setup_funcs / run_teardown_funcs, Model/TaskSem.v).
   The observable is the sequence of pieces of user code entered by the worker thread (atoms AtBegin, compared with the
   implementation's trace for every task of every co-simulated run by Model/TaskSemEq.v). *)
From Coq Require Import List Arith Bool Lia.
Import ListNotations.
From LCC Require Import Base.Util Model.Proj Model.TaskSem.

(* ---------------- the observable: user code entered by the worker thread, in order ---------------- *)
Definition begin_of (a : atom) : list owner := match a with AtBegin o => [o] | _ => [] end.
Definition begins (l : list atom) : list owner := flat_map begin_of l.
Definition rbegins (r : rstate) : list owner := begins (ts_out (rs_t r)).

(* the user code a setup / teardown function enters (a plain, non-generator fixture has no teardown code; inject_fixtures
   runs no user code) *)
Definition sf_owner (f : sfun) : owner :=
  match f with
  | SFixture fx => OFxSetup (fx_name fx)
  | SInject => OFxSetup 0
  | SSetupSuite p _ => OSetupSuite p
  | SSetupTest p _ => OSetupTest p
  end.
Definition sf_owners (f : option sfun) : list owner :=
  match f with Some SInject => [] | Some f => [sf_owner f] | None => [] end.
Definition tf_owners (f : option tfun) : list owner :=
  match f with
  | Some (TFixture fx) => if fx_generator fx then [OFxTeardown (fx_name fx)] else []
  | Some (TTeardownSuite p _) => [OTeardownSuite p]
  | Some (TTeardownTest p _) => [OTeardownTest p]
  | None => []
  end.
Definition setups_of (pairs : list pair) : list owner := flat_map (fun p => sf_owners (fst p)) pairs.
Definition teardowns_of (kept : list (option tfun)) : list owner := flat_map tf_owners kept.

(* ---------------- the worker's primitives enter no user code ---------------- *)
Lemma begins_app : forall a b, begins (a ++ b) = begins a ++ begins b.
Proof. intros a b; unfold begins; apply flat_map_app. Qed.
Lemma begins_fires : forall l, begins (map AtFire l) = [].
Proof. induction l as [|e l IH]; simpl; auto. Qed.

Definition nb (s : tstate) : list owner := begins (ts_out s).

Lemma nb_emit : forall a s, nb (emit a s) = nb s ++ begin_of a.
Proof. intros a s; unfold nb, emit; simpl; rewrite begins_app; simpl; rewrite app_nil_r; reflexivity. Qed.
Lemma nb_emit_other : forall a s, begin_of a = [] -> nb (emit a s) = nb s.
Proof. intros a s H; rewrite nb_emit, H; apply app_nil_r. Qed.
Lemma nb_fire : forall e s, nb (fire e s) = nb s.
Proof. intros e s; unfold fire; rewrite nb_emit; simpl; apply app_nil_r. Qed.
Lemma nb_hold : forall e s, nb (hold e s) = nb s.
Proof. reflexivity. Qed.
Lemma nb_flush : forall s, nb (flush s) = nb s.
Proof. intros s; unfold nb, flush; simpl; rewrite begins_app, begins_fires; apply app_nil_r. Qed.
Lemma nb_set_step_field : forall d s, nb (set_step_field d s) = nb s.
Proof. reflexivity. Qed.
Lemma nb_discard_or_fire : forall c e s, nb (discard_or_fire c e s) = nb s.
Proof.
  intros c e s; unfold discard_or_fire.
  destruct (rev (ts_pending s)) as [|l b]; [apply nb_fire|].
  destruct (c l); [reflexivity|apply nb_fire].
Qed.
Lemma nb_end_step : forall th s, nb (end_step th s) = nb s.
Proof. intros; unfold end_step; rewrite nb_set_step_field; apply nb_discard_or_fire. Qed.
Lemma nb_end_step_if_any : forall th s, nb (end_step_if_any th s) = nb s.
Proof. intros th s; unfold end_step_if_any; destruct (ts_step s); [apply nb_end_step|reflexivity]. Qed.
Lemma nb_set_step : forall d th s, nb (set_step d th s) = nb s.
Proof. intros; unfold set_step; rewrite nb_hold, nb_set_step_field; apply nb_end_step_if_any. Qed.
Lemma nb_mark_failed : forall s, nb (mark_failed s) = nb s.
Proof. intros; unfold mark_failed; rewrite nb_emit; apply app_nil_r. Qed.
Lemma nb_do_log : forall th lvl m s, nb (fst (do_log th lvl m s)) = nb s.
Proof.
  intros; unfold do_log; simpl; rewrite nb_fire.
  destruct (Nat.eqb lvl 3); [rewrite nb_mark_failed|]; apply nb_flush.
Qed.
Lemma nb_do_check : forall th ok m s, nb (fst (do_check th ok m s)) = nb s.
Proof.
  intros; unfold do_check; simpl; rewrite nb_fire.
  destruct ok; [|rewrite nb_mark_failed]; apply nb_flush.
Qed.
Lemma nb_do_url : forall th m s, nb (do_url th m s) = nb s.
Proof. intros; unfold do_url; rewrite nb_fire; apply nb_flush. Qed.
Lemma nb_do_attach : forall th m s, nb (do_attach th m s) = nb s.
Proof. intros; unfold do_attach; rewrite nb_fire; apply nb_flush. Qed.
Lemma nb_spawn_creator : forall s, nb (spawn_creator s) = nb s.
Proof.
  intros s; unfold spawn_creator; destruct (ts_pending s) as [|e r]; [reflexivity|].
  destruct (is_step_start e); [reflexivity|].
  unfold nb; simpl; rewrite begins_app; simpl; apply app_nil_r.
Qed.
Lemma nb_join_all : forall l s, nb (join_all l s) = nb s.
Proof.
  induction l as [|c l IH]; intros s; [reflexivity|].
  unfold join_all in *; simpl; rewrite IH, nb_emit; apply app_nil_r.
Qed.
Lemma nb_handle_exception : forall k suite s, nb (handle_exception k suite s) = nb s.
Proof.
  intros k suite s; destruct k; unfold handle_exception; try apply nb_do_log.
  - destruct suite; [rewrite nb_emit_other by reflexivity|]; apply nb_do_log.
  - rewrite nb_emit_other by reflexivity; apply nb_do_log.
Qed.

(* one action of a script, whatever it is (also the start of a user thread: the child's atoms go to its own list) *)
Lemma nb_step_action : forall o env tp a x, nb (sr_state (step_action o env tp a x)) = nb (sr_state x).
Proof.
  intros o env tp a x; destruct a as [lvl n|ok n|n|n|n|id|f|body| |k]; simpl; destruct (sr_raised x); try reflexivity; simpl.
  - exact (nb_do_log tp lvl (MUser o tp n) (sr_state x)).
  - exact (nb_do_check tp ok (MUser o tp n) (sr_state x)).
  - apply nb_do_url.
  - apply nb_do_attach.
  - apply nb_set_step.
  - apply nb_emit_other; reflexivity.
  - apply nb_emit_other; reflexivity.
  - rewrite nb_emit_other by reflexivity; apply nb_spawn_creator.
  - apply nb_join_all.
  - apply nb_emit_other; reflexivity.
Qed.

Lemma nb_fold_actions : forall o env tp sc x,
  nb (sr_state (fold_left (fun y a => step_action o env tp a y) sc x)) = nb (sr_state x).
Proof.
  intros o env tp sc; induction sc as [|a sc IH]; intros x; [reflexivity|].
  simpl; rewrite IH; apply nb_step_action.
Qed.
Lemma nb_interp : forall o env tp sc x, nb (sr_state (interp o tp env sc x)) = nb (sr_state x).
Proof. intros; unfold interp, close_script; simpl; rewrite nb_join_all; apply nb_fold_actions. Qed.

(* a piece of user code is entered exactly once by run_script, whatever it does (return, raise, threads) *)
Lemma nb_run_script : forall o env sc s failed children,
  nb (sr_state (run_script o env sc s failed children)) = nb s ++ [o].
Proof.
  intros o env sc s failed children; unfold run_script.
  pose proof (nb_interp o env [] sc (mkSres (emit (AtBegin o) s) failed children None [] 0)) as H.
  simpl in H; rewrite nb_emit in H; simpl in H.
  destruct (sr_raised (interp o [] env sc (mkSres (emit (AtBegin o) s) failed children None [] 0))); simpl.
  - exact H.
  - rewrite nb_emit, H; simpl; apply app_nil_r.
Qed.

Lemma rbegins_call_tfun : forall env f r, rbegins (fst (call_tfun env f r)) = rbegins r ++ tf_owners (Some f).
Proof.
  intros env f r; unfold rbegins; destruct f as [fx|p sc|p sc]; simpl.
  - destruct (fx_generator fx); simpl; [apply nb_run_script|symmetry; apply app_nil_r].
  - apply nb_run_script.
  - fold (nb (sr_state (run_script (OTeardownTest p) env sc (emit (AtStatus (negb (rs_failed r))) (rs_t r)) (rs_failed r) (rs_children r)))).
    rewrite nb_run_script, nb_emit; simpl; rewrite app_nil_r; reflexivity.
Qed.
Lemma rbegins_call_sfun : forall env f r, rbegins (fst (call_sfun env f r)) = rbegins r ++ sf_owners (Some f).
Proof.
  intros env f r; unfold rbegins; destruct f as [fx| |p sc|p sc]; simpl;
    try apply nb_run_script; symmetry; apply app_nil_r.
Qed.
Lemma rbegins_after_exception : forall k suite r, rbegins (after_exception k suite r) = rbegins r.
Proof.
  intros k suite r; unfold after_exception, rbegins; destruct (is_exception k); simpl; [apply nb_handle_exception|reflexivity].
Qed.
Lemma died_call_tfun : forall env f r, rs_died (fst (call_tfun env f r)) = false \/ fst (call_tfun env f r) = r.
Proof.
  intros env f r; destruct f as [fx|p sc|p sc]; simpl; auto.
  destruct (fx_generator fx); simpl; auto.
Qed.

(* ---------------- the teardown loop ---------------- *)
(* run_teardown_list enters the teardown code of the list it is given, in the order of that list, each once; it only
   stops early when a BaseException that is not an Exception escaped (the worker thread dies) *)
Lemma teardown_list_order : forall env suite l r,
  exists done rest, teardowns_of l = done ++ rest /\
    rbegins (run_teardown_list env suite l r) = rbegins r ++ done /\
    (rs_died (run_teardown_list env suite l r) = false -> rest = []).
Proof.
  intros env suite l; induction l as [|f l IH]; intros r.
  - exists [], []; simpl; rewrite app_nil_r; auto.
  - destruct f as [f|]; simpl.
    + destruct (rs_died r) eqn:D.
      * exists [], (tf_owners (Some f) ++ teardowns_of l); simpl; rewrite app_nil_r; repeat split; auto.
        intros H; rewrite H in D; discriminate.
      * pose proof (rbegins_call_tfun env f r) as B.
        destruct (call_tfun env f r) as [r1 [k|]]; simpl in B.
        -- destruct (IH (after_exception k suite r1)) as [done [rest [E [Bg Dd]]]].
           exists (tf_owners (Some f) ++ done), rest; repeat split.
           ++ rewrite <- app_assoc, <- E; reflexivity.
           ++ rewrite Bg, rbegins_after_exception, B, app_assoc; reflexivity.
           ++ exact Dd.
        -- destruct (IH r1) as [done [rest [E [Bg Dd]]]].
           exists (tf_owners (Some f) ++ done), rest; repeat split.
           ++ rewrite <- app_assoc, <- E; reflexivity.
           ++ rewrite Bg, B, app_assoc; reflexivity.
           ++ exact Dd.
    + apply IH.
Qed.

Lemma teardowns_of_rev : forall kept, teardowns_of (rev kept) = rev (teardowns_of kept).
Proof.
  induction kept as [|f kept IH]; [reflexivity|].
  simpl; unfold teardowns_of in *; rewrite flat_map_app, IH; simpl; rewrite app_nil_r, rev_app_distr.
  destruct f as [[fx|p sc|p sc]|]; simpl; try reflexivity.
  destruct (fx_generator fx); reflexivity.
Qed.

(* run_teardown_funcs: the teardown code of what the setup kept is entered in REVERSE order of [kept], each function once;
   all of it unless the worker thread died *)
Theorem teardown_funcs_reverse_order : forall env suite kept r,
  exists done rest, rev (teardowns_of kept) = done ++ rest /\
    rbegins (run_teardown_funcs env suite kept r) = rbegins r ++ done /\
    (rs_died (run_teardown_funcs env suite kept r) = false -> rest = []).
Proof.
  intros env suite kept r; unfold run_teardown_funcs.
  rewrite <- teardowns_of_rev; apply teardown_list_order.
Qed.

Corollary teardown_funcs_all_in_reverse : forall env suite kept r,
  rs_died (run_teardown_funcs env suite kept r) = false ->
  rbegins (run_teardown_funcs env suite kept r) = rbegins r ++ rev (teardowns_of kept).
Proof.
  intros env suite kept r D.
  destruct (teardown_funcs_reverse_order env suite kept r) as [done [rest [E [B Dd]]]].
  rewrite (Dd D), app_nil_r in E; rewrite B, E; reflexivity.
Qed.

(* an Exception raised by a teardown does not stop the loop: only a BaseException does *)
Lemma teardown_list_survives_exceptions : forall env suite l r,
  rs_died r = false ->
  (forall f r0, In (Some f) l -> match snd (call_tfun env f r0) with Some k => is_exception k = true | None => True end) ->
  rs_died (run_teardown_list env suite l r) = false.
Proof.
  intros env suite l; induction l as [|f l IH]; intros r D H; [exact D|].
  destruct f as [f|]; simpl.
  - rewrite D.
    pose proof (H f r (or_introl eq_refl)) as Hf.
    pose proof (died_call_tfun env f r) as Dc.
    destruct (call_tfun env f r) as [r1 [k|]]; simpl in *.
    + apply IH; [|intros; apply H; auto].
      unfold after_exception; rewrite Hf; reflexivity.
    + apply IH; [|intros; apply H; auto].
      destruct Dc as [Dc|Dc]; [exact Dc|subst; exact D].
  - apply IH; [exact D|intros; apply H; right; assumption].
Qed.

(* ---------------- the setup loop ---------------- *)
Definition sound_state (r : rstate) : Prop := rs_failed r = false /\ rs_died r = false.

(* run_setup_funcs walks [pairs] in order; it keeps the teardown of exactly the pairs whose setup completed with nothing
   failed (a maximal prefix [done]), enters the setup code of [done] and of the first pair that did not (if any), and nothing
   else; if it stopped early the location is failed or the thread died *)
Lemma setup_funcs_prefix : forall env suite pairs r kept0 r1 kept,
  run_setup_funcs env suite pairs r kept0 = (r1, kept) -> sound_state r ->
  exists done rest, pairs = done ++ rest /\ kept = kept0 ++ map snd done /\
    (rest = [] -> sound_state r1 /\ rbegins r1 = rbegins r ++ setups_of done) /\
    (forall q rest', rest = q :: rest' ->
        (rs_failed r1 = true \/ rs_died r1 = true) /\ rbegins r1 = rbegins r ++ setups_of done ++ sf_owners (fst q)).
Proof.
  intros env suite pairs; induction pairs as [|[sf td] pairs IH]; intros r kept0 r1 kept H S.
  - simpl in H; inversion H; subst; exists [], []; simpl; rewrite !app_nil_r.
    split; [reflexivity|]. split; [reflexivity|]. split.
    + intros _; split; [exact S|reflexivity].
    + intros q rest' E; discriminate.
  - simpl in H; destruct sf as [f|].
    + pose proof (rbegins_call_sfun env f r) as B.
      destruct (call_sfun env f r) as [r2 [k|]] eqn:C; simpl in B.
      * inversion H; subst; exists [], ((Some f, td) :: pairs); simpl; rewrite app_nil_r.
        split; [reflexivity|]. split; [reflexivity|]. split; [intros E; discriminate|].
        intros q rest' E; inversion E; subst; split.
        -- unfold after_exception; destruct (is_exception k); simpl; auto.
        -- rewrite rbegins_after_exception, B; reflexivity.
      * destruct (rs_failed r2) eqn:F.
        -- inversion H; subst; exists [], ((Some f, td) :: pairs); simpl; rewrite app_nil_r.
           split; [reflexivity|]. split; [reflexivity|]. split; [intros E; discriminate|].
           intros q rest' E; inversion E; subst; split; [left; exact F|exact B].
        -- assert (S2 : sound_state r2).
           { split; [exact F|]. destruct f; simpl in C; inversion C; subst; simpl; auto. apply S. }
           destruct (IH r2 (kept0 ++ [td]) r1 kept H S2) as [done [rest [E [K [A1 A2]]]]].
           exists ((Some f, td) :: done), rest.
           split; [simpl; rewrite E; reflexivity|].
           split; [rewrite K, <- app_assoc; reflexivity|]. split.
           ++ intros Er; destruct (A1 Er) as [A A']; split; [exact A|].
              rewrite A', B; unfold setups_of; simpl; rewrite <- !app_assoc; reflexivity.
           ++ intros q rest' Er; destruct (A2 q rest' Er) as [A A']; split; [exact A|].
              rewrite A', B; unfold setups_of; simpl; rewrite <- !app_assoc; reflexivity.
    + destruct (IH r (kept0 ++ [td]) r1 kept H S) as [done [rest [E [K [A1 A2]]]]].
      exists ((None, td) :: done), rest.
      split; [simpl; rewrite E; reflexivity|].
      split; [rewrite K, <- app_assoc; reflexivity|]. split.
      * intros Er; exact (A1 Er).
      * intros q rest' Er; exact (A2 q rest' Er).
Qed.

(* ---------------- composition: setups then teardowns ---------------- *)
(* Whatever the setups and teardowns do: the teardown functions later run are those of the maximal prefix [done] of pairs
   whose setup completed without recording a failure, each exactly once, in reverse order of setup; the pair whose setup
   failed and every pair after it is not torn down; what was set up before the failure still is. [r'] is any state of the
   location at the time the teardowns start (consumers passed, failed, were skipped: nothing is assumed of it). *)
Theorem setups_then_teardowns : forall env suite suite' pairs r r1 kept r',
  run_setup_funcs env suite pairs r [] = (r1, kept) -> sound_state r ->
  rs_died (run_teardown_funcs env suite' kept r') = false ->
  exists done rest, pairs = done ++ rest /\ kept = map snd done /\
    rbegins (run_teardown_funcs env suite' kept r') = rbegins r' ++ rev (teardowns_of (map snd done)) /\
    (rest = [] -> sound_state r1) /\
    (rest <> [] -> rs_failed r1 = true \/ rs_died r1 = true).
Proof.
  intros env suite suite' pairs r r1 kept r' H S D.
  destruct (setup_funcs_prefix env suite pairs r [] r1 kept H S) as [done [rest [E [K [A1 A2]]]]].
  simpl in K; exists done, rest.
  split; [exact E|]. split; [exact K|]. split; [|split].
  - rewrite (teardown_funcs_all_in_reverse env suite' kept r' D), K; reflexivity.
  - intros Er; exact (proj1 (A1 Er)).
  - intros Hr; destruct rest as [|q rest']; [contradiction Hr; reflexivity|].
    exact (proj1 (A2 q rest' eq_refl)).
Qed.

(* ---------------- sensitivity: the order is the reverse one, not the setup order ---------------- *)
Definition two_fixtures : list pair :=
  fixture_pairs [mkFixture 1 ScSuite [] false false true [] []; mkFixture 2 ScSuite [] false false true [] []].
Definition r_init : rstate := mkRs (fresh_cursor LSessionSetup []) false [] false.

Lemma forward_order_refuted :
  let '(r1, kept) := run_setup_funcs (fun _ => IGlobal) None two_fixtures r_init [] in
  rbegins r1 = [OFxSetup 1; OFxSetup 2] /\
  rbegins (run_teardown_funcs (fun _ => IGlobal) None kept r_init) = [OFxTeardown 2; OFxTeardown 1] /\
  rbegins (run_teardown_funcs (fun _ => IGlobal) None kept r_init) <> teardowns_of kept.
Proof. vm_compute; repeat split; discriminate. Qed.

(* a failing second setup: the first fixture is still torn down, the second and third are not *)
Definition three_fixtures_second_fails : list pair :=
  fixture_pairs [mkFixture 1 ScSuite [] false false true [] [];
                 mkFixture 2 ScSuite [] false false true [ARaise ExcException] [];
                 mkFixture 3 ScSuite [] false false true [] []].
Lemma failing_setup_witness :
  let '(r1, kept) := run_setup_funcs (fun _ => IGlobal) None three_fixtures_second_fails r_init [] in
  rbegins r1 = [OFxSetup 1; OFxSetup 2] /\ rs_failed r1 = true /\
  rbegins (run_teardown_funcs (fun _ => IGlobal) None kept r_init) = [OFxTeardown 1].
Proof. vm_compute; repeat split. Qed.

(* ================================================================ a recorded failure is never forgotten *)
Lemma failed_step_action : forall o env tp a x, sr_failed x = true -> sr_failed (step_action o env tp a x) = true.
Proof.
  intros o env tp a x F; destruct a as [lvl n|ok n|n|n|n|id|f|body| |k]; simpl; destruct (sr_raised x); try exact F; simpl;
    try (rewrite F; reflexivity); try exact F.
Qed.
Lemma failed_fold_actions : forall o env tp sc x, sr_failed x = true ->
  sr_failed (fold_left (fun y a => step_action o env tp a y) sc x) = true.
Proof.
  intros o env tp sc; induction sc as [|a sc IH]; intros x F; [exact F|].
  simpl; apply IH; apply failed_step_action; exact F.
Qed.
Lemma failed_run_script : forall o env sc s children, sr_failed (run_script o env sc s true children) = true.
Proof.
  intros o env sc s children; unfold run_script.
  assert (H : sr_failed (interp o [] env sc (mkSres (emit (AtBegin o) s) true children None [] 0)) = true).
  { unfold interp, close_script; simpl; apply failed_fold_actions; reflexivity. }
  destruct (sr_raised (interp o [] env sc (mkSres (emit (AtBegin o) s) true children None [] 0))); simpl; exact H.
Qed.
Lemma failed_call_tfun : forall env f r, rs_failed r = true -> rs_failed (fst (call_tfun env f r)) = true.
Proof.
  intros env f r F; destruct f as [fx|p sc|p sc]; simpl; rewrite ?F.
  - destruct (fx_generator fx); simpl; [apply failed_run_script|exact F].
  - apply failed_run_script.
  - apply failed_run_script.
Qed.
Lemma failed_after_exception : forall k suite r, rs_failed r = true -> rs_failed (after_exception k suite r) = true.
Proof. intros k suite r F; unfold after_exception; destruct (is_exception k); simpl; [reflexivity|exact F]. Qed.
Lemma failed_teardown_list : forall env suite l r, rs_failed r = true -> rs_failed (run_teardown_list env suite l r) = true.
Proof.
  intros env suite l; induction l as [|f l IH]; intros r F; [exact F|].
  destruct f as [f|]; simpl; [|apply IH; exact F].
  destruct (rs_died r); [exact F|].
  pose proof (failed_call_tfun env f r F) as Fc.
  destruct (call_tfun env f r) as [r1 [k|]]; simpl in Fc; apply IH; [apply failed_after_exception|]; exact Fc.
Qed.


(* ================================================================ a whole test task *)
(* TestTask.run: setup_test, then the test-scoped fixtures, then the body — only if every setup completed without a
   failure —, then the teardowns of what was set up, in reverse: the fixtures last set up first, teardown_test last. *)
Definition test_pairs (p : path) (hk : hooks) (fxs : list fixture) : list pair :=
  (match h_setup_test hk with Some sc => Some (SSetupTest p sc) | None => None end,
   match h_teardown_test hk with Some sc => Some (TTeardownTest p sc) | None => None end) :: fixture_pairs fxs.

Lemma teardowns_of_only : forall pairs, teardowns_of (only_teardowns pairs) = teardowns_of (map snd pairs).
Proof.
  intros pairs; unfold only_teardowns; induction (map snd pairs) as [|f l IH]; [reflexivity|].
  simpl; destruct f as [f|]; simpl; [unfold teardowns_of in *; simpl; rewrite IH; reflexivity|exact IH].
Qed.

Lemma teardowns_of_none : forall kept, any_teardown kept = false -> teardowns_of kept = [].
Proof.
  induction kept as [|f kept IH]; [reflexivity|]; simpl; destruct f as [f|]; [discriminate|exact IH].
Qed.

Lemma finish_died : forall r kept, to_res (finish r kept) <> TkDied -> rs_died r = false.
Proof. intros r kept; unfold finish; simpl; destruct (rs_died r); [intros H; contradiction H; reflexivity|reflexivity]. Qed.

Theorem test_run_user_code_order : forall env p suite t hk fxs,
  to_res (test_run env p suite t hk fxs) <> TkDied ->
  exists done rest, test_pairs p hk fxs = done ++ rest /\
    begins (to_main (test_run env p suite t hk fxs)) =
      setups_of done ++ (match rest with q :: _ => sf_owners (fst q) | [] => [OBody p] end) ++
      rev (teardowns_of (map snd done)) /\
    (to_res (test_run env p suite t hk fxs) = TkSuccess -> rest = []).
Proof.
  intros env p suite t hk fxs; unfold test_run; fold (test_pairs p hk fxs).
  set (pairs := test_pairs p hk fxs).
  set (s1 := set_step SdSetupTest [] (fresh_cursor (LTest p) [AtFire (RTestStart p)])).
  assert (B1 : rbegins (mkRs s1 false [] false) = []).
  { change (nb s1 = []); unfold s1; rewrite nb_set_step; reflexivity. }
  assert (S1 : sound_state (mkRs s1 false [] false)) by (split; reflexivity).
  (* the setups *)
  assert (SETUP : forall r1 kept,
            (if any_setup pairs then run_setup_funcs env (Some suite) pairs (mkRs s1 false [] false) []
             else (mkRs s1 false [] false, only_teardowns pairs)) = (r1, kept) ->
            exists done rest, pairs = done ++ rest /\ teardowns_of kept = teardowns_of (map snd done) /\
              (rest = [] -> sound_state r1 /\ rbegins r1 = setups_of done) /\
              (forall q rest', rest = q :: rest' -> (rs_failed r1 = true \/ rs_died r1 = true) /\
                                                   rbegins r1 = setups_of done ++ sf_owners (fst q))).
  { intros r1 kept H; destruct (any_setup pairs) eqn:A.
    - destruct (setup_funcs_prefix env (Some suite) pairs _ [] r1 kept H S1) as [done [rest [E [K [A1 A2]]]]].
      exists done, rest; rewrite B1 in *; simpl in *; subst kept; repeat split; auto.
      + apply A1; assumption.
      + apply A1; assumption.
      + apply A1; assumption.
      + apply (A2 q rest'); assumption.
      + apply (A2 q rest'); assumption.
    - inversion H; subst; exists pairs, []; rewrite app_nil_r; split; [reflexivity|]; split; [apply teardowns_of_only|]; split.
      + intros _; split; [exact S1|]. rewrite B1.
        clear - A. unfold setups_of. induction pairs as [|[sf td] l IH]; [reflexivity|].
        simpl in A. destruct sf as [f|]; [discriminate|]. simpl. apply IH; exact A.
      + intros q rest' E; discriminate. }
  destruct (if any_setup pairs then run_setup_funcs env (Some suite) pairs (mkRs s1 false [] false) []
            else (mkRs s1 false [] false, only_teardowns pairs)) as [r1 kept] eqn:RS.
  destruct (SETUP r1 kept eq_refl) as [done [rest [E [K [A1 A2]]]]]; clear SETUP.
  destruct (rs_died r1) eqn:D1; [intros H; apply finish_died in H; congruence|].
  (* the body *)
  set (r2 := if rs_failed r1 then r1 else _).
  assert (B2 : rbegins r2 = setups_of done ++ match rest with q :: _ => sf_owners (fst q) | [] => [OBody p] end /\
               (rest = [] \/ rs_failed r1 = true)).
  { destruct rest as [|q rest'].
    - destruct (A1 eq_refl) as [[F _] Bg]. unfold r2; rewrite F.
      split; [|left; reflexivity].
      set (x := run_script (OBody p) env (tt_body t) (set_step (SdTest (tt_name t)) [] (rs_t r1)) false (rs_children r1)).
      assert (Bx : nb (sr_state x) = setups_of done ++ [OBody p]).
      { unfold x; rewrite nb_run_script, nb_set_step; change (nb (rs_t r1)) with (rbegins r1); rewrite Bg; reflexivity. }
      destruct (sr_raised x); [rewrite rbegins_after_exception|]; exact Bx.
    - destruct (A2 q rest' eq_refl) as [[F|F] Bg]; [|congruence].
      unfold r2; rewrite F; split; [exact Bg|right; reflexivity]. }
  destruct B2 as [B2 FR].
  assert (F2 : rest <> [] -> rs_failed r2 = true).
  { intros Hr; destruct FR as [FR|FR]; [contradiction|]. unfold r2; rewrite FR; exact FR. }
  destruct (rs_died r2) eqn:D2; [intros H; apply finish_died in H; congruence|].
  (* the teardowns *)
  set (r3 := if any_teardown kept then _ else r2).
  intros H.
  assert (D3 : rs_died r3 = false).
  { destruct (rs_died r3) eqn:D3; [apply finish_died in H; congruence|reflexivity]. }
  rewrite D3 in H |- *.
  exists done, rest; split; [exact E|]. split; [|
    intros R; destruct rest as [|q rest']; [reflexivity|exfalso];
    assert (F3 : rs_failed r3 = true) by
      (unfold r3; destruct (any_teardown kept); [apply failed_teardown_list; apply F2; discriminate|apply F2; discriminate]);
    unfold finish in R; cbn [to_res rs_died rs_failed] in R; rewrite F3 in R; discriminate].
  transitivity (nb (fire (RTestEnd p) (end_step_if_any [] (rs_t r3)))); [reflexivity|].
  rewrite nb_fire, nb_end_step_if_any. change (nb (rs_t r3)) with (rbegins r3).
  assert (B3 : rbegins r3 = rbegins r2 ++ rev (teardowns_of kept)).
  { unfold r3 in *; destruct (any_teardown kept) eqn:AT.
    - rewrite (teardown_funcs_all_in_reverse _ _ _ _ D3). f_equal.
      exact (nb_set_step SdTeardownTest [] (rs_t r2)).
    - rewrite (teardowns_of_none kept AT); simpl; rewrite app_nil_r; reflexivity. }
  rewrite B3, B2, K, <- app_assoc; reflexivity.
Qed.

(* witness: setup_test, two generator fixtures, body, then teardowns 2, 1, teardown_test *)
Lemma test_run_order_witness :
  let hk := mkHooks None None (Some []) (Some []) in
  let fxs := [mkFixture 1 ScTest [] false false true [] []; mkFixture 2 ScTest [] false false true [] []] in
  begins (to_main (test_run (fun _ => IGlobal) [5; 7] [5] (mkTest 7 false [] [] [] []) hk fxs)) =
  [OSetupTest [5; 7]; OFxSetup 1; OFxSetup 2; OBody [5; 7]; OFxTeardown 2; OFxTeardown 1; OTeardownTest [5; 7]].
Proof. vm_compute. reflexivity. Qed.

(* ================================================================ the suite / session phases: two tasks *)
(* A setup task (session setup, suite setup) keeps the teardowns of the pairs it set up; the matching teardown task, run
   after every consumer whatever their outcome (C03_setup_before_consumers_teardown_after), receives them. *)
Lemma teardown_phase_order : forall env l st en isst d kept,
  to_res (teardown_phase env l st en isst d kept) <> TkDied ->
  begins (to_main (teardown_phase env l st en isst d kept)) = rev (teardowns_of kept).
Proof.
  intros env' l' st' en' isst' d' kept; unfold teardown_phase; destruct (any_teardown kept) eqn:AT.
  - set (s0 := set_step d' [] (hold st' (fresh_cursor l' []))).
    destruct (rs_died (run_teardown_funcs env' None kept (mkRs s0 false [] false))) eqn:D; [intros H; apply finish_died in H; congruence|].
    intros _. cbn [to_main].
    transitivity (nb (discard_or_fire isst' en' (end_step_if_any [] (rs_t (run_teardown_funcs env' None kept (mkRs s0 false [] false))))));
      [reflexivity|].
    rewrite nb_discard_or_fire, nb_end_step_if_any.
    change (nb (rs_t ?r)) with (rbegins r).
    rewrite (teardown_funcs_all_in_reverse _ _ _ _ D).
    change (rbegins (mkRs s0 false [] false)) with (nb s0). unfold s0; rewrite nb_set_step, nb_hold; reflexivity.
  - intros _; rewrite (teardowns_of_none kept AT); reflexivity.
Qed.

Lemma setup_phase_order : forall env l st en isst d pairs,
  to_res (setup_phase env l st en isst d pairs) <> TkDied ->
  exists done rest, pairs = done ++ rest /\
    begins (to_main (setup_phase env l st en isst d pairs)) =
      setups_of done ++ (match rest with q :: _ => sf_owners (fst q) | [] => [] end) /\
    teardowns_of (to_kept (setup_phase env l st en isst d pairs)) = teardowns_of (map snd done) /\
    (rest = [] <-> to_res (setup_phase env l st en isst d pairs) = TkSuccess).
Proof.
  intros env l st en isst d pairs; unfold setup_phase. destruct (any_setup pairs) eqn:A.
  - set (s0 := set_step d [] (hold st (fresh_cursor l []))).
    assert (B0 : rbegins (mkRs s0 false [] false) = []).
    { change (nb s0 = []); unfold s0; rewrite nb_set_step, nb_hold; reflexivity. }
    destruct (run_setup_funcs env None pairs (mkRs s0 false [] false) []) as [r kept] eqn:RS.
    destruct (setup_funcs_prefix env None pairs _ [] r kept RS (conj eq_refl eq_refl)) as [done [rest [E [K [A1 A2]]]]].
    simpl in K; rewrite B0 in A1, A2; simpl in A1, A2.
    destruct (rs_died r) eqn:D; [intros H; apply finish_died in H; congruence|].
    intros _. exists done, rest; split; [exact E|]. cbn [to_kept finish].
    split; [|split].
    + transitivity (nb (discard_or_fire isst en (end_step_if_any [] (rs_t r)))); [reflexivity|].
      rewrite nb_discard_or_fire, nb_end_step_if_any. change (nb (rs_t r)) with (rbegins r).
      destruct rest as [|q rest']; [rewrite app_nil_r; apply A1; reflexivity|apply (A2 q rest'); reflexivity].
    + rewrite K; reflexivity.
    + cbn [to_res rs_died rs_failed]. split.
      * intros Er; destruct (A1 Er) as [[F _] _]; rewrite F; reflexivity.
      * intros R; destruct rest as [|q rest']; [reflexivity|].
        destruct (A2 q rest' eq_refl) as [[F|F] _]; [rewrite F in R; discriminate|congruence].
  - intros _. exists pairs, []; rewrite app_nil_r; split; [reflexivity|]. cbn [to_kept to_main to_res].
    split; [|split].
    + clear - A. unfold setups_of. induction pairs as [|[sf td] l0 IH]; [reflexivity|].
      simpl in A. destruct sf as [f|]; [discriminate|]. simpl. apply IH; exact A.
    + apply teardowns_of_only.
    + split; reflexivity.
Qed.

Theorem setup_phase_then_teardown_phase : forall env env' l l' st en isst d st' en' isst' d' pairs,
  to_res (setup_phase env l st en isst d pairs) <> TkDied ->
  to_res (teardown_phase env' l' st' en' isst' d' (to_kept (setup_phase env l st en isst d pairs))) <> TkDied ->
  exists done rest, pairs = done ++ rest /\
    begins (to_main (setup_phase env l st en isst d pairs)) =
      setups_of done ++ (match rest with q :: _ => sf_owners (fst q) | [] => [] end) /\
    begins (to_main (teardown_phase env' l' st' en' isst' d' (to_kept (setup_phase env l st en isst d pairs)))) =
      rev (teardowns_of (map snd done)) /\
    (rest = [] <-> to_res (setup_phase env l st en isst d pairs) = TkSuccess).
Proof.
  intros env env' l l' st en isst d st' en' isst' d' pairs H1 H2.
  destruct (setup_phase_order env l st en isst d pairs H1) as [done [rest [E [B [K R]]]]].
  exists done, rest; split; [exact E|split; [exact B|split; [|exact R]]].
  rewrite (teardown_phase_order _ _ _ _ _ _ _ H2), K; reflexivity.
Qed.


(* the teardowns never clear a failure: what the setups or the body recorded is still recorded after them *)
Theorem teardowns_never_clear_a_failure : forall env suite kept r,
  rs_failed r = true -> rs_failed (run_teardown_funcs env suite kept r) = true.
Proof. intros env suite kept r F; unfold run_teardown_funcs; apply failed_teardown_list; exact F. Qed.
