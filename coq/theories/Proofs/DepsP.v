(* Proofs about Model/Deps.v: termination (fuel) of _resolve_test_dependencies, meaning of its errors, what Ok implies. *)
From Coq Require Import List Arith Bool Lia Relations.
Import ListNotations.
From LCC Require Import Model.Proj Model.Fixture Model.Deps Proofs.FixtureP.

(* ================================================================ specification vocabulary *)
Definition test_table := path -> option test.
(* test a depends directly on test b (a is looked up among all the loaded tests) *)
Definition DepEdge (all : test_table) (a b : path) : Prop := exists t, all a = Some t /\ In b (tt_deps t).

(* the test a path denotes in a forest: the last one with that path (paths are unique in a loaded project) *)
Fixpoint find_last {V} (l : list (path * V)) (k : path) : option V :=
  match l with
  | [] => None
  | (k', v) :: r => match find_last r k with
                    | Some w => Some w
                    | None => if path_eqb k k' then Some v else None
                    end
  end.
Definition find_test (forest : list suite) : test_table :=
  find_last (map (fun x => (fst (fst x), snd x)) (all_tests_with_path forest)).

(* ================================================================ paths and dicts *)
Lemma path_eqb_eq : forall a b, path_eqb a b = true <-> a = b.
Proof.
  unfold path_eqb. induction a as [|x a IH]; intros [|y b]; simpl; split; intros H; try reflexivity; try discriminate.
  - apply andb_true_iff in H. destruct H as [H1 H2]. apply Nat.eqb_eq in H1. apply IH in H2. subst. reflexivity.
  - inversion H. subst. apply andb_true_iff. split; [apply Nat.eqb_refl | apply IH; reflexivity].
Qed.

Lemma path_eqb_refl : forall a, path_eqb a a = true.
Proof. intros a. apply path_eqb_eq. reflexivity. Qed.

Lemma path_eqb_neq : forall a b, path_eqb a b = false <-> a <> b.
Proof.
  intros a b. destruct (path_eqb a b) eqn:E.
  - apply path_eqb_eq in E. split; [discriminate | intros H; exfalso; exact (H E)].
  - split; [|reflexivity]. intros _ H. apply path_eqb_eq in H. congruence.
Qed.

Lemma path_mem_In : forall p l, path_mem p l = true <-> In p l.
Proof.
  intros p l. unfold path_mem. rewrite existsb_exists. split.
  - intros [y [H1 H2]]. apply path_eqb_eq in H2. subst. exact H1.
  - intros H. exists p. split; [exact H | apply path_eqb_refl].
Qed.

Lemma path_mem_false : forall p l, path_mem p l = false <-> ~ In p l.
Proof.
  intros p l. rewrite <- path_mem_In. destruct (path_mem p l).
  - split; [discriminate | intros H; exfalso; apply H; reflexivity].
  - split; [intros _; discriminate | reflexivity].
Qed.

Lemma dict_set_find : forall {V} (d : dict V) k v k',
  dict_find (dict_set d k v) k' = if path_eqb k' k then Some v else dict_find d k'.
Proof.
  intros V. induction d as [|[k0 v0] d IH]; intros k v k'; simpl.
  - destruct (path_eqb k' k); reflexivity.
  - destruct (path_eqb k k0) eqn:E; simpl.
    + apply path_eqb_eq in E. subst k0. destruct (path_eqb k' k); reflexivity.
    + rewrite IH. destruct (path_eqb k' k0) eqn:E2; [|reflexivity].
      apply path_eqb_eq in E2. subst k0. destruct (path_eqb k' k) eqn:E3; [|reflexivity].
      apply path_eqb_eq in E3. subst. rewrite path_eqb_refl in E. discriminate.
Qed.

Lemma dict_of_find_gen : forall {V} (l : list (path * V)) d k,
  dict_find (fold_left (fun d kv => dict_set d (fst kv) (snd kv)) l d) k =
  match find_last l k with Some v => Some v | None => dict_find d k end.
Proof.
  intros V. induction l as [|[k0 v0] l IH]; intros d k; simpl; [reflexivity|].
  rewrite IH. destruct (find_last l k); [reflexivity|]. rewrite dict_set_find. simpl. destruct (path_eqb k k0); reflexivity.
Qed.

Lemma dict_of_find : forall {V} (l : list (path * V)) k, dict_find (dict_of l) k = find_last l k.
Proof. intros V l k. unfold dict_of. rewrite dict_of_find_gen. simpl. destruct (find_last l k); reflexivity. Qed.

Lemma tests_dict_find : forall forest k, dict_find (tests_dict forest) k = find_test forest k.
Proof. intros forest k. unfold tests_dict, find_test. apply dict_of_find. Qed.

Lemma dict_find_In : forall {V} (d : dict V) k v, dict_find d k = Some v -> In k (map fst d).
Proof.
  intros V. induction d as [|[k0 v0] d IH]; intros k v; simpl; [discriminate|].
  destruct (path_eqb k k0) eqn:E; [apply path_eqb_eq in E; subst; intros _; left; reflexivity | intros H; right; eapply IH; exact H].
Qed.

(* ================================================================ the loop *)
(* what an error of the loop is: a direct one at dependency d, or the error of the recursive call on d *)
Lemma resolve_loop_err : forall rec sched all ref' deps acc e, resolve_loop rec sched all ref' deps acc = Err e ->
  exists d, In d deps /\
    ((e = ValidationError RDepUnknown /\ dict_find all d = None) \/
     (exists dt, dict_find all d = Some dt /\
        ((e = ValidationError RDepCircular /\ In d ref') \/
         (e = ValidationError RDepNotScheduled /\ ~ In d ref' /\ dict_mem sched d = false) \/
         (~ In d ref' /\ dict_mem sched d = true /\ rec d dt = Err e)))).
Proof.
  intros rec sched all ref' deps. induction deps as [|d deps IH]; intros acc e; simpl; [discriminate|].
  destruct (dict_find all d) as [dt|] eqn:Hall.
  - destruct (path_mem d ref') eqn:Hmem.
    + intros H. inversion H. exists d. split; [left; reflexivity|]. right. exists dt. split; [exact Hall|]. left.
      split; [reflexivity | apply path_mem_In; exact Hmem].
    + apply path_mem_false in Hmem. destruct (dict_mem sched d) eqn:Hs; simpl.
      * destruct (rec d dt) as [r|e'] eqn:Hrec.
        -- intros H. destruct (IH _ _ H) as [d' [Hd' Hor]]. exists d'. split; [right; exact Hd' | exact Hor].
        -- intros H. inversion H. subst e'. exists d. split; [left; reflexivity|]. right. exists dt. split; [exact Hall|].
           right. right. auto.
      * intros H. inversion H. exists d. split; [left; reflexivity|]. right. exists dt. split; [exact Hall|]. right. left. auto.
  - intros H. inversion H. exists d. split; [left; reflexivity|]. left. auto.
Qed.

Lemma resolve_loop_ok : forall rec sched all ref' deps acc r, resolve_loop rec sched all ref' deps acc = Ok r ->
  forall d, In d deps -> exists dt r', dict_find all d = Some dt /\ ~ In d ref' /\ dict_mem sched d = true /\ rec d dt = Ok r'.
Proof.
  intros rec sched all ref' deps. induction deps as [|d deps IH]; intros acc r; simpl; [intros _ d []|].
  destruct (dict_find all d) as [dt|] eqn:Hall; [|discriminate].
  destruct (path_mem d ref') eqn:Hmem; [discriminate|].
  destruct (dict_mem sched d) eqn:Hs; simpl; [|discriminate].
  destruct (rec d dt) as [r'|e'] eqn:Hrec; [|discriminate].
  intros H d' [Hd'|Hd'].
  - subst d'. exists dt, r'. apply path_mem_false in Hmem. auto.
  - exact (IH _ _ H d' Hd').
Qed.

(* ================================================================ termination *)
Definition missingp (all : dict test) (ref : list path) : nat :=
  length (filter (fun k => negb (path_mem k ref)) (map fst all)).

Lemma missingp_push : forall all ref d, In d (map fst all) -> ~ In d ref -> missingp all (d :: ref) < missingp all ref.
Proof.
  intros all ref d Hd Hr. unfold missingp. apply filter_length_lt with (x := d).
  - intros y Hy. apply negb_true_iff in Hy. apply negb_true_iff. apply path_mem_false. apply path_mem_false in Hy.
    intros H. apply Hy. right. exact H.
  - exact Hd.
  - apply negb_true_iff. apply path_mem_false. exact Hr.
  - apply negb_false_iff. apply path_mem_In. left. reflexivity.
Qed.

Lemma missingp_le : forall all ref, missingp all ref <= length all.
Proof. intros all ref. unfold missingp. rewrite <- (map_length fst all). apply filter_length_le. Qed.

(* The termination argument of the Python recursion: ref_tests gains a new path of all_tests at every level. *)
Lemma resolve_never_out_of_fuel : forall fuel sched all p deps ref,
  missingp all (p :: ref) < fuel -> resolve_test_dependencies fuel sched all p deps ref <> Err OutOfFuel.
Proof.
  induction fuel as [|fuel IH]; intros sched all p deps ref Hfuel; [lia|]. simpl. intros H.
  destruct (resolve_loop_err _ _ _ _ _ _ _ H) as [d [Hd [[He _]|[dt [Hall [[He _]|[[He _]|[Hnr [_ Hrec]]]]]]]]]; try discriminate.
  revert Hrec. apply IH.
  pose proof (missingp_push all (p :: ref) d (dict_find_In _ _ _ Hall) Hnr). lia.
Qed.

Lemma resolve_root_never_out_of_fuel : forall sched all p deps,
  resolve_test_dependencies (resolve_fuel all) sched all p deps [] <> Err OutOfFuel.
Proof.
  intros sched all p deps. apply resolve_never_out_of_fuel. unfold resolve_fuel. pose proof (missingp_le all [p]). lia.
Qed.

(* ================================================================ meaning of the errors *)
Lemma resolve_errors : forall fuel sched all p deps ref e, resolve_test_dependencies fuel sched all p deps ref = Err e ->
  e = ValidationError RDepUnknown \/ e = ValidationError RDepCircular \/ e = ValidationError RDepNotScheduled \/ e = OutOfFuel.
Proof.
  induction fuel as [|fuel IH]; intros sched all p deps ref e; simpl; [intros H; inversion H; auto|].
  intros H. destruct (resolve_loop_err _ _ _ _ _ _ _ H) as [d [Hd [[He _]|[dt [Hall [[He _]|[[He _]|[Hnr [_ Hrec]]]]]]]]]; auto.
  exact (IH _ _ _ _ _ _ Hrec).
Qed.

(* the node p with its dependencies is what the table of all tests says, and it is going to be run *)
Definition node_ok (sched all : dict test) (p : path) (deps : list path) : Prop :=
  dict_mem sched p = true /\ exists t, dict_find all p = Some t /\ tt_deps t = deps.

(* kinds of invalid dependencies *)
Definition DepInvalid (sched all : test_table) (r : reason) : Prop :=
  match r with
  | RDepUnknown => exists a d, sched a <> None /\ DepEdge all a d /\ all d = None
  | RDepNotScheduled => exists a d, sched a <> None /\ DepEdge all a d /\ all d <> None /\ sched d = None
  | RDepCircular => exists a, sched a <> None /\ clos_trans path (DepEdge all) a a
  | _ => False
  end.

Lemma dict_mem_true : forall {V} (d : dict V) k, dict_mem d k = true <-> dict_find d k <> None.
Proof. intros V d k. unfold dict_mem. destruct (dict_find d k); split; intros; try discriminate; try reflexivity. congruence. Qed.

Lemma dict_mem_false : forall {V} (d : dict V) k, dict_mem d k = false <-> dict_find d k = None.
Proof. intros V d k. unfold dict_mem. destruct (dict_find d k); split; intros; try discriminate; try reflexivity. Qed.

Lemma resolve_sound : forall fuel sched all p deps ref r,
  resolve_test_dependencies fuel sched all p deps ref = Err (ValidationError r) ->
  node_ok sched all p deps ->
  (forall x, In x ref -> clos_refl_trans path (DepEdge (dict_find all)) x p) ->
  DepInvalid (dict_find sched) (dict_find all) r.
Proof.
  induction fuel as [|fuel IH]; intros sched all p deps ref r; simpl; [discriminate|].
  intros H [Hps [t [Hpt Hdeps]]] Hstack.
  assert (Hsp : dict_find sched p <> None) by (apply dict_mem_true; exact Hps).
  destruct (resolve_loop_err _ _ _ _ _ _ _ H) as [d [Hd [[He Hnone]|[dt [Hall [[He Hin]|[[He [Hnr Hns]]|[Hnr [Hsd Hrec]]]]]]]]].
  - inversion He. subst r. exists p, d. repeat split; auto. exists t. subst deps. auto.
  - inversion He. subst r. exists p. split; [exact Hsp|].
    assert (Hpd : DepEdge (dict_find all) p d) by (exists t; subst deps; auto).
    apply clos_t_rt_t with (y := d); [apply t_step; exact Hpd|].
    destruct Hin as [Hin|Hin]; [subst d; apply rt_refl | exact (Hstack d Hin)].
  - inversion He. subst r. exists p, d. repeat split; auto.
    + exists t. subst deps. auto.
    + congruence.
    + apply dict_mem_false. exact Hns.
  - apply (IH _ _ _ _ _ _ Hrec).
    + split; [exact Hsd|]. exists dt. auto.
    + assert (Hpd : DepEdge (dict_find all) p d) by (exists t; subst deps; auto).
      intros x [Hx|Hx]; [subst x; apply rt_step; exact Hpd | apply rt_trans with (y := p); [exact (Hstack x Hx) | apply rt_step; exact Hpd]].
Qed.

(* ================================================================ what Ok implies *)
Lemma resolve_ok_no_back : forall fuel sched all p deps ref r,
  resolve_test_dependencies fuel sched all p deps ref = Ok r ->
  (exists t, dict_find all p = Some t /\ tt_deps t = deps) ->
  forall q d, clos_refl_trans path (DepEdge (dict_find all)) p q -> DepEdge (dict_find all) q d -> ~ In d (p :: ref).
Proof.
  induction fuel as [|fuel IH]; intros sched all p deps ref r Hok [t [Hpt Hdeps]]; [discriminate|].
  simpl in Hok. pose proof (resolve_loop_ok _ _ _ _ _ _ _ Hok) as Hloop.
  intros q d Hpq. apply clos_rt_rt1n in Hpq. revert d. destruct Hpq as [|p' q Hpp' Hp'q]; intros d Hqd.
  - destruct Hqd as [t' [Ht' Hd]]. rewrite Hpt in Ht'. inversion Ht'. subst t'. rewrite Hdeps in Hd.
    destruct (Hloop d Hd) as [dt [r' [_ [Hnr _]]]]. exact Hnr.
  - destruct Hpp' as [t' [Ht' Hp']]. rewrite Hpt in Ht'. inversion Ht'. subst t'. rewrite Hdeps in Hp'.
    destruct (Hloop p' Hp') as [dt [r' [Hall [Hnr [_ Hrec]]]]].
    intros Hin. apply (IH _ _ _ _ _ _ Hrec (ex_intro _ dt (conj Hall eq_refl)) q d); [apply clos_rt1n_rt; exact Hp'q | exact Hqd | right; exact Hin].
Qed.

Lemma resolve_ok_direct : forall fuel sched all p deps ref r,
  resolve_test_dependencies fuel sched all p deps ref = Ok r ->
  forall d, In d deps -> dict_find all d <> None /\ dict_find sched d <> None.
Proof.
  intros [|fuel] sched all p deps ref r Hok; [discriminate|]. simpl in Hok.
  intros d Hd. destruct (resolve_loop_ok _ _ _ _ _ _ _ Hok d Hd) as [dt [r' [Hall [_ [Hs _]]]]].
  split; [congruence | apply dict_mem_true; exact Hs].
Qed.

(* ================================================================ resolve_tests_dependencies *)
Lemma resolve_all_err : forall sched all todo e, resolve_all sched all todo = Err e ->
  exists p t, In (p, t) todo /\ resolve_test_dependencies (resolve_fuel all) sched all p (tt_deps t) [] = Err e.
Proof.
  intros sched all todo. induction todo as [|[p t] todo IH]; intros e; cbn [resolve_all]; [discriminate|].
  destruct (resolve_test_dependencies (resolve_fuel all) sched all p (tt_deps t) []) as [r|e'] eqn:Hr.
  - destruct (resolve_all sched all todo) as [l|e''] eqn:Hl; [discriminate|]. intros H. inversion H. subst.
    destruct (IH _ eq_refl) as [p' [t' [Hin He]]]. exists p', t'. split; [right; exact Hin | exact He].
  - intros H. inversion H. subst. exists p, t. split; [left; reflexivity | exact Hr].
Qed.

Lemma resolve_all_ok : forall sched all todo l, resolve_all sched all todo = Ok l ->
  forall p t, In (p, t) todo -> exists r, resolve_test_dependencies (resolve_fuel all) sched all p (tt_deps t) [] = Ok r.
Proof.
  intros sched all todo. induction todo as [|[p t] todo IH]; intros l; cbn [resolve_all]; [intros _ p t []|].
  destruct (resolve_test_dependencies (resolve_fuel all) sched all p (tt_deps t) []) as [r|e'] eqn:Hr; [|discriminate].
  destruct (resolve_all sched all todo) as [l'|e''] eqn:Hl; [|discriminate]. intros _ p' t' [Hin|Hin].
  - inversion Hin. subst. exists r. exact Hr.
  - exact (IH _ eq_refl p' t' Hin).
Qed.

Lemma dict_find_some_In : forall {V} (d : dict V) k v, dict_find d k = Some v -> exists k', In (k', v) d /\ k' = k.
Proof.
  intros V. induction d as [|[k0 v0] d IH]; intros k v; simpl; [discriminate|].
  destruct (path_eqb k k0) eqn:E.
  - apply path_eqb_eq in E. subst. intros H. inversion H. subst. exists k0. auto.
  - intros H. destruct (IH _ _ H) as [k' [Hin Hk]]. exists k'. auto.
Qed.

(* the keys of a dict built by dict_of are unique, so every entry is the one found under its key *)
Lemma dict_set_keys_NoDup : forall {V} (d : dict V) k v, NoDup (map fst d) -> NoDup (map fst (dict_set d k v)).
Proof.
  intros V. induction d as [|[k0 v0] d IH]; intros k v Hd; simpl.
  - constructor; [intros [] | constructor].
  - destruct (path_eqb k k0) eqn:E; simpl; [exact Hd|].
    inversion Hd as [|? ? Hnot Hd']. subst. constructor; [|apply IH; exact Hd'].
    intros Hin. apply Hnot. clear -Hin E. induction d as [|[k1 v1] d IHd]; simpl in *.
    + destruct Hin as [Hin|[]]. subst. rewrite path_eqb_refl in E. discriminate.
    + destruct (path_eqb k k1) eqn:E1; simpl in Hin; [exact Hin|]. destruct Hin as [Hin|Hin]; [left; exact Hin | right; apply IHd; exact Hin].
Qed.

Lemma dict_of_keys_NoDup : forall {V} (l : list (path * V)), NoDup (map fst (dict_of l)).
Proof.
  intros V l. unfold dict_of. assert (H : NoDup (map fst (@nil (path * V)))) by constructor.
  revert H. generalize (@nil (path * V)). induction l as [|[k v] l IH]; intros d Hd; simpl; [exact Hd|].
  apply IH. apply dict_set_keys_NoDup. exact Hd.
Qed.

Lemma dict_find_of_In : forall {V} (d : dict V) k v, NoDup (map fst d) -> In (k, v) d -> dict_find d k = Some v.
Proof.
  intros V. induction d as [|[k0 v0] d IH]; intros k v Hd; simpl; [intros []|].
  inversion Hd as [|? ? Hnot Hd']. subst. intros [H|H].
  - inversion H. subst. rewrite path_eqb_refl. reflexivity.
  - destruct (path_eqb k k0) eqn:E.
    + apply path_eqb_eq in E. subst. exfalso. apply Hnot. apply in_map_iff. exists (k0, v). auto.
    + apply IH; assumption.
Qed.

(* a scheduled test has the dependencies of the test loaded under the same path *)
Definition sched_consistent (sched all : test_table) : Prop :=
  forall p t, sched p = Some t -> exists t', all p = Some t' /\ tt_deps t' = tt_deps t.

Theorem resolve_tests_dependencies_sound : forall ssuites asuites e,
  sched_consistent (find_test ssuites) (find_test asuites) ->
  resolve_tests_dependencies ssuites asuites = Err e ->
  exists r, e = ValidationError r /\ DepInvalid (find_test ssuites) (find_test asuites) r.
Proof.
  intros ssuites asuites e Hcons. unfold resolve_tests_dependencies. intros H.
  destruct (resolve_all_err _ _ _ _ H) as [p [t [Hin He]]].
  assert (Hfind : dict_find (tests_dict ssuites) p = Some t)
    by (apply dict_find_of_In; [apply dict_of_keys_NoDup | exact Hin]).
  destruct (resolve_errors _ _ _ _ _ _ _ He) as [Hr|[Hr|[Hr|Hr]]]; subst e;
    try (exfalso; exact (resolve_root_never_out_of_fuel _ _ _ _ He)).
  all: eexists; split; [reflexivity|].
  all: assert (Hnode : node_ok (tests_dict ssuites) (tests_dict asuites) p (tt_deps t))
    by (split; [apply dict_mem_true; congruence |
        rewrite tests_dict_find in Hfind; destruct (Hcons p t Hfind) as [t' [Ht' Hd]]; exists t'; rewrite tests_dict_find; auto]).
  all: pose proof (resolve_sound _ _ _ _ _ _ _ He Hnode (fun x (Hx : In x []) => match Hx with end)) as Hinv.
  all: destruct Hinv as [a Hinv]; simpl.
  - destruct Hinv as [d [H1 [[t' [H2 H2']] H3]]]. exists a, d. rewrite <- !tests_dict_find. repeat split; auto. exists t'. split; [rewrite <- tests_dict_find; exact H2 | exact H2'].
  - destruct Hinv as [H1 H2]. exists a. rewrite <- tests_dict_find. split; [exact H1|].
    revert H2. apply clos_trans_mono. intros x y [t' [Ht Hy]]. exists t'. split; [rewrite <- tests_dict_find; exact Ht | exact Hy].
  - destruct Hinv as [d [H1 [[t' [H2 H2']] [H3 H4]]]]. exists a, d. rewrite <- !tests_dict_find. repeat split; auto. exists t'. split; [rewrite <- tests_dict_find; exact H2 | exact H2'].
Qed.

Theorem resolve_tests_dependencies_complete : forall ssuites asuites l,
  sched_consistent (find_test ssuites) (find_test asuites) ->
  resolve_tests_dependencies ssuites asuites = Ok l ->
  forall r, ~ DepInvalid (find_test ssuites) (find_test asuites) r.
Proof.
  intros ssuites asuites l Hcons. unfold resolve_tests_dependencies. intros H.
  assert (Hroot : forall a t, find_test ssuites a = Some t ->
            exists t' r, find_test asuites a = Some t' /\ tt_deps t' = tt_deps t /\
              resolve_test_dependencies (resolve_fuel (tests_dict asuites)) (tests_dict ssuites) (tests_dict asuites) a (tt_deps t) [] = Ok r).
  { intros a t Ha. destruct (Hcons a t Ha) as [t' [Ht' Hd]]. rewrite <- tests_dict_find in Ha.
    destruct (dict_find_some_In _ _ _ Ha) as [k' [Hin Hk]]. subst k'.
    destruct (resolve_all_ok _ _ _ _ H a t Hin) as [r Hr]. exists t', r. auto. }
  intros r. destruct r; simpl; try (intros HF; exact HF).
  - intros [a [d [Hs [[t' [Ht' Hd]] Hnone]]]]. destruct (find_test ssuites a) as [t|] eqn:Ha; [|congruence].
    destruct (Hroot a t Ha) as [t'' [r [Ht'' [Hdeps Hr]]]]. rewrite Ht' in Ht''. inversion Ht''. subst t''.
    rewrite Hdeps in Hd. destruct (resolve_ok_direct _ _ _ _ _ _ _ Hr d Hd) as [H1 _]. rewrite tests_dict_find in H1. congruence.
  - intros [a [Hs Hcyc]]. destruct (find_test ssuites a) as [t|] eqn:Ha; [|congruence].
    destruct (Hroot a t Ha) as [t' [r [Ht' [Hdeps Hr]]]].
    assert (Hq : exists q, clos_refl_trans path (DepEdge (dict_find (tests_dict asuites))) a q /\ DepEdge (dict_find (tests_dict asuites)) q a).
    { assert (Hcyc' : clos_trans path (DepEdge (dict_find (tests_dict asuites))) a a).
      { revert Hcyc. apply clos_trans_mono. intros x y [t0 [H1 H2]]. exists t0. rewrite tests_dict_find. auto. }
      exact (clos_trans_last _ _ _ Hcyc'). }
    destruct Hq as [q [Haq Hqa]].
    apply (resolve_ok_no_back _ _ _ _ _ _ _ Hr (ex_intro _ t' (conj (eq_trans (tests_dict_find _ _) Ht') Hdeps)) q a Haq Hqa).
    left. reflexivity.
  - intros [a [d [Hs [[t' [Ht' Hd]] [Hsome Hnone]]]]]. destruct (find_test ssuites a) as [t|] eqn:Ha; [|congruence].
    destruct (Hroot a t Ha) as [t'' [r [Ht'' [Hdeps Hr]]]]. rewrite Ht' in Ht''. inversion Ht''. subst t''.
    rewrite Hdeps in Hd. destruct (resolve_ok_direct _ _ _ _ _ _ _ Hr d Hd) as [_ H1]. rewrite tests_dict_find in H1. congruence.
Qed.
