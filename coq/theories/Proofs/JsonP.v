(* C09 — proofs about the JSON backend: the generated json_load_* invert the generated json_save_* . *)
From Coq Require Import List NArith ZArith Bool Lia.
Import ListNotations.
From LCC Require Import Base.Util Model.Report Model.Time Model.Json Model.Xml gen.TablesCodec Model.CodecFile.

(* ---------------- generic lemmas ---------------- *)
Lemma N_eqb_refl' n : N.eqb n n = true. Proof. apply N.eqb_refl. Qed.

Lemma str_eqb_eq (a b : str) : str_eqb a b = true <-> a = b.
Proof.
  unfold str_eqb. revert b. induction a as [|x a IH]; destruct b as [|y b]; simpl; split; intro H; try discriminate; auto.
  - apply andb_true_iff in H as [H1 H2]. apply N.eqb_eq in H1. apply IH in H2. congruence.
  - inversion H; subst. rewrite N.eqb_refl. simpl. apply IH. reflexivity.
Qed.
Lemma str_eqb_refl (a : str) : str_eqb a a = true.
Proof. apply str_eqb_eq. reflexivity. Qed.

Lemma bind_ok {A B} (a : A) (f : A -> res B) : bind (Ok a) f = f a.
Proof. reflexivity. Qed.

Lemma mapM_map {A B C} (f : B -> res C) (g : A -> B) l : mapM f (map g l) = mapM (fun x => f (g x)) l.
Proof. induction l as [|x l IH]; simpl; [reflexivity|]. rewrite IH. reflexivity. Qed.

Lemma mapM_id_in {A} (f : A -> res A) l : (forall x, In x l -> f x = Ok x) -> mapM f l = Ok l.
Proof.
  induction l as [|x l IH]; simpl; intro H; [reflexivity|].
  rewrite H by auto. simpl. rewrite IH by auto. reflexivity.
Qed.

Lemma mapM_map_id_in {A B} (f : B -> res A) (g : A -> B) l :
  (forall x, In x l -> f (g x) = Ok x) -> mapM f (map g l) = Ok l.
Proof. intro H. rewrite mapM_map. apply mapM_id_in. exact H. Qed.

Lemma mapM_map_id {A B} (f : B -> res A) (g : A -> B) l :
  (forall x, f (g x) = Ok x) -> mapM f (map g l) = Ok l.
Proof. intro H. apply mapM_map_id_in. auto. Qed.

Lemma suite_ind' (P : suite_result -> Prop) :
  (forall m st en su td tests subs, Forall P subs -> P (SuiteResult m st en su td tests subs)) -> forall s, P s.
Proof.
  intro H. fix IH 1. intros [m st en su td tests subs]. apply H.
  induction subs as [|x subs IHs]; constructor; [apply IH | exact IHs].
Qed.

Lemma fold_max_le {A} (f : A -> nat) x l :
  In x l -> (f x <= fold_right (fun y acc => Nat.max (f y) acc) 0 l)%nat.
Proof. induction l as [|y l IH]; simpl; [tauto|]. intros [->|H]; [lia|]. specialize (IH H). lia. Qed.

(* ---- Python dicts built from pairwise distinct keys keep every pair, in order ---- *)
Lemma dict_set_fresh {V} k (v : V) acc :
  existsb (str_eqb k) (map fst acc) = false -> dict_set k v acc = acc ++ [(k, v)].
Proof.
  induction acc as [|[k' v'] acc IH]; simpl; [reflexivity|].
  intro H. apply orb_false_iff in H as [H1 H2]. rewrite H1. rewrite IH by exact H2. reflexivity.
Qed.

Lemma existsb_app {A} (f : A -> bool) l1 l2 : existsb f (l1 ++ l2) = existsb f l1 || existsb f l2.
Proof. induction l1; simpl; [reflexivity|]. rewrite IHl1. apply orb_assoc. Qed.

Lemma str_eqb_sym (a b : str) : str_eqb a b = str_eqb b a.
Proof.
  destruct (str_eqb a b) eqn:E; destruct (str_eqb b a) eqn:F; try reflexivity.
  - apply str_eqb_eq in E. subst. rewrite str_eqb_refl in F. discriminate.
  - apply str_eqb_eq in F. subst. rewrite str_eqb_refl in E. discriminate.
Qed.

Lemma dict_fold_fresh {V} (l : list (str * V)) : forall acc,
  nodup_keys (map fst l) = true ->
  (forall k, In k (map fst l) -> existsb (str_eqb k) (map fst acc) = false) ->
  fold_left (fun d kv => dict_set (fst kv) (snd kv) d) l acc = acc ++ l.
Proof.
  induction l as [|[k v] l IH]; intros acc Hn Hd; simpl.
  - rewrite app_nil_r. reflexivity.
  - simpl in Hn. apply andb_true_iff in Hn as [Hk Hn]. apply negb_true_iff in Hk.
    rewrite dict_set_fresh by (apply Hd; left; reflexivity).
    rewrite IH; [rewrite <- app_assoc; reflexivity | exact Hn |].
    intros k' Hk'. rewrite map_app, existsb_app. rewrite Hd by (right; exact Hk'). simpl.
    rewrite orb_false_r.
    destruct (str_eqb k' k) eqn:E; [|reflexivity].
    apply str_eqb_eq in E. subst k'.
    exfalso. clear - Hk Hk'. induction (map fst l) as [|x r IHr]; simpl in *; [tauto|].
    apply orb_false_iff in Hk as [H1 H2]. destruct Hk' as [->|H]; [rewrite str_eqb_refl in H1; discriminate|auto].
Qed.

Lemma dict_of_pairs_id {V} (l : list (str * V)) : nodup_keys (map fst l) = true -> dict_of_pairs l = l.
Proof. intro H. unfold dict_of_pairs. rewrite dict_fold_fresh; [reflexivity | exact H | reflexivity]. Qed.

Lemma tests_dict_id tests : nodup_keys (map (fun t => m_name (t_meta t)) tests) = true -> tests_dict tests = tests.
Proof.
  intro H. unfold tests_dict. rewrite dict_of_pairs_id.
  - rewrite map_map. simpl. apply map_id.
  - rewrite map_map. simpl. exact H.
Qed.

Lemma fold_max_lub {A} (f : A -> nat) b l :
  (forall x, In x l -> (f x <= b)%nat) -> (fold_right (fun y acc => Nat.max (f y) acc) 0 l <= b)%nat.
Proof. induction l as [|y l IH]; simpl; intro H; [lia|]. apply Nat.max_lub; auto. Qed.

Lemma jdepth_entry k v l : In (k, v) l -> (json_depth v < json_depth (JObj l))%nat.
Proof.
  intro H. cbn [json_depth]. pose proof (fold_max_le (fun kv : str * json => json_depth (snd kv)) (k, v) l H) as L.
  simpl in L. lia.
Qed.
Lemma jdepth_arr x l : In x l -> (json_depth x < json_depth (JArr l))%nat.
Proof. intro H. cbn [json_depth]. pose proof (fold_max_le json_depth x l H). lia. Qed.

Lemma forallb_map {A B} (p : B -> bool) (g : A -> B) l : forallb p (map g l) = forallb (fun x => p (g x)) l.
Proof. induction l as [|x l IH]; simpl; [reflexivity|]. rewrite IH. reflexivity. Qed.
Lemma forallb_impl {A} (p q : A -> bool) l :
  (forall x, In x l -> p x = true -> q x = true) -> forallb p l = true -> forallb q l = true.
Proof.
  induction l as [|x l IH]; simpl; intros H Hp; [reflexivity|]. apply andb_true_iff in Hp as [H1 H2].
  rewrite (H x) by auto. simpl. apply IH; auto.
Qed.

(* ---------------- the JSON text layer is the identity on values without surrogate pairs ---------------- *)
Lemma json_ind' (P : json -> Prop) :
  P JNull -> (forall b, P (JBool b)) -> (forall z, P (JNum z)) -> (forall m e, P (JFloat m e)) -> (forall s, P (JStr s)) ->
  (forall l, Forall P l -> P (JArr l)) -> (forall l, Forall (fun kv => P (snd kv)) l -> P (JObj l)) -> forall j, P j.
Proof.
  intros H1 H2 H3 H4 H5 H6 H7. fix IH 1. intros [|b|z|m e|s|l|l]; [apply H1|apply H2|apply H3|apply H4|apply H5| | ].
  - apply H6. induction l as [|x l IHl]; constructor; [apply IH | exact IHl].
  - apply H7. induction l as [|[k v] l IHl]; constructor; [apply IH | exact IHl].
Qed.

Lemma merge_pairfree s : pairfree s = true -> merge_pairs s = s.
Proof.
  induction s as [|a s IH]; [reflexivity|]. destruct s as [|b r]; [reflexivity|].
  intro H. change (negb (hi_sur a && lo_sur b) && pairfree (b :: r) = true) in H.
  apply andb_true_iff in H as [H1 H2]. apply negb_true_iff in H1.
  change (merge_pairs (a :: b :: r)) with
    (if hi_sur a && lo_sur b then (65536 + (a - 55296) * 1024 + (b - 56320))%N :: merge_pairs r else a :: merge_pairs (b :: r)).
  rewrite H1. rewrite IH by exact H2. reflexivity.
Qed.

Lemma jclean_norm j : json_clean j = true -> json_norm j = j.
Proof.
  induction j as [| | | |s|l IH|l IH] using json_ind'; try reflexivity; cbn [json_clean json_norm]; intro H.
  - rewrite merge_pairfree by exact H. reflexivity.
  - f_equal. induction l as [|x l IHl]; [reflexivity|]. cbn [forallb] in H. apply andb_true_iff in H as [Hx Hl].
    inversion IH; subst. cbn [map]. rewrite H1 by exact Hx. rewrite IHl by assumption. reflexivity.
  - f_equal. induction l as [|[k v] l IHl]; [reflexivity|]. cbn [forallb fst snd] in H. apply andb_true_iff in H as [Hx Hl].
    apply andb_true_iff in Hx as [Hk Hv]. inversion IH; subst. cbn [map fst snd] in *.
    rewrite merge_pairfree by exact Hk. rewrite H1 by exact Hv. rewrite IHl by assumption. reflexivity.
Qed.

Section JsonRoundTrip.
Variable tc : textcodec.
Hypothesis Hc : codec_ok tc.

Lemma time_rt (o : option Z) : json_load_time tc (json_save_time tc o) = Ok o.
Proof.
  destruct Hc as [Ht _]. unfold json_load_time, json_save_time.
  destruct o as [z|]; cbn; [rewrite Ht|]; reflexivity.
Qed.

Ltac jsimp :=
  cbn -[json_load_time json_save_time json_save_steps json_load_step json_save_test json_load_test
        json_save_suite json_load_suite mapM map dec_strlist enc_strlist dec_props enc_props
        tests_dict json_depth suite_depth].

Lemma strlist_rt l : dec_strlist (enc_strlist l) = Ok l.
Proof. unfold dec_strlist, enc_strlist. cbn [dec_arr bind]. apply mapM_map_id. reflexivity. Qed.

Lemma props_rt l : dec_props (enc_props l) = Ok l.
Proof. unfold dec_props, enc_props. apply mapM_map_id. intros [k v]. reflexivity. Qed.

Lemma ostr_rt o : dec_ostr (enc_ostr o) = Ok o.
Proof. destruct o; reflexivity. Qed.

Ltac jrw :=
  repeat (first [rewrite time_rt | rewrite ostr_rt | rewrite strlist_rt | rewrite props_rt]; cbn [bind req_some of_option]).

Lemma step_rt steps : bind (dec_arr (json_save_steps tc steps)) (mapM (json_load_step tc)) = Ok steps.
Proof.
  unfold json_save_steps. cbn [dec_arr bind].
  apply mapM_map_id. intros [d s e logs]. unfold json_load_step. jsimp.
  jrw.
  rewrite mapM_map_id; [reflexivity|].
  intros [lv m t|ds ok dt t|ds f im t|ds u t]; jsimp; jrw; reflexivity.
Qed.

Lemma bind_assoc {A B C} (m : res A) (f : A -> res B) (g : B -> res C) :
  bind (bind m f) g = bind m (fun x => bind (f x) g).
Proof. destruct m; reflexivity. Qed.

Lemma steps_rt_k {B} steps (k : list step -> res B) :
  (d <- dec_arr (json_save_steps tc steps) ;; l <- mapM (fun j => json_load_step tc j) d ;; k l) = k steps.
Proof.
  rewrite <- bind_assoc. change (fun j => json_load_step tc j) with (json_load_step tc). rewrite step_rt. reflexivity.
Qed.

Ltac links_tac :=
  rewrite mapM_map_id by (intros [? ?]; jsimp; jrw; reflexivity); cbn [bind].

Lemma test_rt t : json_load_test tc (json_save_test tc t) = Ok t.
Proof.
  destruct t as [[n d tg pr lk] [st en s sd steps]].
  unfold json_save_test, json_load_test, json_save_result, json_save_node_metadata, jupdate. jsimp.
  jrw. rewrite steps_rt_k. jrw. links_tac. reflexivity.
Qed.

Ltac result_tac := jsimp; jrw; rewrite ?steps_rt_k; jrw.

Lemma suite_rt s : forall fuel, suite_unique s = true -> (suite_depth s <= fuel)%nat ->
  json_load_suite tc fuel (json_save_suite tc s) = Ok s.
Proof.
  induction s as [m st en su td tests subs IH] using suite_ind'. intros fuel Hu Hd.
  destruct fuel as [|fuel]; [simpl in Hd; lia|].
  destruct m as [n d tg pr lk].
  cbn [suite_unique] in Hu. repeat (apply andb_true_iff in Hu as [Hu ?]).
  cbn [json_save_suite json_load_suite]. unfold json_save_node_metadata.
  assert (Hsub : mapM (fun j => json_load_suite tc fuel j) (map (json_save_suite tc) subs) = Ok subs).
  { apply mapM_map_id_in. intros x Hx. rewrite Forall_forall in IH. apply IH; [exact Hx | |].
    - rewrite forallb_forall in H. apply H. exact Hx.
    - cbn [suite_depth] in Hd. pose proof (fold_max_le suite_depth x subs Hx). lia. }
  assert (Htests : mapM (fun j => json_load_test tc j) (map (json_save_test tc) tests) = Ok tests).
  { apply mapM_map_id. intro x. apply test_rt. }
  destruct su as [su|], td as [td|]; try destruct su as [a1 a2 a3 a4 a5]; try destruct td as [b1 b2 b3 b4 b5];
    result_tac; links_tac; result_tac; rewrite Htests; result_tac; rewrite Hsub; cbn [bind];
    rewrite tests_dict_id by assumption; reflexivity.
Qed.

(* the fuel computed by the callers (nesting depth of the JSON value) is enough *)
Lemma suite_depth_le s : (suite_depth s <= json_depth (json_save_suite tc s))%nat.
Proof.
  induction s as [m st en su td tests subs IH] using suite_ind'.
  cbn [suite_depth json_save_suite].
  match goal with |- (_ <= json_depth (JObj ?l))%nat =>
    assert (Hin : In (K_suites, JArr (map (json_save_suite tc) subs)) l)
      by (rewrite ?in_app_iff; simpl; auto 20);
    pose proof (jdepth_entry _ _ _ Hin) as L1
  end.
  assert (L2 : (fold_right (fun y acc => Nat.max (suite_depth y) acc) 0 subs
                < json_depth (JArr (map (json_save_suite tc) subs)))%nat).
  { apply Nat.le_lt_trans with (m := fold_right (fun y acc => Nat.max (json_depth y) acc) 0 (map (json_save_suite tc) subs)).
    - apply fold_max_lub. intros x Hx. rewrite Forall_forall in IH. specialize (IH x Hx).
      pose proof (fold_max_le json_depth (json_save_suite tc x) (map (json_save_suite tc) subs) (in_map _ _ _ Hx)). lia.
    - cbn [json_depth]. lia. }
  lia.
Qed.

Theorem json_report_rt now r : unique_keys r ->
  json_load_report tc (json_save_report tc now r) = Ok (with_saving (Some now) r).
Proof.
  intro Hu. destruct r as [title info st en sav nb su td suites]. unfold unique_keys, unique_keysb in Hu. cbn [rp_suites] in Hu.
  unfold json_save_report, json_load_report, with_saving.
  assert (Hs : mapM (fun j => json_load_suite tc (json_depth j) j) (map (json_save_suite tc) suites) = Ok suites).
  { apply mapM_map_id_in. intros x Hx. apply suite_rt; [|apply suite_depth_le].
    rewrite forallb_forall in Hu. apply Hu. exact Hx. }
  destruct su as [su|], td as [td|]; try destruct su as [a1 a2 a3 a4 a5]; try destruct td as [b1 b2 b3 b4 b5];
    result_tac; links_tac; result_tac; rewrite Hs; result_tac; reflexivity.
Qed.

(* ---------------- the trees written for json_safe reports have no surrogate pair ---------------- *)
Hypothesis Hj : codec_json_ok tc.

Lemma time_jclean o : json_clean (json_save_time tc o) = true.
Proof. destruct o; [apply Hj | reflexivity]. Qed.
Lemma ostr_jclean o : opt_all pairfree o = true -> json_clean (enc_ostr o) = true.
Proof. destruct o; auto. Qed.
Lemma strlist_jclean l : forallb pairfree l = true -> json_clean (enc_strlist l) = true.
Proof. intro H. unfold enc_strlist. cbn [json_clean]. rewrite forallb_map. exact H. Qed.
Lemma props_jclean l : forallb (fun kv => pairfree (fst kv) && pairfree (snd kv)) l = true -> json_clean (enc_props l) = true.
Proof. intro H. unfold enc_props. cbn [json_clean]. rewrite forallb_map. exact H. Qed.

Ltac split_and :=
  repeat match goal with
         | H : (_ && _)%bool = true |- _ => apply andb_true_iff in H; destruct H
         end.
Ltac conj := repeat match goal with |- (_ && _)%bool = true => apply andb_true_intro; split end.
Ltac jcsimp := cbn -[pairfree json_save_time json_save_steps json_save_test json_save_suite json_save_result
                     enc_ostr enc_strlist enc_props map].
Ltac jleaf :=
  first [ assumption | reflexivity | apply time_jclean | apply ostr_jclean; assumption | apply strlist_jclean; assumption
        | apply props_jclean; assumption ].

Lemma steps_jclean steps : forallb (step_all pairfree) steps = true -> json_clean (json_save_steps tc steps) = true.
Proof.
  intro H. unfold json_save_steps. cbn [json_clean]. rewrite forallb_map. eapply forallb_impl; [|exact H].
  intros [d st en logs] _ Hs. unfold step_all in Hs. cbn [st_description st_logs] in Hs. split_and.
  jcsimp. conj; try jleaf. rewrite forallb_map. eapply forallb_impl; [|eassumption].
  intros [lv m t|ds ok dt t|ds f im t|ds u t] _ Hl; unfold log_all in Hl; split_and; jcsimp; conj; jleaf.
Qed.

Lemma result_jclean r : result_all pairfree r = true -> json_clean (json_save_result tc r) = true.
Proof.
  destruct r as [st en s sd steps]. unfold result_all. cbn [r_status r_status_details r_steps]. intro H. split_and.
  unfold json_save_result. jcsimp. conj; try jleaf. apply steps_jclean. assumption.
Qed.

Definition entries_clean (l : list (str * json)) : bool := forallb (fun kv => pairfree (fst kv) && json_clean (snd kv)) l.

Lemma meta_jclean m : meta_all pairfree m = true -> entries_clean (json_save_node_metadata m) = true.
Proof.
  destruct m as [n d tg pr lk]. unfold meta_all. cbn [m_name m_description m_tags m_properties m_links]. intro H. split_and.
  unfold json_save_node_metadata, entries_clean. jcsimp. conj; try jleaf.
  rewrite forallb_map. eapply forallb_impl; [|eassumption]. intros [u o] _ Hl. cbn [fst snd] in *. split_and.
  jcsimp. conj; jleaf.
Qed.

Lemma dict_set_clean k v l : pairfree k = true -> json_clean v = true -> entries_clean l = true ->
  entries_clean (dict_set k v l) = true.
Proof.
  intros Hk Hv. unfold entries_clean. induction l as [|[k' v'] l IH]; cbn [dict_set forallb fst snd]; intro H.
  - rewrite Hk, Hv. reflexivity.
  - apply andb_true_iff in H as [H1 H2]. destruct (str_eqb k k'); cbn [forallb fst snd].
    + rewrite Hk, Hv, H2. reflexivity.
    + rewrite H1, IH by exact H2. reflexivity.
Qed.
Lemma jupdate_clean j es : json_clean j = true -> entries_clean es = true -> json_clean (jupdate j es) = true.
Proof.
  destruct j as [| | | | | |l]; try (intros; assumption). unfold jupdate. cbn [json_clean]. fold (entries_clean l).
  revert l. induction es as [|[k v] es IH]; intros l Hl He; cbn [fold_left]; [exact Hl|].
  unfold entries_clean in He. cbn [forallb fst snd] in He. apply andb_true_iff in He as [He1 He2].
  apply andb_true_iff in He1 as [Hk Hv].
  assert (json_clean (JObj (dict_set k v l)) = true) as Hd by (cbn [json_clean]; apply dict_set_clean; assumption).
  specialize (IH (dict_set k v l) Hd He2). exact IH.
Qed.

Lemma test_jclean t : test_all pairfree t = true -> json_clean (json_save_test tc t) = true.
Proof.
  destruct t as [m r]. unfold test_all. cbn [t_meta t_result]. intro H. split_and.
  unfold json_save_test. cbn [t_meta t_result]. apply jupdate_clean; [apply result_jclean | apply meta_jclean]; assumption.
Qed.

Lemma oresult_entries K o : pairfree K = true -> oresult_all pairfree o = true ->
  entries_clean (match o with Some r => [(K, json_save_result tc r)] | None => [] end) = true.
Proof.
  intros HK H. destruct o as [r|]; [|reflexivity]. unfold entries_clean. cbn [forallb fst snd].
  rewrite HK, result_jclean by exact H. reflexivity.
Qed.
Lemma entries_clean_app a b : entries_clean (a ++ b) = entries_clean a && entries_clean b.
Proof. apply forallb_app. Qed.

Lemma suite_jclean s : suite_all pairfree s = true -> json_clean (json_save_suite tc s) = true.
Proof.
  induction s as [m st en su td tests subs IH] using suite_ind'. cbn [suite_all]. intro H. split_and.
  cbn [json_save_suite json_clean]. fold entries_clean.
  rewrite !entries_clean_app. rewrite meta_jclean by assumption.
  rewrite !oresult_entries by (reflexivity || assumption).
  rewrite !andb_true_r. unfold entries_clean. jcsimp. conj; try jleaf.
  - rewrite forallb_map. eapply forallb_impl; [|eassumption]. intros x _ Hx. apply test_jclean. exact Hx.
  - rewrite forallb_map. rewrite Forall_forall in IH. eapply forallb_impl; [|eassumption]. intros x Hin Hx. apply IH; assumption.
Qed.

Lemma report_jclean now r : json_safeb r = true -> json_clean (json_save_report tc now r) = true.
Proof.
  destruct r as [title info st en sav nb su td suites]. unfold json_safeb, report_all.
  cbn [rp_title rp_info rp_session_setup rp_session_teardown rp_suites]. intro H. split_and.
  unfold json_save_report.
  cbn [json_clean rp_title rp_info rp_start rp_end rp_nb_threads rp_session_setup rp_session_teardown rp_suites].
  fold entries_clean. rewrite !entries_clean_app. rewrite !oresult_entries by (reflexivity || assumption).
  rewrite ?andb_true_r. unfold entries_clean. jcsimp. conj; try jleaf.
  - rewrite forallb_map. eapply forallb_impl; [|eassumption]. intros [k v] _ Hx. cbn [fst snd] in *. split_and. jcsimp. conj; jleaf.
  - rewrite forallb_map. eapply forallb_impl; [|eassumption]. intros x _ Hx. apply suite_jclean. exact Hx.
Qed.

(* file level, through reporting.loader with the default backends (the XML backend is tried first and refuses the file) *)
Theorem json_file_rt now r : json_safeb r = true -> unique_keys r ->
  save_then_load tc BJson now r = Ok (with_saving (Some now) r).
Proof.
  intros Hs Hu. unfold save_then_load, backend_save, json_save_file. cbn [bind].
  unfold default_backends, loader_load, backend_load. cbn [xml_load_file].
  unfold json_load_file. rewrite (jclean_norm _ (report_jclean now r Hs)). unfold json_save_report at 1.
  change (jget_or_null K_report_version _) with (JFloat 11 (-1)). cbn [json_version_ge2 bind].
  change ((if (-1 <? 0)%Z then (2 * 10 ^ (- -1) <=? 11)%Z else (2 <=? 11 * 10 ^ (-1))%Z)) with false. cbn iota.
  fold (json_save_report tc now r). rewrite json_report_rt by exact Hu. reflexivity.
Qed.
End JsonRoundTrip.
