(* Proofs about Model/ReportDir.v (C19). *)
From Coq Require Import List Arith Bool Lia.
Import ListNotations.
From LCC Require Import Model.ReportDir.

Definition keys (a : archives) := map fst a.
Definition markers (a : archives) := map snd a.

(* x is a more recent archive than y *)
Definition newer_than (a : archives) (x y : marker) : Prop :=
  exists kx ky, In (kx, x) a /\ In (ky, y) a /\ kx < ky.

(* well-formed states: what create_report_dir_with_rotation and manual deletions maintain *)
Record WF (next : marker) (s : state) : Prop := {
  wf_keys_nodup : NoDup (keys (arch s));
  wf_keys_pos : forall k, In k (keys (arch s)) -> 1 <= k;
  wf_markers_nodup : NoDup (markers (arch s));
  wf_markers_lt : forall m, In m (markers (arch s)) -> m < next;
  wf_cur_lt : forall c, cur s = Some c -> c < next;
  wf_cur_fresh : forall c, cur s = Some c -> ~ In c (markers (arch s));
}.

(* ---------- lookup / has_key ---------- *)
Lemma lookup_In k a m : lookup k a = Some m -> In (k, m) a.
Proof.
  induction a as [|[k' m'] r IH]; simpl; [discriminate|].
  destruct (Nat.eqb_spec k k') as [->|Hne]; intros H.
  - inversion H; subst; auto.
  - right; auto.
Qed.

Lemma has_key_In k a : has_key k a = true <-> In k (keys a).
Proof.
  unfold has_key. induction a as [|[k' m'] r IH]; simpl.
  - split; [discriminate|tauto].
  - destruct (Nat.eqb_spec k k') as [->|Hne].
    + split; auto.
    + rewrite IH. split; [auto|]. intros [E|H]; [congruence|auto].
Qed.

Lemma has_key_false k a : has_key k a = false <-> ~ In k (keys a).
Proof. rewrite <- has_key_In. destruct (has_key k a); split; congruence. Qed.

Lemma In_keys k a : In k (keys a) <-> exists m, In (k, m) a.
Proof.
  unfold keys. rewrite in_map_iff. split.
  - intros [[k' m] [E H]]; simpl in E; subst; eauto.
  - intros [m H]. exists (k, m); auto.
Qed.

Lemma In_markers m a : In m (markers a) <-> exists k, In (k, m) a.
Proof.
  unfold markers. rewrite in_map_iff. split.
  - intros [[k m'] [E H]]; simpl in E; subst; eauto.
  - intros [k H]. exists (k, m); auto.
Qed.

Lemma NoDup_keys_fun a k m1 m2 : NoDup (keys a) -> In (k, m1) a -> In (k, m2) a -> m1 = m2.
Proof.
  induction a as [|[k' m'] r IH]; simpl; [tauto|].
  intros ND H1 H2. inversion ND as [|? ? Hn ND']; subst.
  destruct H1 as [E1|H1], H2 as [E2|H2].
  - congruence.
  - inversion E1; subst. exfalso. apply Hn. apply In_keys; eauto.
  - inversion E2; subst. exfalso. apply Hn. apply In_keys; eauto.
  - eauto.
Qed.

Lemma NoDup_markers_fun a k1 k2 m : NoDup (markers a) -> In (k1, m) a -> In (k2, m) a -> k1 = k2.
Proof.
  induction a as [|[k' m'] r IH]; simpl; [tauto|].
  intros ND H1 H2. inversion ND as [|? ? Hn ND']; subst.
  destruct H1 as [E1|H1], H2 as [E2|H2].
  - congruence.
  - inversion E1; subst. exfalso. apply Hn. apply In_markers; eauto.
  - inversion E2; subst. exfalso. apply Hn. apply In_markers; eauto.
  - eauto.
Qed.

(* ---------- key maps ---------- *)
Definition mapkey (f : nat -> nat) (a : archives) : archives := map (fun p => (f (fst p), snd p)) a.

Lemma In_mapkey f a k m : In (k, m) (mapkey f a) <-> exists k0, In (k0, m) a /\ k = f k0.
Proof.
  unfold mapkey. rewrite in_map_iff. split.
  - intros [[k0 m0] [E H]]. simpl in E. inversion E; subst. eauto.
  - intros [k0 [H E]]. exists (k0, m). subst; auto.
Qed.

Lemma markers_mapkey f a : markers (mapkey f a) = markers a.
Proof. unfold markers, mapkey. rewrite map_map. reflexivity. Qed.

Lemma keys_mapkey f a : keys (mapkey f a) = map f (keys a).
Proof. unfold keys, mapkey. rewrite !map_map. reflexivity. Qed.

Lemma NoDup_map_inj_on (f : nat -> nat) (l : list nat) :
  (forall x y, In x l -> In y l -> f x = f y -> x = y) -> NoDup l -> NoDup (map f l).
Proof.
  induction l as [|a l IH]; simpl; intros Inj ND; [constructor|].
  inversion ND as [|? ? Hn ND']; subst. constructor.
  - rewrite in_map_iff. intros [y [E Hy]]. apply Inj in E; auto. subst; auto.
  - apply IH; auto.
Qed.

(* the key map of a rotation: keys lo..hi move up by one *)
Definition shiftk (lo hi k : nat) : nat := if (Nat.leb lo k && Nat.leb k hi)%bool then S k else k.
Definition shift lo hi a := mapkey (shiftk lo hi) a.

Lemma rename_shift num hi a :
  num <= hi -> rename num (S num) (shift (S num) hi a) = shift num hi a.
Proof.
  intros Hle. unfold rename, shift, mapkey. rewrite map_map. apply map_ext.
  intros [k m]; cbn [fst snd]. unfold shiftk.
  destruct (Nat.leb_spec (S num) k) as [A|A], (Nat.leb_spec k hi) as [B|B], (Nat.leb_spec num k) as [C|C]; cbn [andb];
    try (exfalso; lia).
  all: match goal with |- context [Nat.eqb ?a ?b] => destruct (Nat.eqb_spec a b) as [E|E] end;
    cbn [fst snd]; try (exfalso; lia); try reflexivity; try (f_equal; lia).
Qed.

Lemma rename_shift0 num a : rename num (S num) a = shift num num a.
Proof.
  unfold rename, shift, mapkey. apply map_ext. intros [k m]; simpl. unfold shiftk.
  destruct (Nat.eqb_spec k num), (Nat.leb_spec num k), (Nat.leb_spec k num); simpl; try lia; subst; auto.
Qed.

Definition cnt_ge num (a : archives) := length (filter (fun p => Nat.leb num (fst p)) a).

Lemma cnt_ge_mono num a : cnt_ge (S num) a <= cnt_ge num a.
Proof.
  unfold cnt_ge. induction a as [|[k m] r IH]; cbn [filter fst length]; [lia|].
  destruct (Nat.leb_spec (S num) k), (Nat.leb_spec num k); cbn [length]; lia.
Qed.

Lemma cnt_ge_S num a : In num (keys a) -> cnt_ge (S num) a < cnt_ge num a.
Proof.
  induction a as [|[k m] r IH]; [simpl; tauto|].
  intros Hin. simpl in Hin. pose proof (cnt_ge_mono num r) as Hm. unfold cnt_ge in *.
  cbn [filter fst]. destruct Hin as [E|H].
  - subst k. destruct (Nat.leb_spec (S num) num); [lia|]. destruct (Nat.leb_spec num num); [|lia].
    cbn [length]. lia.
  - specialize (IH H). destruct (Nat.leb_spec (S num) k), (Nat.leb_spec num k); cbn [length]; lia.
Qed.

(* rotate_directory = shift of the maximal run of consecutive keys starting at num; enough fuel never fails *)
Lemma rotate_directory_spec fuel : forall num a,
  In num (keys a) -> cnt_ge num a <= fuel ->
  exists hi, num <= hi /\ (forall k, num <= k <= hi -> In k (keys a)) /\ ~ In (S hi) (keys a) /\
             rotate_directory fuel num a = Some (shift num hi a).
Proof.
  induction fuel as [|f IH]; intros num a Hin Hf.
  - exfalso. unfold cnt_ge in Hf. apply In_keys in Hin as [m Hm].
    assert (In (num, m) (filter (fun p => Nat.leb num (fst p)) a)).
    { apply filter_In; split; auto. simpl. apply Nat.leb_refl. }
    destruct (filter _ a); simpl in *; [tauto|lia].
  - simpl. destruct (has_key (S num) a) eqn:Hk.
    + apply has_key_In in Hk. pose proof (cnt_ge_S num a Hin) as Hlt.
      destruct (IH (S num) a Hk ltac:(lia)) as [hi [Hle [Hall [Hnot Heq]]]].
      exists hi. split; [lia|]. split; [|split; auto].
      * intros k Hk'. destruct (Nat.eq_dec k num); [subst; auto|apply Hall; lia].
      * rewrite Heq. rewrite rename_shift by lia. reflexivity.
    + apply has_key_false in Hk. exists num. split; [lia|]. split; [|split; auto].
      * intros k Hk'. assert (k = num) by lia. subst; auto.
      * rewrite rename_shift0. reflexivity.
Qed.

Lemma cnt_ge_le_length num a : cnt_ge num a <= length a.
Proof. unfold cnt_ge. induction a as [|p r IH]; simpl; [lia|]. destruct (Nat.leb num (fst p)); simpl; lia. Qed.

Lemma rotate_directories_spec a :
  (~ In 1 (keys a) /\ rotate_directories a = Some a) \/
  (exists hi, 1 <= hi /\ (forall k, 1 <= k <= hi -> In k (keys a)) /\ ~ In (S hi) (keys a) /\
              rotate_directories a = Some (shift 1 hi a)).
Proof.
  unfold rotate_directories. destruct (has_key 1 a) eqn:Hk.
  - right. apply has_key_In in Hk.
    apply (rotate_directory_spec (length a) 1 a Hk (cnt_ge_le_length 1 a)).
  - left. apply has_key_false in Hk. auto.
Qed.

(* shiftk is strictly monotone on key sets that do not contain hi+1 *)
Lemma shiftk_mono lo hi k1 k2 : k2 <> S hi -> k1 < k2 -> shiftk lo hi k1 < shiftk lo hi k2.
Proof.
  unfold shiftk. intros Hn Hlt.
  destruct (Nat.leb_spec lo k1), (Nat.leb_spec k1 hi), (Nat.leb_spec lo k2), (Nat.leb_spec k2 hi); simpl; lia.
Qed.

Lemma shiftk_inj_on lo hi (l : list nat) : ~ In (S hi) l ->
  forall x y, In x l -> In y l -> shiftk lo hi x = shiftk lo hi y -> x = y.
Proof.
  intros Hn x y Hx Hy E.
  destruct (Nat.lt_trichotomy x y) as [H|[H|H]]; auto.
  - assert (y <> S hi) by (intro; subst; auto). pose proof (shiftk_mono lo hi x y H0 H). lia.
  - assert (x <> S hi) by (intro; subst; auto). pose proof (shiftk_mono lo hi y x H0 H). lia.
Qed.

Lemma shiftk_not1 hi k : 1 <= hi -> 1 <= k -> shiftk 1 hi k = 1 -> False.
Proof. unfold shiftk. intros Hh H. destruct (Nat.leb_spec 1 k), (Nat.leb_spec k hi); cbn [andb]; lia. Qed.

Lemma shiftk_ge lo hi k : k <= shiftk lo hi k.
Proof. unfold shiftk. destruct (Nat.leb lo k && Nat.leb k hi)%bool; lia. Qed.

(* ---------- remove_obsolete ---------- *)
Lemma remove_obsolete_sub limit a k m : In (k, m) (remove_obsolete limit a) -> In (k, m) a.
Proof.
  unfold remove_obsolete. destruct limit as [l|]; auto.
  destruct (Nat.ltb (count_le l a) l); auto. intros H. apply filter_In in H. tauto.
Qed.

Lemma NoDup_map_filter {A B} (f : A -> B) (p : A -> bool) l : NoDup (map f l) -> NoDup (map f (filter p l)).
Proof.
  induction l as [|x l IH]; simpl; intros ND; [constructor|].
  inversion ND as [|? ? Hn ND']; subst. destruct (p x); simpl; auto. constructor; auto.
  intro H. apply Hn. apply in_map_iff in H as [y [E Hy]]. apply filter_In in Hy.
  apply in_map_iff. exists y. tauto.
Qed.

Lemma remove_obsolete_keys_nodup limit a : NoDup (keys a) -> NoDup (keys (remove_obsolete limit a)).
Proof.
  unfold remove_obsolete. destruct limit as [l|]; auto.
  destruct (Nat.ltb (count_le l a) l); auto. apply NoDup_map_filter.
Qed.

Lemma remove_obsolete_markers_nodup limit a : NoDup (markers a) -> NoDup (markers (remove_obsolete limit a)).
Proof.
  unfold remove_obsolete. destruct limit as [l|]; auto.
  destruct (Nat.ltb (count_le l a) l); auto. apply NoDup_map_filter.
Qed.

(* what is removed: only with a limit L, only keys >= L, only when the archive is full (keys 1..L all present);
   what is kept then is exactly the keys < L *)
Lemma full_archive L a : NoDup (keys a) -> (forall k, In k (keys a) -> 1 <= k) -> L <= count_le L a ->
  forall k, 1 <= k <= L -> In k (keys a).
Proof.
  intros ND Hpos Hc k Hk.
  set (fk := keys (filter (fun p => Nat.leb (fst p) L) a)).
  assert (NDf : NoDup fk) by (apply NoDup_map_filter; auto).
  assert (Hsub : incl fk (seq 1 L)).
  { intros x Hx. unfold fk, keys in Hx. apply in_map_iff in Hx as [[k' m] [E Hx]]. simpl in E; subst.
    apply filter_In in Hx as [Hx Hl]. simpl in Hl. apply Nat.leb_le in Hl.
    apply in_seq. assert (1 <= x) by (apply Hpos; apply In_keys; eauto). lia. }
  assert (Hlen : length (seq 1 L) <= length fk).
  { rewrite seq_length. unfold fk, keys. rewrite map_length. exact Hc. }
  pose proof (NoDup_length_incl NDf Hlen Hsub) as Hincl.
  assert (In k fk) by (apply Hincl; apply in_seq; lia).
  unfold fk, keys in H. apply in_map_iff in H as [[k' m] [E Hx]]. simpl in E; subst.
  apply filter_In in Hx as [Hx _]. apply In_keys; eauto.
Qed.

Lemma remove_obsolete_removed limit a k m :
  NoDup (keys a) -> (forall k, In k (keys a) -> 1 <= k) ->
  In (k, m) a -> ~ In (k, m) (remove_obsolete limit a) ->
  exists L, limit = Some L /\ L <= k /\ (forall j, 1 <= j <= L -> In j (keys a)) /\
            (forall k' m', In (k', m') (remove_obsolete limit a) -> k' < L).
Proof.
  intros ND Hpos Hin Hnot. unfold remove_obsolete in *. destruct limit as [L|]; [|tauto].
  destruct (Nat.ltb_spec (count_le L a) L) as [Hlt|Hge]; [tauto|].
  exists L. split; auto. split; [|split].
  - destruct (Nat.leb_spec L k) as [H|H]; auto. exfalso. apply Hnot. apply filter_In. split; auto.
    simpl. destruct (Nat.leb_spec L k); auto; lia.
  - apply full_archive; auto.
  - intros k' m' H. apply filter_In in H as [_ H]. simpl in H. destruct (Nat.leb_spec L k'); simpl in H; [discriminate|lia].
Qed.

Lemma remove_obsolete_kept limit a k m L :
  limit = Some L -> In (k, m) a -> k < L -> In (k, m) (remove_obsolete limit a).
Proof.
  intros -> Hin Hlt. unfold remove_obsolete. destruct (Nat.ltb (count_le L a) L); auto.
  apply filter_In. split; auto. simpl. destruct (Nat.leb_spec L k); auto; lia.
Qed.

(* ---------- the run step ---------- *)
Definition survives (s s' : state) (x : marker) : Prop := In x (markers (arch s')).

Record run_post (limit : option nat) (fresh : marker) (s s' : state) : Prop := {
  (* the new report directory belongs to the new run (it is created empty) *)
  rp_cur : cur s' = Some fresh;
  (* no previous report: archives untouched *)
  rp_first : cur s = None -> arch s' = arch s;
  (* the previous report becomes archive 1, the most recent of all *)
  rp_prev : forall c, cur s = Some c ->
      In (1, c) (arch s') /\ forall x, In x (markers (arch s')) -> x <> c -> newer_than (arch s') c x;
  (* nothing appears from nowhere *)
  rp_sub : forall x, In x (markers (arch s')) -> In x (markers (arch s)) \/ cur s = Some x;
  (* relative recency order of the surviving archives is preserved *)
  rp_order : forall x y, newer_than (arch s) x y -> In x (markers (arch s')) -> In y (markers (arch s')) ->
      newer_than (arch s') x y;
  (* an archive disappears only under a limit L, only if its number was >= L, only when archives 1..L all
     existed (so that keeping it would exceed the limit), and then every survivor was more recent than it *)
  rp_removed : forall k x, In (k, x) (arch s) -> ~ In x (markers (arch s')) ->
      exists L, limit = Some L /\ L <= k /\ (forall j, 1 <= j <= L -> In j (keys (arch s))) /\
                forall k' y, In (k', y) (arch s) -> In y (markers (arch s')) -> k' < L;
  (* archives within the limit are never lost *)
  rp_kept : forall L k x, limit = Some L -> In (k, x) (arch s) -> k < L -> In x (markers (arch s'));
  rp_nolimit : limit = None -> forall x, In x (markers (arch s)) -> In x (markers (arch s'));
}.

Lemma run_total limit fresh s : exists s', run limit fresh s = Some s'.
Proof.
  unfold run. destruct (cur s) as [c|]; [|eauto].
  destruct (rotate_directories_spec (remove_obsolete limit (arch s))) as [[_ E]|[hi [_ [_ [_ E]]]]];
    rewrite E; eauto.
Qed.

Lemma run_arch_shape limit fresh s s' c :
  cur s = Some c -> run limit fresh s = Some s' ->
  exists f, arch s' = (1, c) :: mapkey f (remove_obsolete limit (arch s)) /\
            (forall k, In k (keys (remove_obsolete limit (arch s))) -> 1 <= k -> f k <> 1) /\ (forall k, k <= f k) /\
            (forall k1 k2, In k1 (keys (remove_obsolete limit (arch s))) -> In k2 (keys (remove_obsolete limit (arch s))) ->
                           k1 < k2 -> f k1 < f k2) /\
            cur s' = Some fresh.
Proof.
  intros Hc Hr. unfold run in Hr. rewrite Hc in Hr.
  set (a := remove_obsolete limit (arch s)) in *.
  destruct (rotate_directories_spec a) as [[Hn1 E]|[hi [Hhi [Hall [Hnot E]]]]]; rewrite E in Hr; inversion Hr; subst; simpl.
  - exists (fun k => k). split; [|split; [|split; [|split]]]; auto.
    + f_equal. unfold mapkey. rewrite <- (map_id a) at 1. apply map_ext. intros [k m]; auto.
    + intros k Hk _ E1. subst. auto.
  - exists (shiftk 1 hi). split; [reflexivity|]. split; [|split; [|split]]; auto.
    + intros k _ Hk E1. exact (shiftk_not1 hi k Hhi Hk E1).
    + intros k. apply shiftk_ge.
    + intros k1 k2 H1 H2 Hlt. apply shiftk_mono; auto. intro; subst; auto.
Qed.

Theorem run_spec limit fresh s s' :
  WF fresh s -> run limit fresh s = Some s' -> run_post limit fresh s s' /\ WF (S fresh) s'.
Proof.
  intros W Hr. destruct (cur s) as [c|] eqn:Hc.
  2:{ unfold run in Hr. rewrite Hc in Hr. inversion Hr; subst; simpl. split.
      - constructor; simpl; auto; try congruence.
        + intros k x Hin Hn. exfalso. apply Hn. apply In_markers; eauto.
        + intros L k x _ Hin _. apply In_markers; eauto.
      - destruct W. constructor; simpl; auto.
        + intros m Hm. specialize (wf_markers_lt0 m Hm). lia.
        + intros c0 E. inversion E; subst. lia.
        + intros c0 E Hin. inversion E; subst. specialize (wf_markers_lt0 _ Hin). lia. }
  destruct (run_arch_shape limit fresh s s' c Hc Hr) as [f [Ha [Hf1 [Hfge [Hmono Hcur']]]]].
  set (a := remove_obsolete limit (arch s)) in *.
  destruct W as [Wk Wp Wm Wlt Wc Wf].
  assert (Asub : forall k m, In (k, m) a -> In (k, m) (arch s)) by (intros; eapply remove_obsolete_sub; eauto).
  assert (Apos : forall k, In k (keys a) -> 1 <= k).
  { intros k Hk. apply In_keys in Hk as [m Hm]. apply Wp. apply In_keys. eauto. }
  assert (Mk' : forall x, In x (markers (arch s')) <-> x = c \/ In x (markers a)).
  { intros x. rewrite Ha. simpl. rewrite markers_mapkey. split; intros [H|H]; auto. }
  split.
  - constructor.
    + exact Hcur'.
    + congruence.
    + intros c0 E. rewrite Hc in E; injection E as <-. rewrite Ha. split; [left; auto|].
      intros x Hx Hne. simpl in Hx. destruct Hx as [Hx|Hx]; [congruence|].
      rewrite markers_mapkey in Hx. apply In_markers in Hx as [k Hk].
      exists 1, (f k). split; [left; auto|]. split.
      * right. apply In_mapkey. eauto.
      * assert (1 <= k) by (apply Apos; apply In_keys; eauto).
        pose proof (Hfge k).
        assert (In k (keys a)) by (apply In_keys; eauto).
        specialize (Hf1 k H1 H). lia.
    + intros x Hx. apply Mk' in Hx as [->|Hx]; auto. left.
      apply In_markers in Hx as [k Hk]. apply In_markers. eauto.
    + intros x y [kx [ky [Hx [Hy Hlt]]]] Sx Sy.
      apply Mk' in Sx. apply Mk' in Sy.
      assert (x <> c) by (intro; subst; apply (Wf c Hc); apply In_markers; eauto).
      assert (y <> c) by (intro; subst; apply (Wf c Hc); apply In_markers; eauto).
      destruct Sx as [?|Sx]; [congruence|]. destruct Sy as [?|Sy]; [congruence|].
      apply In_markers in Sx as [kx' Hx']. apply In_markers in Sy as [ky' Hy'].
      assert (kx' = kx) by (eapply NoDup_markers_fun; eauto). subst kx'.
      assert (ky' = ky) by (eapply NoDup_markers_fun; eauto). subst ky'.
      exists (f kx), (f ky). rewrite Ha. split; [right; apply In_mapkey; eauto|].
      split; [right; apply In_mapkey; eauto|]. apply Hmono; auto; apply In_keys; eauto.
    + intros k x Hin Hn.
      assert (Hna : ~ In (k, x) a). { intro H. apply Hn. apply Mk'. right. apply In_markers; eauto. }
      destruct (remove_obsolete_removed limit (arch s) k x Wk Wp Hin Hna) as [L [El [Hle [Hfull Hkept]]]].
      exists L. split; auto. split; auto. split; auto.
      intros k' y Hy Sy. apply Mk' in Sy as [->|Sy].
      * exfalso. apply (Wf c Hc). apply In_markers; eauto.
      * apply In_markers in Sy as [k'' Hk'']. assert (k'' = k') by (eapply NoDup_markers_fun; eauto). subst.
        eapply Hkept; eauto.
    + intros L k x El Hin Hlt. apply Mk'. right. apply In_markers. exists k.
      eapply remove_obsolete_kept; eauto.
    + intros El x Hx. apply Mk'. right. unfold a. rewrite El. exact Hx.
  - assert (NDa : NoDup (keys a)) by (apply remove_obsolete_keys_nodup; auto).
    assert (NDm : NoDup (markers a)) by (apply remove_obsolete_markers_nodup; auto).
    assert (Finj : forall x y, In x (keys a) -> In y (keys a) -> f x = f y -> x = y).
    { intros x y Hx Hy E. destruct (Nat.lt_trichotomy x y) as [H|[H|H]]; auto.
      - pose proof (Hmono x y Hx Hy H). lia.
      - pose proof (Hmono y x Hy Hx H). lia. }
    constructor; rewrite ?Ha; simpl.
    + rewrite keys_mapkey. constructor.
      * rewrite in_map_iff. intros [k [E Hk]]. apply (Hf1 k); auto.
      * apply NoDup_map_inj_on; auto.
    + intros k [<-|Hk]; [lia|]. rewrite keys_mapkey in Hk. apply in_map_iff in Hk as [k0 [E Hk0]].
      subst. specialize (Apos k0 Hk0).
      pose proof (Hfge k0). lia.
    + rewrite markers_mapkey. constructor; auto. intro H. apply (Wf c Hc).
      apply In_markers in H as [k Hk]. apply In_markers. eauto.
    + intros m [<-|Hm]; [specialize (Wc c Hc); lia|].
      rewrite markers_mapkey in Hm. apply In_markers in Hm as [k Hk].
      assert (m < fresh) by (apply Wlt; apply In_markers; eauto). lia.
    + rewrite Hcur'. intros c0 E. inversion E; subst. lia.
    + rewrite Hcur'. intros c0 E. injection E as <-. intros [E1|H].
      * specialize (Wc c Hc). lia.
      * rewrite markers_mapkey in H. apply In_markers in H as [k Hk].
        assert (fresh < fresh) by (apply Wlt; apply In_markers; eauto). lia.
Qed.

(* ---------- manual deletion ---------- *)
Lemma delete_spec k s : cur (delete k s) = cur s /\
  forall k' m, In (k', m) (arch (delete k s)) <-> In (k', m) (arch s) /\ k' <> k.
Proof.
  unfold delete; simpl. split; auto. intros k' m. rewrite filter_In. simpl.
  destruct (Nat.eqb_spec k' k); simpl; split; intros [A B]; split; auto; congruence.
Qed.

Lemma delete_WF n k s : WF n s -> WF n (delete k s).
Proof.
  intros [Wk Wp Wm Wlt Wc Wf]. unfold delete. constructor; simpl; auto.
  - apply NoDup_map_filter; auto.
  - intros k0 H. apply Wp. unfold keys in *. apply in_map_iff in H as [p [E H]]. apply filter_In in H.
    apply in_map_iff. exists p; tauto.
  - apply NoDup_map_filter; auto.
  - intros m H. apply Wlt. unfold markers in *. apply in_map_iff in H as [p [E H]]. apply filter_In in H.
    apply in_map_iff. exists p; tauto.
  - intros c Hc H. apply (Wf c Hc). unfold markers in *. apply in_map_iff in H as [p [E H]]. apply filter_In in H.
    apply in_map_iff. exists p; tauto.
Qed.

(* ---------- report/ removed by hand ---------- *)
Lemma drop_WF n s : WF n s -> WF n (drop s).
Proof.
  intros [Wk Wp Wm Wlt Wc Wf]. unfold drop. constructor; simpl; auto; discriminate.
Qed.

(* ---------- histories ---------- *)
Fixpoint runs (ops : list op) : nat :=
  match ops with [] => 0 | Run _ :: r => S (runs r) | Delete _ :: r => runs r | Drop :: r => runs r end.

Lemma WF_init : WF 0 init_state.
Proof. constructor; simpl; try constructor; try tauto; try discriminate. Qed.

Lemma exec_WF ops : forall n s, WF n s -> exists s', exec ops n s = Some s' /\ WF (n + runs ops) s'.
Proof.
  induction ops as [|[l|k|] r IH]; intros n s W; simpl.
  - exists s. rewrite Nat.add_0_r. auto.
  - destruct (run_total l n s) as [s1 E]. rewrite E.
    destruct (run_spec l n s s1 W E) as [_ W1].
    destruct (IH (S n) s1 W1) as [s' [E' W']]. exists s'. split; auto.
    replace (n + S (runs r)) with (S n + runs r) by lia. auto.
  - apply IH. apply delete_WF; auto.
  - apply IH. apply drop_WF; auto.
Qed.

Theorem histories_total ops : exists s, exec ops 0 init_state = Some s.
Proof. destruct (exec_WF ops 0 init_state WF_init) as [s [E _]]. eauto. Qed.

Theorem every_run_safe ops limit s s' :
  exec ops 0 init_state = Some s -> run limit (runs ops) s = Some s' -> run_post limit (runs ops) s s'.
Proof.
  intros E R. destruct (exec_WF ops 0 init_state WF_init) as [s0 [E0 W]]. rewrite E in E0. inversion E0; subst s0.
  simpl in W. apply (run_spec limit (runs ops) s s' W R).
Qed.

(* a run started when report/ is gone leaves every archive where it is, whatever the limit *)
Theorem run_without_report_keeps_archives ops limit s s' :
  exec ops 0 init_state = Some s -> cur s = None -> run limit (runs ops) s = Some s' ->
  arch s' = arch s /\ cur s' = Some (runs ops).
Proof.
  intros E C R. destruct (every_run_safe ops limit s s' E R) as [Hc Hf _ _ _ _ _ _]. split; auto.
Qed.

Theorem every_delete_exact k s : cur (delete k s) = cur s /\
  forall k' m, In (k', m) (arch (delete k s)) <-> In (k', m) (arch s) /\ k' <> k.
Proof. exact (delete_spec k s). Qed.
