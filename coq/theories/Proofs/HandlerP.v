From Coq Require Import List Arith Bool Lia.
Import ListNotations.
From LCC Require Import Model.Handler.

Lemma stopped_stays ls q : forall h, h_stopped h = true -> fold_left (handle ls) q h = h.
Proof. induction q as [|i r IH]; simpl; intros h H; auto. unfold handle at 2. rewrite H. auto. Qed.

(* handle_events always terminates its thread: once the sentinel has been put, the handler thread leaves its loop after at
   most |queue| iterations — it has either met a failing listener or reached the sentinel — so join() returns *)
Theorem handler_stops ls evs : h_stopped (run_handler ls (map Ev evs ++ [Sentinel])) = true.
Proof.
  unfold run_handler. rewrite fold_left_app. simpl. unfold handle at 1.
  destruct (h_stopped (fold_left (handle ls) (map Ev evs) h0)) eqn:E; auto.
Qed.

Lemma handle_ev_ok ls h e : h_stopped h = false -> deliver ls e = None ->
  handle ls h (Ev e) = mkH (h_delivered h ++ [e]) None false.
Proof. intros A B. unfold handle. rewrite A, B. reflexivity. Qed.
Lemma handle_ev_fail ls h e c t : h_stopped h = false -> deliver ls e = Some (c, t) ->
  handle ls h (Ev e) = mkH (h_delivered h) (Some (mkFailure c t e)) true.
Proof. intros A B. unfold handle. rewrite A, B. reflexivity. Qed.

Lemma handle_sentinel ls h : h_stopped h = false -> handle ls h Sentinel = mkH (h_delivered h) (h_pending h) true.
Proof. intros A. unfold handle. rewrite A. reflexivity. Qed.

Lemma run_prefix_shape ls : forall evs h, h_stopped h = false -> h_pending h = None ->
  let h' := fold_left (handle ls) (map Ev evs) h in
  (h_pending h' = None /\ h_stopped h' = false /\ h_delivered h' = h_delivered h ++ evs /\
   forall e, In e evs -> deliver ls e = None) \/
  (exists pre e post c t, evs = pre ++ e :: post /\ (forall x, In x pre -> deliver ls x = None) /\
     deliver ls e = Some (c, t) /\ h_pending h' = Some (mkFailure c t e) /\ h_stopped h' = true /\
     h_delivered h' = h_delivered h ++ pre).
Proof.
  induction evs as [|e r IH]; intros h Hs Hp; cbn [map fold_left].
  - left. rewrite app_nil_r. repeat split; auto. intros e [].
  - destruct (deliver ls e) as [[c t]|] eqn:D.
    + right. exists [], e, r, c, t. rewrite (handle_ev_fail ls h e c t Hs D).
      rewrite stopped_stays by reflexivity. simpl. rewrite app_nil_r.
      repeat split; auto. intros x [].
    + rewrite (handle_ev_ok ls h e Hs D).
      destruct (IH (mkH (h_delivered h ++ [e]) None false) eq_refl eq_refl) as [[A [B [C F]]]|[pre [e' [post [c [t [E [F [G [P [S Dl]]]]]]]]]]].
      * left. simpl in *. rewrite <- app_assoc in C. simpl in C. repeat split; auto.
        intros x [<-|Hx]; auto.
      * right. exists (e :: pre), e', post, c, t. simpl in *. rewrite <- app_assoc in Dl. simpl in Dl.
        repeat split; auto; [rewrite E; auto|]. intros x [<-|Hx]; auto.
Qed.

(* a failing backend is never silent: if some listener raises at an event of the run, a failure is pending at the end, it is
   the FIRST failure, nothing was delivered after it, and the caller gets an error carrying its text, whatever the
   signature of the exception class *)
Theorem failure_is_reported ls evs :
  (exists e, In e evs /\ deliver ls e <> None) ->
  exists pre e post c t, evs = pre ++ e :: post /\ (forall x, In x pre -> deliver ls x = None) /\
    deliver ls e = Some (c, t) /\
    let h := run_handler ls (map Ev evs ++ [Sentinel]) in
    h_pending h = Some (mkFailure c t e) /\ h_delivered h = pre /\
    raised_text (reraise (mkFailure c t e)) = t.
Proof.
  intros [e0 [Hin Hd]]. unfold run_handler.
  destruct (run_prefix_shape ls evs h0 eq_refl eq_refl) as [[_ [_ [_ F]]]|[pre [e [post [c [t [E [F [G [P [S Dl]]]]]]]]]]].
  - exfalso. apply Hd. auto.
  - exists pre, e, post, c, t. repeat split; auto.
    + rewrite fold_left_app. simpl. unfold handle at 1. rewrite S. exact P.
    + rewrite fold_left_app. simpl. unfold handle at 1. rewrite S. exact Dl.
    + destruct c; reflexivity.
Qed.

(* and without a failing listener every event is delivered, in order, and nothing is pending *)
Theorem no_failure_all_delivered ls evs : (forall e, In e evs -> deliver ls e = None) ->
  let h := run_handler ls (map Ev evs ++ [Sentinel]) in h_pending h = None /\ h_delivered h = evs.
Proof.
  intros H. unfold run_handler.
  destruct (run_prefix_shape ls evs h0 eq_refl eq_refl) as [[A [B [C _]]]|[pre [e [post [c [t [E [F [G _]]]]]]]]].
  - rewrite fold_left_app. cbn [fold_left]. rewrite (handle_sentinel ls _ B). cbn [h_pending h_delivered]. split; auto.
  - exfalso. rewrite (H e) in G; [discriminate|]. rewrite E. apply in_or_app. right. left. auto.
Qed.
