(* Proofs about Model/Policy.v and Model/Validate.v: PreparedProject.create rejects exactly the invalid projects (C14). *)
From Coq Require Import List Arith Bool Lia Relations.
Import ListNotations.
From LCC Require Import Model.Proj Model.Fixture Model.Deps Model.Policy Model.Validate Proofs.FixtureP Proofs.DepsP.

(* ================================================================ specification: what an invalid project is *)
(* a node (suite: on_test = false, test: on_test = true) with metadata md violates the policy, by kind *)
Definition PolInvalidNode (pol : policy) (on_test : bool) (md : metadata) (r : reason) : Prop :=
  match r with
  | RPolUnknownProp =>
      pol_no_unknown_props pol = true /\
      exists k, In k (map fst (md_props md)) /\
                ~ exists rule, In rule (pol_props pol) /\ pr_applies on_test rule = true /\ pr_name rule = k
  | RPolForbiddenProp =>
      exists k rule, In k (map fst (md_props md)) /\ In rule (pol_props pol) /\ pr_applies on_test rule = false /\ pr_name rule = k
  | RPolMissingProp =>
      exists rule, In rule (pol_props pol) /\ pr_applies on_test rule = true /\ pr_required rule = true /\
                   ~ In (pr_name rule) (map fst (md_props md))
  | RPolBadValue =>
      exists k v rule, In (k, v) (md_props md) /\ find_rule (available_props pol on_test) k = Some rule /\
                       pr_values rule <> [] /\ ~ In v (pr_values rule)
  | RPolUnknownTag =>
      pol_no_unknown_tags pol = true /\
      exists t, In t (md_tags md) /\ ~ exists rule, In rule (pol_tags pol) /\ tr_applies on_test rule = true /\ tr_name rule = t
  | RPolForbiddenTag =>
      exists t rule, In t (md_tags md) /\ In rule (pol_tags pol) /\ tr_applies on_test rule = false /\ tr_name rule = t
  | _ => False
  end.

(* some scheduled suite or test violates the policy *)
Definition PolInvalid (pol : policy) (mm : metadata_map) (suites : list suite) (r : reason) : Prop :=
  (exists ps, In ps (all_suites_with_path suites) /\ PolInvalidNode pol false (md_of (mm_suites mm) (fst ps)) r) \/
  (exists ps t, In ps (all_suites_with_path suites) /\ In t (su_tests (snd ps)) /\
                PolInvalidNode pol true (md_of (mm_tests mm) (fst ps ++ [tt_name t])) r).

(* The declarative list of C14. fixture_table: the last definition of a name wins, after the two builtin fixtures;
   find_test: the test loaded under a path; Edge / DepEdge: direct dependency of fixtures / of tests. *)
Definition InvalidBecause (x : xproject) (r : reason) : Prop :=
  let p := xp_proj x in
  PolInvalid (xp_policy x) (xp_metadata x) (p_suites p) r \/
  DepInvalid (find_test (p_suites p)) (find_test (p_all_suites p)) r \/
  (r = RFxBuiltinClash /\ exists fx, In fx (p_fixtures p) /\ is_builtin_name (fx_name fx)) \/
  FxInvalid (fixture_table (p_fixtures p)) r \/
  UseInvalid (fixture_table (p_fixtures p)) (p_suites p) r.

Definition Invalid (x : xproject) : Prop := exists r, InvalidBecause x r.

(* the two modelling assumptions on the input (both hold for every project the loaders produce) *)
Definition well_loaded (x : xproject) : Prop :=
  user_fixtures (p_fixtures (xp_proj x)) /\
  sched_consistent (find_test (p_suites (xp_proj x))) (find_test (p_all_suites (xp_proj x))).

(* ================================================================ policy *)
Lemma for_each_guard_ok : forall {A} (c : A -> bool) e0 l,
  for_each (fun x => if c x then Ok tt else Err e0) l = Ok tt <-> forall x, In x l -> c x = true.
Proof.
  intros A c e0 l. rewrite for_each_ok. split; intros H x Hx; specialize (H x Hx).
  - destruct (c x); [reflexivity | discriminate].
  - rewrite H. reflexivity.
Qed.

Lemma for_each_guard_err : forall {A} (c : A -> bool) e0 l e,
  for_each (fun x => if c x then Ok tt else Err e0) l = Err e -> e = e0 /\ exists x, In x l /\ c x = false.
Proof.
  intros A c e0 l e H. destruct (for_each_err _ _ _ H) as [x [Hx Hc]]. destruct (c x) eqn:E; [discriminate|].
  inversion Hc. split; [reflexivity | exists x; auto].
Qed.

Lemma for_each_nguard_ok : forall {A} (c : A -> bool) e0 l,
  for_each (fun x => if c x then Err e0 else Ok tt) l = Ok tt <-> forall x, In x l -> c x = false.
Proof.
  intros A c e0 l. rewrite for_each_ok. split; intros H x Hx; specialize (H x Hx).
  - destruct (c x); [discriminate | reflexivity].
  - rewrite H. reflexivity.
Qed.

Lemma for_each_nguard_err : forall {A} (c : A -> bool) e0 l e,
  for_each (fun x => if c x then Err e0 else Ok tt) l = Err e -> e = e0 /\ exists x, In x l /\ c x = true.
Proof.
  intros A c e0 l e H. destruct (for_each_err _ _ _ H) as [x [Hx Hc]]. destruct (c x) eqn:E; [|discriminate].
  inversion Hc. split; [reflexivity | exists x; auto].
Qed.

Lemma avail_prop_name : forall pol ot k,
  name_mem k (map pr_name (available_props pol ot)) = true <->
  exists rule, In rule (pol_props pol) /\ pr_applies ot rule = true /\ pr_name rule = k.
Proof.
  intros pol ot k. rewrite name_mem_In, in_map_iff. unfold available_props. split.
  - intros [rule [Hn Hin]]. apply filter_In in Hin. exists rule. tauto.
  - intros [rule [Hin [Ha Hn]]]. exists rule. split; [exact Hn | apply filter_In; auto].
Qed.

Lemma forb_prop_name : forall pol ot k,
  name_mem k (forbidden_props pol ot) = true <->
  exists rule, In rule (pol_props pol) /\ pr_applies ot rule = false /\ pr_name rule = k.
Proof.
  intros pol ot k. rewrite name_mem_In. unfold forbidden_props. rewrite in_map_iff. split.
  - intros [rule [Hn Hin]]. apply filter_In in Hin. destruct Hin as [Hin Ha]. apply negb_true_iff in Ha. exists rule. auto.
  - intros [rule [Hin [Ha Hn]]]. exists rule. split; [exact Hn | apply filter_In; split; [exact Hin | apply negb_true_iff; exact Ha]].
Qed.

Lemma avail_tag_name : forall pol ot k,
  name_mem k (available_tags pol ot) = true <->
  exists rule, In rule (pol_tags pol) /\ tr_applies ot rule = true /\ tr_name rule = k.
Proof.
  intros pol ot k. rewrite name_mem_In. unfold available_tags. rewrite in_map_iff. split.
  - intros [rule [Hn Hin]]. apply filter_In in Hin. exists rule. tauto.
  - intros [rule [Hin [Ha Hn]]]. exists rule. split; [exact Hn | apply filter_In; auto].
Qed.

Lemma forb_tag_name : forall pol ot k,
  name_mem k (forbidden_tags pol ot) = true <->
  exists rule, In rule (pol_tags pol) /\ tr_applies ot rule = false /\ tr_name rule = k.
Proof.
  intros pol ot k. rewrite name_mem_In. unfold forbidden_tags. rewrite in_map_iff. split.
  - intros [rule [Hn Hin]]. apply filter_In in Hin. destruct Hin as [Hin Ha]. apply negb_true_iff in Ha. exists rule. auto.
  - intros [rule [Hin [Ha Hn]]]. exists rule. split; [exact Hn | apply filter_In; split; [exact Hin | apply negb_true_iff; exact Ha]].
Qed.

Lemma not_true_false : forall b : bool, b <> true <-> b = false.
Proof. intros []; split; intros; congruence. Qed.

(* the six steps of _check_compliance as separate functions (definitionally what check_compliance binds together) *)
Definition step_unknown_props pol ot md :=
  if pol_no_unknown_props pol
  then for_each (fun k => if name_mem k (map pr_name (available_props pol ot)) then Ok tt else Err (ValidationError RPolUnknownProp))
                (map fst (md_props md))
  else Ok tt.
Definition step_forbidden_props pol ot md :=
  for_each (fun k => if name_mem k (forbidden_props pol ot) then Err (ValidationError RPolForbiddenProp) else Ok tt) (map fst (md_props md)).
Definition step_required pol ot md :=
  for_each (fun r => if name_mem (pr_name r) (map fst (md_props md)) then Ok tt else Err (ValidationError RPolMissingProp))
           (filter pr_required (available_props pol ot)).
Definition value_ok pol ot (kv : name * name) : bool :=
  match find_rule (available_props pol ot) (fst kv) with
  | None => true
  | Some r => match pr_values r with [] => true | vals => name_mem (snd kv) vals end
  end.
Definition step_values pol ot md :=
  for_each (fun kv => if value_ok pol ot kv then Ok tt else Err (ValidationError RPolBadValue)) (md_props md).
Definition step_unknown_tags pol ot md :=
  if pol_no_unknown_tags pol
  then for_each (fun t => if name_mem t (available_tags pol ot) then Ok tt else Err (ValidationError RPolUnknownTag)) (md_tags md)
  else Ok tt.
Definition step_forbidden_tags pol ot md :=
  for_each (fun t => if name_mem t (forbidden_tags pol ot) then Err (ValidationError RPolForbiddenTag) else Ok tt) (md_tags md).

Lemma for_each_ext : forall {A} (f g : A -> result unit) l, (forall x, f x = g x) -> for_each f l = for_each g l.
Proof. intros A f g l H. induction l as [|a l IH]; simpl; [reflexivity|]. rewrite H, IH. reflexivity. Qed.

Lemma step_values_eq : forall pol ot md,
  for_each (fun kv => match find_rule (available_props pol ot) (fst kv) with
                      | None => Ok tt
                      | Some r => match pr_values r with
                                  | [] => Ok tt
                                  | vals => if name_mem (snd kv) vals then Ok tt else Err (ValidationError RPolBadValue)
                                  end
                      end) (md_props md) = step_values pol ot md.
Proof.
  intros pol ot md. unfold step_values. apply for_each_ext. intros kv.
  unfold value_ok. destruct (find_rule (available_props pol ot) (fst kv)) as [r|]; [|reflexivity].
  destruct (pr_values r) as [|v vs]; [reflexivity|]. destruct (name_mem (snd kv) (v :: vs)); reflexivity.
Qed.

Lemma check_compliance_steps : forall pol ot md,
  check_compliance pol ot md =
  bind (step_unknown_props pol ot md) (fun _ => bind (step_forbidden_props pol ot md) (fun _ =>
  bind (step_required pol ot md) (fun _ => bind (step_values pol ot md) (fun _ =>
  bind (step_unknown_tags pol ot md) (fun _ => step_forbidden_tags pol ot md))))).
Proof. intros pol ot md. unfold check_compliance. rewrite step_values_eq. reflexivity. Qed.

Lemma value_ok_false : forall pol ot kv, value_ok pol ot kv = false <->
  exists rule, find_rule (available_props pol ot) (fst kv) = Some rule /\ pr_values rule <> [] /\ ~ In (snd kv) (pr_values rule).
Proof.
  intros pol ot kv. unfold value_ok. destruct (find_rule (available_props pol ot) (fst kv)) as [r|].
  - destruct (pr_values r) as [|v vs] eqn:Hv.
    + split; [discriminate | intros [rule [H1 [H2 _]]]; inversion H1; subst; congruence].
    + rewrite name_mem_false. split.
      * intros H. exists r. rewrite Hv. repeat split; [discriminate | exact H].
      * intros [rule [H1 [_ H3]]]. inversion H1. subst. rewrite Hv in H3. exact H3.
  - split; [discriminate | intros [rule [H1 _]]; discriminate].
Qed.

Lemma check_compliance_sound : forall pol ot md e, check_compliance pol ot md = Err e ->
  exists r, e = ValidationError r /\ PolInvalidNode pol ot md r.
Proof.
  intros pol ot md e. rewrite check_compliance_steps.
  destruct (result_unit_cases (step_unknown_props pol ot md)) as [H1|[e1 H1]]; rewrite H1; simpl.
  2:{ intros H. inversion H. subst e1. unfold step_unknown_props in H1. destruct (pol_no_unknown_props pol) eqn:Hp; [|discriminate].
      destruct (for_each_guard_err _ _ _ _ H1) as [He [k [Hk Hc]]]. subst e. exists RPolUnknownProp. split; [reflexivity|].
      simpl. split; [exact Hp|]. exists k. split; [exact Hk|]. intros Hex. apply avail_prop_name in Hex. congruence. }
  destruct (result_unit_cases (step_forbidden_props pol ot md)) as [H2|[e2 H2]]; rewrite H2; simpl.
  2:{ intros H. inversion H. subst e2. destruct (for_each_nguard_err _ _ _ _ H2) as [He [k [Hk Hc]]]. subst e.
      exists RPolForbiddenProp. split; [reflexivity|]. apply forb_prop_name in Hc. destruct Hc as [rule Hc]. exists k, rule. tauto. }
  destruct (result_unit_cases (step_required pol ot md)) as [H3|[e3 H3]]; rewrite H3; simpl.
  2:{ intros H. inversion H. subst e3. destruct (for_each_guard_err _ _ _ _ H3) as [He [rule [Hk Hc]]]. subst e.
      exists RPolMissingProp. split; [reflexivity|]. apply filter_In in Hk. destruct Hk as [Hk Hreq].
      unfold available_props in Hk. apply filter_In in Hk. exists rule. apply name_mem_false in Hc. tauto. }
  destruct (result_unit_cases (step_values pol ot md)) as [H4|[e4 H4]]; rewrite H4; simpl.
  2:{ intros H. inversion H. subst e4. destruct (for_each_guard_err _ _ _ _ H4) as [He [[k v] [Hk Hc]]]. subst e.
      exists RPolBadValue. split; [reflexivity|]. apply value_ok_false in Hc. destruct Hc as [rule Hc]. exists k, v, rule. tauto. }
  destruct (result_unit_cases (step_unknown_tags pol ot md)) as [H5|[e5 H5]]; rewrite H5; simpl.
  2:{ intros H. inversion H. subst e5. unfold step_unknown_tags in H5. destruct (pol_no_unknown_tags pol) eqn:Hp; [|discriminate].
      destruct (for_each_guard_err _ _ _ _ H5) as [He [k [Hk Hc]]]. subst e. exists RPolUnknownTag. split; [reflexivity|].
      simpl. split; [exact Hp|]. exists k. split; [exact Hk|]. intros Hex. apply avail_tag_name in Hex. congruence. }
  intros H6. destruct (for_each_nguard_err _ _ _ _ H6) as [He [k [Hk Hc]]]. subst e.
  exists RPolForbiddenTag. split; [reflexivity|]. apply forb_tag_name in Hc. destruct Hc as [rule Hc]. exists k, rule. tauto.
Qed.

Lemma check_compliance_complete : forall pol ot md, check_compliance pol ot md = Ok tt ->
  forall r, ~ PolInvalidNode pol ot md r.
Proof.
  intros pol ot md. rewrite check_compliance_steps.
  destruct (result_unit_cases (step_unknown_props pol ot md)) as [H1|[e1 H1]]; rewrite H1; simpl; [|discriminate].
  destruct (result_unit_cases (step_forbidden_props pol ot md)) as [H2|[e2 H2]]; rewrite H2; simpl; [|discriminate].
  destruct (result_unit_cases (step_required pol ot md)) as [H3|[e3 H3]]; rewrite H3; simpl; [|discriminate].
  destruct (result_unit_cases (step_values pol ot md)) as [H4|[e4 H4]]; rewrite H4; simpl; [|discriminate].
  destruct (result_unit_cases (step_unknown_tags pol ot md)) as [H5|[e5 H5]]; rewrite H5; simpl; [|discriminate].
  intros H6 r. destruct r; simpl; try (intros HF; exact HF).
  - intros [Hp [k [Hk Hno]]]. unfold step_unknown_props in H1. rewrite Hp in H1.
    apply Hno. apply avail_prop_name. exact (proj1 (for_each_guard_ok _ _ _) H1 k Hk).
  - intros [k [rule [Hk Hr]]]. pose proof (proj1 (for_each_nguard_ok _ _ _) H2 k Hk) as Hc.
    assert (name_mem k (forbidden_props pol ot) = true) by (apply forb_prop_name; exists rule; exact Hr). congruence.
  - intros [rule [Hin [Ha [Hreq Hno]]]].
    assert (Hf : In rule (filter pr_required (available_props pol ot))).
    { apply filter_In. split; [|exact Hreq]. unfold available_props. apply filter_In. auto. }
    pose proof (proj1 (for_each_guard_ok _ _ _) H3 rule Hf) as Hc. apply name_mem_In in Hc. exact (Hno Hc).
  - intros [k [v [rule [Hin Hr]]]]. pose proof (proj1 (for_each_guard_ok _ _ _) H4 (k, v) Hin) as Hc.
    assert (value_ok pol ot (k, v) = false) by (apply value_ok_false; exists rule; exact Hr). congruence.
  - intros [Hp [k [Hk Hno]]]. unfold step_unknown_tags in H5. rewrite Hp in H5.
    apply Hno. apply avail_tag_name. exact (proj1 (for_each_guard_ok _ _ _) H5 k Hk).
  - intros [k [rule [Hk Hr]]]. pose proof (proj1 (for_each_nguard_ok _ _ _) H6 k Hk) as Hc.
    assert (name_mem k (forbidden_tags pol ot) = true) by (apply forb_tag_name; exists rule; exact Hr). congruence.
Qed.

Lemma check_suites_compliance_sound : forall pol mm suites e, check_suites_compliance pol mm suites = Err e ->
  exists r, e = ValidationError r /\ PolInvalid pol mm suites r.
Proof.
  intros pol mm suites e H. unfold check_suites_compliance in H. destruct (for_each_err _ _ _ H) as [ps [Hps Hc]].
  unfold check_suite_compliance in Hc.
  destruct (result_unit_cases (check_compliance pol false (md_of (mm_suites mm) (fst ps)))) as [H1|[e1 H1]]; rewrite H1 in Hc; simpl in Hc.
  - destruct (for_each_err _ _ _ Hc) as [t [Ht Hct]]. destruct (check_compliance_sound _ _ _ _ Hct) as [r [He Hr]].
    exists r. split; [exact He|]. right. exists ps, t. auto.
  - inversion Hc. subst e1. destruct (check_compliance_sound _ _ _ _ H1) as [r [He Hr]].
    exists r. split; [exact He|]. left. exists ps. auto.
Qed.

Lemma check_suites_compliance_complete : forall pol mm suites, check_suites_compliance pol mm suites = Ok tt ->
  forall r, ~ PolInvalid pol mm suites r.
Proof.
  intros pol mm suites H r. unfold check_suites_compliance in H. pose proof (proj1 (for_each_ok _ _) H) as Hall.
  intros [[ps [Hps Hr]]|[ps [t [Hps [Ht Hr]]]]]; specialize (Hall ps Hps); unfold check_suite_compliance in Hall;
    destruct (result_unit_cases (check_compliance pol false (md_of (mm_suites mm) (fst ps)))) as [H1|[e1 H1]]; rewrite H1 in Hall;
    simpl in Hall; try discriminate.
  - exact (check_compliance_complete _ _ _ H1 r Hr).
  - exact (check_compliance_complete _ _ _ (proj1 (for_each_ok _ _) Hall t Ht) r Hr).
Qed.

(* ================================================================ transfer along equal fixture tables *)
Lemma Edge_ext : forall look look' : lookup, (forall m, look m = look' m) -> forall a b, Edge look a b -> Edge look' a b.
Proof. intros look look' H a b [fx [H1 H2]]. exists fx. rewrite <- H. auto. Qed.

Lemma FxInvalid_ext : forall (look look' : lookup) r, (forall m, look m = look' m) -> FxInvalid look r -> FxInvalid look' r.
Proof.
  intros look look' r H. destruct r; simpl; auto.
  - rewrite <- H. auto.
  - intros [a Ha]. exists a. revert Ha. apply clos_trans_mono. apply Edge_ext. exact H.
  - intros [a [b [H1 H2]]]. exists a, b. split; [exact (Edge_ext _ _ H _ _ H1) | rewrite <- H; exact H2].
  - intros [a [fa [b [fb Hx]]]]. exists a, fa, b, fb. rewrite <- !H. exact Hx.
  - intros [a [fa [b [fb Hx]]]]. exists a, fa, b, fb. rewrite <- !H. exact Hx.
Qed.

Lemma UseInvalid_ext : forall (look look' : lookup) suites r, (forall m, look m = look' m) -> UseInvalid look suites r -> UseInvalid look' suites r.
Proof.
  intros look look' suites r H. destruct r; simpl; auto.
  - intros [s [f Hx]]. exists s, f. rewrite <- H. exact Hx.
  - intros [s [f [fx Hx]]]. exists s, f, fx. rewrite <- H. exact Hx.
  - intros [s [f [fx Hx]]]. exists s, f, fx. rewrite <- H. exact Hx.
  - intros [s [t [f Hx]]]. exists s, t, f. rewrite <- H. exact Hx.
Qed.

(* ================================================================ PreparedProject.create *)
Theorem validate_sound : forall x e, well_loaded x -> validate x = Err e ->
  exists r, e = ValidationError r /\ InvalidBecause x r.
Proof.
  intros x e [Huser Hcons]. unfold validate, InvalidBecause. set (p := xp_proj x) in *.
  destruct (result_unit_cases (check_suites_compliance (xp_policy x) (xp_metadata x) (p_suites p))) as [H1|[e1 H1]]; rewrite H1; simpl.
  2:{ intros H. inversion H. subst e1. destruct (check_suites_compliance_sound _ _ _ _ H1) as [r [He Hr]]. exists r. auto. }
  destruct (resolve_tests_dependencies (p_suites p) (p_all_suites p)) as [resolved|e2] eqn:H2; simpl.
  2:{ intros H. inversion H. subst e2. destruct (resolve_tests_dependencies_sound _ _ _ Hcons H2) as [r [He Hr]]. exists r. auto. }
  destruct (build_registry_spec _ Huser) as [[Hclash Hb]|[Hnoclash [reg [Hb [Hwf Hfind]]]]]; rewrite Hb; simpl.
  { intros H. inversion H. exists RFxBuiltinClash. split; [reflexivity|]. right. right. left. auto. }
  destruct (result_unit_cases (check_dependencies reg)) as [H4|[e4 H4]]; rewrite H4; simpl.
  2:{ intros H. inversion H. subst e4. destruct (check_dependencies_sound _ _ Hwf H4) as [r [He Hr]]. exists r. split; [exact He|].
      right. right. right. left. exact (FxInvalid_ext _ _ _ Hfind Hr). }
  destruct (result_unit_cases (check_fixtures_in_suites reg (p_suites p))) as [H5|[e5 H5]]; rewrite H5; simpl; [discriminate|].
  intros H. inversion H. subst e5. destruct (check_fixtures_in_suites_sound _ _ _ H5) as [r [He Hr]]. exists r. split; [exact He|].
  right. right. right. right. exact (UseInvalid_ext _ _ _ _ Hfind Hr).
Qed.

Lemma validate_ok_inv : forall x pp, validate x = Ok pp ->
  check_suites_compliance (xp_policy x) (xp_metadata x) (p_suites (xp_proj x)) = Ok tt /\
  resolve_tests_dependencies (p_suites (xp_proj x)) (p_all_suites (xp_proj x)) = Ok (pp_resolved pp) /\
  build_registry (p_fixtures (xp_proj x)) = Ok (pp_registry pp) /\
  check_dependencies (pp_registry pp) = Ok tt /\
  check_fixtures_in_suites (pp_registry pp) (p_suites (xp_proj x)) = Ok tt.
Proof.
  intros x pp. unfold validate.
  destruct (result_unit_cases (check_suites_compliance (xp_policy x) (xp_metadata x) (p_suites (xp_proj x)))) as [H1|[e1 H1]];
    rewrite H1; simpl; [|discriminate].
  destruct (resolve_tests_dependencies _ _) as [resolved|e2] eqn:H2; simpl; [|discriminate].
  destruct (build_registry _) as [reg|e3] eqn:H3; simpl; [|discriminate].
  destruct (result_unit_cases (check_dependencies reg)) as [H4|[e4 H4]]; rewrite H4; simpl; [|discriminate].
  destruct (result_unit_cases (check_fixtures_in_suites reg (p_suites (xp_proj x)))) as [H5|[e5 H5]]; rewrite H5; simpl; [|discriminate].
  intros H. inversion H. simpl. auto.
Qed.

Theorem validate_complete : forall x pp, well_loaded x -> validate x = Ok pp -> forall r, ~ InvalidBecause x r.
Proof.
  intros x pp [Huser Hcons] Hok r. destruct (validate_ok_inv _ _ Hok) as [H1 [H2 [H3 [H4 H5]]]].
  destruct (build_registry_spec _ Huser) as [[Hclash Hb]|[Hnoclash [reg [Hb [Hwf Hfind]]]]]; [congruence|].
  rewrite Hb in H3. inversion H3 as [Hreg]. rewrite <- Hreg in *.
  assert (Hsym : forall m, fixture_table (p_fixtures (xp_proj x)) m = reg_find reg m) by (intros m; symmetry; apply Hfind).
  intros [Hr|[Hr|[[_ [fx [Hin Hb']]]|[Hr|Hr]]]].
  - exact (check_suites_compliance_complete _ _ _ H1 r Hr).
  - exact (resolve_tests_dependencies_complete _ _ _ Hcons H2 r Hr).
  - exact (Hnoclash fx Hin Hb').
  - exact (check_dependencies_complete _ H4 r (FxInvalid_ext _ _ _ Hsym Hr)).
  - exact (check_fixtures_in_suites_complete _ _ H5 r (UseInvalid_ext _ _ _ _ Hsym Hr)).
Qed.

(* never another error, never out of fuel *)
Theorem validate_total : forall x, well_loaded x -> (exists pp, validate x = Ok pp) \/ (exists r, validate x = Err (ValidationError r)).
Proof.
  intros x Hwl. destruct (validate x) as [pp|e] eqn:H; [left; exists pp; reflexivity|].
  right. destruct (validate_sound _ _ Hwl H) as [r [He _]]. exists r. subst e. reflexivity.
Qed.

Theorem rejects_exactly : forall x, well_loaded x ->
  ((exists r, validate x = Err (ValidationError r)) <-> Invalid x) /\
  ((exists pp, validate x = Ok pp) \/ (exists r, validate x = Err (ValidationError r))).
Proof.
  intros x Hwl. split; [|exact (validate_total x Hwl)]. split.
  - intros [r Hr]. destruct (validate_sound _ _ Hwl Hr) as [r' [_ Hinv]]. exists r'. exact Hinv.
  - intros [r Hinv]. destruct (validate_total x Hwl) as [[pp Hok]|Herr]; [|exact Herr].
    exfalso. exact (validate_complete _ _ Hwl Hok r Hinv).
Qed.

(* the check that rejects names a kind of invalidity the project really has *)
Theorem rejection_reason_sound : forall x r, well_loaded x -> validate x = Err (ValidationError r) -> InvalidBecause x r.
Proof.
  intros x r Hwl H. destruct (validate_sound _ _ Hwl H) as [r' [He Hinv]]. inversion He. subst r'. exact Hinv.
Qed.

(* ================================================================ after validation: the registry is sound for the runner *)
Theorem validated_registry_ok : forall x pp, well_loaded x -> validate x = Ok pp -> registry_ok (pp_registry pp).
Proof.
  intros x pp [Huser _] Hok. destruct (validate_ok_inv _ _ Hok) as [_ [_ [H3 [H4 _]]]].
  destruct (build_registry_spec _ Huser) as [[_ Hb]|[_ [reg [Hb [Hwf Hfind]]]]]; [congruence|].
  rewrite Hb in H3. inversion H3 as [Hreg]. rewrite <- Hreg in *.
  split; [exact Hwf|]. split; [|exact H4].
  intros n fx Hn. rewrite Hfind in Hn. exact (last_named_name _ _ _ Hn).
Qed.

(* no LookupError / AssertionError / KeyError from ScheduledFixtures when the setups run in schedule order *)
Theorem no_structural_failure : forall x pp force_disabled, well_loaded x -> validate x = Ok pp ->
  dry_run (pp_registry pp) (p_suites (xp_proj x)) force_disabled = Ok tt.
Proof.
  intros x pp fd Hwl Hok. apply dry_run_ok.
  - exact (validated_registry_ok _ _ Hwl Hok).
  - destruct (validate_ok_inv _ _ Hok) as [_ [_ [_ [_ H5]]]]. exact H5.
Qed.

(* the declarative form, per schedule: on a validated registry every schedule exists, is duplicate free, contains exactly the
   fixtures of its scope reachable from the direct ones, and lists every fixture after its same-scope parameters *)
Theorem schedules_sound : forall x pp direct sc, well_loaded x -> validate x = Ok pp ->
  (forall f, In f direct -> reg_mem (pp_registry pp) f = true) ->
  exists fxs, get_scheduled_fixtures_for_scope (pp_registry pp) direct sc = Ok fxs /\ level_facts (pp_registry pp) direct sc fxs.
Proof.
  intros x pp direct sc Hwl Hok Hd. apply level_spec; [exact (validated_registry_ok _ _ Hwl Hok) | exact Hd].
Qed.

(* `lcc check` (and `lcc run` without a filter): suites = load_suites(); the second input assumption is then trivial *)
Lemma unfiltered_well_loaded : forall x, user_fixtures (p_fixtures (xp_proj x)) -> p_suites (xp_proj x) = p_all_suites (xp_proj x) ->
  well_loaded x.
Proof.
  intros x Hu Heq. split; [exact Hu|]. rewrite Heq. intros p t Hp. exists t. auto.
Qed.

Theorem lcc_check_rejects_exactly : forall x, user_fixtures (p_fixtures (xp_proj x)) -> p_suites (xp_proj x) = p_all_suites (xp_proj x) ->
  ((exists r, validate x = Err (ValidationError r)) <-> Invalid x) /\
  ((exists pp, validate x = Ok pp) \/ (exists r, validate x = Err (ValidationError r))).
Proof. intros x Hu Heq. apply rejects_exactly. exact (unfiltered_well_loaded x Hu Heq). Qed.
