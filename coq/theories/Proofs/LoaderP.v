(* Proofs about Model/Loader.v, and the source-level specification (declared_item etc.) the theorems of Props/C13.v refer to. *)
From Coq Require Import List Arith Bool NArith Lia Permutation.
Import ListNotations.
From LCC Require Import Model.Loader.

(* ------------------------------------------------------------------ strings, membership, sorting *)
Lemma str_eqb_eq : forall a b, str_eqb a b = true <-> a = b.
Proof.
  induction a as [|x a IH]; destruct b as [|y b]; simpl; split; intro H; try reflexivity; try discriminate.
  - apply andb_true_iff in H. destruct H as [H1 H2]. apply N.eqb_eq in H1. apply IH in H2. congruence.
  - inversion H; subst. apply andb_true_iff. split; [apply N.eqb_refl|apply IH; reflexivity].
Qed.

Lemma mem_str_In : forall x l, mem_str x l = true <-> In x l.
Proof.
  induction l as [|y l IH]; simpl; split; intro H; try discriminate; try tauto.
  - apply orb_true_iff in H. destruct H as [H|H]; [left; symmetry; apply str_eqb_eq; assumption|right; apply IH; assumption].
  - apply orb_true_iff. destruct H as [H|H]; [left; apply str_eqb_eq; auto|right; apply IH; assumption].
Qed.

Lemma mem_str_false : forall x l, mem_str x l = false <-> ~ In x l.
Proof.
  intros. rewrite <- mem_str_In. destruct (mem_str x l); split; intro H; try reflexivity; try discriminate; try congruence.
Qed.

Lemma insert_by_perm : forall A (leb : A -> A -> bool) x l, Permutation (insert_by leb x l) (x :: l).
Proof.
  induction l as [|y l IH]; simpl; [reflexivity|]. destruct (leb x y); [reflexivity|].
  rewrite IH. apply perm_swap.
Qed.

Lemma sort_by_perm : forall A (leb : A -> A -> bool) l, Permutation (sort_by leb l) l.
Proof.
  induction l as [|x l IH]; simpl; [reflexivity|]. rewrite insert_by_perm. constructor. assumption.
Qed.

Lemma sort_by_In : forall A (leb : A -> A -> bool) l x, In x (sort_by leb l) <-> In x l.
Proof. intros. split; apply Permutation_in; [|symmetry]; apply sort_by_perm. Qed.

Lemma sort_by_Forall : forall A (leb : A -> A -> bool) (P : A -> Prop) l, Forall P l -> Forall P (sort_by leb l).
Proof. intros. rewrite Forall_forall in *. intros x Hx. apply H. apply sort_by_In in Hx. assumption. Qed.

Lemma filter_Forall : forall A (f : A -> bool) (P : A -> Prop) l, Forall P l -> Forall P (filter f l).
Proof. intros. rewrite Forall_forall in *. intros x Hx. apply filter_In in Hx. apply H. tauto. Qed.

Lemma dedupe_last_k_In : forall A (key : A -> item) l x, In x (dedupe_last_k key l) -> In x l.
Proof.
  induction l as [|y l IH]; simpl; intros x H; [tauto|].
  destruct (mem_str _ _); [right; auto|]. destruct H; [left; assumption|right; auto].
Qed.

Lemma symbols_k_In : forall A (key : A -> item) f l x, In x (symbols_k key f l) -> In x l /\ f (key x) = true.
Proof.
  unfold symbols_k, namespace_k. intros A key f l x H. apply sort_by_In in H. apply filter_In in H. destruct H as [H1 H2].
  apply sort_by_In in H1. apply dedupe_last_k_In in H1. tauto.
Qed.

(* ------------------------------------------------------------------ add_tests / add_suites / sequence *)
Lemma NoDup_snoc : forall A (l : list A) x, NoDup l -> ~ In x l -> NoDup (l ++ [x]).
Proof.
  induction l; simpl; intros x ND H.
  - constructor; [tauto|constructor].
  - inversion ND; subst. constructor.
    + rewrite in_app_iff. simpl. intuition.
    + apply IHl; tauto.
Qed.

Lemma add_tests_ok : forall l acc r, add_tests acc l = Ok r ->
  r = acc ++ l /\ (NoDup (map lt_name acc) -> NoDup (map lt_name r)) /\ (NoDup (map lt_desc acc) -> NoDup (map lt_desc r)).
Proof.
  induction l as [|t l IH]; simpl; intros acc r H.
  - inversion H; subst. rewrite app_nil_r. tauto.
  - destruct (mem_str (lt_desc t) (map lt_desc acc)) eqn:Hd; [discriminate|].
    destruct (mem_str (lt_name t) (map lt_name acc)) eqn:Hn; [discriminate|].
    apply IH in H. destruct H as [E [H1 H2]]. split; [rewrite E, <- app_assoc; reflexivity|].
    apply mem_str_false in Hd. apply mem_str_false in Hn. split; intro ND.
    + apply H1. rewrite map_app. simpl. apply NoDup_snoc; assumption.
    + apply H2. rewrite map_app. simpl. apply NoDup_snoc; assumption.
Qed.

Lemma add_suites_ok : forall l acc r, add_suites acc l = Ok r ->
  r = acc ++ l /\ (NoDup (map ls_name acc) -> NoDup (map ls_name r)) /\ (NoDup (map ls_desc acc) -> NoDup (map ls_desc r)).
Proof.
  induction l as [|t l IH]; simpl; intros acc r H.
  - inversion H; subst. rewrite app_nil_r. tauto.
  - destruct (mem_str (ls_desc t) (map ls_desc acc)) eqn:Hd; [discriminate|].
    destruct (mem_str (ls_name t) (map ls_name acc)) eqn:Hn; [discriminate|].
    apply IH in H. destruct H as [E [H1 H2]]. split; [rewrite E, <- app_assoc; reflexivity|].
    apply mem_str_false in Hd. apply mem_str_false in Hn. split; intro ND.
    + apply H1. rewrite map_app. simpl. apply NoDup_snoc; assumption.
    + apply H2. rewrite map_app. simpl. apply NoDup_snoc; assumption.
Qed.

(* the converse: duplicates are the only reason for add_tests / add_suites to fail *)
Lemma add_tests_dup : forall l acc e, add_tests acc l = Err e ->
  ~ (NoDup (map lt_name (acc ++ l)) /\ NoDup (map lt_desc (acc ++ l))).
Proof.
  induction l as [|t l IH]; simpl; intros acc e H [N1 N2]; [discriminate|].
  destruct (mem_str (lt_desc t) (map lt_desc acc)) eqn:Hd.
  - apply mem_str_In in Hd. rewrite map_app in N2. simpl in N2. apply NoDup_remove_2 in N2. apply N2.
    rewrite in_app_iff. left. assumption.
  - destruct (mem_str (lt_name t) (map lt_name acc)) eqn:Hn.
    + apply mem_str_In in Hn. rewrite map_app in N1. simpl in N1. apply NoDup_remove_2 in N1. apply N1.
      rewrite in_app_iff. left. assumption.
    + apply IH in H. apply H. rewrite <- app_assoc. simpl. tauto.
Qed.

Lemma add_suites_dup : forall l acc e, add_suites acc l = Err e ->
  ~ (NoDup (map ls_name (acc ++ l)) /\ NoDup (map ls_desc (acc ++ l))).
Proof.
  induction l as [|t l IH]; simpl; intros acc e H [N1 N2]; [discriminate|].
  destruct (mem_str (ls_desc t) (map ls_desc acc)) eqn:Hd.
  - apply mem_str_In in Hd. rewrite map_app in N2. simpl in N2. apply NoDup_remove_2 in N2. apply N2.
    rewrite in_app_iff. left. assumption.
  - destruct (mem_str (ls_name t) (map ls_name acc)) eqn:Hn.
    + apply mem_str_In in Hn. rewrite map_app in N1. simpl in N1. apply NoDup_remove_2 in N1. apply N1.
      rewrite in_app_iff. left. assumption.
    + apply IH in H. apply H. rewrite <- app_assoc. simpl. tauto.
Qed.

Lemma sequence_ok : forall l r, sequence l = Ok r -> exists yss, l = map Ok yss /\ r = concat yss.
Proof.
  induction l as [|x l IH]; simpl; intros r H.
  - inversion H. exists []. split; reflexivity.
  - destruct x as [y|e]; simpl in H; [|discriminate]. destruct (sequence l) as [ys|e] eqn:E; simpl in H; [|discriminate].
    inversion H; subst. destruct (IH ys eq_refl) as [yss [E1 E2]]. exists (y :: yss). simpl. split; congruence.
Qed.

(* ------------------------------------------------------------------ induction principles for the nested types *)
Section ItemInd.
  Variable P : item -> Prop.
  Hypothesis Ht : forall r d, P (ITest r d).
  Hypothesis Hc : forall r c body, Forall P body -> P (IClass r c body).
  Fixpoint item_ind' (it : item) : P it :=
    match it with
    | ITest r d => Ht r d
    | IClass r c body =>
        Hc r c body ((fix go (l : list item) : Forall P l :=
                        match l with [] => Forall_nil P | x :: r => Forall_cons x (item_ind' x) (go r) end) body)
    end.
End ItemInd.

Section DirInd.
  Variable P : dir -> Prop.
  Hypothesis Hd : forall n mods subs, Forall P subs -> P (Dir n mods subs).
  Fixpoint dir_ind' (d : dir) : P d :=
    match d with
    | Dir n mods subs =>
        Hd n mods subs ((fix go (l : list dir) : Forall P l :=
                           match l with [] => Forall_nil P | x :: r => Forall_cons x (dir_ind' x) (go r) end) subs)
    end.
End DirInd.

(* ------------------------------------------------------------------ well-formed loaded trees *)
Definition node_ok (s : lsuite) : Prop :=
  NoDup (map lt_name (ls_tests s)) /\ NoDup (map lt_desc (ls_tests s)) /\
  NoDup (map ls_name (ls_subs s)) /\ NoDup (map ls_desc (ls_subs s)) /\
  Forall (fun u => ls_hidden u = false) (ls_subs s).

Inductive all_nodes (P : lsuite -> Prop) : lsuite -> Prop :=
| all_nodes_intro : forall s, P s -> Forall (all_nodes P) (ls_subs s) -> all_nodes P s.

Lemma load_class_unfold : forall rank c body,
  load_class (IClass rank c body) =
  bind (add_tests [] (load_tests_of body)) (fun tests =>
  bind (sequence (map snd (symbols_k fst is_class (children_of body)))) (fun loaded =>
  bind (add_suites [] (filter (fun s => negb (ls_hidden s)) loaded)) (fun subs =>
  Ok [LSuite (class_name c) (class_desc c) rank (c_disabled c) (hidden_of (c_cond c)) (class_meta c) tests subs]))).
Proof. intros. reflexivity. Qed.

(* what the sub-suites of a scope are made of: every loaded sub-suite comes from loading a symbol of the body *)
Lemma loaded_from_children : forall body loaded,
  sequence (map snd (symbols_k fst is_class (children_of body))) = Ok loaded ->
  forall s, In s loaded -> exists x ys, In x body /\ load_class x = Ok ys /\ In s ys.
Proof.
  intros body loaded H s Hs. apply sequence_ok in H. destruct H as [yss [E1 E2]]. subst loaded.
  apply in_concat in Hs. destruct Hs as [ys [Hys Hs]].
  assert (Hin : In (Ok ys) (map snd (symbols_k fst is_class (children_of body)))) by (rewrite E1; apply in_map; assumption).
  apply in_map_iff in Hin. destruct Hin as [[x r] [Er Hin]]. simpl in Er. subst r.
  apply symbols_k_In in Hin. destruct Hin as [Hin _]. unfold children_of in Hin. apply in_map_iff in Hin.
  destruct Hin as [x' [E Hx]]. inversion E. subst x'. exists x, ys. auto.
Qed.

Lemma body_node_ok : forall body tests loaded subs,
  add_tests [] (load_tests_of body) = Ok tests ->
  add_suites [] (filter (fun s => negb (ls_hidden s)) loaded) = Ok subs ->
  NoDup (map lt_name tests) /\ NoDup (map lt_desc tests) /\ NoDup (map ls_name subs) /\ NoDup (map ls_desc subs) /\
  Forall (fun u => ls_hidden u = false) subs /\ subs = filter (fun s => negb (ls_hidden s)) loaded.
Proof.
  intros body tests loaded subs Ht Hs. apply add_tests_ok in Ht. apply add_suites_ok in Hs.
  destruct Ht as [_ [T1 T2]]. destruct Hs as [E [S1 S2]]. simpl in *.
  repeat split; try (apply T1; constructor); try (apply T2; constructor); try (apply S1; constructor); try (apply S2; constructor); try assumption.
  subst subs. rewrite Forall_forall. intros u Hu. apply filter_In in Hu. destruct Hu as [_ Hu]. destruct (ls_hidden u); [discriminate|reflexivity].
Qed.

Lemma load_class_wf : forall it r, load_class it = Ok r -> Forall (all_nodes node_ok) r.
Proof.
  induction it as [rk d|rk c body IH] using item_ind'; intros r H.
  - simpl in H. inversion H. constructor.
  - rewrite load_class_unfold in H.
    destruct (add_tests [] (load_tests_of body)) as [tests|e] eqn:Ht; simpl in H; [|discriminate].
    destruct (sequence _) as [loaded|e] eqn:Hl; simpl in H; [|discriminate].
    destruct (add_suites [] _) as [subs|e] eqn:Hs; simpl in H; [|discriminate].
    inversion H; subst. clear H. constructor; [|constructor].
    destruct (body_node_ok _ _ _ _ Ht Hs) as [N1 [N2 [N3 [N4 [N5 E]]]]].
    constructor; [unfold node_ok; simpl; tauto|]. simpl. subst subs. apply filter_Forall.
    rewrite Forall_forall. intros s Hs'. destruct (loaded_from_children _ _ Hl s Hs') as [x [ys [Hx [Hy Hin]]]].
    rewrite Forall_forall in IH. specialize (IH x Hx ys Hy). rewrite Forall_forall in IH. auto.
Qed.

Lemma load_body_wf : forall l tests subs, load_body l = Ok (tests, subs) ->
  NoDup (map lt_name tests) /\ NoDup (map lt_desc tests) /\ NoDup (map ls_name subs) /\ NoDup (map ls_desc subs) /\
  Forall (fun u => ls_hidden u = false) subs /\ Forall (all_nodes node_ok) subs.
Proof.
  unfold load_body. intros l tests subs H.
  destruct (add_tests [] (load_tests_of l)) as [tests'|e] eqn:Ht; simpl in H; [|discriminate].
  destruct (sequence _) as [loaded|e] eqn:Hl; simpl in H; [|discriminate].
  destruct (add_suites [] _) as [subs'|e] eqn:Hs; simpl in H; [|discriminate].
  inversion H; subst. clear H.
  destruct (body_node_ok _ _ _ _ Ht Hs) as [N1 [N2 [N3 [N4 [N5 E]]]]].
  repeat split; try assumption. subst subs. apply filter_Forall.
  rewrite Forall_forall. intros s Hs'. destruct (loaded_from_children _ _ Hl s Hs') as [x [ys [Hx [Hy Hin]]]].
  pose proof (load_class_wf _ _ Hy) as W. rewrite Forall_forall in W. auto.
Qed.

Definition top_ok (s : lsuite) : Prop := all_nodes node_ok s.

Lemma load_module_wf : forall m s, load_module m = Ok s -> all_nodes node_ok s.
Proof.
  unfold load_module. intros m s H. destruct (load_body (m_items m)) as [[tests subs]|e] eqn:Hb; simpl in H; [|discriminate].
  destruct (load_body_wf _ _ _ Hb) as [N1 [N2 [N3 [N4 [N5 W]]]]].
  assert (Hs : all_nodes node_ok (LSuite (mod_name m) (mod_desc m) (m_rank m) false (mod_hidden m) (mod_meta m) tests subs)).
  { constructor; [unfold node_ok; simpl; tauto|assumption]. }
  destruct (m_suite m); [inversion H; subst; assumption|].
  destruct tests; [|inversion H; subst; assumption].
  destruct subs as [|c [|c' subs]]; try (inversion H; subst; assumption).
  destruct (str_eqb (ls_name c) (m_file m)); inversion H; subst; [|assumption].
  inversion W; assumption.
Qed.

Lemma load_modules_wf : forall l r, load_modules l = Ok r -> Forall (fun p => all_nodes node_ok (snd p)) r.
Proof.
  induction l as [|m l IH]; simpl; intros r H.
  - inversion H. constructor.
  - destruct (load_module m) as [s|e] eqn:Hm; simpl in H; [|discriminate].
    destruct (load_modules l) as [ss|e] eqn:Hl; simpl in H; [|discriminate].
    inversion H; subst. constructor; [simpl; eapply load_module_wf; eauto|auto].
Qed.

Definition good (r : list lsuite) : Prop := Forall (all_nodes node_ok) r /\ Forall (fun s => ls_hidden s = false) r.
Definition good_entry (e : entry) : Prop := all_nodes node_ok (snd e) /\ ls_hidden (snd e) = false.

Lemma find_mod_In : forall f l s, find_mod f l = Some s -> exists g, In (Some g, s) l.
Proof.
  induction l as [|[[g|] s'] l IH]; simpl; intros s H; [discriminate| |].
  - destruct (str_eqb f g); [inversion H; subst; eauto|]. destruct (IH _ H) as [g' Hg]. eauto.
  - destruct (IH _ H) as [g' Hg]. eauto.
Qed.

Lemma replace_mod_Forall : forall (P : entry -> Prop) f s' l, Forall P l -> (forall g, P (Some g, s')) -> Forall P (replace_mod f s' l).
Proof.
  induction l as [|[[g|] s] l IH]; simpl; intros Hl Hs; [constructor| |].
  - inversion Hl; subst. destruct (str_eqb f g); constructor; auto.
  - inversion Hl; subst. constructor; auto.
Qed.

Lemma with_subs_good : forall s sub all, all_nodes node_ok s -> ls_hidden s = false -> good sub ->
  add_suites (ls_subs s) sub = Ok all -> all_nodes node_ok (with_subs s all) /\ ls_hidden (with_subs s all) = false.
Proof.
  intros s sub all Hs Hh [G1 G2] Ha. apply add_suites_ok in Ha. destruct Ha as [E [A1 A2]].
  inversion Hs as [s0 [N1 [N2 [N3 [N4 N5]]]] W]; subst s0.
  destruct s as [n d r di h tg tests subs]; simpl in *. split; [|assumption].
  constructor; simpl.
  - unfold node_ok; simpl. repeat split; auto. subst all. apply Forall_app. split; assumption.
  - subst all. apply Forall_app. split; assumption.
Qed.

Lemma merge_subdirs_good : forall fixed hidden loadx l,
  Forall (fun x => forall r, loadx x = Ok r -> good r) l ->
  forall entries final, merge_subdirs fixed hidden loadx entries l = Ok final ->
  Forall good_entry entries -> Forall good_entry final.
Proof.
  intros fixed hidden loadx. induction l as [|x l IH]; simpl; intros HF entries final H He.
  - inversion H; subst. assumption.
  - inversion HF as [|? ? Hx HF']; subst.
    destruct (fixed && mem_str (dir_name x) hidden); [eapply IH; eauto|].
    destruct (loadx x) as [sub|e] eqn:Hl; simpl in H; [|discriminate]. specialize (Hx _ eq_refl).
    destruct (find_mod (dir_name x) entries) as [s|] eqn:Hf.
    + destruct (add_suites (ls_subs s) sub) as [all|e] eqn:Ha; simpl in H; [|discriminate].
      eapply IH; eauto. destruct (find_mod_In _ _ _ Hf) as [g Hg].
      rewrite Forall_forall in He. destruct (He _ Hg) as [G1 G2]. simpl in *.
      apply replace_mod_Forall; [rewrite Forall_forall; assumption|]. intro g'. unfold good_entry. simpl.
      eapply with_subs_good; eauto.
    + destruct (add_suites [] sub) as [all|e] eqn:Ha; simpl in H; [|discriminate].
      eapply IH; eauto. apply Forall_app. split; [assumption|]. constructor; [|constructor].
      apply add_suites_ok in Ha. destruct Ha as [E [A1 A2]]. simpl in E. subst all. destruct Hx as [G1 G2].
      (* sub-suites of a synthetic suite: names are unique because add_suites accepted them *)
      split; simpl; [|reflexivity]. constructor; simpl; [|assumption].
      unfold node_ok; simpl. repeat split; try constructor; try (apply A1; constructor); try (apply A2; constructor). assumption.
Qed.

Lemma finish_good : forall final, Forall good_entry final -> good (finish final).
Proof.
  unfold finish, good. intros final H.
  assert (H1 : Forall (all_nodes node_ok) (map snd final) /\ Forall (fun s => ls_hidden s = false) (map snd final)).
  { split; rewrite Forall_forall in *; intros s Hs; apply in_map_iff in Hs; destruct Hs as [e [E He]]; subst s; apply (H e He). }
  destruct H1 as [A B]. split; repeat apply sort_by_Forall; apply filter_Forall; assumption.
Qed.

Lemma entries_of_good : forall loaded, Forall (fun p => all_nodes node_ok (snd p)) loaded -> Forall good_entry (entries_of loaded).
Proof.
  unfold entries_of. intros loaded H. rewrite Forall_forall in *. intros e He. apply in_map_iff in He.
  destruct He as [p [E Hp]]. subst e. apply filter_In in Hp. destruct Hp as [Hp Hh]. split; simpl; [apply H; assumption|].
  destruct (ls_hidden (snd p)); [discriminate|reflexivity].
Qed.

Lemma load_dir_good : forall fixed d r, load_dir fixed d = Ok r -> good r.
Proof.
  intros fixed. induction d as [n mods subs IH] using dir_ind'. intros r H. simpl in H.
  destruct (load_modules mods) as [loaded|e] eqn:Hm; simpl in H; [|discriminate].
  destruct (merge_subdirs _ _ _ _ _) as [final|e] eqn:Hg; simpl in H; [|discriminate].
  inversion H; subst. apply finish_good. eapply merge_subdirs_good; eauto.
  apply entries_of_good. eapply load_modules_wf; eauto.
Qed.

(* C13_duplicates_rejected, first half: whatever is loaded has unique test names / descriptions and unique sub-suite
   names / descriptions in every suite, at every depth, and no hidden suite anywhere *)
Lemma loaded_unique : forall fixed rank0 root suites, load fixed rank0 root = Ok suites ->
  Forall (all_nodes node_ok) suites /\ Forall (fun s => ls_hidden s = false) suites.
Proof. unfold load. intros. eapply load_dir_good; eauto. Qed.

(* ================================================================== dicts; what a stack of decorators DECLARES *)
(* The @lcc.prop decorators of a symbol, listed top to bottom: the topmost decorator of a key gives its value (it is
   applied last); the keys come in the order in which they are first set, i.e. bottom-up (declared_props_get,
   declared_props_keys, declared_props_NoDup below say what this dict is without reference to the order of evaluation). *)
Fixpoint declared_props (calls : list (str * str)) : pdict :=
  match calls with [] => [] | kv :: r => dict_set (fst kv) (snd kv) (declared_props r) end.
(* the @lcc.link decorators of a symbol, listed top to bottom: every link once per decorator, bottom-up *)
Definition declared_links (calls : list link) : list link := rev calls.
(* the entries of a "properties": {...} literal of a SUITE dict, in the order written: one entry per key, at the place
   of its first occurrence, with the value of its last occurrence *)
Definition declared_dict (entries : list (str * str)) : pdict := dict_update [] entries.
(* the entries of a "links": [...] list of a SUITE dict: a bare "url" stands for ("url", None) *)
Definition declared_slinks (l : list slink) : list link := map normalize_link l.

Definition keys (d : pdict) : list str := map fst d.

Lemma dict_set_keys : forall k v d, keys (dict_set k v d) = if mem_str k (keys d) then keys d else keys d ++ [k].
Proof.
  induction d as [|[k' v'] d IH]; simpl; [reflexivity|]. destruct (str_eqb k k') eqn:E; simpl; [reflexivity|].
  unfold keys in *. rewrite IH. destruct (mem_str k (map fst d)); reflexivity.
Qed.

Lemma dict_set_NoDup : forall k v d, NoDup (keys d) -> NoDup (keys (dict_set k v d)).
Proof.
  intros k v d H. rewrite dict_set_keys. destruct (mem_str k (keys d)) eqn:E; [assumption|].
  apply NoDup_snoc; [assumption|]. apply mem_str_false. assumption.
Qed.

Lemma dict_set_fresh : forall k v d, ~ In k (keys d) -> dict_set k v d = d ++ [(k, v)].
Proof.
  induction d as [|[k' v'] d IH]; simpl; intros H; [reflexivity|].
  destruct (str_eqb k k') eqn:E; [apply str_eqb_eq in E; subst; tauto|]. rewrite IH; tauto.
Qed.

Lemma dict_get_set : forall k' k v d, dict_get k' (dict_set k v d) = if str_eqb k' k then Some v else dict_get k' d.
Proof.
  induction d as [|[k0 v0] d IH]; simpl.
  - reflexivity.
  - destruct (str_eqb k k0) eqn:E; simpl.
    + apply str_eqb_eq in E. subst k0. destruct (str_eqb k' k); reflexivity.
    + rewrite IH. destruct (str_eqb k' k0) eqn:E0; [|reflexivity].
      destruct (str_eqb k' k) eqn:E1; [|reflexivity]. apply str_eqb_eq in E0. apply str_eqb_eq in E1. subst.
      assert (X : str_eqb k0 k0 = true) by (apply str_eqb_eq; reflexivity). congruence.
Qed.

Lemma dict_update_NoDup : forall src d, NoDup (keys d) -> NoDup (keys (dict_update d src)).
Proof.
  unfold dict_update. induction src as [|[k v] src IH]; simpl; intros d H; [assumption|]. apply IH. apply dict_set_NoDup. assumption.
Qed.

(* d.update(src) on an empty d (more generally: on a d that shares no key with src) copies src, entry by entry *)
Lemma dict_update_app : forall src d, NoDup (keys (d ++ src)) -> dict_update d src = d ++ src.
Proof.
  unfold dict_update. induction src as [|[k v] src IH]; simpl; intros d H; [rewrite app_nil_r; reflexivity|].
  assert (Hk : ~ In k (keys d)).
  { unfold keys in *. rewrite map_app in H. simpl in H. apply NoDup_remove_2 in H. rewrite in_app_iff in H. tauto. }
  rewrite (dict_set_fresh _ _ _ Hk). rewrite IH; rewrite <- app_assoc; [reflexivity|exact H].
Qed.

Lemma dict_update_copy : forall d, NoDup (keys d) -> dict_update [] d = d.
Proof. intros. apply dict_update_app. assumption. Qed.

Lemma declared_props_NoDup : forall calls, NoDup (keys (declared_props calls)).
Proof. induction calls as [|[k v] r IH]; simpl; [constructor|]. apply dict_set_NoDup. assumption. Qed.

(* the value of a key is the one given by its topmost decorator *)
Lemma declared_props_get : forall k calls, dict_get k (declared_props calls) = dict_get k calls.
Proof.
  induction calls as [|[k0 v0] r IH]; simpl; [reflexivity|]. rewrite dict_get_set, IH. reflexivity.
Qed.

Lemma declared_props_keys : forall k calls, In k (keys (declared_props calls)) <-> In k (map fst calls).
Proof.
  induction calls as [|[k0 v0] r IH]; simpl; [tauto|]. rewrite dict_set_keys.
  destruct (mem_str k0 (keys (declared_props r))) eqn:E.
  - apply mem_str_In in E. rewrite IH. split; [tauto|]. intros [H|H]; [subst; apply IH; assumption|assumption].
  - rewrite in_app_iff. simpl. rewrite IH. tauto.
Qed.

(* the loader's computation (decorators applied bottom-up on a fresh Metadata) gives exactly that dict *)
Lemma props_of_decorators_spec : forall calls, props_of_decorators calls = declared_props calls.
Proof.
  intro calls. unfold props_of_decorators, dict_update.
  rewrite <- (fold_left_rev_right (fun (kv : str * str) (acc : pdict) => dict_set (fst kv) (snd kv) acc)).
  rewrite rev_involutive. induction calls as [|kv r IH]; simpl; [reflexivity|]. rewrite IH. reflexivity.
Qed.

(* test.properties.update(md.properties) / suite.properties.update(md.properties) on the fresh node *)
Lemma loaded_props_spec : forall calls, dict_update [] (props_of_decorators calls) = declared_props calls.
Proof. intro. rewrite props_of_decorators_spec. apply dict_update_copy. apply declared_props_NoDup. Qed.

Lemma declared_dict_NoDup : forall entries, NoDup (keys (declared_dict entries)).
Proof. intro. apply dict_update_NoDup. constructor. Qed.

Lemma loaded_dict_spec : forall entries, dict_update [] (dict_update [] entries) = declared_dict entries.
Proof. intro. apply dict_update_copy. apply declared_dict_NoDup. Qed.

Lemma dict_update_get : forall k src d,
  dict_get k (dict_update d src) = match dict_get k (rev src) with Some v => Some v | None => dict_get k d end.
Proof.
  unfold dict_update. induction src as [|[k0 v0] src IH]; simpl; intro d; [reflexivity|].
  rewrite IH. rewrite dict_get_set.
  assert (G : forall a b, dict_get k (a ++ b) = match dict_get k a with Some v => Some v | None => dict_get k b end).
  { induction a as [|[ka va] a IHa]; simpl; intro b; [reflexivity|]. destruct (str_eqb k ka); [reflexivity|apply IHa]. }
  rewrite G. simpl. destruct (dict_get k (rev src)); [reflexivity|]. destruct (str_eqb k k0); reflexivity.
Qed.

(* the value of a key of a dict literal is the one written last *)
Lemma declared_dict_get : forall k entries, dict_get k (declared_dict entries) = dict_get k (rev entries).
Proof. intros. unfold declared_dict. rewrite dict_update_get. simpl. destruct (dict_get k (rev entries)); reflexivity. Qed.

(* ================================================================== the specification: what a source tree DECLARES *)
Record tinfo := { ti_name : str; ti_desc : str; ti_disabled : bool; ti_tags : list str; ti_props : pdict;
                  ti_links : list link; ti_param : option nat }.
Definition info_of (t : ltest) : tinfo :=
  {| ti_name := lt_name t; ti_desc := lt_desc t; ti_disabled := lt_disabled t; ti_tags := lt_tags t; ti_props := lt_props t;
     ti_links := lt_links t; ti_param := lt_param t |}.
(* every test produced by a test symbol (one per parameter set) carries the tags, properties and links of the symbol *)
Definition mk_info (d : tdecl) (x : str * str * option nat) : tinfo :=
  {| ti_name := fst (fst x); ti_desc := snd (fst x); ti_disabled := t_disabled d; ti_tags := t_tags d;
     ti_props := declared_props (t_props d); ti_links := declared_links (t_links d); ti_param := snd x |}.
(* what is observed of a loaded tree: (names and metadata of the enclosing suites, metadata of the test) *)
Definition obs_of (pt : list pnode * ltest) : list pnode * tinfo := (fst pt, info_of (snd pt)).

(* the tags / properties / links a suite class, a module declare *)
Definition declared_class_meta (c : cdecl) : meta :=
  {| md_tags := c_tags c; md_props := declared_props (c_props c); md_links := declared_links (c_links c) |}.
Definition declared_mod_meta (m : mdecl) : meta :=
  match m_suite m with
  | Some s => {| md_tags := s_tags s; md_props := declared_dict (s_props s); md_links := declared_slinks (s_links s) |}
  | None => no_meta
  end.
Lemma class_meta_spec : forall c, class_meta c = declared_class_meta c.
Proof. intro. unfold class_meta, declared_class_meta. rewrite loaded_props_spec. reflexivity. Qed.
Lemma mod_meta_spec : forall m, mod_meta m = declared_mod_meta m.
Proof. intro. unfold mod_meta, declared_mod_meta. destruct (m_suite m); [|reflexivity]. rewrite loaded_dict_spec. reflexivity. Qed.
Definition nh (s : lsuite) : bool := negb (ls_hidden s).

(* a later definition of the same attribute in the same scope shadows this one *)
Definition shadowed (x : item) (later : list item) : bool := mem_str (item_attr x) (map item_attr later).
Section Unshadowed.
  Variable f : item -> list (list pnode * tinfo).
  Fixpoint unshadowed_flat (l : list item) : list (list pnode * tinfo) :=
    match l with [] => [] | x :: r => (if shadowed x r then [] else f x) ++ unshadowed_flat r end.
End Unshadowed.

(* the tests declared by one symbol, under the suite path [p]: a visible test declares one test per parameter set
   (or itself), a visible class declares what its body declares, under p ++ [its name and tags / properties / links];
   hidden symbols declare nothing *)
Fixpoint declared_item (p : list pnode) (it : item) : list (list pnode * tinfo) :=
  match it with
  | ITest _ d => if hidden_of (t_cond d) then [] else map (fun x => (p, mk_info d x)) (expand_names d)
  | IClass _ c body =>
      if hidden_of (c_cond c) then [] else unshadowed_flat (declared_item (p ++ [(class_name c, declared_class_meta c)])) body
  end.
Definition declared_items (p : list pnode) (l : list item) : list (list pnode * tinfo) := unshadowed_flat (declared_item p) l.

Definition item_hidden (it : item) : bool :=
  match it with ITest _ d => hidden_of (t_cond d) | IClass _ c _ => hidden_of (c_cond c) end.
Definition visible_classes (l : list item) : list item := filter (fun it => negb (item_hidden it)) (filter is_class (dedupe_last l)).
Definition declares_no_test_here (l : list item) : bool :=
  match flat_map (declared_item []) (filter is_test (dedupe_last l)) with [] => true | _ => false end.
Definition item_name (it : item) : str := match it with ITest _ d => test_name d | IClass _ c _ => class_name c end.
Definition item_meta (it : item) : meta := match it with ITest _ _ => no_meta | IClass _ c _ => declared_class_meta c end.
Definition item_node (it : item) : pnode := (item_name it, item_meta it).
(* "a module whose only class bears its name": no SUITE, no visible test function, exactly one visible class, same name *)
Definition collapses (m : mdecl) : bool :=
  match m_suite m with
  | Some _ => false
  | None => declares_no_test_here (m_items m) &&
            match visible_classes (m_items m) with [c] => str_eqb (item_name c) (m_file m) | _ => false end
  end.
Definition declared_module (p : list pnode) (m : mdecl) : list (list pnode * tinfo) :=
  if mod_hidden m then []
  else if collapses m then declared_items p (m_items m)
  else declared_items (p ++ [(mod_name m, declared_mod_meta m)]) (m_items m).

(* ------------------------------------------------------------------ exactness below a module *)
Lemma flat_unfold : forall p name d r di h tg tests subs,
  flat p (LSuite name d r di h tg tests subs) = map (fun t => (p ++ [(name, tg)], t)) tests ++ flat_all (p ++ [(name, tg)]) subs.
Proof.
  intros. simpl. f_equal.
Qed.

Lemma perm_filter : forall A (f : A -> bool) l l', Permutation l l' -> Permutation (filter f l) (filter f l').
Proof.
  intros A f l l' H. induction H; simpl.
  - constructor.
  - destruct (f x); [constructor|]; assumption.
  - destruct (f x); destruct (f y); try reflexivity. apply perm_swap.
  - etransitivity; eassumption.
Qed.

Lemma symbols_k_perm : forall A (key : A -> item) f l,
  Permutation (symbols_k key f l) (filter (fun a => f (key a)) (dedupe_last_k key l)).
Proof.
  intros. unfold symbols_k, namespace_k. rewrite sort_by_perm. apply perm_filter. apply sort_by_perm.
Qed.

Lemma dedupe_last_k_children : forall l, dedupe_last_k fst (children_of l) = children_of (dedupe_last l).
Proof.
  unfold children_of, dedupe_last. induction l as [|x l IH]; simpl; [reflexivity|].
  rewrite map_map. simpl. destruct (mem_str (item_attr x) (map (fun y => item_attr y) l)); simpl; rewrite IH; reflexivity.
Qed.

Lemma filter_children : forall f l, filter (fun a => f (fst a)) (children_of l) = children_of (filter f l).
Proof.
  unfold children_of. induction l as [|x l IH]; simpl; [reflexivity|]. destruct (f x); simpl; rewrite IH; reflexivity.
Qed.

Lemma unshadowed_flat_eq : forall f l, unshadowed_flat f l = flat_map f (dedupe_last l).
Proof.
  unfold dedupe_last. induction l as [|x l IH]; simpl; [reflexivity|]. unfold shadowed.
  destruct (mem_str (item_attr x) (map _ l)); simpl; rewrite IH; reflexivity.
Qed.

Lemma flat_map_ext_in : forall A B (f g : A -> list B) l, (forall x, In x l -> f x = g x) -> flat_map f l = flat_map g l.
Proof.
  induction l as [|x l IH]; simpl; intros H; [reflexivity|]. rewrite (H x (or_introl eq_refl)), IH; auto.
Qed.

Lemma map_flat_map : forall A B C (f : B -> C) (g : A -> list B) l, map f (flat_map g l) = flat_map (fun x => map f (g x)) l.
Proof. induction l as [|x l IH]; simpl; [reflexivity|]. rewrite map_app, IH. reflexivity. Qed.

Lemma is_class_not_test : forall it, is_class it = negb (is_test it).
Proof. destruct it; reflexivity. Qed.

Lemma flat_map_split : forall A (g : item -> list A) l,
  Permutation (flat_map g l) (flat_map g (filter is_test l) ++ flat_map g (filter is_class l)).
Proof.
  induction l as [|x l IH]; simpl; [constructor|]. rewrite is_class_not_test. destruct (is_test x); simpl.
  - rewrite <- app_assoc. apply Permutation_app_head. assumption.
  - rewrite IH. apply Permutation_app_swap_app.
Qed.

Definition class_part (p : list pnode) (it : item) : list (list pnode * tinfo) :=
  if is_class it then declared_item p it else [].

Lemma expand_item_obs : forall p it, is_test it = true ->
  map obs_of (map (fun t => (p, t)) (expand_item it)) = declared_item p it.
Proof.
  intros p [r d|r c b] H; [|discriminate]. simpl. unfold expand_test. destruct (hidden_of (t_cond d)); [reflexivity|].
  rewrite !map_map. apply map_ext. intros [[n de] pa]. unfold obs_of, info_of, mk_info. simpl. rewrite loaded_props_spec. reflexivity.
Qed.

Lemma flat_all_concat_filter : forall p yss,
  map obs_of (flat_all p (filter nh (concat yss))) = flat_map (fun ys => map obs_of (flat_all p (filter nh ys))) yss.
Proof.
  unfold flat_all. induction yss as [|ys yss IH]; simpl; [reflexivity|].
  rewrite filter_app, flat_map_app, map_app, IH. reflexivity.
Qed.

Lemma classes_exact : forall p C yss,
  Forall (fun x => is_class x = true /\ forall p r, load_class x = Ok r -> Permutation (map obs_of (flat_all p (filter nh r))) (class_part p x)) C ->
  map load_class C = map Ok yss ->
  Permutation (flat_map (fun ys => map obs_of (flat_all p (filter nh ys))) yss) (flat_map (declared_item p) C).
Proof.
  induction C as [|x C IH]; intros yss HF E; destruct yss as [|ys yss]; simpl in *; try discriminate; [constructor|].
  inversion E. inversion HF as [|? ? [Hc Hx] HF']; subst. apply Permutation_app; [|apply IH; assumption].
  specialize (Hx p ys H0). unfold class_part in Hx. rewrite Hc in Hx. assumption.
Qed.

Lemma body_exact : forall body p tests loaded subs,
  Forall (fun x => forall p r, load_class x = Ok r -> Permutation (map obs_of (flat_all p (filter nh r))) (class_part p x)) body ->
  add_tests [] (load_tests_of body) = Ok tests ->
  sequence (map snd (symbols_k fst is_class (children_of body))) = Ok loaded ->
  add_suites [] (filter nh loaded) = Ok subs ->
  Permutation (map obs_of (map (fun t => (p, t)) tests ++ flat_all p subs)) (declared_items p body).
Proof.
  intros body p tests loaded subs IH Ht Hl Hs.
  apply add_tests_ok in Ht. destruct Ht as [Et _]. simpl in Et. subst tests.
  apply add_suites_ok in Hs. destruct Hs as [Es _]. simpl in Es. subst subs.
  unfold declared_items. rewrite unshadowed_flat_eq. rewrite (flat_map_split _ (declared_item p) (dedupe_last body)).
  rewrite map_app. apply Permutation_app.
  - (* tests *)
    unfold load_tests_of. rewrite map_map, map_flat_map.
    assert (HP : Permutation (symbols is_test body) (filter is_test (dedupe_last body))) by apply symbols_k_perm.
    rewrite (Permutation_flat_map _ HP). apply Permutation_refl'. apply flat_map_ext_in.
    intros x Hx. apply filter_In in Hx. destruct Hx as [_ Hx]. rewrite <- (expand_item_obs p x Hx). rewrite map_map. reflexivity.
  - (* sub-suites *)
    apply sequence_ok in Hl. destruct Hl as [yss [E1 E2]]. subst loaded.
    pose proof (symbols_k_perm _ (@fst item (result (list lsuite))) is_class (children_of body)) as HP.
    rewrite dedupe_last_k_children, filter_children in HP.
    apply (Permutation_map snd) in HP. rewrite E1 in HP. unfold children_of in HP at 1. rewrite map_map in HP. simpl in HP.
    apply Permutation_sym in HP. apply Permutation_map_inv in HP. destruct HP as [yss' [E3 HP]].
    rewrite flat_all_concat_filter. rewrite (Permutation_flat_map _ HP).
    apply classes_exact; [|assumption].
    rewrite Forall_forall in *. intros x Hx. apply filter_In in Hx. destruct Hx as [Hx Hc]. split; [assumption|].
    apply IH. eapply dedupe_last_k_In. exact Hx.
Qed.

Lemma load_class_exact : forall it p r, load_class it = Ok r ->
  Permutation (map obs_of (flat_all p (filter nh r))) (class_part p it).
Proof.
  induction it as [rk d|rk c body IH] using item_ind'; intros p r H.
  - simpl in H. inversion H. constructor.
  - rewrite load_class_unfold in H.
    destruct (add_tests [] (load_tests_of body)) as [tests|e] eqn:Ht; simpl in H; [|discriminate].
    destruct (sequence _) as [loaded|e] eqn:Hl; simpl in H; [|discriminate].
    destruct (add_suites [] _) as [subs|e] eqn:Hs; simpl in H; [|discriminate].
    inversion H; subst. clear H. unfold class_part. simpl. unfold nh at 1. simpl.
    destruct (hidden_of (c_cond c)); simpl; [constructor|].
    rewrite app_nil_r, class_meta_spec. fold (declared_items (p ++ [(class_name c, declared_class_meta c)]) body).
    eapply body_exact; eauto.
Qed.

(* ------------------------------------------------------------------ modules *)
Lemma tests_exact : forall p body,
  Permutation (map obs_of (map (fun t => (p, t)) (load_tests_of body)))
              (flat_map (declared_item p) (filter is_test (dedupe_last body))).
Proof.
  intros. unfold load_tests_of. rewrite map_map, map_flat_map.
  assert (HP : Permutation (symbols is_test body) (filter is_test (dedupe_last body))) by apply symbols_k_perm.
  rewrite (Permutation_flat_map _ HP). apply Permutation_refl'. apply flat_map_ext_in.
  intros x Hx. apply filter_In in Hx. destruct Hx as [_ Hx]. rewrite <- (expand_item_obs p x Hx). rewrite map_map. reflexivity.
Qed.

Lemma Permutation_concat : forall A (l l' : list (list A)), Permutation l l' -> Permutation (concat l) (concat l').
Proof.
  intros A l l' H. induction H; simpl.
  - constructor.
  - apply Permutation_app_head. assumption.
  - rewrite !app_assoc. apply Permutation_app_tail. apply Permutation_app_comm.
  - etransitivity; eassumption.
Qed.

Lemma class_suites_names : forall C yss, Forall (fun x => is_class x = true) C -> map load_class C = map Ok yss ->
  map ls_node (filter nh (concat yss)) = map item_node (filter (fun it => negb (item_hidden it)) C).
Proof.
  induction C as [|x C IH]; intros yss HF E; destruct yss as [|ys yss]; simpl in *; try discriminate; [reflexivity|].
  inversion E. inversion HF; subst. destruct x as [rk d|rk c body]; [discriminate|].
  rewrite load_class_unfold in H0.
  destruct (add_tests [] (load_tests_of body)) as [tests|e]; simpl in H0; [|discriminate].
  destruct (sequence _) as [loaded|e]; simpl in H0; [|discriminate].
  destruct (add_suites [] _) as [subs|e]; simpl in H0; [|discriminate].
  inversion H0; subst. simpl. unfold nh at 1. simpl. destruct (hidden_of (c_cond c)); simpl; rewrite (IH yss); auto.
  unfold ls_node, item_node. simpl. rewrite class_meta_spec. reflexivity.
Qed.

Lemma load_body_exact : forall l tests subs, load_body l = Ok (tests, subs) ->
  (forall p, Permutation (map obs_of (map (fun t => (p, t)) tests ++ flat_all p subs)) (declared_items p l)) /\
  Permutation (map ls_node subs) (map item_node (visible_classes l)) /\
  (tests = [] <-> declares_no_test_here l = true).
Proof.
  unfold load_body. intros l tests subs H.
  destruct (add_tests [] (load_tests_of l)) as [tests'|e] eqn:Ht; simpl in H; [|discriminate].
  destruct (sequence _) as [loaded|e] eqn:Hl; simpl in H; [|discriminate].
  destruct (add_suites [] _) as [subs'|e] eqn:Hs; simpl in H; [|discriminate].
  inversion H; subst. clear H. split; [|split].
  - intro p. eapply body_exact; eauto. rewrite Forall_forall. intros x _ p' r Hr. apply load_class_exact. assumption.
  - apply add_suites_ok in Hs. destruct Hs as [Es _]. simpl in Es. subst subs.
    apply sequence_ok in Hl. destruct Hl as [yss [E1 E2]]. subst loaded.
    pose proof (symbols_k_perm _ (@fst item (result (list lsuite))) is_class (children_of l)) as HP.
    rewrite dedupe_last_k_children, filter_children in HP.
    apply (Permutation_map snd) in HP. rewrite E1 in HP. unfold children_of in HP at 1. rewrite map_map in HP. simpl in HP.
    apply Permutation_sym in HP. apply Permutation_map_inv in HP. destruct HP as [yss' [E3 HP]].
    unfold visible_classes. rewrite <- (class_suites_names _ yss' ); [| |assumption].
    + apply Permutation_map. apply perm_filter. apply Permutation_concat. assumption.
    + rewrite Forall_forall. intros x Hx. apply filter_In in Hx. tauto.
  - apply add_tests_ok in Ht. destruct Ht as [Et _]. simpl in Et. subst tests.
    pose proof (tests_exact [] l) as HP. unfold declares_no_test_here. split; intro H.
    + rewrite H in HP. simpl in HP. apply Permutation_nil in HP. rewrite HP. reflexivity.
    + destruct (flat_map _ _) eqn:E; [|discriminate]. apply Permutation_sym, Permutation_nil in HP.
      apply map_eq_nil in HP. apply map_eq_nil in HP. assumption.
Qed.

(* the suite a visible module is loaded as: the module suite, or (single-class collapse) the suite of its only class *)
Definition merged_node (m : mdecl) : pnode :=
  if collapses m then match visible_classes (m_items m) with [x] => item_node x | _ => (m_file m, no_meta) end
  else (mod_name m, declared_mod_meta m).

Lemma load_module_exact : forall m s, load_module m = Ok s ->
  (forall p, Permutation (map obs_of (flat_all p (filter nh [s]))) (declared_module p m)) /\
  ls_node s = merged_node m /\ ls_hidden s = mod_hidden m.
Proof.
  unfold load_module. intros m s H. destruct (load_body (m_items m)) as [[tests subs]|e] eqn:Hb; simpl in H; [|discriminate].
  destruct (load_body_wf _ _ _ Hb) as [_ [_ [_ [_ [Hvis _]]]]].
  destruct (load_body_exact _ _ _ Hb) as [Hex [Hnames Htests]]. rewrite mod_meta_spec in H.
  set (s0 := LSuite (mod_name m) (mod_desc m) (m_rank m) false (mod_hidden m) (declared_mod_meta m) tests subs) in *.
  assert (Hplain : collapses m = false -> s = s0 ->
            (forall p, Permutation (map obs_of (flat_all p (filter nh [s]))) (declared_module p m)) /\
            ls_node s = merged_node m /\ ls_hidden s = mod_hidden m).
  { intros Hc Es. subst s. unfold merged_node, declared_module. rewrite Hc. simpl. split; [|split; reflexivity].
    intro p. unfold nh. simpl. destruct (mod_hidden m); simpl; [constructor|]. rewrite app_nil_r. apply Hex. }
  unfold collapses in *. unfold mod_hidden in *.
  destruct (m_suite m) as [sd|] eqn:Hsd; [apply Hplain; [reflexivity|inversion H; reflexivity]|].
  destruct tests as [|t tests].
  2:{ apply Hplain; [|inversion H; reflexivity].
      destruct (declares_no_test_here (m_items m)) eqn:E; [|reflexivity]. destruct Htests as [_ Hb']. specialize (Hb' eq_refl). discriminate. }
  assert (Hd : declares_no_test_here (m_items m) = true) by (apply Htests; reflexivity). rewrite Hd in *. simpl andb in *.
  destruct subs as [|c [|c' subs]].
  - apply Hplain; [|inversion H; reflexivity]. simpl in Hnames. apply Permutation_nil in Hnames.
    apply map_eq_nil in Hnames. rewrite Hnames. reflexivity.
  - simpl in Hnames. apply Permutation_length_1_inv in Hnames.
    destruct (visible_classes (m_items m)) as [|x [|x' vc]] eqn:Hvc; simpl in Hnames; try discriminate.
    unfold item_node, ls_node in Hnames. inversion Hnames as [[Hn Hmeta]]. rewrite Hn in *.
    destruct (str_eqb (ls_name c) (m_file m)) eqn:Heq.
    + inversion H; subst s. clear Hplain. unfold merged_node, declared_module, collapses, mod_hidden. rewrite Hsd, Hd, Hvc, Hn, Heq. simpl.
      inversion Hvis as [|? ? Hc _]; subst. split; [|split; [unfold ls_node, item_node; rewrite Hn, Hmeta; reflexivity|assumption]].
      intro p. specialize (Hex p). simpl in Hex. unfold nh. rewrite Hc. simpl. exact Hex.
    + apply Hplain; [reflexivity|inversion H; reflexivity].
  - apply Hplain; [|inversion H; reflexivity]. apply Permutation_length in Hnames. rewrite !map_length in Hnames. simpl in Hnames.
    destruct (visible_classes (m_items m)) as [|x [|x' vc]]; simpl in Hnames; try reflexivity; try discriminate.
Qed.

(* ------------------------------------------------------------------ directories *)
Definition file_is (f : str) (m : mdecl) : bool := str_eqb (m_file m) f.
(* what the sub-directory [x] of a directory holding [mods] declares under [p]: it belongs to the module of the same name
   (so it is hidden with it), or stands for a suite of its own *)
Definition sub_spec (decl : list pnode -> dir -> list (list pnode * tinfo)) (p : list pnode) (mods : list mdecl) (x : dir) :=
  match find (file_is (dir_name x)) mods with
  | Some m => if mod_hidden m then [] else decl (p ++ [merged_node m]) x
  | None => decl (p ++ [(dir_name x, no_meta)]) x
  end.
Fixpoint declared_dir (p : list pnode) (d : dir) : list (list pnode * tinfo) :=
  match d with
  | Dir _ mods subs => flat_map (declared_module p) mods ++ flat_map (sub_spec declared_dir p mods) subs
  end.

(* names on one level are distinct (a file system guarantees it) *)
Inductive names_ok : dir -> Prop :=
| names_ok_intro : forall n mods subs, NoDup (map m_file mods) -> NoDup (map dir_name subs) -> Forall names_ok subs ->
                   names_ok (Dir n mods subs).

Definition F (p : list pnode) (entries : list entry) : list (list pnode * tinfo) := map obs_of (flat_all p (map snd entries)).

Lemma F_app : forall p a b, F p (a ++ b) = F p a ++ F p b.
Proof. intros. unfold F, flat_all. rewrite map_app, flat_map_app, map_app. reflexivity. Qed.

Lemma is_empty_flat : forall s p, is_empty s = true -> flat p s = [].
Proof.
  fix IH 1. intros [n d r di h tg tests subs] p H. rewrite flat_unfold. simpl in H. destruct tests; [|discriminate]. simpl.
  unfold flat_all. induction subs as [|x subs IHs]; [reflexivity|]. simpl in *. apply andb_true_iff in H. destruct H as [H1 H2].
  rewrite (IH x _ H1). simpl. apply IHs. assumption.
Qed.

Lemma flat_all_nonempty : forall p l, flat_all p (filter (fun s => negb (is_empty s)) l) = flat_all p l.
Proof.
  unfold flat_all. induction l as [|s l IH]; simpl; [reflexivity|]. destruct (is_empty s) eqn:E; simpl; rewrite IH; [|reflexivity].
  rewrite (is_empty_flat _ _ E). reflexivity.
Qed.

Lemma finish_flat : forall p final, Permutation (map obs_of (flat_all p (finish final))) (F p final).
Proof.
  intros. unfold finish, F. apply Permutation_map. unfold flat_all.
  rewrite (Permutation_flat_map _ (sort_by_perm _ _ _)). rewrite (Permutation_flat_map _ (sort_by_perm _ _ _)).
  fold (flat_all p (filter (fun s => negb (is_empty s)) (map snd final))). rewrite flat_all_nonempty. reflexivity.
Qed.

Lemma find_mod_split : forall f l s, find_mod f l = Some s ->
  exists g l1 l2, l = l1 ++ (Some g, s) :: l2 /\ g = f /\ forall s', replace_mod f s' l = l1 ++ (Some g, s') :: l2.
Proof.
  induction l as [|[[g|] s0] l IH]; simpl; intros s H; [discriminate| |].
  - destruct (str_eqb f g) eqn:E.
    + inversion H; subst. apply str_eqb_eq in E. exists g, [], l. simpl. auto.
    + destruct (IH _ H) as [g' [l1 [l2 [E1 [E2 E3]]]]]. exists g', ((Some g, s0) :: l1), l2. simpl. split; [f_equal; exact E1|split; [exact E2|]].
      intro s'. rewrite E3. reflexivity.
  - destruct (IH _ H) as [g' [l1 [l2 [E1 [E2 E3]]]]]. exists g', ((None, s0) :: l1), l2. simpl. split; [f_equal; exact E1|split; [exact E2|]].
    intro s'. rewrite E3. reflexivity.
Qed.

Lemma flat_with_subs : forall p s extra,
  flat p (with_subs s (ls_subs s ++ extra)) = flat p s ++ flat_all (p ++ [ls_node s]) extra.
Proof.
  intros p [n d r di h tg tests subs] extra. simpl with_subs. rewrite !flat_unfold. simpl ls_subs. simpl ls_name.
  unfold flat_all. rewrite flat_map_app, app_assoc. reflexivity.
Qed.

(* invariant of the dict [suites] during the loop over the sub-directories *)
Definition entries_inv (mods : list mdecl) (entries : list entry) : Prop :=
  (forall g s, In (Some g, s) entries -> exists m, find (file_is g) mods = Some m /\ ls_node s = merged_node m /\ mod_hidden m = false) /\
  (forall m, In m mods -> mod_hidden m = false -> find_mod (m_file m) entries <> None).

Lemma find_mod_app_none : forall f l e, find_mod f (l ++ [(None, e)]) = find_mod f l.
Proof.
  induction l as [|[[g|] s] l IH]; simpl; intros; try reflexivity.
  - destruct (str_eqb f g); auto.
  - auto.
Qed.

Lemma find_mod_replace : forall f f' s' l, find_mod f l <> None -> find_mod f (replace_mod f' s' l) <> None.
Proof.
  induction l as [|[[g|] s] l IH]; simpl; intros H; try assumption.
  - destruct (str_eqb f' g) eqn:E'; simpl; destruct (str_eqb f g); try discriminate; auto.
  - auto.
Qed.

Lemma find_file_is : forall mods m, NoDup (map m_file mods) -> In m mods -> find (file_is (m_file m)) mods = Some m.
Proof.
  induction mods as [|m0 mods IH]; simpl; intros m ND H; [tauto|]. inversion ND; subst. unfold file_is at 1.
  destruct H as [H|H].
  - subst. assert (E : str_eqb (m_file m) (m_file m) = true) by (apply str_eqb_eq; reflexivity). rewrite E. reflexivity.
  - destruct (str_eqb (m_file m0) (m_file m)) eqn:E; [|auto].
    apply str_eqb_eq in E. exfalso. apply H2. rewrite E. apply in_map. assumption.
Qed.

Lemma find_some_file : forall f mods m, find (file_is f) mods = Some m -> In m mods /\ m_file m = f.
Proof.
  intros f mods m H. apply find_some in H. destruct H as [H1 H2]. unfold file_is in H2. apply str_eqb_eq in H2. tauto.
Qed.

Lemma merge_exact : forall p mods, NoDup (map m_file mods) -> forall subs,
  Forall (fun x => forall p r, load_dir true x = Ok r -> Permutation (map obs_of (flat_all p r)) (declared_dir p x)) subs ->
  forall entries final, merge_subdirs true (hidden_files mods) (load_dir true) entries subs = Ok final ->
  entries_inv mods entries ->
  Permutation (F p final) (F p entries ++ flat_map (sub_spec declared_dir p mods) subs).
Proof.
  intros p mods ND. induction subs as [|x subs IH]; simpl; intros HF entries final H Inv.
  - inversion H; subst. rewrite app_nil_r. reflexivity.
  - inversion HF as [|? ? Hx HF']; subst. destruct Inv as [Inv1 Inv2].
    destruct (mem_str (dir_name x) (hidden_files mods)) eqn:Hhid; simpl in H.
    + (* companion directory of a hidden module: skipped; it declares nothing *)
      rewrite (IH HF' _ _ H (conj Inv1 Inv2)). apply Permutation_app_head.
      apply mem_str_In in Hhid. unfold hidden_files in Hhid. apply in_map_iff in Hhid. destruct Hhid as [m [Em Hm]].
      apply filter_In in Hm. destruct Hm as [Hm Hh].
      assert (E0 : sub_spec declared_dir p mods x = []) by (unfold sub_spec; rewrite <- Em, (find_file_is _ _ ND Hm), Hh; reflexivity).
      rewrite E0. reflexivity.
    + destruct (load_dir true x) as [sub|e] eqn:Hl; simpl in H; [|discriminate].
      assert (Hx' : forall q, Permutation (map obs_of (flat_all q sub)) (declared_dir q x)) by (intro q; apply Hx; reflexivity).
      destruct (find_mod (dir_name x) entries) as [s|] eqn:Hf.
      * destruct (add_suites (ls_subs s) sub) as [all|e] eqn:Ha; simpl in H; [|discriminate].
        apply add_suites_ok in Ha. destruct Ha as [Ea _]. subst all.
        destruct (find_mod_split _ _ _ Hf) as [g [l1 [l2 [E1 [E2 E3]]]]]. subst g.
        assert (Hin : In (Some (dir_name x), s) entries) by (rewrite E1; apply in_or_app; right; left; reflexivity).
        destruct (Inv1 _ _ Hin) as [m [Hm [Hn Hh]]].
        rewrite (IH HF' _ _ H).
        2:{ split.
            - intros g s' Hg. rewrite E3 in Hg. apply in_app_or in Hg. destruct Hg as [Hg|[Hg|Hg]].
              + apply Inv1. rewrite E1. apply in_or_app. left. assumption.
              + inversion Hg; subst. exists m. repeat split; try assumption. destruct s; simpl in *. assumption.
              + apply Inv1. rewrite E1. apply in_or_app. right. right. assumption.
            - intros m' Hm' Hh'. apply find_mod_replace. apply Inv2; assumption. }
        rewrite app_assoc. apply Permutation_app_tail.
        rewrite E3, E1. rewrite !F_app. rewrite <- app_assoc. apply Permutation_app_head.
        unfold F at 1 2. simpl. unfold flat_all at 1 2. simpl. rewrite flat_with_subs. rewrite !map_app. rewrite <- !app_assoc.
        apply Permutation_app_head. etransitivity; [apply Permutation_app_comm|]. apply Permutation_app_head.
        unfold sub_spec. rewrite Hm, Hh, <- Hn. apply Hx'.
      * destruct (add_suites [] sub) as [all|e] eqn:Ha; simpl in H; [|discriminate].
        apply add_suites_ok in Ha. destruct Ha as [Ea _]. simpl in Ea. subst all.
        rewrite (IH HF' _ _ H).
        2:{ split.
            - intros g s' Hg. apply in_app_or in Hg. destruct Hg as [Hg|[Hg|[]]]; [auto|discriminate].
            - intros m' Hm' Hh'. rewrite find_mod_app_none. auto. }
        rewrite app_assoc. apply Permutation_app_tail. rewrite F_app. apply Permutation_app_head.
        unfold F, flat_all. cbn [map snd flat_map]. rewrite app_nil_r, flat_unfold. cbn [map app].
        unfold sub_spec. destruct (find (file_is (dir_name x)) mods) as [m|] eqn:Hm; [|apply Hx'].
        exfalso. destruct (find_some_file _ _ _ Hm) as [Hin Ef].
        destruct (mod_hidden m) eqn:Hh.
        -- apply mem_str_false in Hhid. apply Hhid. unfold hidden_files. rewrite <- Ef. apply in_map. apply filter_In. tauto.
        -- apply (Inv2 m Hin Hh). rewrite Ef. assumption.
Qed.

Lemma load_modules_exact : forall p mods loaded, load_modules mods = Ok loaded ->
  Permutation (F p (entries_of loaded)) (flat_map (declared_module p) mods) /\
  map fst loaded = map m_file mods /\
  Forall2 (fun m ps => ls_node (snd ps) = merged_node m /\ ls_hidden (snd ps) = mod_hidden m) mods loaded.
Proof.
  intro p. induction mods as [|m mods IH]; simpl; intros loaded H.
  - inversion H; subst. repeat split; constructor.
  - destruct (load_module m) as [s|e] eqn:Hm; simpl in H; [|discriminate].
    destruct (load_modules mods) as [ss|e] eqn:Hl; simpl in H; [|discriminate].
    inversion H; subst. clear H. destruct (IH _ eq_refl) as [P1 [P2 P3]].
    destruct (load_module_exact _ _ Hm) as [Hex [Hn Hh]]. split; [|split].
    + specialize (Hex p). unfold entries_of, F in *. simpl. unfold nh in Hex. simpl in Hex.
      destruct (ls_hidden s); simpl in *.
      * rewrite <- P1. apply Permutation_nil in Hex || (apply Permutation_sym, Permutation_nil in Hex). rewrite Hex. reflexivity.
      * unfold flat_all in *. simpl in *. rewrite map_app. rewrite app_nil_r in Hex. apply Permutation_app; assumption.
    + simpl. f_equal. assumption.
    + constructor; [simpl; tauto|assumption].
Qed.

Lemma entries_of_inv : forall mods loaded, NoDup (map m_file mods) ->
  map fst loaded = map m_file mods ->
  Forall2 (fun m ps => ls_node (snd ps) = merged_node m /\ ls_hidden (snd ps) = mod_hidden m) mods loaded ->
  entries_inv mods (entries_of loaded).
Proof.
  intros mods loaded ND Hk HF.
  assert (Hzip : forall g s, In (g, s) loaded -> exists m, In m mods /\ m_file m = g /\ ls_node s = merged_node m /\ ls_hidden s = mod_hidden m).
  { clear ND. revert loaded Hk HF. induction mods as [|m mods IH]; intros loaded Hk HF g s Hin;
      inversion HF as [|m0 y mods' l' Hy HF']; subst; [destruct Hin|].
    simpl in Hk. inversion Hk as [[Hk1 Hk2]]. destruct Hin as [Hin|Hin].
    - subst y. simpl in *. exists m. intuition.
    - destruct (IH _ Hk2 HF' _ _ Hin) as [m' [A B]]. exists m'. split; [right; assumption|assumption]. }
  assert (Hrev : forall m, In m mods -> exists s, In (m_file m, s) loaded /\ ls_hidden s = mod_hidden m).
  { clear ND Hzip. revert loaded Hk HF. induction mods as [|m0 mods IH]; intros loaded Hk HF m Hin;
      inversion HF as [|m1 y mods' l' Hy HF']; subst; [destruct Hin|].
    simpl in Hk. inversion Hk as [[Hk1 Hk2]]. destruct Hin as [Hin|Hin].
    - subst m0. destruct y as [g s]. simpl in *. exists s. subst g. intuition.
    - destruct (IH _ Hk2 HF' _ Hin) as [s [A B]]. exists s. split; [right; assumption|assumption]. }
  split.
  - intros g s Hin. unfold entries_of in Hin. apply in_map_iff in Hin. destruct Hin as [[g' s'] [E Hin]]. simpl in E. inversion E; subst.
    apply filter_In in Hin. destruct Hin as [Hin Hh]. simpl in Hh.
    destruct (Hzip _ _ Hin) as [m [Hm [Ef [Hn Hhid]]]]. exists m. rewrite <- Ef. rewrite (find_file_is _ _ ND Hm).
    repeat split; try assumption. rewrite <- Hhid. destruct (ls_hidden s); [discriminate|reflexivity].
  - intros m Hm Hh. destruct (Hrev _ Hm) as [s [Hin Hs]].
    assert (Hin' : In (Some (m_file m), s) (entries_of loaded)).
    { unfold entries_of. apply in_map_iff. exists (m_file m, s). split; [reflexivity|]. apply filter_In. split; [assumption|].
      simpl. rewrite Hs, Hh. reflexivity. }
    clear - Hin'. induction (entries_of loaded) as [|[[g|] s0] l IH]; simpl in *; [tauto| |].
    + destruct (str_eqb (m_file m) g) eqn:E; [discriminate|]. destruct Hin' as [Hin'|Hin']; [|auto].
      inversion Hin'; subst. assert (E' : str_eqb (m_file m) (m_file m) = true) by (apply str_eqb_eq; reflexivity). congruence.
    + destruct Hin' as [Hin'|Hin']; [discriminate|auto].
Qed.

Lemma load_dir_exact : forall d, names_ok d -> forall p r, load_dir true d = Ok r ->
  Permutation (map obs_of (flat_all p r)) (declared_dir p d).
Proof.
  induction d as [n mods subs IH] using dir_ind'. intros Hn p r H. inversion Hn as [? ? ? ND1 ND2 HF]; subst.
  simpl in H. destruct (load_modules mods) as [loaded|e] eqn:Hm; simpl in H; [|discriminate].
  destruct (merge_subdirs _ _ _ _ _) as [final|e] eqn:Hg; simpl in H; [|discriminate].
  inversion H; subst. clear H. rewrite finish_flat.
  destruct (load_modules_exact p _ _ Hm) as [P1 [P2 P3]].
  rewrite (merge_exact p mods ND1 subs) with (entries := entries_of loaded); [| |eassumption|].
  - simpl. apply Permutation_app_tail. assumption.
  - rewrite Forall_forall in *. intros x Hx p' r' Hr. apply IH; auto.
  - apply entries_of_inv; assumption.
Qed.

(* ================================================================== top-level statements *)
(* the tree the loader works on: directory listings sorted, ranks assigned by the import pass *)
Definition prepared (fixed : bool) (rank0 : nat) (root : dir) : dir := fst (rank_dir fixed rank0 (norm_dir root)).

Lemma load_exact : forall rank0 root suites, names_ok (prepared true rank0 root) -> load true rank0 root = Ok suites ->
  Permutation (map obs_of (flat_all [] suites)) (declared_dir [] (prepared true rank0 root)).
Proof. unfold load, prepared. intros. apply load_dir_exact; assumption. Qed.

Lemma add_tests_iff : forall l, (exists r, add_tests [] l = Ok r) <-> NoDup (map lt_name l) /\ NoDup (map lt_desc l).
Proof.
  intro l. split.
  - intros [r H]. apply add_tests_ok in H. destruct H as [E [H1 H2]]. simpl in E. subst r. split; [apply H1|apply H2]; constructor.
  - intros H. destruct (add_tests [] l) as [r|e] eqn:E; [eauto|]. exfalso. apply add_tests_dup in E. simpl in E. tauto.
Qed.

Lemma add_suites_iff : forall l, (exists r, add_suites [] l = Ok r) <-> NoDup (map ls_name l) /\ NoDup (map ls_desc l).
Proof.
  intro l. split.
  - intros [r H]. apply add_suites_ok in H. destruct H as [E [H1 H2]]. simpl in E. subst r. split; [apply H1|apply H2]; constructor.
  - intros H. destruct (add_suites [] l) as [r|e] eqn:E; [eauto|]. exfalso. apply add_suites_dup in E. simpl in E. tauto.
Qed.

(* hidden things declare nothing *)
Lemma hidden_item_declares_nothing : forall p it, item_hidden it = true -> declared_item p it = [].
Proof. intros p [r d|r c b] H; simpl in *; rewrite H; reflexivity. Qed.
Lemma hidden_module_declares_nothing : forall p m, mod_hidden m = true -> declared_module p m = [].
Proof. intros. unfold declared_module. rewrite H. reflexivity. Qed.
Lemma hidden_module_dir_declares_nothing : forall p mods x m,
  find (file_is (dir_name x)) mods = Some m -> mod_hidden m = true -> sub_spec declared_dir p mods x = [].
Proof. intros. unfold sub_spec. rewrite H, H0. reflexivity. Qed.

Lemma loaded_subset_declared : forall rank0 root suites, names_ok (prepared true rank0 root) -> load true rank0 root = Ok suites ->
  forall path t, In (path, t) (flat_all [] suites) -> In (path, info_of t) (declared_dir [] (prepared true rank0 root)).
Proof.
  intros rank0 root suites Hn H path t Hin. eapply Permutation_in; [apply load_exact; eassumption|].
  change (path, info_of t) with (obs_of (path, t)). apply in_map. assumption.
Qed.

(* ------------------------------------------------------------------ metadata, stated locally *)
Lemma expand_test_metadata : forall rank d t, In t (expand_test rank d) ->
  lt_tags t = t_tags d /\ lt_props t = declared_props (t_props d) /\ lt_links t = declared_links (t_links d) /\
  lt_disabled t = t_disabled d /\ lt_rank t = rank.
Proof.
  intros rank d t H. unfold expand_test in H. destruct (hidden_of (t_cond d)); [destruct H|].
  apply in_map_iff in H. destruct H as [x [E _]]. subst t. simpl. rewrite loaded_props_spec. repeat split; reflexivity.
Qed.

Lemma load_class_meta : forall rank c body r, load_class (IClass rank c body) = Ok r ->
  exists s, r = [s] /\ ls_name s = class_name c /\ ls_meta s = declared_class_meta c.
Proof.
  intros rank c body r H. rewrite load_class_unfold in H.
  destruct (add_tests [] (load_tests_of body)) as [tests|e]; simpl in H; [|discriminate].
  destruct (sequence _) as [loaded|e]; simpl in H; [|discriminate].
  destruct (add_suites [] _) as [subs|e]; simpl in H; [|discriminate].
  inversion H; subst. eexists. split; [reflexivity|]. simpl. split; [reflexivity|apply class_meta_spec].
Qed.

Lemma collapses_single : forall m, collapses m = true -> exists rank c body, visible_classes (m_items m) = [IClass rank c body].
Proof.
  intros m H. unfold collapses in H. destruct (m_suite m); [discriminate|]. apply andb_true_iff in H. destruct H as [_ H].
  destruct (visible_classes (m_items m)) as [|x [|x' l]] eqn:E; try discriminate.
  assert (Hin : In x (visible_classes (m_items m))) by (rewrite E; left; reflexivity).
  unfold visible_classes in Hin. apply filter_In in Hin. destruct Hin as [Hin _]. apply filter_In in Hin. destruct Hin as [_ Hc].
  destruct x as [r d|r c b]; [discriminate|]. eauto.
Qed.

Lemma load_module_meta : forall m s, load_module m = Ok s -> collapses m = false -> ls_meta s = declared_mod_meta m.
Proof.
  intros m s H Hc. destruct (load_module_exact _ _ H) as [_ [Hn _]]. unfold merged_node in Hn. rewrite Hc in Hn.
  unfold ls_node in Hn. inversion Hn. reflexivity.
Qed.

Lemma load_module_meta_collapsed : forall m s, load_module m = Ok s -> collapses m = true ->
  exists rank c body, visible_classes (m_items m) = [IClass rank c body] /\ ls_meta s = declared_class_meta c.
Proof.
  intros m s H Hc. destruct (load_module_exact _ _ H) as [_ [Hn _]]. unfold merged_node in Hn. rewrite Hc in Hn.
  destruct (collapses_single _ Hc) as [rank [c [body E]]]. rewrite E in Hn. exists rank, c, body. split; [exact E|].
  unfold ls_node, item_node in Hn. inversion Hn. reflexivity.
Qed.
