(* The WRITER half of C05: the report ReportWriter builds does not depend on how the event lists of independent tasks are
   interleaved, nor on the thread identifiers of the worker threads.

   T1  apply_swap        two independent events (indep: executable, symmetric = indep_sym) commute in the writer up to the
                         insertion order of children (wequiv);
       apply_wequiv      apply respects wequiv (sibling names pairwise distinct: names_distinct, an invariant the writer
                         establishes itself: names_distinct_init / names_distinct_step);
       normalize_wequiv  equivalent states with pairwise distinct sort keys (keys_distinct) have the same normal form.
   T2  aggregate_trace_equiv   reordering a stream by swaps of adjacent independent events (trace_equiv) does not change the
                               report.
   T3  aggregate_rename        renaming the thread identifiers injectively does not change the report;
       aggregate_rename_merge  nor does merging threads whose steps are never open at the same time (merge_ok).

   Side condition on the stream (aligned / all_aligned; executable checker all_alignedb): a StepEnd or log-like event names
   the location of the step its thread has open.  The writer files such an event in the open step of the THREAD and uses the
   location only for `assert result`, so without this the result a log event touches cannot be read off the event.

   Method: the whole state is embedded in ONE tree (root_of: the session is the root node, its fields are the session
   fields); every event is ONE update `upd_at p (run_lop o)` of a node of that tree by a local operation o (sem), followed
   for StepStart by the registration of the new step in w_active (apply_char: apply = tree_apply up to the exception raised).
   Commutation (upd_at_comm) and compatibility with the equivalence (upd_at_respects) are proved once for upd_at and once
   per local operation, the latter through six lenses (start, end, setup, teardown, tests, sub-suites): an operation is
   local to one lens and agnostic to the others.

   Only stdlib. *)
From Coq Require Import List NArith ZArith Bool Lia Arith Permutation.
Import ListNotations.
From LCC Require Import Base.Util Model.Report Model.Events Model.Writer Proofs.WriterP Proofs.WriterFilingP.

(* ====================================================================================================================== *)
(* 1. a stable sort of a permutation with distinct keys                                                                    *)
(* ====================================================================================================================== *)
Lemma insert_by_comm : forall A (key : A -> Z) x y l, key x <> key y ->
  insert_by key x (insert_by key y l) = insert_by key y (insert_by key x l).
Proof.
  intros A key x y l Hne. induction l as [|z r IH]; cbn [insert_by].
  - destruct (Z.leb_spec (key x) (key y)); destruct (Z.leb_spec (key y) (key x)); try reflexivity; lia.
  - destruct (Z.leb_spec (key y) (key z)) as [Hy|Hy]; destruct (Z.leb_spec (key x) (key z)) as [Hx|Hx]; cbn [insert_by].
    + destruct (Z.leb_spec (key x) (key y)); destruct (Z.leb_spec (key y) (key x)); try lia;
        repeat match goal with |- context [Z.leb ?a ?b] => destruct (Z.leb_spec a b); try lia end; reflexivity.
    + repeat match goal with |- context [Z.leb ?a ?b] => destruct (Z.leb_spec a b); try lia end; reflexivity.
    + repeat match goal with |- context [Z.leb ?a ?b] => destruct (Z.leb_spec a b); try lia end; reflexivity.
    + repeat match goal with |- context [Z.leb ?a ?b] => destruct (Z.leb_spec a b); try lia end. rewrite IH. reflexivity.
Qed.

Lemma sort_by_cons : forall A (key : A -> Z) x l, sort_by key (x :: l) = insert_by key x (sort_by key l).
Proof. reflexivity. Qed.

Lemma sort_by_perm : forall A (key : A -> Z) l l', Permutation l l' -> NoDup (map key l) -> sort_by key l = sort_by key l'.
Proof.
  intros A key l l' H. induction H as [|x l l' H IH|x y l|l1 l2 l3 H1 IH1 H2 IH2]; intros Hnd.
  - reflexivity.
  - rewrite !sort_by_cons. inversion Hnd; subst. rewrite IH by assumption. reflexivity.
  - rewrite !sort_by_cons. apply insert_by_comm. inversion Hnd; subst. intro E. apply H1. left. symmetry. exact E.
  - rewrite IH1 by assumption. apply IH2. eapply Permutation_NoDup; [|exact Hnd]. apply Permutation_map. exact H1.
Qed.

(* ====================================================================================================================== *)
(* 2. the equivalence: same report up to the insertion order of the children                                               *)
(* ====================================================================================================================== *)
Inductive lequiv : list lsuite -> list lsuite -> Prop :=
| LE_nil : lequiv [] []
| LE_skip : forall s s' l l', sequiv s s' -> lequiv l l' -> lequiv (s :: l) (s' :: l')
| LE_swap : forall a b l, lequiv (a :: b :: l) (b :: a :: l)
| LE_trans : forall l1 l2 l3, lequiv l1 l2 -> lequiv l2 l3 -> lequiv l1 l3
with sequiv : lsuite -> lsuite -> Prop :=
| SE_node : forall m rk a e x y ts ts' us us', Permutation ts ts' -> lequiv us us' ->
    sequiv (LSuite m rk a e x y ts us) (LSuite m rk a e x y ts' us').

Scheme lequiv_mind := Induction for lequiv Sort Prop
  with sequiv_mind := Induction for sequiv Sort Prop.
Scheme lequiv_mut := Minimality for lequiv Sort Prop
  with sequiv_mut := Minimality for sequiv Sort Prop.
Combined Scheme lsequiv_mut from lequiv_mut, sequiv_mut.

Definition wequiv (w w' : wstate) : Prop :=
  w_start w = w_start w' /\ w_end w = w_end w' /\ w_setup w = w_setup w' /\ w_teardown w = w_teardown w' /\
  lequiv (w_suites w) (w_suites w') /\
  forall th, lookup_active th (w_active w) = lookup_active th (w_active w').

Fixpoint lsuite_induct (P : lsuite -> Prop)
  (H : forall m rk st e su td ts us, Forall P us -> P (LSuite m rk st e su td ts us)) (s : lsuite) : P s :=
  match s with
  | LSuite m rk st e su td ts us =>
      H m rk st e su td ts us
        ((fix go (l : list lsuite) : Forall P l :=
            match l with
            | [] => Forall_nil P
            | x :: r => Forall_cons x (lsuite_induct P H x) (go r)
            end) us)
  end.

Lemma sequiv_refl : forall s, sequiv s s.
Proof.
  induction s as [m rk st e su td ts us IH] using lsuite_induct. constructor; [apply Permutation_refl|].
  induction IH as [|u r Hu Hr IHr]; constructor; assumption.
Qed.

Lemma lequiv_refl : forall l, lequiv l l.
Proof. induction l; constructor; auto using sequiv_refl. Qed.

Lemma lsequiv_sym : (forall l l', lequiv l l' -> lequiv l' l) /\ (forall s s', sequiv s s' -> sequiv s' s).
Proof.
  apply lsequiv_mut; intros.
  - constructor.
  - constructor; assumption.
  - apply LE_swap.
  - eapply LE_trans; eassumption.
  - constructor; [apply Permutation_sym|]; assumption.
Qed.

Lemma lequiv_sym : forall l l', lequiv l l' -> lequiv l' l.
Proof. apply lsequiv_sym. Qed.
Lemma sequiv_sym : forall s s', sequiv s s' -> sequiv s' s.
Proof. apply lsequiv_sym. Qed.

Lemma sequiv_trans : forall s1 s2 s3, sequiv s1 s2 -> sequiv s2 s3 -> sequiv s1 s3.
Proof.
  intros s1 s2 s3 H1 H2. inversion H1; subst. inversion H2; subst. constructor.
  - eapply Permutation_trans; eassumption.
  - eapply LE_trans; eassumption.
Qed.

Lemma wequiv_refl : forall w, wequiv w w.
Proof. intros w. repeat split; auto using lequiv_refl. Qed.

Lemma wequiv_sym : forall w w', wequiv w w' -> wequiv w' w.
Proof. intros w w' (A & B & C & D & E & F). repeat split; auto using lequiv_sym. Qed.

Lemma wequiv_trans : forall w1 w2 w3, wequiv w1 w2 -> wequiv w2 w3 -> wequiv w1 w3.
Proof.
  intros w1 w2 w3 (A & B & C & D & E & F) (A' & B' & C' & D' & E' & F'). repeat split; try congruence.
  eapply LE_trans; eassumption.
Qed.

Lemma lequiv_perm : forall l l', Permutation l l' -> lequiv l l'.
Proof.
  intros l l' H. induction H.
  - constructor.
  - constructor; [apply sequiv_refl|assumption].
  - apply LE_swap.
  - eapply LE_trans; eassumption.
Qed.

Lemma lequiv_app_tail : forall l1 l1' l2, lequiv l1 l1' -> lequiv (l1 ++ l2) (l1' ++ l2).
Proof.
  intros l1 l1' l2 H1. induction H1; simpl.
  - apply lequiv_refl.
  - constructor; assumption.
  - apply LE_swap.
  - eapply LE_trans; eassumption.
Qed.

Lemma lequiv_app_head : forall l l2 l2', lequiv l2 l2' -> lequiv (l ++ l2) (l ++ l2').
Proof. induction l; simpl; intros; auto. constructor; [apply sequiv_refl|auto]. Qed.

Lemma lequiv_app : forall l1 l1' l2 l2', lequiv l1 l1' -> lequiv l2 l2' -> lequiv (l1 ++ l2) (l1' ++ l2').
Proof. intros. eapply LE_trans; [apply lequiv_app_tail; eassumption|apply lequiv_app_head; assumption]. Qed.

(* ====================================================================================================================== *)
(* 3. invariants on every node of the tree; the normal form of equivalent states                                           *)
(* ====================================================================================================================== *)
Definition tname (rt : Z * test_result) : str := m_name (t_meta (snd rt)).

(* P holds of s and of every suite below it *)
Fixpoint deep (P : lsuite -> Prop) (s : lsuite) : Prop :=
  match s with
  | LSuite _ _ _ _ _ _ _ us =>
      P s /\ (fix all (l : list lsuite) : Prop := match l with [] => True | u :: r => deep P u /\ all r end) us
  end.

Lemma deep_unfold : forall P s, deep P s <-> P s /\ Forall (deep P) (ls_subs s).
Proof.
  intros P [m rk a e x y ts us]. cbn [deep ls_subs].
  assert (E : forall l, (fix all (l : list lsuite) : Prop := match l with [] => True | u :: r => deep P u /\ all r end) l
                        <-> Forall (deep P) l).
  { induction l as [|u r IH]; split; intros H; auto.
    - destruct H as [H1 H2]. constructor; [assumption|apply IH; assumption].
    - inversion H; subst. split; [assumption|apply IH; assumption]. }
  rewrite E. reflexivity.
Qed.

(* sibling names pairwise distinct (what add_suite / add_test enforce) *)
Definition node_names (s : lsuite) : Prop := NoDup (map tname (ls_tests s)) /\ NoDup (map ls_name (ls_subs s)).
(* sort keys of the siblings pairwise distinct *)
Definition node_keys (s : lsuite) : Prop := NoDup (map fst (ls_tests s)) /\ NoDup (map ls_rank (ls_subs s)).

Definition names_distinct (w : wstate) : Prop :=
  NoDup (map ls_name (w_suites w)) /\ Forall (deep node_names) (w_suites w).
Definition keys_distinct (w : wstate) : Prop :=
  NoDup (map ls_rank (w_suites w)) /\ Forall (deep node_keys) (w_suites w).

Definition np (u : lsuite) : Z * suite_result := (ls_rank u, norm_suite u).

Lemma norm_suite_eq : forall m rk a e x y ts us,
  norm_suite (LSuite m rk a e x y ts us) =
  SuiteResult m a e x y (map snd (sort_by fst ts)) (map snd (sort_by fst (map np us))).
Proof. reflexivity. Qed.

Lemma sequiv_rank : forall s s', sequiv s s' -> ls_rank s = ls_rank s'.
Proof. intros s s' H. inversion H; reflexivity. Qed.
Lemma sequiv_name : forall s s', sequiv s s' -> ls_name s = ls_name s'.
Proof. intros s s' H. inversion H; reflexivity. Qed.

Lemma map_rank_np : forall l, map ls_rank l = map fst (map np l).
Proof. intros. rewrite map_map. reflexivity. Qed.

Lemma norm_lsequiv :
  (forall l l', lequiv l l' -> Forall (deep node_keys) l ->
                Forall (deep node_keys) l' /\ Permutation (map np l) (map np l')) /\
  (forall s s', sequiv s s' -> deep node_keys s -> deep node_keys s' /\ norm_suite s = norm_suite s').
Proof.
  apply lsequiv_mut.
  - intros _. split; constructor.
  - intros s s' l l' Hs IHs Hl IHl HF. inversion HF; subst. destruct (IHs H1) as [A1 A2]. destruct (IHl H2) as [B1 B2].
    split; [constructor; assumption|]. simpl. unfold np at 1 3. rewrite A2, (sequiv_rank _ _ Hs). apply perm_skip. exact B2.
  - intros a b l HF. inversion HF; subst. inversion H2; subst. split; [repeat constructor; assumption|]. simpl. apply perm_swap.
  - intros l1 l2 l3 H1 IH1 H2 IH2 HF. destruct (IH1 HF) as [A1 A2]. destruct (IH2 A1) as [B1 B2].
    split; [assumption|eapply Permutation_trans; eassumption].
  - intros m rk a e x y ts ts' us us' Hp Hl IHl Hd. apply deep_unfold in Hd. destruct Hd as [[K1 K2] HF].
    cbn [ls_tests ls_subs] in *. destruct (IHl HF) as [A1 A2]. split.
    + apply deep_unfold. split; [|exact A1]. split; cbn [ls_tests ls_subs].
      * eapply Permutation_NoDup; [|exact K1]. apply Permutation_map. exact Hp.
      * rewrite map_rank_np in *. eapply Permutation_NoDup; [|exact K2]. apply Permutation_map. exact A2.
    + rewrite !norm_suite_eq. f_equal.
      * f_equal. apply sort_by_perm; assumption.
      * f_equal. apply sort_by_perm; [assumption|]. rewrite <- map_rank_np. exact K2.
Qed.

Theorem normalize_wequiv : forall w w', wequiv w w' -> keys_distinct w -> normalize w = normalize w'.
Proof.
  intros w w' (A & B & C & D & E & _) [K1 K2]. unfold normalize. rewrite A, B, C, D. f_equal. f_equal.
  destruct (proj1 norm_lsequiv _ _ E K2) as [_ P]. apply (sort_by_perm _ fst _ _ P). rewrite <- map_rank_np. exact K1.
Qed.

Lemma keys_distinct_wequiv : forall w w', wequiv w w' -> keys_distinct w -> keys_distinct w'.
Proof.
  intros w w' (_ & _ & _ & _ & E & _) [K1 K2]. destruct (proj1 norm_lsequiv _ _ E K2) as [F P]. split; [|exact F].
  rewrite map_rank_np in *. eapply Permutation_NoDup; [|exact K1]. apply Permutation_map. exact P.
Qed.

(* ====================================================================================================================== *)
(* 4. one tree: the session is the root node; every handler is an update of one node                                       *)
(* ====================================================================================================================== *)
Definition ls_start (s : lsuite) := match s with LSuite _ _ a _ _ _ _ _ => a end.
Definition ls_end (s : lsuite) := match s with LSuite _ _ _ e _ _ _ _ => e end.
Definition set_ls_start (s : lsuite) (a : option Z) := match s with LSuite m r _ e x y t u => LSuite m r a e x y t u end.

Definition root_meta : meta := mkMeta [] [] [] [] [].
Definition root_of (w : wstate) : lsuite :=
  LSuite root_meta 0 (w_start w) (w_end w) (w_setup w) (w_teardown w) [] (w_suites w).
Definition with_root (w : wstate) (s : lsuite) : wstate :=
  mkW (ls_start s) (ls_end s) (ls_setup s) (ls_teardown s) (ls_subs s) (w_active w).

(* update of the node at path p below s (p = [] is s itself) *)
Fixpoint upd_at {X} (p : path) (f : lsuite -> res (lsuite * X)) (s : lsuite) : res (lsuite * X) :=
  match p with
  | [] => f s
  | n :: rest => put (set_ls_subs s) (upd_first n (upd_at rest f) (ls_subs s))
  end.

Lemma upd_suite_at : forall X (f : lsuite -> res (lsuite * X)) rest n l,
  upd_suite (n :: rest) f l = upd_first n (upd_at rest f) l.
Proof.
  intros X f. induction rest as [|n2 rest' IH]; intros n l.
  - cbn [upd_suite]. apply upd_first_ext. intros s. reflexivity.
  - change (upd_first n (fun s => put (set_ls_subs s) (upd_suite (n2 :: rest') f (ls_subs s))) l =
            upd_first n (upd_at (n2 :: rest') f) l).
    apply upd_first_ext. intros s. cbn [upd_at]. rewrite IH. reflexivity.
Qed.

Lemma with_root_root : forall w, with_root w (root_of w) = w.
Proof. destruct w; reflexivity. Qed.

(* ---------------- by-products ---------------- *)
Definition remap {A X Y} (k : X -> Y) (x : res (A * X)) : res (A * Y) :=
  match x with Ok (a, o) => Ok (a, k o) | Err e => Err e end.
Definition nz {A} (x : res A) : res (A * nat) := match x with Ok a => Ok (a, 0) | Err e => Err e end.

Lemma put_remap : forall A B X Y (k : X -> Y) (g : A -> B) (x : res (A * X)), put g (remap k x) = remap k (put g x).
Proof. intros. destruct x as [[a o]|e]; reflexivity. Qed.

Lemma upd_first_remap : forall X Y (k : X -> Y) n (g : lsuite -> res (lsuite * X)) l,
  upd_first n (fun s => remap k (g s)) l = remap k (upd_first n g l).
Proof.
  induction l as [|s r IH]; simpl; auto. destruct (str_eqb (ls_name s) n).
  - apply put_remap.
  - rewrite IH. apply put_remap.
Qed.

Lemma upd_at_remap : forall X Y (k : X -> Y) (f : lsuite -> res (lsuite * X)) p s,
  upd_at p (fun s => remap k (f s)) s = remap k (upd_at p f s).
Proof.
  intros X Y k f. induction p as [|n rest IH]; intros s; cbn [upd_at]; auto.
  rewrite <- put_remap, <- upd_first_remap. f_equal. apply upd_first_ext. exact IH.
Qed.

Lemma upd_test_remap : forall X Y (k : X -> Y) n (f : result -> res (result * X)) l,
  upd_test n (fun r => remap k (f r)) l = remap k (upd_test n f l).
Proof.
  induction l as [|rt r IH]; simpl; auto. destruct (str_eqb _ n).
  - apply put_remap.
  - rewrite IH. apply put_remap.
Qed.

Lemma slot_upd_remap : forall X Y (k : X -> Y) sl ne (f : result -> res (result * X)) s,
  slot_upd sl ne (fun r => remap k (f r)) s = remap k (slot_upd sl ne f s).
Proof.
  intros. destruct sl; cbn [slot_upd]; rewrite <- put_remap; f_equal.
  - destruct (ls_setup s); simpl; auto. apply put_remap.
  - destruct (ls_teardown s); simpl; auto. apply put_remap.
  - apply upd_test_remap.
Qed.

Lemma upd_at_ext : forall X (f f' : lsuite -> res (lsuite * X)) p s, (forall s, f s = f' s) -> upd_at p f s = upd_at p f' s.
Proof.
  intros X f f'. induction p as [|n rest IH]; intros s H; cbn [upd_at]; auto. f_equal. apply upd_first_ext. intros; apply IH; assumption.
Qed.

(* ---------------- locations in the tree ---------------- *)
Definition rslot (loc : location) : option (path * slot) :=
  match loc with
  | LocSessionSetup => Some ([], SSetup)
  | LocSessionTeardown => Some ([], STeardown)
  | LocSuiteSetup p => match p with [] => None | _ :: _ => Some (p, SSetup) end
  | LocSuiteTeardown p => match p with [] => None | _ :: _ => Some (p, STeardown) end
  | LocTest p => match split_last p with Some (n0 :: q, n) => Some (n0 :: q, STest n) | _ => None end
  end.

Lemma upd_at_root_cons : forall X (F : lsuite -> res (lsuite * X)) n r w,
  put (with_root w) (upd_at (n :: r) F (root_of w)) = put (set_w_suites w) (upd_suite (n :: r) F (w_suites w)).
Proof.
  intros. cbn [upd_at]. rewrite upd_suite_at. cbn [root_of ls_subs]. rewrite put_put. apply put_ext. intros l. reflexivity.
Qed.

Lemma upd_result_root : forall X ne loc (f : result -> res (result * X)) w,
  upd_result ne loc f w = match rslot loc with
                          | None => Err AttributeError
                          | Some (p, sl) => put (with_root w) (upd_at p (slot_upd sl ne f) (root_of w))
                          end.
Proof.
  intros X ne loc f w. destruct loc as [| |p|p|p]; cbn [upd_result rslot].
  - cbn [upd_at slot_upd root_of ls_setup]. rewrite put_put. apply put_ext. intros o. reflexivity.
  - cbn [upd_at slot_upd root_of ls_teardown]. rewrite put_put. apply put_ext. intros o. reflexivity.
  - destruct p as [|n r]; [reflexivity|]. rewrite upd_at_root_cons. reflexivity.
  - destruct p as [|n r]; [reflexivity|]. rewrite upd_at_root_cons. reflexivity.
  - destruct (split_last p) as [[[|n r] x]|]; [reflexivity| |reflexivity]. rewrite upd_at_root_cons. reflexivity.
Qed.

Lemma pure_remap : forall A (x : res A), pure x = remap (fun _ : nat => tt) (nz x).
Proof. destruct x; reflexivity. Qed.

Lemma drop_remap : forall A (x : res (A * nat)), drop (remap (fun _ => tt) x) = bind x (fun ax => Ok (fst ax)).
Proof. destruct x as [[a o]|e]; reflexivity. Qed.

Lemma on_suite_root : forall p (f : lsuite -> res lsuite) w,
  on_suite p f w = match p with
                   | [] => Err AttributeError
                   | _ :: _ => bind (upd_at p (fun s => nz (f s)) (root_of w)) (fun sx => Ok (with_root w (fst sx)))
                   end.
Proof.
  intros p f w. unfold on_suite. destruct p as [|n r]; [reflexivity|].
  rewrite (upd_suite_ext _ _ (fun s => remap (fun _ : nat => tt) (nz (f s)))) by (intros; apply pure_remap).
  rewrite <- upd_at_root_cons. rewrite upd_at_remap, put_remap, drop_remap.
  destruct (upd_at (n :: r) (fun s => nz (f s)) (root_of w)) as [[a o]|e]; reflexivity.
Qed.

(* ---------------- local operations on a node ---------------- *)
Inductive lop :=
| OStart (t : Z)                                   (* the start time (session only) *)
| OEnd (t : Z)                                     (* the end time *)
| OFresh (setup : bool) (t : Z)                    (* a new setup / teardown Result; refused when there is one *)
| OAddTest (nd : node) (r : result)                (* a new test; refused when the name is taken *)
| OAddSub (m : meta) (rk : Z) (t : Z)              (* a new sub-suite; refused when the name is taken *)
| ORes (sl : slot) (ne : err) (fr : result -> res (result * nat)).   (* update of the Result in a slot *)

Definition new_suite (m : meta) (rk t : Z) : lsuite := LSuite m rk (Some t) None None None [] [].

Definition run_lop (o : lop) (s : lsuite) : res (lsuite * nat) :=
  match o with
  | OStart t => Ok (set_ls_start s (Some t), 0)
  | OEnd t => Ok (set_ls_end s (Some t), 0)
  | OFresh true t => nz (bind (set_fresh (ls_setup s) t) (fun o => Ok (set_ls_setup s o)))
  | OFresh false t => nz (bind (set_fresh (ls_teardown s) t) (fun o => Ok (set_ls_teardown s o)))
  | OAddTest nd r => nz (add_test nd r s)
  | OAddSub m rk t => nz (bind (add_suite (new_suite m rk t) (ls_subs s)) (fun u => Ok (set_ls_subs s u)))
  | ORes sl ne fr => slot_upd sl ne fr s
  end.

Definition fin (t : Z) (r : result) : res (result * nat) := Ok (finalize_result t r, 0).
Definition step_start_fn (d : str) (t : Z) (r : result) : res (result * nat) :=
  Ok (set_steps r (r_steps r ++ [mkStep d (Some t) None []]), length (r_steps r)).
Definition step_fn (i : nat) (F : step -> res step) (r : result) : res (result * nat) :=
  nz (bind (upd_nth i F (r_steps r)) (fun l => Ok (set_steps r l))).
Definition end_step (t : Z) (st : step) : res step := Ok (mkStep (st_description st) (st_start st) (Some t) (st_logs st)).
Definition chk (r : result) : res (result * nat) := Ok (r, 0).

(* the operation a step/log event of a thread performs: on the Step object the thread has open *)
Definition active_op (w : wstate) (th : tid) (F : step -> res step) : option (path * lop) :=
  match lookup_active th (w_active w) with
  | Some (loc', i) => match rslot loc' with
                      | Some (p, sl) => Some (p, ORes sl Unmodelled (step_fn i F))
                      | None => None
                      end
  | None => None
  end.

Definition test_op (n : node) (o : lop) : option (path * lop) :=
  match n_parent n with [] => None | _ :: _ => Some (n_parent n, o) end.

(* the node an event updates and the operation it performs there *)
Definition sem (w : wstate) (e : event) : option (path * lop) :=
  match e with
  | ESessionStart t => Some ([], OStart t)
  | ESessionEnd t => Some ([], OEnd t)
  | ESessionSetupStart t => Some ([], OFresh true t)
  | ESessionSetupEnd t => Some ([], ORes SSetup AttributeError (fin t))
  | ESessionTeardownStart t => Some ([], OFresh false t)
  | ESessionTeardownEnd t => Some ([], ORes STeardown AttributeError (fin t))
  | ESuiteStart n t => Some (n_parent n, OAddSub (n_meta n) (n_rank n) t)
  | ESuiteEnd n t => Some (node_path n, OEnd t)
  | ESuiteSetupStart n t => Some (node_path n, OFresh true t)
  | ESuiteSetupEnd n t => Some (node_path n, ORes SSetup AttributeError (fin t))
  | ESuiteTeardownStart n t => Some (node_path n, OFresh false t)
  | ESuiteTeardownEnd n t => Some (node_path n, ORes STeardown AttributeError (fin t))
  | ETestStart n t => test_op n (OAddTest n (initialize_result t))
  | ETestEnd n t => test_op n (ORes (STest (m_name (n_meta n))) AttributeError (fin t))
  | ETestSkipped n reason t => test_op n (OAddTest n (mkResult (Some t) (Some t) (Some s_skipped) reason []))
  | ETestDisabled n reason t => test_op n (OAddTest n (mkResult (Some t) (Some t) (Some s_disabled) reason []))
  | EStepStart loc d th t => match rslot loc with
                             | Some (p, sl) => Some (p, ORes sl AttributeError (step_start_fn d t))
                             | None => None
                             end
  | EStepEnd _ _ th t => active_op w th (end_step t)
  | ELog _ _ th level message t => active_op w th (log_adder (LLog level message t))
  | ECheck _ _ th d ok details t => active_op w th (log_adder (LCheck d ok details t))
  | ELogAttachment _ _ th filename d as_image t => active_op w th (log_adder (LAttachment d filename as_image t))
  | ELogUrl _ _ th url d t => active_op w th (log_adder (LUrl d url t))
  end.

(* what else happens: StepStart registers the new Step as the thread's open step *)
Definition post (e : event) (x : nat) (w : wstate) : wstate :=
  match e with
  | EStepStart loc _ th _ => set_w_active w (set_active th (loc, x) (w_active w))
  | _ => w
  end.

(* `assert result` of _add_step_log: the location named by a log-like event must hold a Result *)
Definition check (e : event) : option location :=
  match e with
  | ELog loc _ _ _ _ _ | ECheck loc _ _ _ _ _ _ | ELogAttachment loc _ _ _ _ _ _ | ELogUrl loc _ _ _ _ _ => Some loc
  | _ => None
  end.

Definition tree_run (w : wstate) (pl : option (path * lop)) : res (lsuite * nat) :=
  match pl with
  | None => Err AttributeError
  | Some (p, o) => upd_at p (run_lop o) (root_of w)
  end.

Definition check_apply (w : wstate) (e : event) : res (lsuite * nat) :=
  match check e with
  | None => Ok (root_of w, 0)
  | Some loc => match rslot loc with
                | Some (p, sl) => tree_run w (Some (p, ORes sl AssertionError chk))
                | None => Err AttributeError
                end
  end.

Definition tree_apply (w : wstate) (e : event) : res wstate :=
  bind (check_apply w e) (fun _ =>
  bind (tree_run w (sem w e)) (fun sx => Ok (post e (snd sx) (with_root w (fst sx))))).

(* equal up to the exception raised *)
Definition sim {A} (x y : res A) : Prop :=
  match x, y with Ok a, Ok b => a = b | Err _, Err _ => True | _, _ => False end.

Lemma sim_refl : forall A (x : res A), sim x x.
Proof. destruct x; simpl; auto. Qed.

Lemma sim_ok : forall A (x y : res A) a, sim x y -> (x = Ok a <-> y = Ok a).
Proof. intros A [a1|e1] [a2|e2] a H; simpl in H; try contradiction; subst; split; intros E; try discriminate; auto. Qed.

Lemma upd_test_ext : forall X n (f f' : result -> res (result * X)) l, (forall r, f r = f' r) -> upd_test n f l = upd_test n f' l.
Proof. induction l as [|rt r IH]; simpl; intros H; auto. rewrite H, IH by assumption. reflexivity. Qed.

Lemma slot_upd_ext : forall X sl ne (f f' : result -> res (result * X)) s, (forall r, f r = f' r) ->
  slot_upd sl ne f s = slot_upd sl ne f' s.
Proof.
  intros X sl ne f f' s H. destruct sl; cbn [slot_upd]; f_equal.
  - destruct (ls_setup s); simpl; auto. rewrite H. reflexivity.
  - destruct (ls_teardown s); simpl; auto. rewrite H. reflexivity.
  - apply upd_test_ext. exact H.
Qed.

(* an update of a Result whose by-product is dropped *)
Lemma upd_result_drop : forall ne loc (f : result -> res (result * unit)) (fr : result -> res (result * nat)) w,
  (forall r, f r = remap (fun _ => tt) (fr r)) ->
  drop (upd_result ne loc f w) = match rslot loc with
                                 | None => Err AttributeError
                                 | Some (p, sl) => bind (upd_at p (run_lop (ORes sl ne fr)) (root_of w)) (fun sx => Ok (with_root w (fst sx)))
                                 end.
Proof.
  intros ne loc f fr w H. change (run_lop (ORes ?a ne fr)) with (slot_upd a ne fr). rewrite upd_result_root. destruct (rslot loc) as [[p sl]|]; [|reflexivity].
  rewrite (upd_at_ext _ _ (fun s => remap (fun _ : nat => tt) (slot_upd sl ne fr s))).
  - rewrite upd_at_remap, put_remap, drop_remap. destruct (upd_at p (slot_upd sl ne fr) (root_of w)) as [[a o]|e]; reflexivity.
  - intros s. rewrite <- slot_upd_remap. apply slot_upd_ext. exact H.
Qed.

Lemma upd_step_root : forall loc' i F w,
  upd_step (loc', i) F w = match rslot loc' with
                           | None => Err AttributeError
                           | Some (p, sl) => bind (upd_at p (run_lop (ORes sl Unmodelled (step_fn i F))) (root_of w))
                                                  (fun sx => Ok (with_root w (fst sx)))
                           end.
Proof. intros. unfold upd_step. cbn [fst snd]. apply upd_result_drop. intros r. unfold step_fn. apply pure_remap. Qed.

Lemma on_suite_lop : forall p (f : lsuite -> res lsuite) o w, (forall s, nz (f s) = run_lop o s) -> p <> [] ->
  on_suite p f w = bind (upd_at p (run_lop o) (root_of w)) (fun sx => Ok (with_root w (fst sx))).
Proof.
  intros p f o w H Hp. rewrite on_suite_root. destruct p as [|n r]; [contradiction|].
  rewrite (upd_at_ext _ _ (run_lop o)) by exact H. reflexivity.
Qed.

Lemma node_path_ne : forall n, node_path n <> [].
Proof. intros n E. unfold node_path in E. apply app_eq_nil in E. destruct E; discriminate. Qed.

Lemma rslot_test : forall n, rslot (LocTest (node_path n)) =
  match n_parent n with [] => None | _ :: _ => Some (n_parent n, STest (m_name (n_meta n))) end.
Proof. intros. unfold node_path. cbn [rslot]. rewrite split_last_app. destruct (n_parent n); reflexivity. Qed.

Lemma rslot_suite_setup : forall n, rslot (LocSuiteSetup (node_path n)) = Some (node_path n, SSetup).
Proof. intros. cbn [rslot]. destruct (node_path n) eqn:E; [apply node_path_ne in E; contradiction|reflexivity]. Qed.
Lemma rslot_suite_teardown : forall n, rslot (LocSuiteTeardown (node_path n)) = Some (node_path n, STeardown).
Proof. intros. cbn [rslot]. destruct (node_path n) eqn:E; [apply node_path_ne in E; contradiction|reflexivity]. Qed.

Ltac fin_sim := match goal with |- context [upd_at ?p ?f ?s] => destruct (upd_at p f s) as [[? ?]|]; simpl; auto end.

Lemma log_char : forall w e loc th lg, steplog_of e = Some (loc, th, lg) -> check e = Some loc ->
  sem w e = active_op w th (log_adder lg) -> sim (apply w e) (tree_apply w e).
Proof.
  intros w e loc th lg Hl Hc Hs. rewrite (apply_log _ _ _ _ _ Hl), add_step_log_log_adder. unfold tree_apply, check_apply.
  rewrite Hc, Hs. rewrite upd_result_root. destruct (rslot loc) as [[p sl]|]; [|simpl; auto].
  cbn [tree_run].
  rewrite (upd_at_ext _ (slot_upd sl AssertionError (fun r => Ok (r, tt))) (fun s => remap (fun _ : nat => tt) (run_lop (ORes sl AssertionError chk) s))).
  2:{ intros s. cbn [run_lop]. rewrite <- slot_upd_remap. reflexivity. }
  rewrite upd_at_remap, put_remap.
  destruct (upd_at p (run_lop (ORes sl AssertionError chk)) (root_of w)) as [[a o]|]; [|simpl; auto]. cbn [remap bind put].
  unfold active_op. destruct (lookup_active th (w_active w)) as [[loc' i]|]; [|simpl; auto].
  rewrite upd_step_root. destruct (rslot loc') as [[p' sl']|]; [|simpl; auto].
  cbn [tree_run]. fin_sim. destruct e; simpl in Hc; try discriminate; reflexivity.
Qed.

Lemma apply_char : forall w e, sim (apply w e) (tree_apply w e).
Proof.
  intros w e.
  destruct (steplog_of e) as [[[loc th] lg]|] eqn:El.
  { destruct e; simpl in El; try discriminate; inversion El; subst; eapply log_char; reflexivity. }
  destruct e; simpl in El; try discriminate; clear El; unfold tree_apply, check_apply; cbn [check sem apply bind tree_run].
  - (* SessionStart *) reflexivity.
  - (* SessionEnd *) reflexivity.
  - (* SessionSetupStart *) cbn. destruct (w_setup w); simpl; auto.
  - (* SessionSetupEnd *) cbn. destruct (w_setup w); simpl; auto.
  - (* SessionTeardownStart *) cbn. destruct (w_teardown w); simpl; auto.
  - (* SessionTeardownEnd *) cbn. destruct (w_teardown w); simpl; auto.
  - (* SuiteStart *) destruct (n_parent suite) as [|a b] eqn:Ep.
    + cbn. destruct (add_suite _ (w_suites w)); simpl; auto.
    + rewrite (on_suite_lop _ _ (OAddSub (n_meta suite) (n_rank suite) time)) by (try discriminate; reflexivity). fin_sim.
  - (* SuiteEnd *) rewrite (on_suite_lop _ _ (OEnd time)) by (try apply node_path_ne; reflexivity). fin_sim.
  - (* SuiteSetupStart *) rewrite (on_suite_lop _ _ (OFresh true time)) by (try apply node_path_ne; reflexivity). fin_sim.
  - (* SuiteSetupEnd *) rewrite (on_suite_lop _ _ (ORes SSetup AttributeError (fin time))).
    + fin_sim.
    + intros s. cbn [run_lop slot_upd]. destruct (ls_setup s); reflexivity.
    + apply node_path_ne.
  - (* SuiteTeardownStart *) rewrite (on_suite_lop _ _ (OFresh false time)) by (try apply node_path_ne; reflexivity). fin_sim.
  - (* SuiteTeardownEnd *) rewrite (on_suite_lop _ _ (ORes STeardown AttributeError (fin time))).
    + fin_sim.
    + intros s. cbn [run_lop slot_upd]. destruct (ls_teardown s); reflexivity.
    + apply node_path_ne.
  - (* TestStart *) unfold test_op. destruct (n_parent test) as [|a b] eqn:Ep; [simpl; auto|].
    rewrite (on_suite_lop _ _ (OAddTest test (initialize_result time))) by (try discriminate; reflexivity). cbn [tree_run]. fin_sim.
  - (* TestEnd *) rewrite (upd_result_drop _ _ _ (fin time)) by reflexivity. rewrite rslot_test. unfold test_op.
    destruct (n_parent test) as [|a b] eqn:Ep; [simpl; auto|]. cbn [tree_run]. fin_sim.
  - (* TestSkipped *) unfold test_op. destruct (n_parent test) as [|a b] eqn:Ep; [simpl; auto|].
    rewrite (on_suite_lop _ _ (OAddTest test (mkResult (Some time) (Some time) (Some s_skipped) reason []))) by (try discriminate; reflexivity).
    cbn [tree_run]. fin_sim.
  - (* TestDisabled *) unfold test_op. destruct (n_parent test) as [|a b] eqn:Ep; [simpl; auto|].
    rewrite (on_suite_lop _ _ (OAddTest test (mkResult (Some time) (Some time) (Some s_disabled) reason []))) by (try discriminate; reflexivity).
    cbn [tree_run]. fin_sim.
  - (* StepStart *) rewrite upd_result_root. destruct (rslot loc) as [[p sl]|]; [|simpl; auto]. cbn [tree_run].
    change (slot_upd sl AttributeError (fun r : result => Ok (set_steps r (r_steps r ++ [mkStep description (Some time) None []]), length (r_steps r))))
      with (run_lop (ORes sl AttributeError (step_start_fn description time))). fin_sim.
  - (* StepEnd *) unfold active_op. destruct (lookup_active thread (w_active w)) as [[loc' i]|]; [|simpl; auto].
    change (upd_step (loc', i) _ w) with (upd_step (loc', i) (end_step time) w).
    rewrite upd_step_root. destruct (rslot loc') as [[p sl]|]; [|simpl; auto]. cbn [tree_run]. fin_sim.
Qed.

(* ====================================================================================================================== *)
(* 5. two updates of the tree commute                                                                                      *)
(* ====================================================================================================================== *)
Definition pres_name {X} (f : lsuite -> res (lsuite * X)) : Prop := forall s s' x, f s = Ok (s', x) -> ls_name s' = ls_name s.

Lemma upd_at_pres_name : forall X (f : lsuite -> res (lsuite * X)) p, pres_name f -> pres_name (upd_at p f).
Proof.
  intros X f [|n r] H; [exact H|]. intros s s' x E. cbn [upd_at] in E. apply put_ok in E. destruct E as (u & _ & E). subst.
  apply ls_name_set_subs.
Qed.

Lemma upd_first_mid : forall X n (g : lsuite -> res (lsuite * X)) pre c post,
  (forall y, In y pre -> str_eqb (ls_name y) n = false) -> ls_name c = n ->
  upd_first n g (pre ++ c :: post) = put (fun c' => pre ++ c' :: post) (g c).
Proof.
  induction pre as [|a pre IH]; simpl; intros c post Hp Hc.
  - rewrite Hc, str_eqb_refl. reflexivity.
  - rewrite (Hp a) by auto. rewrite IH by auto. rewrite put_put. reflexivity.
Qed.

Lemma upd_first_comm_diff : forall X Y n1 n2 (F : lsuite -> res (lsuite * X)) (G : lsuite -> res (lsuite * Y)),
  n1 <> n2 -> pres_name F -> pres_name G ->
  forall l l1 x l12 y, upd_first n1 F l = Ok (l1, x) -> upd_first n2 G l1 = Ok (l12, y) ->
  exists l2, upd_first n2 G l = Ok (l2, y) /\ upd_first n1 F l2 = Ok (l12, x).
Proof.
  intros X Y n1 n2 F G Hne HF HG. induction l as [|s r IH]; intros l1 x l12 y H1 H2; [discriminate|].
  cbn [upd_first] in H1. destruct (str_eqb (ls_name s) n1) eqn:E1.
  - apply put_ok in H1. destruct H1 as (s1 & Hs1 & El1). subst l1. apply str_eqb_eq in E1.
    assert (E2 : str_eqb (ls_name s1) n2 = false) by (apply str_eqb_neq; rewrite (HF _ _ _ Hs1); congruence).
    cbn [upd_first] in H2. rewrite E2 in H2. apply put_ok in H2. destruct H2 as (r2 & Hr2 & El12). subst l12.
    exists (s :: r2). cbn [upd_first]. rewrite str_eqb_neq by congruence. rewrite Hr2. split; [reflexivity|].
    rewrite E1, str_eqb_refl, Hs1. reflexivity.
  - apply put_ok in H1. destruct H1 as (r1 & Hr1 & El1). subst l1. cbn [upd_first] in H2.
    destruct (str_eqb (ls_name s) n2) eqn:E2.
    + apply put_ok in H2. destruct H2 as (s2 & Hs2 & El12). subst l12. exists (s2 :: r). cbn [upd_first]. rewrite E2, Hs2.
      split; [reflexivity|]. rewrite (HG _ _ _ Hs2), E1, Hr1. reflexivity.
    + apply put_ok in H2. destruct H2 as (r12 & Hr12 & El12). subst l12. destruct (IH _ _ _ _ Hr1 Hr12) as (r2 & A & B).
      exists (s :: r2). cbn [upd_first]. rewrite E2, A. split; [reflexivity|]. rewrite E1, B. reflexivity.
Qed.

Lemma sequiv_set_subs : forall s u u', lequiv u u' -> sequiv (set_ls_subs s u) (set_ls_subs s u').
Proof. intros [m rk a e x y ts us] u u' H. simpl. constructor; [apply Permutation_refl|exact H]. Qed.

Lemma lequiv_mid : forall pre c c' post, sequiv c c' -> lequiv (pre ++ c :: post) (pre ++ c' :: post).
Proof. intros. apply lequiv_app_head. constructor; [assumption|apply lequiv_refl]. Qed.

Definition child_upd {X} (n : str) (G : lsuite -> res (lsuite * X)) (s : lsuite) : res (lsuite * X) :=
  put (set_ls_subs s) (upd_first n G (ls_subs s)).

(* two operations on the same node commute, up to the order of the children *)
Definition local_comm {X Y} (f : lsuite -> res (lsuite * X)) (g : lsuite -> res (lsuite * Y)) : Prop :=
  forall s s1 x s12 y, f s = Ok (s1, x) -> g s1 = Ok (s12, y) ->
  exists s2 s21, g s = Ok (s2, y) /\ f s2 = Ok (s21, x) /\ sequiv s12 s21.
(* an operation on a node commutes with any update of (the subtree of) its child n *)
Definition pass_fwd {X} (f : lsuite -> res (lsuite * X)) (n : str) : Prop :=
  forall Y (G : lsuite -> res (lsuite * Y)), pres_name G ->
  forall s s1 x s12 y, f s = Ok (s1, x) -> child_upd n G s1 = Ok (s12, y) ->
  exists s2, child_upd n G s = Ok (s2, y) /\ f s2 = Ok (s12, x).
Definition pass_bwd {Y} (g : lsuite -> res (lsuite * Y)) (n : str) : Prop :=
  forall X (F : lsuite -> res (lsuite * X)), pres_name F ->
  forall s s1 x s12 y, child_upd n F s = Ok (s1, x) -> g s1 = Ok (s12, y) ->
  exists s2, g s = Ok (s2, y) /\ child_upd n F s2 = Ok (s12, x).

Lemma upd_at_comm : forall X Y (f : lsuite -> res (lsuite * X)) (g : lsuite -> res (lsuite * Y)),
  pres_name f -> pres_name g ->
  forall p q,
  (p = q -> local_comm f g) ->
  (forall n r, q = p ++ n :: r -> pass_fwd f n) ->
  (forall n r, p = q ++ n :: r -> pass_bwd g n) ->
  forall s s1 x s12 y, upd_at p f s = Ok (s1, x) -> upd_at q g s1 = Ok (s12, y) ->
  exists s2 s21, upd_at q g s = Ok (s2, y) /\ upd_at p f s2 = Ok (s21, x) /\ sequiv s12 s21.
Proof.
  intros X Y f g Hf Hg. induction p as [|n1 r1 IH]; intros q Hsame Hfwd Hbwd s s1 x s12 y H1 H2; destruct q as [|n2 r2].
  - exact (Hsame eq_refl _ _ _ _ _ H1 H2).
  - cbn [upd_at] in H1. change (child_upd n2 (upd_at r2 g) s1 = Ok (s12, y)) in H2.
    destruct (Hfwd n2 r2 eq_refl _ _ (upd_at_pres_name _ g r2 Hg) _ _ _ _ _ H1 H2) as (s2 & A & B).
    exists s2, s12. repeat split; auto using sequiv_refl.
  - cbn [upd_at] in H2. change (child_upd n1 (upd_at r1 f) s = Ok (s1, x)) in H1.
    destruct (Hbwd n1 r1 eq_refl _ _ (upd_at_pres_name _ f r1 Hf) _ _ _ _ _ H1 H2) as (s2 & A & B).
    exists s2, s12. repeat split; auto using sequiv_refl.
  - cbn [upd_at] in H1, H2. apply put_ok in H1. destruct H1 as (u1 & Hu1 & Es1). subst s1. rewrite ls_subs_set_subs in H2.
    apply put_ok in H2. destruct H2 as (u12 & Hu12 & Es12). subst s12. rewrite set_subs_set_subs.
    destruct (list_eq_dec N.eq_dec n1 n2) as [En|En].
    + subst n2. destruct (upd_first_names _ _ _ _ _ _ Hu1) as (pre & c & post & c1 & E1 & E2 & E3 & E4 & E5).
      assert (Hc1 : ls_name c1 = n1) by (rewrite (upd_at_pres_name _ f r1 Hf _ _ _ E2); exact E5).
      rewrite E3, (upd_first_mid _ _ _ _ _ _ E4 Hc1) in Hu12. apply put_ok in Hu12. destruct Hu12 as (c12 & Hc12 & Eu12).
      destruct (IH r2) with (s := c) (s1 := c1) (x := x) (s12 := c12) (y := y) as (c2 & c21 & A & B & C); auto.
      * intros E. apply Hsame. congruence.
      * intros n r E. apply (Hfwd n r). rewrite E. reflexivity.
      * intros n r E. apply (Hbwd n r). rewrite E. reflexivity.
      * assert (Hc2 : ls_name c2 = n1) by (rewrite (upd_at_pres_name _ g r2 Hg _ _ _ A); exact E5).
        exists (set_ls_subs s (pre ++ c2 :: post)), (set_ls_subs s (pre ++ c21 :: post)). cbn [upd_at].
        rewrite E1, (upd_first_mid _ _ _ _ _ _ E4 E5), A. cbn [put]. rewrite ls_subs_set_subs.
        rewrite (upd_first_mid _ _ _ _ _ _ E4 Hc2), B. cbn [put]. rewrite set_subs_set_subs. repeat split.
        subst u12. apply sequiv_set_subs. apply lequiv_mid. exact C.
    + destruct (upd_first_comm_diff _ _ n1 n2 _ _ En (upd_at_pres_name _ f r1 Hf) (upd_at_pres_name _ g r2 Hg) _ _ _ _ _ Hu1 Hu12)
        as (u2 & A & B).
      exists (set_ls_subs s u2), (set_ls_subs s u12). cbn [upd_at]. rewrite A. cbn [put]. rewrite ls_subs_set_subs, B. cbn [put].
      rewrite set_subs_set_subs. repeat split. apply sequiv_refl.
Qed.

(* ====================================================================================================================== *)
(* 6. local operations: which component of the node each one reads and writes                                              *)
(* ====================================================================================================================== *)
Record lens (C : Type) := mkLens { lget : lsuite -> C; lset : lsuite -> C -> lsuite }.
Arguments lget {C} _ _.
Arguments lset {C} _ _ _.

(* f reads and writes only the component L *)
Definition is_local {C X} (L : lens C) (f : lsuite -> res (lsuite * X)) : Prop :=
  exists h : C -> res (C * X), forall s, f s = put (lset L s) (h (lget L s)).
(* f neither reads nor writes the component L *)
Definition is_agn {C X} (L : lens C) (f : lsuite -> res (lsuite * X)) : Prop :=
  (forall s c, f (lset L s c) = put (fun s' => lset L s' c) (f s)) /\
  (forall s s' x, f s = Ok (s', x) -> lget L s' = lget L s).

Lemma comm_local_agn : forall C X Y (L : lens C) (f : lsuite -> res (lsuite * X)) (g : lsuite -> res (lsuite * Y)),
  is_local L f -> is_agn L g ->
  (forall s s1 x s12 y, f s = Ok (s1, x) -> g s1 = Ok (s12, y) -> exists s2, g s = Ok (s2, y) /\ f s2 = Ok (s12, x)) /\
  (forall s s1 x s12 y, g s = Ok (s1, x) -> f s1 = Ok (s12, y) -> exists s2, f s = Ok (s2, y) /\ g s2 = Ok (s12, x)).
Proof.
  intros C X Y L f g [h Hh] [G1 G2]. split; intros s s1 x s12 y H1 H2.
  - rewrite Hh in H1. apply put_ok in H1. destruct H1 as (c1 & Hc1 & E1). subst s1. rewrite G1 in H2.
    apply put_ok in H2. destruct H2 as (s2 & Hs2 & E2). subst s12. exists s2. split; [exact Hs2|].
    rewrite Hh, (G2 _ _ _ Hs2), Hc1. reflexivity.
  - rewrite Hh, (G2 _ _ _ H1) in H2. apply put_ok in H2. destruct H2 as (c & Hc & E). subst s12.
    exists (lset L s c). split; [rewrite Hh, Hc; reflexivity|]. rewrite G1, H1. reflexivity.
Qed.

Definition Lstart := mkLens _ ls_start set_ls_start.
Definition Lend := mkLens _ ls_end set_ls_end.
Definition Lsetup := mkLens _ ls_setup set_ls_setup.
Definition Lteardown := mkLens _ ls_teardown set_ls_teardown.
Definition Ltests := mkLens _ ls_tests set_ls_tests.
Definition Lsubs := mkLens _ ls_subs set_ls_subs.

(* the component of a local operation *)
Definition comp (o : lop) : nat :=
  match o with
  | OStart _ => 0
  | OEnd _ => 1
  | OFresh true _ | ORes SSetup _ _ => 2
  | OFresh false _ | ORes STeardown _ _ => 3
  | OAddTest _ _ | ORes (STest _) _ _ => 4
  | OAddSub _ _ _ => 5
  end.

Ltac agn_tac :=
  let s := fresh "s" in let c := fresh "c" in
  split;
  [ intros s c; destruct s as [m rk a e x y ts us]; unfold run_lop, slot_upd, add_test, add_suite, set_fresh, upd_opt_result; cbn;
    repeat match goal with
           | |- context [match ?o with Some _ => _ | None => _ end] => destruct o; cbn
           | |- context [if ?b then _ else _] => destruct b; cbn
           | |- context [upd_test ?n ?f ?l] => destruct (upd_test n f l) as [[? ?]|]; cbn
           | |- context [put Some ?z] => destruct z as [[? ?]|]; cbn
           | |- context [match ?z with Ok _ => _ | Err _ => _ end] => destruct z as [[? ?]|]; cbn
           end; reflexivity
  | let s' := fresh "s'" in let k := fresh "k" in let H := fresh "H" in
    intros s s' k H; destruct s as [m rk a e x y ts us]; unfold run_lop, slot_upd, add_test, add_suite, set_fresh, upd_opt_result in H; cbn in H;
    repeat match type of H with
           | context [match ?o with Some _ => _ | None => _ end] => destruct o; cbn in H
           | context [if ?b then _ else _] => destruct b; cbn in H
           | context [upd_test ?n ?f ?l] => destruct (upd_test n f l) as [[? ?]|]; cbn in H
           | context [put Some ?z] => destruct z as [[? ?]|]; cbn in H
           | context [match ?z with Ok _ => _ | Err _ => _ end] => destruct z as [[? ?]|]; cbn in H
           end; try discriminate; inversion H; reflexivity ].

Lemma agn_start : forall o, comp o <> 0 -> is_agn Lstart (run_lop o).
Proof. intros [t|t|[|] t|nd r|m0 rk0 t|[| |n] ne fr] Hc; try (exfalso; apply Hc; reflexivity); agn_tac. Qed.
Lemma agn_end : forall o, comp o <> 1 -> is_agn Lend (run_lop o).
Proof. intros [t|t|[|] t|nd r|m0 rk0 t|[| |n] ne fr] Hc; try (exfalso; apply Hc; reflexivity); agn_tac. Qed.
Lemma agn_setup : forall o, comp o <> 2 -> is_agn Lsetup (run_lop o).
Proof. intros [t|t|[|] t|nd r|m0 rk0 t|[| |n] ne fr] Hc; try (exfalso; apply Hc; reflexivity); agn_tac. Qed.
Lemma agn_teardown : forall o, comp o <> 3 -> is_agn Lteardown (run_lop o).
Proof. intros [t|t|[|] t|nd r|m0 rk0 t|[| |n] ne fr] Hc; try (exfalso; apply Hc; reflexivity); agn_tac. Qed.
Lemma agn_tests : forall o, comp o <> 4 -> is_agn Ltests (run_lop o).
Proof. intros [t|t|[|] t|nd r|m0 rk0 t|[| |n] ne fr] Hc; try (exfalso; apply Hc; reflexivity); agn_tac. Qed.
Lemma agn_subs : forall o, comp o <> 5 -> is_agn Lsubs (run_lop o).
Proof. intros [t|t|[|] t|nd r|m0 rk0 t|[| |n] ne fr] Hc; try (exfalso; apply Hc; reflexivity); agn_tac. Qed.

Ltac run_inv H :=
  unfold run_lop, slot_upd, add_test, add_suite, set_fresh, upd_opt_result in H; cbn in H;
  repeat match type of H with
         | context [match ?o with Some _ => _ | None => _ end] => destruct o; cbn in H
         | context [if ?b then _ else _] => destruct b eqn:?; cbn in H
         | context [upd_test ?n ?f ?l] => destruct (upd_test n f l) as [[? ?]|] eqn:?; cbn in H
         | context [put Some ?z] => destruct z as [[? ?]|] eqn:?; cbn in H
         | context [match ?z with Ok _ => _ | Err _ => _ end] => destruct z as [[? ?]|] eqn:?; cbn in H
         end; try discriminate.

Lemma run_lop_pres_name : forall o, pres_name (run_lop o).
Proof.
  intros [t|t|[|] t|nd r|m0 rk0 t|[| |n] ne fr] [m rk a e x y ts us] s' k H; run_inv H; inversion H; reflexivity.
Qed.

Lemma local_start : forall o, comp o = 0 -> is_local Lstart (run_lop o).
Proof.
  intros [t|t|[|] t|nd r|m0 rk0 t|[| |n] ne fr] Hc; try discriminate. exists (fun _ => Ok (Some t, 0)). reflexivity.
Qed.
Lemma local_end : forall o, comp o = 1 -> is_local Lend (run_lop o).
Proof.
  intros [t|t|[|] t|nd r|m0 rk0 t|[| |n] ne fr] Hc; try discriminate. exists (fun _ => Ok (Some t, 0)). reflexivity.
Qed.
Lemma local_setup : forall o, comp o = 2 -> is_local Lsetup (run_lop o).
Proof.
  intros [t|t|[|] t|nd r|m0 rk0 t|[| |n] ne fr] Hc; try discriminate.
  - exists (fun x => nz (set_fresh x t)). intros s. cbn. destruct (ls_setup s); reflexivity.
  - exists (upd_opt_result ne fr). reflexivity.
Qed.
Lemma local_teardown : forall o, comp o = 3 -> is_local Lteardown (run_lop o).
Proof.
  intros [t|t|[|] t|nd r|m0 rk0 t|[| |n] ne fr] Hc; try discriminate.
  - exists (fun x => nz (set_fresh x t)). intros s. cbn. destruct (ls_teardown s); reflexivity.
  - exists (upd_opt_result ne fr). reflexivity.
Qed.

(* the name of the child (test or sub-suite) an operation is about *)
Definition child_name (o : lop) : str :=
  match o with
  | OAddTest nd _ => m_name (n_meta nd)
  | ORes (STest n) _ _ => n
  | OAddSub m _ _ => m_name m
  | _ => []
  end.

Definition add_fn (nd : node) (r : result) (ts : list (Z * test_result)) : res (list (Z * test_result) * nat) :=
  nz (if test_taken (m_name (n_meta nd)) ts then Err Unmodelled else Ok (ts ++ [(n_rank nd, mkTest (n_meta nd) r)])).
Definition tests_fn (o : lop) : list (Z * test_result) -> res (list (Z * test_result) * nat) :=
  match o with
  | OAddTest nd r => add_fn nd r
  | ORes (STest n) _ fr => upd_test n fr
  | _ => fun _ => Err Unmodelled
  end.
Definition subs_fn (o : lop) (us : list lsuite) : res (list lsuite * nat) :=
  match o with
  | OAddSub m rk t => nz (add_suite (new_suite m rk t) us)
  | _ => Err Unmodelled
  end.

Lemma tests_local : forall o, comp o = 4 -> forall s, run_lop o s = put (set_ls_tests s) (tests_fn o (ls_tests s)).
Proof.
  intros [t|t|[|] t|nd r|m0 rk0 t|[| |n] ne fr] Hc s; try discriminate; [|reflexivity].
  cbn [run_lop tests_fn]. unfold add_test, add_fn. destruct (test_taken _ _); reflexivity.
Qed.
Lemma subs_local : forall o, comp o = 5 -> forall s, run_lop o s = put (set_ls_subs s) (subs_fn o (ls_subs s)).
Proof.
  intros [t|t|[|] t|nd r|m0 rk0 t|[| |n] ne fr] Hc s; try discriminate.
  cbn [run_lop subs_fn]. destruct (add_suite _ _); reflexivity.
Qed.
Lemma local_tests : forall o, comp o = 4 -> is_local Ltests (run_lop o).
Proof. intros o Hc. exists (tests_fn o). apply tests_local. exact Hc. Qed.
Lemma local_subs : forall o, comp o = 5 -> is_local Lsubs (run_lop o).
Proof. intros o Hc. exists (subs_fn o). apply subs_local. exact Hc. Qed.

(* ---------------- the list of tests ---------------- *)
Lemma upd_test_tnames : forall X n (f : result -> res (result * X)) l l' x, upd_test n f l = Ok (l', x) -> map tname l' = map tname l.
Proof.
  induction l as [|rt r IH]; simpl; intros l' x H; try discriminate. destruct (str_eqb _ n).
  - apply put_ok in H. destruct H as (a & _ & E). subst. reflexivity.
  - apply put_ok in H. destruct H as (a & Ha & E). subst. simpl. f_equal. eauto.
Qed.

Lemma test_taken_names : forall n l, test_taken n l = existsb (fun nm => str_eqb nm n) (map tname l).
Proof. induction l; simpl; auto. rewrite <- IHl. reflexivity. Qed.

Lemma test_taken_app : forall n l new, test_taken n (l ++ [new]) = test_taken n l || str_eqb (tname new) n.
Proof. intros. unfold test_taken. rewrite existsb_app. simpl. rewrite orb_false_r. reflexivity. Qed.

Lemma upd_test_app_other : forall X n (f : result -> res (result * X)) new l, tname new <> n ->
  upd_test n f (l ++ [new]) = put (fun l' => l' ++ [new]) (upd_test n f l).
Proof.
  intros X n f new l Hne. induction l as [|rt r IH]; simpl.
  - unfold tname in Hne. rewrite str_eqb_neq by assumption. reflexivity.
  - destruct (str_eqb _ n); rewrite ?IH, !put_put; reflexivity.
Qed.

Lemma upd_test_comm_diff : forall X Y n1 n2 (F : result -> res (result * X)) (G : result -> res (result * Y)), n1 <> n2 ->
  forall l l1 x l12 y, upd_test n1 F l = Ok (l1, x) -> upd_test n2 G l1 = Ok (l12, y) ->
  exists l2, upd_test n2 G l = Ok (l2, y) /\ upd_test n1 F l2 = Ok (l12, x).
Proof.
  intros X Y n1 n2 F G Hne. induction l as [|s r IH]; intros l1 x l12 y H1 H2; [discriminate|].
  cbn [upd_test] in H1. destruct (str_eqb (m_name (t_meta (snd s))) n1) eqn:E1.
  - apply put_ok in H1. destruct H1 as (s1 & Hs1 & El1). subst l1. pose proof (str_eqb_eq _ _ E1) as E1'.
    cbn [upd_test fst snd t_meta] in H2. rewrite E1', (str_eqb_neq n1 n2 Hne) in H2.
    apply put_ok in H2. destruct H2 as (r2 & Hr2 & El12). subst l12.
    exists (s :: r2). cbn [upd_test]. rewrite E1', (str_eqb_neq n1 n2 Hne), Hr2. split; [reflexivity|].
    rewrite str_eqb_refl, Hs1. reflexivity.
  - apply put_ok in H1. destruct H1 as (r1 & Hr1 & El1). subst l1. cbn [upd_test] in H2.
    destruct (str_eqb (m_name (t_meta (snd s))) n2) eqn:E2.
    + apply put_ok in H2. destruct H2 as (s2 & Hs2 & El12). subst l12. eexists. cbn [upd_test]. rewrite E2, Hs2.
      split; [reflexivity|]. cbn [upd_test fst snd t_meta]. rewrite E1, Hr1. reflexivity.
    + apply put_ok in H2. destruct H2 as (r12 & Hr12 & El12). subst l12. destruct (IH _ _ _ _ Hr1 Hr12) as (r2 & A & B).
      exists (s :: r2). cbn [upd_test]. rewrite E2, A. split; [reflexivity|]. rewrite E1, B. reflexivity.
Qed.

Lemma add_fn_ok : forall nd r ts ts1 x, add_fn nd r ts = Ok (ts1, x) ->
  test_taken (m_name (n_meta nd)) ts = false /\ ts1 = ts ++ [(n_rank nd, mkTest (n_meta nd) r)] /\ x = 0.
Proof. intros nd r ts ts1 x H. unfold add_fn in H. destruct (test_taken _ ts); inversion H; auto. Qed.

Lemma tests_comm : forall o1 o2, comp o1 = 4 -> comp o2 = 4 -> child_name o1 <> child_name o2 ->
  forall ts ts1 x ts12 y, tests_fn o1 ts = Ok (ts1, x) -> tests_fn o2 ts1 = Ok (ts12, y) ->
  exists ts2 ts21, tests_fn o2 ts = Ok (ts2, y) /\ tests_fn o1 ts2 = Ok (ts21, x) /\ Permutation ts12 ts21.
Proof.
  intros o1 o2 C1 C2 Hne ts ts1 x ts12 y H1 H2.
  destruct o1 as [t|t|[|] t|nd r|m0 rk0 t|[| |n] ne fr]; try discriminate;
    destruct o2 as [t'|t'|[|] t'|nd' r'|m0' rk0' t'|[| |n'] ne' fr']; try discriminate; cbn [tests_fn child_name] in *.
  - (* add / add *)
    apply add_fn_ok in H1. destruct H1 as (T1 & E1 & Ex). apply add_fn_ok in H2. destruct H2 as (T2 & E2 & Ey). subst.
    rewrite test_taken_app in T2. apply orb_false_iff in T2. destruct T2 as [T2 _].
    exists (ts ++ [(n_rank nd', mkTest (n_meta nd') r')]), ((ts ++ [(n_rank nd', mkTest (n_meta nd') r')]) ++ [(n_rank nd, mkTest (n_meta nd) r)]).
    unfold add_fn. rewrite T2, test_taken_app, T1. unfold tname. cbn [snd t_meta]. rewrite (str_eqb_neq _ _ (not_eq_sym Hne)).
    repeat split. rewrite <- !app_assoc. apply Permutation_app_head. apply perm_swap.
  - (* add / upd *)
    apply add_fn_ok in H1. destruct H1 as (T1 & E1 & Ex). subst. rewrite upd_test_app_other in H2 by exact Hne.
    apply put_ok in H2. destruct H2 as (ts2 & Hts2 & E). subst ts12. exists ts2, (ts2 ++ [(n_rank nd, mkTest (n_meta nd) r)]).
    split; [exact Hts2|]. split; [|apply Permutation_refl]. unfold add_fn.
    rewrite test_taken_names, (upd_test_tnames _ _ _ _ _ _ Hts2), <- test_taken_names, T1. reflexivity.
  - (* upd / add *)
    apply add_fn_ok in H2. destruct H2 as (T2 & E2 & Ey). subst.
    rewrite test_taken_names, (upd_test_tnames _ _ _ _ _ _ H1), <- test_taken_names in T2.
    exists (ts ++ [(n_rank nd', mkTest (n_meta nd') r')]), (ts1 ++ [(n_rank nd', mkTest (n_meta nd') r')]).
    unfold add_fn. rewrite T2. split; [reflexivity|]. split; [|apply Permutation_refl].
    rewrite upd_test_app_other by (exact (not_eq_sym Hne)). rewrite H1. reflexivity.
  - (* upd / upd *)
    destruct (upd_test_comm_diff _ _ n n' fr fr' Hne _ _ _ _ _ H1 H2) as (l2 & A & B). exists l2, ts12.
    repeat split; auto.
Qed.

(* ---------------- the list of sub-suites ---------------- *)
Lemma upd_first_lnames : forall X n (G : lsuite -> res (lsuite * X)) l l' x, pres_name G ->
  upd_first n G l = Ok (l', x) -> map ls_name l' = map ls_name l.
Proof.
  intros X n G l l' x HG H. destruct (upd_first_names _ _ _ _ _ _ H) as (pre & s & post & s' & E1 & E2 & E3 & _). subst.
  rewrite !map_app. simpl. rewrite (HG _ _ _ E2). reflexivity.
Qed.

Lemma name_taken_names : forall n l, name_taken n l = existsb (fun nm => str_eqb nm n) (map ls_name l).
Proof. induction l; simpl; auto. rewrite <- IHl. reflexivity. Qed.

Lemma upd_first_app_other : forall X n (G : lsuite -> res (lsuite * X)) new l, ls_name new <> n ->
  upd_first n G (l ++ [new]) = put (fun l' => l' ++ [new]) (upd_first n G l).
Proof.
  intros X n G new l Hne. induction l as [|s r IH]; simpl.
  - rewrite str_eqb_neq by assumption. reflexivity.
  - destruct (str_eqb _ n); rewrite ?IH, !put_put; reflexivity.
Qed.

Lemma subs_fn_ok : forall m rk t us us1 x, subs_fn (OAddSub m rk t) us = Ok (us1, x) ->
  name_taken (m_name m) us = false /\ us1 = us ++ [new_suite m rk t] /\ x = 0.
Proof.
  intros m rk t us us1 x H. cbn [subs_fn] in H. unfold add_suite in H. change (ls_name (new_suite m rk t)) with (m_name m) in H.
  destruct (name_taken _ us); inversion H; auto.
Qed.

Lemma subs_fn_run : forall m rk t us, name_taken (m_name m) us = false ->
  subs_fn (OAddSub m rk t) us = Ok (us ++ [new_suite m rk t], 0).
Proof.
  intros. cbn [subs_fn]. unfold add_suite. change (ls_name (new_suite m rk t)) with (m_name m). rewrite H. reflexivity.
Qed.

Lemma subs_comm : forall o1 o2, comp o1 = 5 -> comp o2 = 5 -> child_name o1 <> child_name o2 ->
  forall us us1 x us12 y, subs_fn o1 us = Ok (us1, x) -> subs_fn o2 us1 = Ok (us12, y) ->
  exists us2 us21, subs_fn o2 us = Ok (us2, y) /\ subs_fn o1 us2 = Ok (us21, x) /\ lequiv us12 us21.
Proof.
  intros o1 o2 C1 C2 Hne us us1 x us12 y H1 H2.
  destruct o1 as [t|t|[|] t|nd r|m1 rk1 t1|[| |n] ne fr]; try discriminate;
    destruct o2 as [t'|t'|[|] t'|nd' r'|m2 rk2 t2|[| |n'] ne' fr']; try discriminate. cbn [child_name] in Hne.
  apply subs_fn_ok in H1. destruct H1 as (T1 & E1 & Ex). apply subs_fn_ok in H2. destruct H2 as (T2 & E2 & Ey). subst.
  rewrite name_taken_app in T2. apply orb_false_iff in T2. destruct T2 as [T2 _].
  exists (us ++ [new_suite m2 rk2 t2]), ((us ++ [new_suite m2 rk2 t2]) ++ [new_suite m1 rk1 t1]).
  split; [apply subs_fn_run; exact T2|]. split.
  - apply subs_fn_run. rewrite name_taken_app, T1. simpl. change (ls_name (new_suite m2 rk2 t2)) with (m_name m2).
    rewrite (str_eqb_neq _ _ (not_eq_sym Hne)). reflexivity.
  - apply lequiv_perm. rewrite <- !app_assoc. apply Permutation_app_head. apply perm_swap.
Qed.

(* ---------------- two local operations on the same node ---------------- *)
Definition same_ok (o1 o2 : lop) : Prop :=
  comp o1 <> comp o2 \/ (4 <= comp o1 /\ child_name o1 <> child_name o2).

Lemma sequiv_set_tests : forall s t t', Permutation t t' -> sequiv (set_ls_tests s t) (set_ls_tests s t').
Proof. intros [m rk a e x y ts us] t t' H. simpl. constructor; [exact H|apply lequiv_refl]. Qed.

Lemma lop_local_comm : forall o1 o2, same_ok o1 o2 -> local_comm (run_lop o1) (run_lop o2).
Proof.
  intros o1 o2 Hok s s1 x s12 y H1 H2.
  destruct (Nat.eq_dec (comp o1) (comp o2)) as [Ec|Ec].
  - destruct Hok as [Hok|[Hge Hne]]; [contradiction|].
    assert (Hc : comp o1 = 4 \/ comp o1 = 5).
    { destruct o1 as [t|t|[|] t|nd r|m1 rk1 t1|[| |n] ne fr]; cbn in *; lia. }
    destruct Hc as [Hc|Hc].
    + assert (Hc2 : comp o2 = 4) by congruence.
      rewrite (tests_local _ Hc) in H1. apply put_ok in H1. destruct H1 as (ts1 & A1 & E1). subst s1.
      rewrite (tests_local _ Hc2) in H2. destruct s as [m rk a e u v ts us]. cbn [ls_tests set_ls_tests] in *.
      apply put_ok in H2. destruct H2 as (ts12 & A2 & E2). subst s12.
      destruct (tests_comm o1 o2 Hc Hc2 Hne _ _ _ _ _ A1 A2) as (ts2 & ts21 & B1 & B2 & B3).
      exists (LSuite m rk a e u v ts2 us), (LSuite m rk a e u v ts21 us).
      rewrite (tests_local _ Hc2), (tests_local _ Hc). cbn [ls_tests set_ls_tests]. rewrite B1. cbn [put ls_tests set_ls_tests].
      rewrite B2. split; [reflexivity|]. split; [reflexivity|]. constructor; [exact B3|apply lequiv_refl].
    + assert (Hc2 : comp o2 = 5) by congruence.
      rewrite (subs_local _ Hc) in H1. apply put_ok in H1. destruct H1 as (us1 & A1 & E1). subst s1.
      rewrite (subs_local _ Hc2) in H2. destruct s as [m rk a e u v ts us]. cbn [ls_subs set_ls_subs] in *.
      apply put_ok in H2. destruct H2 as (us12 & A2 & E2). subst s12.
      destruct (subs_comm o1 o2 Hc Hc2 Hne _ _ _ _ _ A1 A2) as (us2 & us21 & B1 & B2 & B3).
      exists (LSuite m rk a e u v ts us2), (LSuite m rk a e u v ts us21).
      rewrite (subs_local _ Hc2), (subs_local _ Hc). cbn [ls_subs set_ls_subs]. rewrite B1. cbn [put ls_subs set_ls_subs].
      rewrite B2. split; [reflexivity|]. split; [reflexivity|]. constructor; [apply Permutation_refl|exact B3].
  - assert (Hex : exists s2, run_lop o2 s = Ok (s2, y) /\ run_lop o1 s2 = Ok (s12, x)).
    { assert (Hc : comp o1 = 0 \/ comp o1 = 1 \/ comp o1 = 2 \/ comp o1 = 3 \/ comp o1 = 4 \/ comp o1 = 5).
      { destruct o1 as [t|t|[|] t|nd r|m1 rk1 t1|[| |n] ne fr]; cbn; lia. }
      destruct Hc as [Hc|[Hc|[Hc|[Hc|[Hc|Hc]]]]].
      - apply (proj1 (comm_local_agn _ _ _ Lstart _ _ (local_start _ Hc) (agn_start o2 ltac:(congruence))) _ _ _ _ _ H1 H2).
      - apply (proj1 (comm_local_agn _ _ _ Lend _ _ (local_end _ Hc) (agn_end o2 ltac:(congruence))) _ _ _ _ _ H1 H2).
      - apply (proj1 (comm_local_agn _ _ _ Lsetup _ _ (local_setup _ Hc) (agn_setup o2 ltac:(congruence))) _ _ _ _ _ H1 H2).
      - apply (proj1 (comm_local_agn _ _ _ Lteardown _ _ (local_teardown _ Hc) (agn_teardown o2 ltac:(congruence))) _ _ _ _ _ H1 H2).
      - apply (proj1 (comm_local_agn _ _ _ Ltests _ _ (local_tests _ Hc) (agn_tests o2 ltac:(congruence))) _ _ _ _ _ H1 H2).
      - apply (proj1 (comm_local_agn _ _ _ Lsubs _ _ (local_subs _ Hc) (agn_subs o2 ltac:(congruence))) _ _ _ _ _ H1 H2). }
    destruct Hex as (s2 & A & B). exists s2, s12. repeat split; auto using sequiv_refl.
Qed.

(* ---------------- an operation on a node against an update below one of its children ---------------- *)
Lemma child_upd_local : forall X n (G : lsuite -> res (lsuite * X)), is_local Lsubs (child_upd n G).
Proof. intros. exists (upd_first n G). reflexivity. Qed.

Definition pass_ok (o : lop) (n : str) : Prop := comp o <> 5 \/ child_name o <> n.

Lemma lop_pass_fwd : forall o n, pass_ok o n -> pass_fwd (run_lop o) n.
Proof.
  intros o n Hok Y G HG s s1 x s12 y H1 H2. destruct (Nat.eq_dec (comp o) 5) as [Ec|Ec].
  - destruct Hok as [Hok|Hne]; [contradiction|].
    destruct o as [t|t|[|] t|nd r|m1 rk1 t1|[| |n0] ne fr]; try discriminate. cbn [child_name] in Hne.
    rewrite (subs_local _ Ec) in H1. apply put_ok in H1. destruct H1 as (us1 & A1 & E1). subst s1.
    apply subs_fn_ok in A1. destruct A1 as (T1 & E1 & Ex). subst us1 x.
    unfold child_upd in H2. rewrite ls_subs_set_subs in H2.
    rewrite upd_first_app_other in H2 by exact Hne. rewrite put_put in H2. apply put_ok in H2. destruct H2 as (u2 & Hu2 & E).
    rewrite set_subs_set_subs in E. subst s12.
    exists (set_ls_subs s u2). unfold child_upd. rewrite Hu2. split; [reflexivity|].
    rewrite (subs_local _ Ec), ls_subs_set_subs, subs_fn_run; [cbn [put]; rewrite set_subs_set_subs; reflexivity|].
    rewrite name_taken_names, (upd_first_lnames _ _ _ _ _ _ HG Hu2), <- name_taken_names. exact T1.
  - apply (proj2 (comm_local_agn _ _ _ Lsubs _ _ (child_upd_local _ n G) (agn_subs o Ec)) _ _ _ _ _ H1 H2).
Qed.

Lemma lop_pass_bwd : forall o n, pass_ok o n -> pass_bwd (run_lop o) n.
Proof.
  intros o n Hok X F HF s s1 x s12 y H1 H2. destruct (Nat.eq_dec (comp o) 5) as [Ec|Ec].
  - destruct Hok as [Hok|Hne]; [contradiction|].
    destruct o as [t|t|[|] t|nd r|m1 rk1 t1|[| |n0] ne fr]; try discriminate. cbn [child_name] in Hne.
    unfold child_upd in H1. apply put_ok in H1. destruct H1 as (u1 & Hu1 & E1). subst s1.
    rewrite (subs_local _ Ec), ls_subs_set_subs in H2. apply put_ok in H2. destruct H2 as (us12 & A2 & E2).
    rewrite set_subs_set_subs in E2. subst s12.
    apply subs_fn_ok in A2. destruct A2 as (T2 & E2 & Ey). subst us12 y.
    exists (set_ls_subs s (ls_subs s ++ [new_suite m1 rk1 t1])). split.
    + rewrite (subs_local _ Ec), subs_fn_run; [reflexivity|].
      rewrite name_taken_names, <- (upd_first_lnames _ _ _ _ _ _ HF Hu1), <- name_taken_names. exact T2.
    + unfold child_upd. rewrite ls_subs_set_subs, upd_first_app_other by exact Hne. rewrite Hu1. cbn [put].
      rewrite set_subs_set_subs. reflexivity.
  - apply (proj1 (comm_local_agn _ _ _ Lsubs _ _ (child_upd_local _ n F) (agn_subs o Ec)) _ _ _ _ _ H1 H2).
Qed.

(* ====================================================================================================================== *)
(* 7. independent events                                                                                                   *)
(* ====================================================================================================================== *)
(* what an event touches:
     KSess i      the session start (0) / end (1) time
     KRes loc th  the Result at loc (created, updated or finished) and, for step/log events, thread th's slot in w_active
     KSuiteEnd p  the end time of the suite at p
     KNewSuite p  the list of children of the parent of p, and everything at or below p (which did not exist before) *)
Inductive kind :=
| KSess (i : nat)
| KRes (loc : location) (th : option tid)
| KSuiteEnd (p : path)
| KNewSuite (p : path).

Definition kind_of (e : event) : kind :=
  match e with
  | ESessionStart _ => KSess 0
  | ESessionEnd _ => KSess 1
  | ESessionSetupStart _ | ESessionSetupEnd _ => KRes LocSessionSetup None
  | ESessionTeardownStart _ | ESessionTeardownEnd _ => KRes LocSessionTeardown None
  | ESuiteStart n _ => KNewSuite (node_path n)
  | ESuiteEnd n _ => KSuiteEnd (node_path n)
  | ESuiteSetupStart n _ | ESuiteSetupEnd n _ => KRes (LocSuiteSetup (node_path n)) None
  | ESuiteTeardownStart n _ | ESuiteTeardownEnd n _ => KRes (LocSuiteTeardown (node_path n)) None
  | ETestStart n _ | ETestEnd n _ | ETestSkipped n _ _ | ETestDisabled n _ _ => KRes (LocTest (node_path n)) None
  | EStepStart loc _ th _ | EStepEnd loc _ th _ | ELog loc _ th _ _ _ | ECheck loc _ th _ _ _ _
  | ELogAttachment loc _ th _ _ _ _ | ELogUrl loc _ th _ _ _ => KRes loc (Some th)
  end.

Fixpoint is_prefix (p q : path) : bool :=
  match p, q with
  | [], _ => true
  | a :: p', b :: q' => str_eqb a b && is_prefix p' q'
  | _ :: _, [] => false
  end.

Definition loc_path (loc : location) : path :=
  match loc with LocSuiteSetup p | LocSuiteTeardown p | LocTest p => p | _ => [] end.

Definition thr_diff (a b : option tid) : bool :=
  match a, b with Some x, Some y => negb (Z.eqb x y) | _, _ => true end.

Definition indep_kind (k1 k2 : kind) : bool :=
  match k1, k2 with
  | KSess i, KSess j => negb (Nat.eqb i j)
  | KSess _, _ | _, KSess _ => true
  | KRes l1 t1, KRes l2 t2 => negb (location_eqb l1 l2) && thr_diff t1 t2
  | KRes _ _, KSuiteEnd _ | KSuiteEnd _, KRes _ _ => true
  | KRes l _, KNewSuite p | KNewSuite p, KRes l _ => negb (is_prefix p (loc_path l))
  | KSuiteEnd q, KSuiteEnd q' => negb (path_eqb q q')
  | KSuiteEnd q, KNewSuite p | KNewSuite p, KSuiteEnd q => negb (is_prefix p q)
  | KNewSuite p, KNewSuite p' => negb (is_prefix p p') && negb (is_prefix p' p)
  end.

Definition indep (e1 e2 : event) : bool := indep_kind (kind_of e1) (kind_of e2).

Lemma path_eqb_refl : forall p, path_eqb p p = true.
Proof. intro. apply list_eqb_refl. apply str_eqb_refl. Qed.
Lemma path_eqb_eq : forall p q, path_eqb p q = true -> p = q.
Proof. apply list_eqb_eq. apply str_eqb_eq. Qed.
Lemma path_eqb_sym : forall p q, path_eqb p q = path_eqb q p.
Proof.
  intros p q. destruct (path_eqb p q) eqn:E.
  - apply path_eqb_eq in E. subst. symmetry. apply path_eqb_refl.
  - destruct (path_eqb q p) eqn:E'; auto. apply path_eqb_eq in E'. subst. rewrite path_eqb_refl in E. discriminate.
Qed.
Lemma location_eqb_refl : forall l, location_eqb l l = true.
Proof. destruct l; simpl; auto using path_eqb_refl. Qed.
Lemma location_eqb_sym : forall a b, location_eqb a b = location_eqb b a.
Proof. destruct a, b; simpl; auto using path_eqb_sym. Qed.

Lemma indep_kind_sym : forall k1 k2, indep_kind k1 k2 = indep_kind k2 k1.
Proof.
  intros [i|l1 t1|q|p] [j|l2 t2|q'|p']; simpl; auto.
  - rewrite Nat.eqb_sym. reflexivity.
  - rewrite location_eqb_sym. f_equal. destruct t1, t2; simpl; auto. rewrite Z.eqb_sym. reflexivity.
  - rewrite path_eqb_sym. reflexivity.
  - apply andb_comm.
Qed.

Theorem indep_sym : forall e1 e2, indep e1 e2 = indep e2 e1.
Proof. intros. apply indep_kind_sym. Qed.

Lemma is_prefix_spec : forall p q, is_prefix p q = true <-> exists r, q = p ++ r.
Proof.
  induction p as [|a p IH]; intros q; simpl.
  - split; eauto.
  - destruct q as [|b q]; [split; [discriminate|intros [r E]; discriminate]|]. rewrite andb_true_iff, IH. split.
    + intros [E [r Hr]]. apply str_eqb_eq in E. subst. eauto.
    + intros [r E]. inversion E; subst. split; [apply str_eqb_refl|eauto].
Qed.

(* a log-like or StepEnd event names the location of the step its thread has open (what the stream of a run satisfies:
   a thread emits them between its own StepStart and StepEnd at that location) *)
Definition follower (e : event) : option (location * tid) :=
  match e with
  | EStepEnd loc _ th _ | ELog loc _ th _ _ _ | ECheck loc _ th _ _ _ _
  | ELogAttachment loc _ th _ _ _ _ | ELogUrl loc _ th _ _ _ => Some (loc, th)
  | _ => None
  end.
Definition aligned (w : wstate) (e : event) : Prop :=
  forall loc th loc' i, follower e = Some (loc, th) -> lookup_active th (w_active w) = Some (loc', i) -> loc' = loc.

Definition thread_of (e : event) : option tid :=
  match kind_of e with KRes _ th => th | _ => None end.

Definition lop_slot (o : lop) : option slot :=
  match o with
  | OFresh true _ => Some SSetup
  | OFresh false _ => Some STeardown
  | OAddTest nd _ => Some (STest (m_name (n_meta nd)))
  | ORes sl _ _ => Some sl
  | _ => None
  end.

Definition slot_comp (sl : slot) : nat := match sl with SSetup => 2 | STeardown => 3 | STest _ => 4 end.

Lemma lop_slot_comp : forall o sl, lop_slot o = Some sl -> comp o = slot_comp sl /\ forall n, sl = STest n -> child_name o = n.
Proof.
  intros [t|t|[|] t|nd r|m0 rk0 t|[| |n0] ne fr] sl H; simpl in H; inversion H; subst; simpl; split; auto; intros n E;
    try discriminate; inversion E; reflexivity.
Qed.

(* what the (node, operation) of an event of a given kind looks like *)
Definition desc (k : kind) (p : path) (o : lop) : Prop :=
  match k with
  | KSess i => p = [] /\ comp o = i /\ i <= 1
  | KRes loc _ => exists sl, rslot loc = Some (p, sl) /\ lop_slot o = Some sl
  | KSuiteEnd q => p = q /\ comp o = 1 /\ q <> []
  | KNewSuite q => q = p ++ [child_name o] /\ comp o = 5
  end.

Lemma active_op_desc : forall w th F loc p o, active_op w th F = Some (p, o) ->
  (forall loc' i, lookup_active th (w_active w) = Some (loc', i) -> loc' = loc) ->
  exists sl, rslot loc = Some (p, sl) /\ lop_slot o = Some sl.
Proof.
  intros w th F loc p o H Ha. unfold active_op in H. destruct (lookup_active th (w_active w)) as [[loc' i]|]; [|discriminate].
  rewrite (Ha loc' i eq_refl) in H. destruct (rslot loc) as [[p' sl]|]; [|discriminate]. inversion H; subst. exists sl. auto.
Qed.

Lemma test_op_desc : forall n o p o', test_op n o = Some (p, o') -> lop_slot o = Some (STest (m_name (n_meta n))) ->
  exists sl, rslot (LocTest (node_path n)) = Some (p, sl) /\ lop_slot o' = Some sl.
Proof.
  intros n o p o' H Ho. unfold test_op in H. rewrite rslot_test. destruct (n_parent n) as [|a b]; [discriminate|].
  inversion H; subst. eauto.
Qed.

Lemma sem_desc : forall w e p o, aligned w e -> sem w e = Some (p, o) -> desc (kind_of e) p o.
Proof.
  intros w e p o Ha H.
  destruct e; cbn [sem kind_of desc] in *;
    try (eapply active_op_desc; [exact H|intros loc' i Hl; exact (Ha _ _ _ _ eq_refl Hl)]);
    try (eapply test_op_desc; [exact H|reflexivity]);
    try (inversion H; subst; cbn; auto using node_path_ne; fail).
  - inversion H; subst. eexists. split; reflexivity.
  - inversion H; subst. eexists. split; reflexivity.
  - inversion H; subst. eexists. split; reflexivity.
  - inversion H; subst. eexists. split; reflexivity.
  - inversion H; subst. exists SSetup. split; [apply rslot_suite_setup|reflexivity].
  - inversion H; subst. exists SSetup. split; [apply rslot_suite_setup|reflexivity].
  - inversion H; subst. exists STeardown. split; [apply rslot_suite_teardown|reflexivity].
  - inversion H; subst. exists STeardown. split; [apply rslot_suite_teardown|reflexivity].
  - destruct (rslot loc) as [[p' sl]|]; [|discriminate]. inversion H; subst. exists sl. auto.
Qed.

Definition ops_indep (p1 : path) (o1 : lop) (p2 : path) (o2 : lop) : Prop :=
  (p1 = p2 -> same_ok o1 o2) /\
  (forall n r, p2 = p1 ++ n :: r -> pass_ok o1 n) /\
  (forall n r, p1 = p2 ++ n :: r -> pass_ok o2 n).

Lemma same_ok_sym : forall o1 o2, same_ok o1 o2 -> same_ok o2 o1.
Proof.
  intros o1 o2 [H|[H1 H2]]; [left; congruence|]. destruct (Nat.eq_dec (comp o1) (comp o2)) as [E|E].
  - right. split; [lia|congruence].
  - left. congruence.
Qed.

Lemma ops_indep_sym : forall p1 o1 p2 o2, ops_indep p1 o1 p2 o2 -> ops_indep p2 o2 p1 o1.
Proof. intros p1 o1 p2 o2 (A & B & C). split; [|split]; auto. intros E. apply same_ok_sym. auto. Qed.

Lemma rslot_loc_slot : forall l p sl, rslot l = Some (p, sl) ->
  (p = [] /\ ((l = LocSessionSetup /\ sl = SSetup) \/ (l = LocSessionTeardown /\ sl = STeardown))) \/
  (p <> [] /\ loc_slot l = Some (p, sl)).
Proof.
  intros l p sl H. destruct l as [| |pa|pa|pa]; cbn [rslot loc_slot] in *.
  - inversion H; subst. left. auto.
  - inversion H; subst. left. auto.
  - destruct pa; [discriminate|]. inversion H; subst. right. split; [discriminate|reflexivity].
  - destruct pa; [discriminate|]. inversion H; subst. right. split; [discriminate|reflexivity].
  - destruct (split_last pa) as [[[|x0 q0] n0]|]; try discriminate. inversion H; subst. right. split; [discriminate|reflexivity].
Qed.

Lemma rslot_inj : forall a b p sl, rslot a = Some (p, sl) -> rslot b = Some (p, sl) -> a = b.
Proof.
  intros a b p sl Ha Hb.
  destruct (rslot_loc_slot _ _ _ Ha) as [[E1 A]|[N1 A]]; destruct (rslot_loc_slot _ _ _ Hb) as [[E2 B]|[N2 B]]; try contradiction.
  - destruct A as [[A1 A2]|[A1 A2]]; destruct B as [[B1 B2]|[B1 B2]]; congruence.
  - eapply loc_slot_inj; eassumption.
Qed.

Lemma rslot_path : forall l p sl, rslot l = Some (p, sl) -> exists r, loc_path l = p ++ r.
Proof.
  intros l p sl H. destruct l as [| |pa|pa|pa]; cbn [rslot loc_path] in *.
  - inversion H; subst. exists []. reflexivity.
  - inversion H; subst. exists []. reflexivity.
  - destruct pa; [discriminate|]. inversion H; subst. exists []. rewrite app_nil_r. reflexivity.
  - destruct pa; [discriminate|]. inversion H; subst. exists []. rewrite app_nil_r. reflexivity.
  - destruct (split_last pa) as [[[|x0 q0] n0]|] eqn:Ea; try discriminate. inversion H; subst.
    apply split_last_inv in Ea. eauto.
Qed.

Lemma pass_ok_comp : forall o n, comp o <> 5 -> pass_ok o n.
Proof. intros. left. assumption. Qed.

(* two operations neither of which adds a sub-suite: only the same node matters *)
Lemma ops_indep_flat : forall p1 o1 p2 o2, comp o1 <> 5 -> comp o2 <> 5 -> (p1 = p2 -> same_ok o1 o2) -> ops_indep p1 o1 p2 o2.
Proof. intros. split; [assumption|]. split; intros; apply pass_ok_comp; assumption. Qed.

(* against an operation that adds the sub-suite q = p2 ++ [name]: the other operation is not at or below q *)
Lemma ops_indep_new : forall p1 o1 p2 o2, comp o1 <> 5 -> comp o2 = 5 ->
  is_prefix (p2 ++ [child_name o2]) p1 = false -> ops_indep p1 o1 p2 o2.
Proof.
  intros p1 o1 p2 o2 C1 C2 Hp. split; [|split].
  - intros _. left. congruence.
  - intros. apply pass_ok_comp. assumption.
  - intros n r E. right. intros En. subst n p1. rewrite (proj2 (is_prefix_spec _ _)) in Hp; [discriminate|].
    exists r. rewrite <- app_assoc. reflexivity.
Qed.

Lemma slot_comp_ne5 : forall o sl, lop_slot o = Some sl -> comp o <> 5.
Proof. intros o sl H. destruct (lop_slot_comp _ _ H) as [E _]. rewrite E. destruct sl; simpl; lia. Qed.

Lemma negb_true : forall b, negb b = true -> b = false.
Proof. destruct b; simpl; auto. Qed.

Lemma is_prefix_trans_app : forall q p r, is_prefix q p = true -> is_prefix q (p ++ r) = true.
Proof.
  intros q p r H. apply is_prefix_spec in H. destruct H as [r' E]. subst. apply is_prefix_spec. exists (r' ++ r).
  rewrite app_assoc. reflexivity.
Qed.

Lemma indep_ops : forall k1 k2 p1 o1 p2 o2, indep_kind k1 k2 = true -> desc k1 p1 o1 -> desc k2 p2 o2 -> ops_indep p1 o1 p2 o2.
Proof.
  assert (RN : forall l t q p1 o1 p2 o2, negb (is_prefix q (loc_path l)) = true -> desc (KRes l t) p1 o1 -> desc (KNewSuite q) p2 o2 ->
                                         ops_indep p1 o1 p2 o2).
  { intros l t q p1 o1 p2 o2 Hi (sl & R1 & S1) (Q & C2). apply ops_indep_new; [eapply slot_comp_ne5; eassumption|assumption|].
    rewrite <- Q. destruct (is_prefix q p1) eqn:E; auto. destruct (rslot_path _ _ _ R1) as [r Er].
    rewrite Er, is_prefix_trans_app in Hi by assumption. discriminate. }
  assert (EN : forall q q' p1 o1 p2 o2, negb (is_prefix q' q) = true -> desc (KSuiteEnd q) p1 o1 -> desc (KNewSuite q') p2 o2 ->
                                        ops_indep p1 o1 p2 o2).
  { intros q q' p1 o1 p2 o2 Hi (E1 & C1 & _) (Q & C2). subst p1. apply ops_indep_new; [lia|assumption|]. rewrite <- Q.
    apply negb_true. assumption. }
  assert (SX : forall i k p1 o1 p2 o2, (forall j, k <> KSess j) -> desc (KSess i) p1 o1 -> desc k p2 o2 -> ops_indep p1 o1 p2 o2).
  { intros i k p1 o1 p2 o2 Hk (E1 & C1 & Hi) D2. subst p1. destruct k as [j|l t|q|q]; cbn [desc] in D2.
    - exfalso. apply (Hk j). reflexivity.
    - destruct D2 as (sl & R & S2). apply ops_indep_flat; [lia|eapply slot_comp_ne5; eassumption|].
      intros _. left. destruct (lop_slot_comp _ _ S2) as [E _]. rewrite E. destruct sl; simpl; lia.
    - destruct D2 as (E2 & C2 & Hq). apply ops_indep_flat; [lia|lia|]. intros E. exfalso. apply Hq. congruence.
    - destruct D2 as (Q & C2). apply ops_indep_new; [lia|assumption|]. destruct (p2 ++ [child_name o2]) eqn:E; [|reflexivity].
      apply app_eq_nil in E. destruct E; discriminate. }
  intros [i|l1 t1|q1|q1] [j|l2 t2|q2|q2] p1 o1 p2 o2 Hi D1 D2; cbn [indep_kind] in Hi;
    try (eapply SX; [|exact D1|exact D2]; intros; discriminate);
    try (apply ops_indep_sym; eapply SX; [|exact D2|exact D1]; intros; discriminate).
  - (* Sess / Sess *) destruct D1 as (E1 & C1 & H1). destruct D2 as (E2 & C2 & H2). apply ops_indep_flat; [lia|lia|].
    intros _. left. apply negb_true in Hi. apply Nat.eqb_neq in Hi. lia.
  - (* Res / Res *) apply andb_true_iff in Hi. destruct Hi as [Hl _]. apply negb_true in Hl.
    destruct D1 as (sl1 & R1 & S1). destruct D2 as (sl2 & R2 & S2).
    apply ops_indep_flat; [eapply slot_comp_ne5; eassumption|eapply slot_comp_ne5; eassumption|]. intros E. subst p2.
    assert (Hsl : sl1 <> sl2).
    { intros E. subst sl2. rewrite (rslot_inj _ _ _ _ R1 R2), location_eqb_refl in Hl. discriminate. }
    destruct (lop_slot_comp _ _ S1) as [C1 N1]. destruct (lop_slot_comp _ _ S2) as [C2 N2].
    destruct sl1 as [| |n1]; destruct sl2 as [| |n2]; try (left; rewrite C1, C2; simpl; lia); try (exfalso; apply Hsl; reflexivity).
    right. split; [rewrite C1; simpl; lia|]. rewrite (N1 _ eq_refl), (N2 _ eq_refl). congruence.
  - (* Res / SuiteEnd *) destruct D1 as (sl1 & R1 & S1). destruct D2 as (E2 & C2 & _).
    apply ops_indep_flat; [eapply slot_comp_ne5; eassumption|lia|]. intros _. left.
    destruct (lop_slot_comp _ _ S1) as [C1 _]. rewrite C1. destruct sl1; simpl; lia.
  - (* Res / NewSuite *) eapply RN; eassumption.
  - (* SuiteEnd / Res *) apply ops_indep_sym. destruct D2 as (sl1 & R1 & S1). destruct D1 as (E2 & C2 & _).
    apply ops_indep_flat; [eapply slot_comp_ne5; eassumption|lia|]. intros _. left.
    destruct (lop_slot_comp _ _ S1) as [C1 _]. rewrite C1. destruct sl1; simpl; lia.
  - (* SuiteEnd / SuiteEnd *) destruct D1 as (E1 & C1 & _). destruct D2 as (E2 & C2 & _). apply ops_indep_flat; [lia|lia|].
    intros E. subst. rewrite path_eqb_refl in Hi. discriminate.
  - (* SuiteEnd / NewSuite *) eapply EN; eassumption.
  - (* NewSuite / Res *) apply ops_indep_sym. eapply RN; eassumption.
  - (* NewSuite / SuiteEnd *) apply ops_indep_sym. eapply EN; eassumption.
  - (* NewSuite / NewSuite *) apply andb_true_iff in Hi. destruct Hi as [H1 H2]. apply negb_true in H1. apply negb_true in H2.
    destruct D1 as (Q1 & C1). destruct D2 as (Q2 & C2). subst q1 q2. split; [|split].
    + intros E. subst p2. right. split; [lia|]. intros En. rewrite En in H1.
      rewrite (proj2 (is_prefix_spec _ _)) in H1; [discriminate|]. exists []. rewrite app_nil_r. reflexivity.
    + intros n r E. right. intros En. subst p2. rewrite En in H1. rewrite (proj2 (is_prefix_spec _ _)) in H1; [discriminate|].
      exists (r ++ [child_name o2]). rewrite <- !app_assoc. reflexivity.
    + intros n r E. right. intros En. subst p1. rewrite En in H2. rewrite (proj2 (is_prefix_spec _ _)) in H2; [discriminate|].
      exists (r ++ [child_name o1]). rewrite <- !app_assoc. reflexivity.
Qed.

(* ---------------- reading tree_apply ---------------- *)
Lemma tree_apply_ok : forall w e w', tree_apply w e = Ok w' ->
  exists c p o s' x, check_apply w e = Ok c /\ sem w e = Some (p, o) /\ upd_at p (run_lop o) (root_of w) = Ok (s', x) /\
                     w' = post e x (with_root w s').
Proof.
  intros w e w' H. unfold tree_apply in H. apply bind_ok_inv in H. destruct H as (c & Hc & H).
  apply bind_ok_inv in H. destruct H as ([s' x] & Hs & H). inversion H; subst. clear H.
  destruct (sem w e) as [[p o]|]; [|discriminate]. exists c, p, o, s', x. auto.
Qed.

Lemma tree_apply_build : forall w e c p o s' x, check_apply w e = Ok c -> sem w e = Some (p, o) ->
  upd_at p (run_lop o) (root_of w) = Ok (s', x) -> tree_apply w e = Ok (post e x (with_root w s')).
Proof. intros w e c p o s' x Hc Hs Hu. unfold tree_apply. rewrite Hc, Hs. cbn [bind tree_run]. rewrite Hu. reflexivity. Qed.

Lemma apply_tree : forall w e w', apply w e = Ok w' <-> tree_apply w e = Ok w'.
Proof. intros. apply sim_ok. apply apply_char. Qed.

(* ---------------- the root stays a root ---------------- *)
Definition rootlike (s : lsuite) : Prop := ls_meta s = root_meta /\ ls_rank s = 0%Z /\ ls_tests s = [].

Lemma rootlike_root : forall w, rootlike (root_of w).
Proof. intros. repeat split. Qed.

Lemma root_with_root : forall w s, rootlike s -> root_of (with_root w s) = s.
Proof. intros w [m rk a e x y ts us] (A & B & C). simpl in *. subst. reflexivity. Qed.

Lemma run_lop_meta_rank : forall o s s' x, run_lop o s = Ok (s', x) -> ls_meta s' = ls_meta s /\ ls_rank s' = ls_rank s.
Proof.
  intros [t|t|[|] t|nd r|m0 rk0 t|[| |n] ne fr] [m rk a e x y ts us] s' k H; run_inv H; inversion H; split; reflexivity.
Qed.

Lemma desc_root : forall k o, desc k [] o -> comp o <> 4.
Proof.
  intros [i|l t|q|q] o D; cbn [desc] in D.
  - lia.
  - destruct D as (sl & R & S1). destruct (lop_slot_comp _ _ S1) as [C _]. rewrite C.
    destruct (rslot_loc_slot _ _ _ R) as [[_ [[_ E]|[_ E]]]|[N _]]; subst; simpl; try lia. contradiction.
  - destruct D as (E & _ & N). congruence.
  - lia.
Qed.

Lemma upd_rootlike : forall k p o s s' x, desc k p o -> rootlike s -> upd_at p (run_lop o) s = Ok (s', x) -> rootlike s'.
Proof.
  intros k p o s s' x D (A & B & C) H. destruct p as [|n r].
  - cbn [upd_at] in H. destruct (run_lop_meta_rank _ _ _ _ H) as [M R].
    pose proof (proj2 (agn_tests o (desc_root _ _ D)) _ _ _ H) as T. cbn in T. repeat split; congruence.
  - cbn [upd_at] in H. apply put_ok in H. destruct H as (u & _ & E). subst s'. destruct s; simpl in *. repeat split; assumption.
Qed.

(* ---------------- the table of open steps ---------------- *)
Definition post_active (e : event) (x : nat) (a : list (tid * sref)) : list (tid * sref) :=
  match e with EStepStart loc _ th _ => set_active th (loc, x) a | _ => a end.

Lemma post_active_eq : forall e x w, w_active (post e x w) = post_active e x (w_active w).
Proof. destruct e; reflexivity. Qed.
Lemma root_post : forall e x w, root_of (post e x w) = root_of w.
Proof. destruct e; reflexivity. Qed.

Lemma post_lookup_other : forall e x a th, (forall th', thread_of e = Some th' -> th' <> th) ->
  lookup_active th (post_active e x a) = lookup_active th a.
Proof.
  intros e x a th H. destruct e; cbn [post_active]; auto. apply lookup_set_active_other. intro E. apply (H thread eq_refl). congruence.
Qed.

Lemma indep_threads : forall e1 e2 a b, indep e1 e2 = true -> thread_of e1 = Some a -> thread_of e2 = Some b -> a <> b.
Proof.
  intros e1 e2 a b Hi H1 H2. unfold indep in Hi. unfold thread_of in *.
  destruct (kind_of e1) as [| l1 t1| |]; try discriminate. destruct (kind_of e2) as [| l2 t2| |]; try discriminate. subst.
  cbn in Hi. apply andb_true_iff in Hi. destruct Hi as [_ Hi]. apply negb_true in Hi. apply Z.eqb_neq. assumption.
Qed.

Lemma sem_lookup : forall w w' e, (forall th, thread_of e = Some th -> lookup_active th (w_active w') = lookup_active th (w_active w)) ->
  sem w' e = sem w e.
Proof. intros w w' e H. destruct e; cbn [sem]; auto; unfold active_op; rewrite (H thread eq_refl); reflexivity. Qed.

Lemma follower_thread : forall e loc th, follower e = Some (loc, th) -> thread_of e = Some th.
Proof. intros e loc th H. destruct e; simpl in H; inversion H; reflexivity. Qed.

Lemma aligned_lookup : forall w w' e, (forall th, thread_of e = Some th -> lookup_active th (w_active w') = lookup_active th (w_active w)) ->
  aligned w e -> aligned w' e.
Proof. intros w w' e H Ha loc th loc' i Hf Hl. rewrite (H th (follower_thread _ _ _ Hf)) in Hl. eapply Ha; eassumption. Qed.

Lemma lookup_set_active_comm : forall t1 t2 r1 r2 a th, t1 <> t2 ->
  lookup_active th (set_active t1 r1 (set_active t2 r2 a)) = lookup_active th (set_active t2 r2 (set_active t1 r1 a)).
Proof.
  intros t1 t2 r1 r2 a th Hne. destruct (Z.eq_dec th t1) as [E1|E1]; [|destruct (Z.eq_dec th t2) as [E2|E2]].
  - subst th. rewrite lookup_set_active, lookup_set_active_other by auto. rewrite lookup_set_active. reflexivity.
  - subst th. rewrite lookup_set_active, lookup_set_active_other by auto. rewrite lookup_set_active. reflexivity.
  - rewrite !lookup_set_active_other by auto. reflexivity.
Qed.

Lemma post_active_comm : forall e1 e2 x1 x2 a th, indep e1 e2 = true ->
  lookup_active th (post_active e2 x2 (post_active e1 x1 a)) = lookup_active th (post_active e1 x1 (post_active e2 x2 a)).
Proof.
  intros e1 e2 x1 x2 a th Hi. destruct e1; cbn [post_active]; auto. destruct e2; cbn [post_active]; auto.
  apply lookup_set_active_comm. apply not_eq_sym. eapply indep_threads; [exact Hi|reflexivity|reflexivity].
Qed.

(* ---------------- `assert result` follows from the update of the open step when the event is aligned ---------------- *)
Lemma upd_first_ok_mono : forall X Y n (f : lsuite -> res (lsuite * X)) (g : lsuite -> res (lsuite * Y)),
  (forall s a x, f s = Ok (a, x) -> exists c, g s = Ok c) ->
  forall l l' x, upd_first n f l = Ok (l', x) -> exists c, upd_first n g l = Ok c.
Proof.
  intros X Y n f g H. induction l as [|s r IH]; simpl; intros l' x Hl; [discriminate|]. destruct (str_eqb _ n).
  - apply put_ok in Hl. destruct Hl as (a & Ha & _). destruct (H _ _ _ Ha) as [[a' y] Hc]. rewrite Hc. simpl. eauto.
  - apply put_ok in Hl. destruct Hl as (a & Ha & _). destruct (IH _ _ Ha) as [[a' y] Hc]. rewrite Hc. simpl. eauto.
Qed.

Lemma upd_at_ok_mono : forall X Y (f : lsuite -> res (lsuite * X)) (g : lsuite -> res (lsuite * Y)),
  (forall s a x, f s = Ok (a, x) -> exists c, g s = Ok c) ->
  forall p s s' x, upd_at p f s = Ok (s', x) -> exists c, upd_at p g s = Ok c.
Proof.
  intros X Y f g H. induction p as [|n r IH]; intros s s' x Hs; cbn [upd_at] in *; [eauto|].
  apply put_ok in Hs. destruct Hs as (u & Hu & _).
  destruct (upd_first_ok_mono _ _ n (upd_at r f) (upd_at r g) (fun s a x => IH s a x) _ _ _ Hu) as [[u' y] Hc].
  rewrite Hc. simpl. eauto.
Qed.

Lemma upd_test_chk : forall X n (f : result -> res (result * X)) l l' x, upd_test n f l = Ok (l', x) ->
  exists c, upd_test n chk l = Ok c.
Proof.
  induction l as [|rt r IH]; simpl; intros l' x H; [discriminate|]. destruct (str_eqb _ n).
  - simpl. eauto.
  - apply put_ok in H. destruct H as (a & Ha & _). destruct (IH _ _ Ha) as [[a' y] Hc]. rewrite Hc. simpl. eauto.
Qed.

Lemma slot_upd_chk : forall sl ne ne' (fr : result -> res (result * nat)) s a x,
  run_lop (ORes sl ne fr) s = Ok (a, x) -> exists c, run_lop (ORes sl ne' chk) s = Ok c.
Proof.
  intros sl ne ne' fr s a x H. cbn [run_lop] in *. destruct sl; cbn [slot_upd] in *; apply put_ok in H; destruct H as (o & Ho & _).
  - destruct (ls_setup s); simpl in *; [eauto|discriminate].
  - destruct (ls_teardown s); simpl in *; [eauto|discriminate].
  - destruct (upd_test_chk _ _ _ _ _ _ Ho) as [[a' y] Hc]. rewrite Hc. simpl. eauto.
Qed.

Lemma check_from_op : forall w e p o s' x, aligned w e -> sem w e = Some (p, o) ->
  upd_at p (run_lop o) (root_of w) = Ok (s', x) -> exists c, check_apply w e = Ok c.
Proof.
  intros w e p o s' x Ha Hs Hu. unfold check_apply. destruct (check e) as [loc|] eqn:Ec; [|eauto].
  assert (Hf : exists th, follower e = Some (loc, th) /\ exists F, sem w e = active_op w th F).
  { destruct e; simpl in Ec; inversion Ec; subst; eexists; (split; [reflexivity|]); eexists; reflexivity. }
  destruct Hf as (th & Hf & F & HF). rewrite HF in Hs. unfold active_op in Hs.
  destruct (lookup_active th (w_active w)) as [[loc' i]|] eqn:El; [|discriminate].
  rewrite (Ha _ _ _ _ Hf El) in Hs. destruct (rslot loc) as [[p' sl]|]; [|discriminate]. inversion Hs; subst. cbn [tree_run].
  eapply upd_at_ok_mono; [|exact Hu]. intros s a y. apply slot_upd_chk.
Qed.

Lemma sequiv_wequiv : forall w w' s s', sequiv s s' ->
  (forall th, lookup_active th (w_active w) = lookup_active th (w_active w')) -> wequiv (with_root w s) (with_root w' s').
Proof. intros w w' s s' H Ha. inversion H; subst. repeat split; auto. Qed.

Lemma wequiv_active : forall w w' a a', wequiv w w' -> (forall th, lookup_active th a = lookup_active th a') ->
  wequiv (set_w_active w a) (set_w_active w' a').
Proof. intros w w' a a' (A & B & C & D & E & _) H. repeat split; auto. Qed.

Lemma wequiv_build : forall w w' s s' a a', sequiv s s' -> (forall th, lookup_active th a = lookup_active th a') ->
  wequiv (set_w_active (with_root w s) a) (set_w_active (with_root w' s') a').
Proof. intros w w' s s' a a' H Ha. inversion H; subst. repeat split; auto. Qed.

Lemma post_as_set : forall e x w, post e x w = set_w_active w (post_active e x (w_active w)).
Proof. intros. destruct e; try (destruct w; reflexivity); reflexivity. Qed.

(* T1: two adjacent independent events may be swapped *)
Theorem apply_swap : forall w e1 e2 w1 w12,
  indep e1 e2 = true -> aligned w e1 -> aligned w1 e2 ->
  apply w e1 = Ok w1 -> apply w1 e2 = Ok w12 ->
  exists w2 w21, apply w e2 = Ok w2 /\ apply w2 e1 = Ok w21 /\ wequiv w12 w21 /\ aligned w e2 /\ aligned w2 e1.
Proof.
  intros w e1 e2 w1 w12 Hi A1 A2 H1 H2.
  apply apply_tree in H1. apply apply_tree in H2.
  destruct (tree_apply_ok _ _ _ H1) as (c1 & p1 & o1 & s1 & x1 & K1 & S1 & U1 & E1).
  destruct (tree_apply_ok _ _ _ H2) as (c2 & p2 & o2 & s12 & x2 & K2 & S2 & U2 & E2).
  pose proof (sem_desc _ _ _ _ A1 S1) as D1.
  assert (R1 : rootlike s1) by (eapply upd_rootlike; [exact D1|apply rootlike_root|exact U1]).
  assert (Rw1 : root_of w1 = s1) by (rewrite E1, root_post; apply root_with_root; exact R1).
  assert (L2 : forall th, thread_of e2 = Some th -> lookup_active th (w_active w1) = lookup_active th (w_active w)).
  { intros th Hth. rewrite E1, post_active_eq. cbn [with_root w_active]. apply post_lookup_other.
    intros th' Hth'. eapply indep_threads; eassumption. }
  assert (S2' : sem w e2 = Some (p2, o2)).
  { rewrite <- S2. symmetry. apply sem_lookup. exact L2. }
  assert (A2' : aligned w e2).
  { eapply aligned_lookup; [|exact A2]. intros th Hth. symmetry. apply L2. exact Hth. }
  pose proof (sem_desc _ _ _ _ A2' S2') as D2.
  destruct (indep_ops _ _ _ _ _ _ Hi D1 D2) as (I1 & I2 & I3).
  rewrite Rw1 in U2.
  destruct (upd_at_comm _ _ (run_lop o1) (run_lop o2) (run_lop_pres_name o1) (run_lop_pres_name o2) p1 p2) with
    (s := root_of w) (s1 := s1) (x := x1) (s12 := s12) (y := x2) as (s2 & s21 & V2 & V1 & Q); auto.
  { intros E. apply lop_local_comm. auto. }
  { intros n r E. apply lop_pass_fwd. eauto. }
  { intros n r E. apply lop_pass_bwd. eauto. }
  assert (R2 : rootlike s2) by (eapply upd_rootlike; [exact D2|apply rootlike_root|exact V2]).
  set (w2 := post e2 x2 (with_root w s2)).
  assert (Rw2 : root_of w2 = s2) by (unfold w2; rewrite root_post; apply root_with_root; exact R2).
  destruct (check_from_op _ _ _ _ _ _ A2' S2' V2) as [c2' K2'].
  assert (T2 : tree_apply w e2 = Ok w2) by (eapply tree_apply_build; eassumption).
  assert (L1 : forall th, thread_of e1 = Some th -> lookup_active th (w_active w2) = lookup_active th (w_active w)).
  { intros th Hth. unfold w2. rewrite post_active_eq. cbn [with_root w_active]. apply post_lookup_other.
    intros th' Hth'. eapply indep_threads; [rewrite indep_sym; exact Hi|eassumption|eassumption]. }
  assert (S1' : sem w2 e1 = Some (p1, o1)) by (rewrite <- S1; apply sem_lookup; exact L1).
  assert (A1' : aligned w2 e1) by (eapply aligned_lookup; [exact L1|exact A1]).
  rewrite <- Rw2 in V1.
  destruct (check_from_op _ _ _ _ _ _ A1' S1' V1) as [c1' K1'].
  exists w2, (post e1 x1 (with_root w2 s21)). split; [apply apply_tree; exact T2|].
  split; [apply apply_tree; eapply tree_apply_build; eassumption|]. split; [|split; assumption].
  rewrite E2, E1. rewrite !post_as_set. cbn [with_root w_active set_w_active]. unfold w2. rewrite post_as_set.
  cbn [with_root w_active set_w_active].
  apply wequiv_build; [exact Q|]. intros th. apply post_active_comm. exact Hi.
Qed.

(* ====================================================================================================================== *)
(* 8. apply respects the equivalence (sibling names pairwise distinct)                                                     *)
(* ====================================================================================================================== *)
Lemma lequiv_names_perm : forall l l', lequiv l l' -> Permutation (map ls_name l) (map ls_name l').
Proof.
  intros l l' H. induction H; simpl.
  - constructor.
  - rewrite (sequiv_name _ _ H). apply perm_skip. assumption.
  - apply perm_swap.
  - eapply Permutation_trans; eassumption.
Qed.

Lemma names_lsequiv :
  (forall l l', lequiv l l' -> Forall (deep node_names) l -> Forall (deep node_names) l') /\
  (forall s s', sequiv s s' -> deep node_names s -> deep node_names s').
Proof.
  apply lsequiv_mut.
  - auto.
  - intros s s' l l' Hs IHs Hl IHl HF. inversion HF; subst. constructor; auto.
  - intros a b l HF. inversion HF; subst. inversion H2; subst. repeat constructor; assumption.
  - auto.
  - intros m rk a e x y ts ts' us us' Hp Hl IHl Hd. apply deep_unfold in Hd. destruct Hd as [[K1 K2] HF].
    cbn [ls_tests ls_subs] in *. apply deep_unfold. split; [|auto]. split; cbn [ls_tests ls_subs].
    + eapply Permutation_NoDup; [|exact K1]. apply Permutation_map. exact Hp.
    + eapply Permutation_NoDup; [|exact K2]. apply lequiv_names_perm. exact Hl.
Qed.

Lemma existsb_perm : forall A (f : A -> bool) l l', Permutation l l' -> existsb f l = existsb f l'.
Proof.
  intros A f l l' H. induction H; simpl; auto.
  - rewrite IHPermutation. reflexivity.
  - destruct (f x), (f y); reflexivity.
  - congruence.
Qed.

Definition respects {X} (f : lsuite -> res (lsuite * X)) : Prop :=
  forall s s' s1 x, sequiv s s' -> deep node_names s -> f s = Ok (s1, x) -> exists s1', f s' = Ok (s1', x) /\ sequiv s1 s1'.

Lemma upd_first_lequiv : forall X n (G : lsuite -> res (lsuite * X)), pres_name G -> respects G ->
  forall l l', lequiv l l' -> NoDup (map ls_name l) -> Forall (deep node_names) l ->
  forall l1 x, upd_first n G l = Ok (l1, x) -> exists l1', upd_first n G l' = Ok (l1', x) /\ lequiv l1 l1'.
Proof.
  intros X n G HG HR l l' H. induction H as [|s s' l l' Hs Hl IH|a b l|l1 l2 l3 H1 IH1 H2 IH2]; intros Hnd HF u x Hu.
  - discriminate.
  - inversion Hnd; subst. inversion HF; subst. cbn [upd_first] in *. rewrite <- (sequiv_name _ _ Hs).
    destruct (str_eqb (ls_name s) n).
    + apply put_ok in Hu. destruct Hu as (c & Hc & E). subst u. destruct (HR _ _ _ _ Hs H3 Hc) as (c' & Hc' & Q).
      rewrite Hc'. eexists. split; [reflexivity|]. constructor; assumption.
    + apply put_ok in Hu. destruct Hu as (r & Hr & E). subst u. destruct (IH H2 H4 _ _ Hr) as (r' & Hr' & Q).
      rewrite Hr'. eexists. split; [reflexivity|]. constructor; assumption.
  - assert (Hab : ls_name a <> ls_name b).
    { inversion Hnd; subst. intro E. apply H1. left. symmetry. exact E. }
    cbn [upd_first] in *. destruct (str_eqb (ls_name a) n) eqn:Ea.
    + apply str_eqb_eq in Ea. rewrite (str_eqb_neq (ls_name b) n) by congruence.
      apply put_ok in Hu. destruct Hu as (c & Hc & E). subst u. rewrite Hc. eexists. split; [reflexivity|]. apply LE_swap.
    + destruct (str_eqb (ls_name b) n) eqn:Eb.
      * apply put_ok in Hu. destruct Hu as (r & Hr & E). subst u. apply put_ok in Hr. destruct Hr as (c & Hc & E). subst r.
        rewrite Hc. eexists. split; [reflexivity|]. apply LE_swap.
      * apply put_ok in Hu. destruct Hu as (r & Hr & E). subst u. apply put_ok in Hr. destruct Hr as (r' & Hr' & E). subst r.
        rewrite Hr'. eexists. split; [reflexivity|]. apply LE_swap.
  - destruct (IH1 Hnd HF _ _ Hu) as (u2 & Hu2 & Q1).
    assert (Hnd2 : NoDup (map ls_name l2)) by (eapply Permutation_NoDup; [apply lequiv_names_perm; exact H1|exact Hnd]).
    destruct (IH2 Hnd2 (proj1 names_lsequiv _ _ H1 HF) _ _ Hu2) as (u3 & Hu3 & Q2).
    exists u3. split; [exact Hu3|]. eapply LE_trans; eassumption.
Qed.

Lemma upd_at_respects : forall X (f : lsuite -> res (lsuite * X)) p, pres_name f -> respects f -> respects (upd_at p f).
Proof.
  intros X f p Hf HR. induction p as [|n r IH]; [exact HR|]. intros s s' s1 x Hs Hd H.
  cbn [upd_at] in *. apply put_ok in H. destruct H as (u & Hu & E). subst s1.
  apply deep_unfold in Hd. destruct Hd as [[_ Hnd] HF]. inversion Hs; subst. cbn [ls_subs] in *.
  destruct (upd_first_lequiv _ n (upd_at r f) (upd_at_pres_name _ f r Hf) IH _ _ H0 Hnd HF _ _ Hu) as (u' & Hu' & Q).
  rewrite Hu'. eexists. split; [reflexivity|]. simpl. constructor; assumption.
Qed.

Lemma upd_test_perm : forall X n (f : result -> res (result * X)) l l', Permutation l l' -> NoDup (map tname l) ->
  forall l1 x, upd_test n f l = Ok (l1, x) -> exists l1', upd_test n f l' = Ok (l1', x) /\ Permutation l1 l1'.
Proof.
  intros X n f l l' H. induction H as [|a l l' H IH|a b l|l1 l2 l3 H1 IH1 H2 IH2]; intros Hnd u x Hu.
  - discriminate.
  - inversion Hnd; subst. cbn [upd_test] in *. destruct (str_eqb _ n).
    + apply put_ok in Hu. destruct Hu as (c & Hc & E). subst u. rewrite Hc. eexists. split; [reflexivity|]. apply perm_skip. exact H.
    + apply put_ok in Hu. destruct Hu as (r & Hr & E). subst u. destruct (IH H3 _ _ Hr) as (r' & Hr' & Q). rewrite Hr'.
      eexists. split; [reflexivity|]. apply perm_skip. exact Q.
  - assert (Hab : tname b <> tname a).
    { inversion Hnd; subst. intro E. apply H1. left. symmetry. exact E. }
    unfold tname in Hab. cbn [upd_test] in *. destruct (str_eqb (m_name (t_meta (snd b))) n) eqn:Eb.
    + apply str_eqb_eq in Eb. rewrite (str_eqb_neq (m_name (t_meta (snd a))) n) by congruence.
      apply put_ok in Hu. destruct Hu as (c & Hc & E). subst u. rewrite Hc. eexists. split; [reflexivity|]. apply perm_swap.
    + destruct (str_eqb (m_name (t_meta (snd a))) n) eqn:Ea.
      * apply put_ok in Hu. destruct Hu as (r & Hr & E). subst u. apply put_ok in Hr. destruct Hr as (c & Hc & E). subst r.
        rewrite Hc. eexists. split; [reflexivity|]. apply perm_swap.
      * apply put_ok in Hu. destruct Hu as (r & Hr & E). subst u. apply put_ok in Hr. destruct Hr as (r' & Hr' & E). subst r.
        rewrite Hr'. eexists. split; [reflexivity|]. apply perm_swap.
  - destruct (IH1 Hnd _ _ Hu) as (u2 & Hu2 & Q1).
    assert (Hnd2 : NoDup (map tname l2)) by (eapply Permutation_NoDup; [apply Permutation_map; exact H1|exact Hnd]).
    destruct (IH2 Hnd2 _ _ Hu2) as (u3 & Hu3 & Q2). exists u3. split; [exact Hu3|]. eapply Permutation_trans; eassumption.
Qed.

Lemma tests_fn_perm : forall o l l', comp o = 4 -> Permutation l l' -> NoDup (map tname l) ->
  forall l1 x, tests_fn o l = Ok (l1, x) -> exists l1', tests_fn o l' = Ok (l1', x) /\ Permutation l1 l1'.
Proof.
  intros o l l' Hc Hp Hnd l1 x H. destruct o as [t|t|[|] t|nd r|m0 rk0 t|[| |n] ne fr]; try discriminate; cbn [tests_fn] in *.
  - apply add_fn_ok in H. destruct H as (T & E & Ex). subst. unfold add_fn, test_taken in *.
    rewrite <- (existsb_perm _ _ _ _ Hp), T. eexists. split; [reflexivity|]. apply Permutation_app_tail. exact Hp.
  - eapply upd_test_perm; eassumption.
Qed.

Lemma subs_fn_lequiv : forall o l l', comp o = 5 -> lequiv l l' ->
  forall l1 x, subs_fn o l = Ok (l1, x) -> exists l1', subs_fn o l' = Ok (l1', x) /\ lequiv l1 l1'.
Proof.
  intros o l l' Hc Hl l1 x H. destruct o as [t|t|[|] t|nd r|m0 rk0 t|[| |n] ne fr]; try discriminate.
  apply subs_fn_ok in H. destruct H as (T & E & Ex). subst. exists (l' ++ [new_suite m0 rk0 t]). split.
  - apply subs_fn_run. rewrite name_taken_names in *. rewrite <- (existsb_perm _ _ _ _ (lequiv_names_perm _ _ Hl)). exact T.
  - apply lequiv_app; [exact Hl|apply lequiv_refl].
Qed.

Lemma run_lop_respects : forall o, respects (run_lop o).
Proof.
  intros o s s' s1 x Hs Hd H. inversion Hs as [m rk a e x0 y ts ts' us us' Hpt Hlu]; subst. apply deep_unfold in Hd. destruct Hd as [[Hnt Hns] HF]. cbn [ls_tests ls_subs] in *.
  assert (Hc : comp o < 4 \/ comp o = 4 \/ comp o = 5).
  { destruct o as [t|t|[|] t|nd r|m0 rk0 t|[| |n] ne fr]; cbn; lia. }
  destruct Hc as [Hc|[Hc|Hc]].
  - destruct (agn_tests o ltac:(lia)) as [T1 T2]. destruct (agn_subs o ltac:(lia)) as [U1 U2]. cbn [lget lset Ltests Lsubs] in *.
    exists (set_ls_subs (set_ls_tests s1 ts') us'). split.
    + change (LSuite m rk a e x0 y ts' us') with (set_ls_subs (set_ls_tests (LSuite m rk a e x0 y ts us) ts') us').
      rewrite U1, T1, H. reflexivity.
    + pose proof (T2 _ _ _ H) as E1. pose proof (U2 _ _ _ H) as E2. destruct s1 as [m1 rk1 a1 e1 x1 y1 ts1 us1].
      cbn in E1, E2. subst. simpl. constructor; assumption.
  - destruct (agn_subs o ltac:(lia)) as [U1 U2]. cbn [lget lset Lsubs] in *.
    rewrite (tests_local _ Hc) in H. apply put_ok in H. destruct H as (t1 & Ht1 & E). subst s1. cbn [ls_tests set_ls_tests] in *.
    destruct (tests_fn_perm _ _ _ Hc Hpt Hnt _ _ Ht1) as (t1' & Ht1' & Q).
    exists (LSuite m rk a e x0 y t1' us'). split; [|constructor; assumption].
    rewrite (tests_local _ Hc). cbn [ls_tests set_ls_tests]. rewrite Ht1'. reflexivity.
  - rewrite (subs_local _ Hc) in H. apply put_ok in H. destruct H as (u1 & Hu1 & E). subst s1. cbn [ls_subs set_ls_subs] in *.
    destruct (subs_fn_lequiv _ _ _ Hc Hlu _ _ Hu1) as (u1' & Hu1' & Q).
    exists (LSuite m rk a e x0 y ts' u1'). split; [|constructor; assumption].
    rewrite (subs_local _ Hc). cbn [ls_subs set_ls_subs]. rewrite Hu1'. reflexivity.
Qed.

Lemma wequiv_roots : forall w w', wequiv w w' -> sequiv (root_of w) (root_of w').
Proof. intros w w' (A & B & C & D & E & _). unfold root_of. rewrite A, B, C, D. constructor; [apply Permutation_refl|exact E]. Qed.

Lemma names_root : forall w, names_distinct w <-> deep node_names (root_of w).
Proof.
  intros w. rewrite deep_unfold. unfold names_distinct, node_names. cbn [root_of ls_tests ls_subs map]. split.
  - intros [A B]. repeat split; auto. constructor.
  - intros [[_ A] B]. auto.
Qed.

Lemma post_active_ext : forall e x a a', (forall th, lookup_active th a = lookup_active th a') ->
  forall th, lookup_active th (post_active e x a) = lookup_active th (post_active e x a').
Proof.
  intros e x a a' H th. destruct e; cbn [post_active]; auto. destruct (Z.eq_dec th thread) as [E|E].
  - subst. rewrite !lookup_set_active. reflexivity.
  - rewrite !lookup_set_active_other by auto. apply H.
Qed.

Lemma check_apply_wequiv : forall w w' e c, wequiv w w' -> names_distinct w -> check_apply w e = Ok c -> exists c', check_apply w' e = Ok c'.
Proof.
  intros w w' e c Hq Hn H. unfold check_apply in *. destruct (check e) as [loc|]; [|eauto].
  destruct (rslot loc) as [[p sl]|]; [|discriminate]. cbn [tree_run] in *. destruct c as [s1 x].
  destruct (upd_at_respects _ _ p (run_lop_pres_name (ORes sl AssertionError chk)) (run_lop_respects _) _ _ _ _
              (wequiv_roots _ _ Hq) (proj1 (names_root w) Hn) H) as (s1' & H' & _). eauto.
Qed.

(* T1: apply respects the equivalence *)
Theorem apply_wequiv : forall w w' e w1, wequiv w w' -> names_distinct w -> apply w e = Ok w1 ->
  exists w1', apply w' e = Ok w1' /\ wequiv w1 w1'.
Proof.
  intros w w' e w1 Hq Hn H. apply apply_tree in H.
  destruct (tree_apply_ok _ _ _ H) as (c & p & o & s1 & x & K & S1 & U & E).
  destruct (check_apply_wequiv _ _ _ _ Hq Hn K) as [c' K'].
  assert (S1' : sem w' e = Some (p, o)).
  { rewrite <- S1. apply sem_lookup. intros th _. symmetry. apply Hq. }
  destruct (upd_at_respects _ _ p (run_lop_pres_name o) (run_lop_respects o) _ _ _ _
              (wequiv_roots _ _ Hq) (proj1 (names_root w) Hn) U) as (s1' & U' & Q).
  exists (post e x (with_root w' s1')). split; [apply apply_tree; eapply tree_apply_build; eassumption|].
  subst w1. rewrite !post_as_set. cbn [with_root w_active]. apply wequiv_build; [exact Q|].
  apply post_active_ext. apply Hq.
Qed.

(* ---------------- the writer keeps sibling names pairwise distinct ---------------- *)
Lemma existsb_notin : forall n l, existsb (fun nm => str_eqb nm n) l = false -> ~ In n l.
Proof.
  induction l as [|a l IH]; simpl; intros H; auto. apply orb_false_iff in H. destruct H as [H1 H2].
  intros [E|E]; [subst; rewrite str_eqb_refl in H1; discriminate|exact (IH H2 E)].
Qed.

Lemma NoDup_snoc : forall A (l : list A) x, NoDup l -> ~ In x l -> NoDup (l ++ [x]).
Proof.
  intros A l x Hl Hx. apply NoDup_rev in Hl. rewrite <- (rev_involutive (l ++ [x])). apply NoDup_rev. rewrite rev_app_distr. simpl.
  constructor; [rewrite <- in_rev; exact Hx|exact Hl].
Qed.

Lemma run_lop_names : forall o s s1 x, deep node_names s -> run_lop o s = Ok (s1, x) -> deep node_names s1.
Proof.
  intros o s s1 x Hd H. apply deep_unfold in Hd. destruct Hd as [[Hnt Hns] HF]. apply deep_unfold.
  assert (Hc : comp o < 4 \/ comp o = 4 \/ comp o = 5).
  { destruct o as [t|t|[|] t|nd r|m0 rk0 t|[| |n] ne fr]; cbn; lia. }
  destruct Hc as [Hc|[Hc|Hc]].
  - pose proof (proj2 (agn_tests o ltac:(lia)) _ _ _ H) as E1. pose proof (proj2 (agn_subs o ltac:(lia)) _ _ _ H) as E2.
    cbn [lget Ltests Lsubs] in *. unfold node_names. rewrite E1, E2. auto.
  - pose proof (proj2 (agn_subs o ltac:(lia)) _ _ _ H) as E2. cbn [lget Lsubs] in *. unfold node_names. rewrite E2.
    split; [split|]; auto. rewrite (tests_local _ Hc) in H. apply put_ok in H. destruct H as (t1 & Ht1 & E). subst s1.
    destruct s as [m rk a e u v ts us]. cbn [ls_tests set_ls_tests] in *.
    destruct o as [t|t|[|] t|nd r|m0 rk0 t|[| |n] ne fr]; try discriminate; cbn [tests_fn] in Ht1.
    + apply add_fn_ok in Ht1. destruct Ht1 as (T & E & _). subst t1. rewrite map_app. simpl. apply NoDup_snoc; [exact Hnt|].
      unfold tname at 1. cbn [snd t_meta]. apply existsb_notin. rewrite <- test_taken_names. exact T.
    + rewrite (upd_test_tnames _ _ _ _ _ _ Ht1). exact Hnt.
  - pose proof (proj2 (agn_tests o ltac:(lia)) _ _ _ H) as E1. cbn [lget Ltests] in *. unfold node_names. rewrite E1.
    rewrite (subs_local _ Hc) in H. apply put_ok in H. destruct H as (u1 & Hu1 & E). subst s1. rewrite ls_subs_set_subs.
    destruct o as [t|t|[|] t|nd r|m0 rk0 t|[| |n] ne fr]; try discriminate.
    apply subs_fn_ok in Hu1. destruct Hu1 as (T & E & _). subst u1. split; [split; [exact Hnt|]|].
    + rewrite map_app. simpl. apply NoDup_snoc; [exact Hns|]. change (ls_name (new_suite m0 rk0 t)) with (m_name m0).
      apply existsb_notin. rewrite <- name_taken_names. exact T.
    + apply Forall_app. split; [exact HF|]. constructor; [|constructor]. simpl. repeat split; constructor.
Qed.

Lemma upd_at_names : forall X (f : lsuite -> res (lsuite * X)) p, pres_name f ->
  (forall s s1 x, deep node_names s -> f s = Ok (s1, x) -> deep node_names s1) ->
  forall s s1 x, deep node_names s -> upd_at p f s = Ok (s1, x) -> deep node_names s1.
Proof.
  intros X f p Hf HP. induction p as [|n r IH]; [exact HP|]. intros s s1 x Hd H. cbn [upd_at] in H.
  apply put_ok in H. destruct H as (u & Hu & E). subst s1. apply deep_unfold in Hd. destruct Hd as [[Hnt Hns] HF].
  apply deep_unfold. rewrite ls_subs_set_subs. unfold node_names. rewrite ls_subs_set_subs.
  assert (Et : ls_tests (set_ls_subs s u) = ls_tests s) by (destruct s; reflexivity). rewrite Et.
  rewrite (upd_first_lnames _ _ _ _ _ _ (upd_at_pres_name _ f r Hf) Hu). split; [split; assumption|].
  destruct (upd_first_names _ _ _ _ _ _ Hu) as (pre & c & post & c1 & E1 & E2 & E3 & _). subst u. rewrite E1 in HF.
  apply Forall_app in HF. destruct HF as [F1 F2]. inversion F2; subst. apply Forall_app. split; [exact F1|].
  constructor; [|assumption]. eapply IH; eassumption.
Qed.

Lemma names_distinct_step : forall w e w1, names_distinct w -> apply w e = Ok w1 -> names_distinct w1.
Proof.
  intros w e w1 Hn H. apply apply_tree in H. destruct (tree_apply_ok _ _ _ H) as (c & p & o & s1 & x & K & S1 & U & E).
  apply names_root in Hn. pose proof (upd_at_names _ _ p (run_lop_pres_name o) (run_lop_names o) _ _ _ Hn U) as Hd.
  subst w1. apply deep_unfold in Hd. destruct Hd as [[_ A] B]. rewrite post_as_set. split; assumption.
Qed.

Lemma names_distinct_init : names_distinct init_wstate.
Proof. split; constructor. Qed.

Lemma names_distinct_all : forall s w w1, names_distinct w -> apply_all w s = Ok w1 -> names_distinct w1.
Proof. intros s w w1. apply (apply_all_inv names_distinct names_distinct_step). Qed.

Lemma names_distinct_wequiv : forall w w', wequiv w w' -> names_distinct w -> names_distinct w'.
Proof.
  intros w w' Hq Hn. apply names_root. apply (proj2 names_lsequiv _ _ (wequiv_roots _ _ Hq)). apply names_root. exact Hn.
Qed.

(* ====================================================================================================================== *)
(* 9. T2: reordering a stream                                                                                              *)
(* ====================================================================================================================== *)
Inductive trace_equiv : list event -> list event -> Prop :=
| TE_refl : forall s, trace_equiv s s
| TE_swap : forall a e1 e2 b, indep e1 e2 = true -> trace_equiv (a ++ e1 :: e2 :: b) (a ++ e2 :: e1 :: b)
| TE_trans : forall s1 s2 s3, trace_equiv s1 s2 -> trace_equiv s2 s3 -> trace_equiv s1 s3.

(* every log-like / StepEnd event of the stream is aligned in the state it is applied to *)
Fixpoint all_aligned (w : wstate) (s : list event) : Prop :=
  match s with
  | [] => True
  | e :: r => aligned w e /\ match apply w e with Ok w' => all_aligned w' r | Err _ => True end
  end.

Lemma all_aligned_app : forall a b w wa, apply_all w a = Ok wa ->
  (all_aligned w (a ++ b) <-> all_aligned w a /\ all_aligned wa b).
Proof.
  induction a as [|e a IH]; intros b w wa H; simpl in *.
  - inversion H; subst. tauto.
  - apply bind_ok_inv in H. destruct H as (w' & H1 & H2). rewrite H1. rewrite (IH b w' wa H2). tauto.
Qed.

Lemma aligned_wequiv : forall w w' e, wequiv w w' -> aligned w e -> aligned w' e.
Proof. intros w w' e Hq. apply aligned_lookup. intros th _. symmetry. apply Hq. Qed.

Lemma apply_all_wequiv : forall s w w' w1, wequiv w w' -> names_distinct w -> apply_all w s = Ok w1 -> all_aligned w s ->
  exists w1', apply_all w' s = Ok w1' /\ wequiv w1 w1' /\ all_aligned w' s.
Proof.
  induction s as [|e s IH]; intros w w' w1 Hq Hn H Ha; simpl in *.
  - inversion H; subst. eauto.
  - apply bind_ok_inv in H. destruct H as (wa & H1 & H2). destruct Ha as [Ae Ar]. rewrite H1 in Ar.
    destruct (apply_wequiv _ _ _ _ Hq Hn H1) as (wa' & H1' & Qa).
    destruct (IH _ _ _ Qa (names_distinct_step _ _ _ Hn H1) H2 Ar) as (w1' & H2' & Q1 & Ar').
    exists w1'. rewrite H1'. cbn [bind]. split; [exact H2'|]. split; [exact Q1|]. split; [eapply aligned_wequiv; eassumption|exact Ar'].
Qed.

Lemma trace_equiv_states : forall s1 s2, trace_equiv s1 s2 ->
  forall w w1, names_distinct w -> apply_all w s1 = Ok w1 -> all_aligned w s1 ->
  exists w2, apply_all w s2 = Ok w2 /\ wequiv w1 w2 /\ all_aligned w s2.
Proof.
  intros s1 s2 H. induction H as [s|a e1 e2 b Hi|s1 s2 s3 H1 IH1 H2 IH2]; intros w w1 Hn Hs Ha.
  - exists w1. auto using wequiv_refl.
  - rewrite apply_all_app in Hs. apply bind_ok_inv in Hs. destruct Hs as (wa & Hwa & Hs).
    apply (all_aligned_app a _ _ _ Hwa) in Ha. destruct Ha as [Aa Ab].
    cbn [apply_all] in Hs. apply bind_ok_inv in Hs. destruct Hs as (wb & Hb1 & Hs). apply bind_ok_inv in Hs. destruct Hs as (w12 & Hb2 & Hs).
    cbn [all_aligned] in Ab. rewrite Hb1 in Ab. destruct Ab as (A1 & A2 & Ab). rewrite Hb2 in Ab.
    destruct (apply_swap _ _ _ _ _ Hi A1 A2 Hb1 Hb2) as (w2 & w21 & G1 & G2 & Q & B1 & B2).
    assert (Hna : names_distinct wa) by (eapply names_distinct_all; eassumption).
    assert (Hn12 : names_distinct w12) by (eapply names_distinct_step; [eapply names_distinct_step; [exact Hna|exact Hb1]|exact Hb2]).
    destruct (apply_all_wequiv _ _ _ _ Q Hn12 Hs Ab) as (w1' & Hs' & Q1 & Ab').
    exists w1'. split; [|split; [exact Q1|]].
    + rewrite apply_all_app, Hwa. cbn [bind apply_all]. rewrite G1. cbn [bind]. rewrite G2. exact Hs'.
    + apply (all_aligned_app a _ _ _ Hwa). split; [exact Aa|]. cbn [all_aligned]. rewrite G1, G2. auto.
  - destruct (IH1 _ _ Hn Hs Ha) as (w2 & Hs2 & Q1 & Ha2). destruct (IH2 _ _ Hn Hs2 Ha2) as (w3 & Hs3 & Q2 & Ha3).
    exists w3. split; [exact Hs3|]. split; [eapply wequiv_trans; eassumption|exact Ha3].
Qed.

(* T2 *)
Theorem aggregate_trace_equiv : forall s1 s2 w1, trace_equiv s1 s2 ->
  apply_all init_wstate s1 = Ok w1 -> all_aligned init_wstate s1 -> keys_distinct w1 ->
  exists w2, apply_all init_wstate s2 = Ok w2 /\ normalize w1 = normalize w2.
Proof.
  intros s1 s2 w1 H Hs Ha Hk. destruct (trace_equiv_states _ _ H _ _ names_distinct_init Hs Ha) as (w2 & Hs2 & Q & _).
  exists w2. split; [exact Hs2|]. apply normalize_wequiv; assumption.
Qed.

Corollary aggregate_trace_equiv_report : forall s1 s2 w1, trace_equiv s1 s2 ->
  apply_all init_wstate s1 = Ok w1 -> all_aligned init_wstate s1 -> keys_distinct w1 ->
  aggregate s1 = aggregate s2.
Proof.
  intros s1 s2 w1 H Hs Ha Hk. destruct (aggregate_trace_equiv _ _ _ H Hs Ha Hk) as (w2 & Hs2 & E).
  unfold aggregate. rewrite Hs, Hs2. cbn [bind]. rewrite E. reflexivity.
Qed.

(* ====================================================================================================================== *)
(* 10. T3: the thread identifiers do not matter                                                                            *)
(* ====================================================================================================================== *)
Definition rename (f : tid -> tid) (e : event) : event :=
  match e with
  | EStepStart loc d th t => EStepStart loc d (f th) t
  | EStepEnd loc st th t => EStepEnd loc st (f th) t
  | ELog loc st th level message t => ELog loc st (f th) level message t
  | ECheck loc st th d ok details t => ECheck loc st (f th) d ok details t
  | ELogAttachment loc st th filename d as_image t => ELogAttachment loc st (f th) filename d as_image t
  | ELogUrl loc st th url d t => ELogUrl loc st (f th) url d t
  | _ => e
  end.

(* same report; the open step of every tracked thread th is the open step of f th on the other side *)
Definition rsim (f : tid -> tid) (T : list tid) (w w' : wstate) : Prop :=
  root_of w = root_of w' /\ forall th, In th T -> lookup_active (f th) (w_active w') = lookup_active th (w_active w).

Lemma check_rename : forall f e, check (rename f e) = check e.
Proof. destruct e; reflexivity. Qed.

Lemma sem_rename : forall f T w w' e, rsim f T w w' -> (forall loc th, follower e = Some (loc, th) -> In th T) ->
  sem w' (rename f e) = sem w e.
Proof.
  intros f T w w' e [_ Hl] Hf. destruct e; cbn [rename sem]; auto; unfold active_op; rewrite (Hl thread (Hf _ _ eq_refl)); reflexivity.
Qed.

Lemma normalize_root : forall w w', root_of w = root_of w' -> normalize w = normalize w'.
Proof. intros w w' H. unfold root_of in H. inversion H. unfold normalize. congruence. Qed.

Lemma rsim_step : forall f T T' w w' e w1, rsim f T w w' -> apply w e = Ok w1 ->
  (forall loc th, follower e = Some (loc, th) -> In th T) ->
  (forall th2, In th2 T' -> In th2 T \/ exists loc d t, e = EStepStart loc d th2 t) ->
  (forall loc d th t, e = EStepStart loc d th t -> forall th2, In th2 T' -> th2 <> th -> f th2 <> f th) ->
  exists w1', apply w' (rename f e) = Ok w1' /\ rsim f T' w1 w1'.
Proof.
  intros f T T' w w' e w1 Hr H Hf HT Hinj. pose proof Hr as [Er Hl]. apply apply_tree in H.
  destruct (tree_apply_ok _ _ _ H) as (c & p & o & s1 & x & K & S1 & U & E).
  exists (post (rename f e) x (with_root w' s1)). split.
  - apply apply_tree. eapply tree_apply_build with (c := c).
    + unfold check_apply in *. rewrite check_rename. unfold tree_run in *. rewrite <- Er. exact K.
    + rewrite (sem_rename _ _ _ _ _ Hr Hf). exact S1.
    + rewrite <- Er. exact U.
  - subst w1. split.
    + rewrite !root_post. reflexivity.
    + intros th2 Hin. rewrite !post_active_eq. cbn [with_root w_active].
      destruct (HT _ Hin) as [HinT|(loc & d & t & Ee)].
      * destruct e; cbn [rename post_active]; auto.
        destruct (Z.eq_dec th2 thread) as [Et|Et].
        -- subst. rewrite !lookup_set_active. reflexivity.
        -- rewrite (lookup_set_active_other (f thread) (f th2)) by (exact (Hinj _ _ _ _ eq_refl th2 Hin Et)).
           rewrite (lookup_set_active_other thread th2) by exact Et. apply Hl. exact HinT.
      * subst e. cbn [rename post_active]. rewrite !lookup_set_active. reflexivity.
Qed.

(* ---------------- injective renaming ---------------- *)
Definition threads (s : list event) : list tid :=
  flat_map (fun e => match thread_of e with Some th => [th] | None => [] end) s.

Lemma thread_in_threads : forall s e th, In e s -> thread_of e = Some th -> In th (threads s).
Proof. intros s e th Hin Ht. unfold threads. apply in_flat_map. exists e. rewrite Ht. simpl. auto. Qed.

Lemma rename_inj_states : forall f T, (forall a b, In a T -> In b T -> f a = f b -> a = b) ->
  forall s w w' w1, (forall e th, In e s -> thread_of e = Some th -> In th T) ->
  rsim f T w w' -> apply_all w s = Ok w1 ->
  exists w1', apply_all w' (map (rename f) s) = Ok w1' /\ rsim f T w1 w1'.
Proof.
  intros f T Hinj. induction s as [|e s IH]; intros w w' w1 HT Hr H; simpl in *.
  - inversion H; subst. eauto.
  - apply bind_ok_inv in H. destruct H as (wa & H1 & H2).
    destruct (rsim_step f T T _ _ _ _ Hr H1) as (wa' & H1' & Hr').
    + intros loc th Hf. apply (HT e th); auto. apply (follower_thread _ _ _ Hf).
    + auto.
    + intros loc d th t Ee th2 Hin Hne E. apply Hne. apply Hinj; auto. apply (HT e th); auto. subst e. reflexivity.
    + destruct (IH _ _ _ (fun e0 th Hin => HT e0 th (or_intror Hin)) Hr' H2) as (w1' & H2' & Hr1).
      exists w1'. rewrite H1'. auto.
Qed.

Lemma rsim_init : forall f T, rsim f T init_wstate init_wstate.
Proof. intros. split; reflexivity. Qed.

(* T3, injective version *)
Theorem aggregate_rename : forall f s w, (forall a b, In a (threads s) -> In b (threads s) -> f a = f b -> a = b) ->
  apply_all init_wstate s = Ok w ->
  exists w', apply_all init_wstate (map (rename f) s) = Ok w' /\ normalize w' = normalize w.
Proof.
  intros f s w Hinj H.
  destruct (rename_inj_states f (threads s) Hinj s _ _ _ (thread_in_threads s) (rsim_init _ _) H) as (w' & H' & [Er _]).
  exists w'. split; [exact H'|]. symmetry. apply normalize_root. exact Er.
Qed.

Corollary aggregate_rename_report : forall f s w, (forall a b, In a (threads s) -> In b (threads s) -> f a = f b -> a = b) ->
  apply_all init_wstate s = Ok w -> aggregate (map (rename f) s) = aggregate s.
Proof.
  intros f s w Hinj H. destruct (aggregate_rename f s w Hinj H) as (w' & H' & E). unfold aggregate. rewrite H, H'. cbn [bind].
  rewrite E. reflexivity.
Qed.

(* ---------------- merging threads whose steps are never open at the same time ---------------- *)
(* `open` = the threads that are between a StepStart and the StepEnd that follows it.
   - a StepStart of th: no OTHER open thread is mapped to the identifier f th;
   - a StepEnd / log-like event of th: th is open. *)
Fixpoint merge_ok (f : tid -> tid) (open : list tid) (s : list event) : Prop :=
  match s with
  | [] => True
  | e :: r =>
      match e with
      | EStepStart _ _ th _ => (forall th2, In th2 open -> th2 <> th -> f th2 <> f th) /\ merge_ok f (th :: open) r
      | EStepEnd _ _ th _ => In th open /\ merge_ok f (remove Z.eq_dec th open) r
      | _ => match thread_of e with
             | Some th => In th open /\ merge_ok f open r
             | None => merge_ok f open r
             end
      end
  end.

Lemma rename_merge_states : forall f s open w w' w1, merge_ok f open s -> rsim f open w w' -> apply_all w s = Ok w1 ->
  exists w1', apply_all w' (map (rename f) s) = Ok w1' /\ root_of w1 = root_of w1'.
Proof.
  intros f. induction s as [|e s IH]; intros open w w' w1 Hm Hr H; cbn [apply_all map] in *.
  - inversion H; subst. exists w'. split; [reflexivity|apply Hr].
  - apply bind_ok_inv in H. destruct H as (wa & H1 & H2).
    assert (Hstep : exists open', merge_ok f open' s /\ exists wa', apply w' (rename f e) = Ok wa' /\ rsim f open' wa wa').
    { destruct e; cbn [merge_ok thread_of kind_of] in Hm;
        try (exists open; split; [exact Hm|]; apply (rsim_step f open open _ _ _ _ Hr H1);
             [intros ? ? Hf; discriminate|auto|intros ? ? ? ? Ee; discriminate]; fail).
      - (* StepStart *) destruct Hm as [Hinj Hm]. exists (thread :: open). split; [exact Hm|].
        apply (rsim_step f open (thread :: open) _ _ _ _ Hr H1).
        + intros ? ? Hf; discriminate.
        + intros th2 [E|Hin]; [subst; right; eauto|left; exact Hin].
        + intros loc0 d th t Ee th2 [E|Hin] Hne; inversion Ee; subst; [congruence|auto].
      - (* StepEnd *) destruct Hm as [Hin Hm]. exists (remove Z.eq_dec thread open). split; [exact Hm|].
        apply (rsim_step f open _ _ _ _ _ Hr H1).
        + intros ? ? Hf. inversion Hf; subst. exact Hin.
        + intros th2 Hin2. left. apply in_remove in Hin2. apply Hin2.
        + intros ? ? ? ? Ee; discriminate.
      - destruct Hm as [Hin Hm]. exists open. split; [exact Hm|]. apply (rsim_step f open open _ _ _ _ Hr H1);
          [intros ? ? Hf; inversion Hf; subst; exact Hin|auto|intros ? ? ? ? Ee; discriminate].
      - destruct Hm as [Hin Hm]. exists open. split; [exact Hm|]. apply (rsim_step f open open _ _ _ _ Hr H1);
          [intros ? ? Hf; inversion Hf; subst; exact Hin|auto|intros ? ? ? ? Ee; discriminate].
      - destruct Hm as [Hin Hm]. exists open. split; [exact Hm|]. apply (rsim_step f open open _ _ _ _ Hr H1);
          [intros ? ? Hf; inversion Hf; subst; exact Hin|auto|intros ? ? ? ? Ee; discriminate].
      - destruct Hm as [Hin Hm]. exists open. split; [exact Hm|]. apply (rsim_step f open open _ _ _ _ Hr H1);
          [intros ? ? Hf; inversion Hf; subst; exact Hin|auto|intros ? ? ? ? Ee; discriminate]. }
    destruct Hstep as (open' & Hm' & wa' & H1' & Hr'). destruct (IH _ _ _ _ Hm' Hr' H2) as (w1' & H2' & E).
    exists w1'. rewrite H1'. auto.
Qed.

(* T3, strengthened: threads that are never open at the same time may be merged *)
Theorem aggregate_rename_merge : forall f s w, merge_ok f [] s -> apply_all init_wstate s = Ok w ->
  exists w', apply_all init_wstate (map (rename f) s) = Ok w' /\ normalize w' = normalize w.
Proof.
  intros f s w Hm H. destruct (rename_merge_states f s [] _ _ _ Hm (rsim_init _ _) H) as (w' & H' & Er).
  exists w'. split; [exact H'|]. symmetry. apply normalize_root. exact Er.
Qed.

(* ====================================================================================================================== *)
(* 11. executable checkers for the hypotheses, and a concrete run (non-vacuity)                                            *)
(* ====================================================================================================================== *)
Lemma trace_equiv_cons : forall e r r', trace_equiv r r' -> trace_equiv (e :: r) (e :: r').
Proof.
  intros e r r' H. induction H.
  - apply TE_refl.
  - apply (TE_swap (e :: a)). assumption.
  - eapply TE_trans; eassumption.
Qed.

(* swap the events at positions i and i+1 when they are independent *)
Fixpoint swap_at (i : nat) (s : list event) : option (list event) :=
  match i, s with
  | O, e1 :: e2 :: b => if indep e1 e2 then Some (e2 :: e1 :: b) else None
  | S j, e :: r => option_map (cons e) (swap_at j r)
  | _, _ => None
  end.
Fixpoint do_swaps (l : list nat) (s : list event) : option (list event) :=
  match l with
  | [] => Some s
  | i :: l' => match swap_at i s with Some s' => do_swaps l' s' | None => None end
  end.

Lemma swap_at_sound : forall i s s', swap_at i s = Some s' -> trace_equiv s s'.
Proof.
  induction i as [|j IH]; intros s s' H; simpl in H.
  - destruct s as [|e1 [|e2 b]]; try discriminate. destruct (indep e1 e2) eqn:E; inversion H; subst. apply (TE_swap []). exact E.
  - destruct s as [|e r]; try discriminate. destruct (swap_at j r) as [r'|] eqn:E; inversion H; subst.
    apply trace_equiv_cons. apply IH. exact E.
Qed.

Lemma do_swaps_sound : forall l s s', do_swaps l s = Some s' -> trace_equiv s s'.
Proof.
  induction l as [|i l IH]; intros s s' H; simpl in H.
  - inversion H; subst. apply TE_refl.
  - destruct (swap_at i s) as [s1|] eqn:E; try discriminate. eapply TE_trans; [eapply swap_at_sound; exact E|apply IH; exact H].
Qed.

Definition alignedb (w : wstate) (e : event) : bool :=
  match follower e with
  | Some (loc, th) => match lookup_active th (w_active w) with Some (loc', _) => location_eqb loc' loc | None => true end
  | None => true
  end.
Fixpoint all_alignedb (w : wstate) (s : list event) : bool :=
  match s with
  | [] => true
  | e :: r => alignedb w e && match apply w e with Ok w' => all_alignedb w' r | Err _ => true end
  end.

Lemma location_eqb_eq : forall a b, location_eqb a b = true -> a = b.
Proof. destruct a, b; simpl; intros H; try discriminate; auto; apply path_eqb_eq in H; congruence. Qed.

Lemma alignedb_sound : forall w e, alignedb w e = true -> aligned w e.
Proof.
  intros w e H loc th loc' i Hf Hl. unfold alignedb in H. rewrite Hf, Hl in H. apply location_eqb_eq. exact H.
Qed.

Lemma all_alignedb_sound : forall s w, all_alignedb w s = true -> all_aligned w s.
Proof.
  induction s as [|e s IH]; intros w H; simpl in *; auto. apply andb_true_iff in H. destruct H as [H1 H2].
  split; [apply alignedb_sound; exact H1|]. destruct (apply w e); auto.
Qed.

Module Ex.
  Local Open Scope Z_scope.
  Definition mk (c : N) : meta := mkMeta [c] [] [] [] [].
  Definition nS : node := mkNode [] (mk 115) 0.
  Definition nA : node := mkNode [[115%N]] (mk 97) (test_key 0 0).
  Definition nB : node := mkNode [[115%N]] (mk 98) (test_key 0 1).
  Definition lA : location := LocTest [[115%N]; [97%N]].
  Definition lB : location := LocTest [[115%N]; [98%N]].
  Definition d : str := [100%N].

  (* the 1-thread order: test a (on thread 1) then test b (on thread 2) *)
  Definition s1 : list event :=
    [ ESessionStart 1; ESuiteStart nS 2;
      ETestStart nA 3; EStepStart lA d 1 4; ELog lA d 1 s_info [109%N] 5; EStepEnd lA d 1 6; ETestEnd nA 7;
      ETestStart nB 8; EStepStart lB d 2 9; ECheck lB d 2 [99%N] false None 10; EStepEnd lB d 2 11; ETestEnd nB 12;
      ESuiteEnd nS 13; ESessionEnd 14 ].
  (* a 2-thread order: b starts first, the two tests overlap *)
  Definition s2 : list event :=
    [ ESessionStart 1; ESuiteStart nS 2;
      ETestStart nB 8; ETestStart nA 3; EStepStart lB d 2 9; EStepStart lA d 1 4; ELog lA d 1 s_info [109%N] 5;
      ECheck lB d 2 [99%N] false None 10; EStepEnd lA d 1 6; EStepEnd lB d 2 11; ETestEnd nB 12; ETestEnd nA 7;
      ESuiteEnd nS 13; ESessionEnd 14 ].
  (* the adjacent swaps that turn s1 into s2 (positions, from 0) *)
  Definition swaps : list nat := [6; 5; 4; 3; 2; 7; 6; 5; 4; 8; 7; 9; 10]%nat.

  Example s1_s2_equiv : trace_equiv s1 s2.
  Proof. apply (do_swaps_sound swaps). vm_compute. reflexivity. Qed.

  Example s1_hyps : exists w1, apply_all init_wstate s1 = Ok w1 /\ all_aligned init_wstate s1 /\ keys_distinct w1.
  Proof.
    eexists. split; [vm_compute; reflexivity|]. split; [apply all_alignedb_sound; vm_compute; reflexivity|].
    split; cbn.
    - repeat constructor. intros [].
    - repeat constructor; cbn; try (intros []); intuition discriminate.
  Qed.

  Example s1_s2_same_report : aggregate s1 = aggregate s2 /\ exists r, aggregate s1 = Ok r /\ length (rp_suites r) = 1%nat.
  Proof. split; [vm_compute; reflexivity|]. eexists. split; [vm_compute; reflexivity|reflexivity]. Qed.

  (* the same fact obtained from the theorem: its hypotheses are satisfiable together *)
  Example s1_s2_by_theorem : aggregate s1 = aggregate s2.
  Proof. destruct s1_hyps as (w1 & H & A & K). exact (aggregate_trace_equiv_report _ _ _ s1_s2_equiv H A K). Qed.

  (* the insertion orders really differ: a first in one, b first in the other *)
  Example s1_s2_states_differ : apply_all init_wstate s1 <> apply_all init_wstate s2.
  Proof. vm_compute. intro H. inversion H. Qed.

  (* both threads renamed: 1 -> 7, 2 -> 9 *)
  Definition f79 (th : tid) : tid := if Z.eqb th 1 then 7 else if Z.eqb th 2 then 9 else th.
  Example s2_renamed : aggregate (map (rename f79) s2) = aggregate s2 /\
                       In (EStepStart lB d 9 9) (map (rename f79) s2) /\ In (EStepStart lA d 7 4) (map (rename f79) s2).
  Proof. split; [vm_compute; reflexivity|]. split; vm_compute; tauto. Qed.

  Example f79_injective : forall a b, In a (threads s2) -> In b (threads s2) -> f79 a = f79 b -> a = b.
  Proof.
    intros a b Ha Hb. vm_compute in Ha, Hb.
    repeat (destruct Ha as [Ha|Ha]; [subst a|]); try contradiction;
      repeat (destruct Hb as [Hb|Hb]; [subst b|]); try contradiction; vm_compute; intros E; try reflexivity; discriminate.
  Qed.

  Example s2_renamed_by_theorem : aggregate (map (rename f79) s2) = aggregate s2.
  Proof.
    destruct (apply_all init_wstate s2) as [w|] eqn:E; [|vm_compute in E; discriminate].
    exact (aggregate_rename_report f79 s2 w f79_injective E).
  Qed.

  (* N threads = 1 thread: in the sequential order the two threads are never open together and may both become thread 7 *)
  Example s1_merge : merge_ok (fun _ => 7%Z) [] s1 /\ aggregate (map (rename (fun _ => 7%Z)) s1) = aggregate s1.
  Proof.
    split; [|vm_compute; reflexivity]. cbn. repeat split; auto; try (intros th2 []); try tauto.
  Qed.

  (* in the overlapping order they may not (the checker rejects it) *)
  Example s2_no_merge : ~ merge_ok (fun _ => 7%Z) [] s2.
  Proof. cbn. intros H. destruct H as (_ & H & _). apply (H 2%Z); [left; reflexivity|discriminate|reflexivity]. Qed.
End Ex.

Print Assumptions normalize_wequiv.
Print Assumptions apply_swap.
Print Assumptions apply_wequiv.
Print Assumptions names_distinct_step.
Print Assumptions indep_sym.
Print Assumptions aggregate_trace_equiv.
Print Assumptions aggregate_trace_equiv_report.
Print Assumptions aggregate_rename.
Print Assumptions aggregate_rename_report.
Print Assumptions aggregate_rename_merge.
Print Assumptions Ex.s1_s2_equiv.
Print Assumptions Ex.s1_hyps.
Print Assumptions Ex.s1_merge.
