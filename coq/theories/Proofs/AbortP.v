(* C08: an exception ends the piece of code that raised it — nothing after the raise is executed — and only that piece:
   the teardowns of what was set up still run (Model/TaskSem.v). *)
From Coq Require Import List Arith Bool.
Import ListNotations.
From LCC Require Import Base.Util Model.Proj Model.TaskSem Proofs.TeardownOrderP.

Lemma step_action_raised : forall o env tp a x k, sr_raised x = Some k -> step_action o env tp a x = x.
Proof. intros o env tp a x k H; destruct a; simpl; rewrite H; reflexivity. Qed.

Lemma fold_actions_raised : forall o env tp sc x k, sr_raised x = Some k ->
  fold_left (fun y a => step_action o env tp a y) sc x = x.
Proof.
  intros o env tp sc; induction sc as [|a sc IH]; intros x k H; [reflexivity|].
  simpl; rewrite (step_action_raised o env tp a x k H); apply (IH x k H).
Qed.

Lemma raise_sets_raised : forall o env tp k x, exists k', sr_raised (step_action o env tp (ARaise k) x) = Some k'.
Proof.
  intros o env tp k x; simpl; destruct (sr_raised x) as [k0|] eqn:E; [exists k0; exact E|exists k; reflexivity].
Qed.

(* whatever follows a raise in a script is not executed: the state after the whole script is the state after the raise *)
Theorem nothing_after_a_raise : forall o env tp pre k post x,
  fold_left (fun y a => step_action o env tp a y) (pre ++ ARaise k :: post) x =
  fold_left (fun y a => step_action o env tp a y) (pre ++ [ARaise k]) x.
Proof.
  intros o env tp pre k post x; rewrite !fold_left_app; simpl.
  destruct (raise_sets_raised o env tp k (fold_left (fun y a => step_action o env tp a y) pre x)) as [k' H].
  apply (fold_actions_raised o env tp post _ k' H).
Qed.

Corollary run_script_nothing_after_a_raise : forall o env pre k post s failed children,
  run_script o env (pre ++ ARaise k :: post) s failed children = run_script o env (pre ++ [ARaise k]) s failed children.
Proof.
  intros o env pre k post s failed children; unfold run_script, interp; rewrite nothing_after_a_raise; reflexivity.
Qed.

(* hence a whole test task does not depend on what its body says after a raise *)
Corollary test_run_nothing_after_a_raise : forall env p suite n dis deps args params pre k post hk fxs,
  test_run env p suite (mkTest n dis deps args params (pre ++ ARaise k :: post)) hk fxs =
  test_run env p suite (mkTest n dis deps args params (pre ++ [ARaise k])) hk fxs.
Proof.
  intros; unfold test_run; cbn [tt_body tt_name].
  match goal with |- context [if any_setup ?P then ?A else ?B] => destruct (if any_setup P then A else B) as [r1 kept] end.
  rewrite run_script_nothing_after_a_raise; reflexivity.
Qed.

(* the teardowns run whatever the body does (AbortTest, AbortSuite, AbortAllTests, any Exception, failed checks, threads),
   unless a BaseException killed the worker: when every setup completed clean, the body is entered and then every teardown
   of the test, in reverse order of setup *)
Theorem teardowns_run_whatever_the_body_does : forall env p suite t hk fxs,
  to_res (test_run env p suite t hk fxs) <> TkDied ->
  In (OBody p) (begins (to_main (test_run env p suite t hk fxs))) ->
  exists before, begins (to_main (test_run env p suite t hk fxs)) =
    before ++ [OBody p] ++ rev (teardowns_of (map snd (test_pairs p hk fxs))).
Proof.
  intros env p suite t hk fxs H Hin.
  destruct (test_run_user_code_order env p suite t hk fxs H) as [done [rest [E [B _]]]].
  destruct rest as [|q rest'].
  - rewrite app_nil_r in E; subst done; exists (setups_of (test_pairs p hk fxs)); exact B.
  - (* a setup failed: the body is not among the code entered *)
    exfalso; rewrite B in Hin; repeat (apply in_app_or in Hin; destruct Hin as [Hin|Hin]).
    + unfold setups_of in Hin; apply in_flat_map in Hin; destruct Hin as [x [_ Hx]].
      destruct x as [[[fx| |sp sc|sp sc]|] td]; simpl in Hx; try contradiction; destruct Hx as [Hx|[]]; discriminate.
    + destruct q as [[[fx| |sp sc|sp sc]|] td]; simpl in Hin; try contradiction; destruct Hin as [Hx|[]]; discriminate.
    + apply in_rev in Hin; unfold teardowns_of in Hin; apply in_flat_map in Hin; destruct Hin as [x [_ Hx]].
      destruct x as [[fx|sp sc|sp sc]|]; simpl in Hx; try contradiction.
      * destruct (fx_generator fx); simpl in Hx; [destruct Hx as [Hx|[]]; discriminate|contradiction].
      * destruct Hx as [Hx|[]]; discriminate.
      * destruct Hx as [Hx|[]]; discriminate.
Qed.
