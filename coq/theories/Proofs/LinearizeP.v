(* LINEARIZATION (Mazurkiewicz trace) lemma, and its instance for the report writer.

   WriterOrderP proves that the report is invariant under swaps of ADJACENT INDEPENDENT events (trace_equiv).  That is not a
   statement one can apply to two runs directly: nobody hands us the sequence of swaps.  This file proves the classical
   lemma that closes the gap:

       two streams that consist of the same events and order every pair of DEPENDENT (= not independent) events the
       same way are trace-equivalent,

   hence (writer instance) they give the same report.

   PART 1 (generic: A : Type, indep : A -> A -> bool, indep symmetric)
     teq                      refl / swap of two adjacent independent elements / trans
     teq_sym teq_cons teq_app_l teq_app_r teq_app teq_perm
     before x y s             s = a ++ x :: b ++ y :: c
     linearize                NoDup s1 -> Permutation s1 s2 -> (dependent pairs keep their order) -> teq s1 s2
     linearize_tagged         the same for streams with duplicates: elements carry a unique tag (nat * A), the conclusion is
                              about the payloads (map snd)
     linearize_tasks          the hypothesis "dependent pairs keep their order" derived from a task structure:
                              H1 each task's own events keep their order, H2 a task's events come after the events of the
                              tasks it is ordered after, H3 dependent events come from the same task or from ordered tasks
     executable checkers      preservedb (H1, and the order hypothesis itself), startafterb (H2), tcoverageb (H3)

   PART 2 (writer instance)
     teq_trace_equiv / trace_equiv_teq     teq for WriterOrderP.indep IS WriterOrderP.trace_equiv
     aggregate_linearizations              same tagged events + same order of dependent events => same report
     aggregate_task_linearizations         the form a scheduler argument can feed (H1-H3)
     coverageb / coverageb_sound           executable H3
     LinEx                                 non-vacuity: two different concrete streams satisfying every hypothesis of both
                                           theorems

   No hypothesis H4 (irreflexivity of `ordered`) is needed: the only place where it could matter is the case
   "y's task is ordered before x's task although x occurs before y in s1", and there H2 for s1 puts y before x in s1, which
   contradicts NoDup s1 (before_antisym).  (H2 itself already forces `ordered t t` to be false for every task t that emitted
   an event, because `before x x s` is impossible in a duplicate-free stream.)

   Only stdlib. *)
From Coq Require Import List NArith ZArith Bool Lia Arith Permutation.
Import ListNotations.
From LCC Require Import Base.Util Model.Report Model.Events Model.Writer Proofs.WriterP Proofs.WriterFilingP
  Proofs.WriterOrderP.

(* ====================================================================================================================== *)
(* PART 1. generic                                                                                                         *)
(* ====================================================================================================================== *)
Section Linearize.
  Variable A : Type.
  Variable indep : A -> A -> bool.
  Hypothesis indep_sym : forall x y, indep x y = indep y x.

  Inductive teq : list A -> list A -> Prop :=
  | teq_refl : forall s, teq s s
  | teq_swap : forall a e1 e2 b, indep e1 e2 = true -> teq (a ++ e1 :: e2 :: b) (a ++ e2 :: e1 :: b)
  | teq_trans : forall s1 s2 s3, teq s1 s2 -> teq s2 s3 -> teq s1 s3.

  Lemma teq_sym : forall s s', teq s s' -> teq s' s.
  Proof.
    intros s s' H. induction H as [s|a e1 e2 b Hi|s1 s2 s3 H12 IH12 H23 IH23].
    - apply teq_refl.
    - apply teq_swap. rewrite indep_sym. exact Hi.
    - eapply teq_trans; eassumption.
  Qed.

  Lemma teq_cons : forall e r r', teq r r' -> teq (e :: r) (e :: r').
  Proof.
    intros e r r' H. induction H as [s|a e1 e2 b Hi|s1 s2 s3 H12 IH12 H23 IH23].
    - apply teq_refl.
    - exact (teq_swap (e :: a) e1 e2 b Hi).
    - eapply teq_trans; eassumption.
  Qed.

  Lemma teq_app_l : forall l r r', teq r r' -> teq (l ++ r) (l ++ r').
  Proof. intros l r r' H. induction l as [|e l IH]; [exact H|]. cbn [app]. apply teq_cons. exact IH. Qed.

  Lemma teq_app_r : forall l l' r, teq l l' -> teq (l ++ r) (l' ++ r).
  Proof.
    intros l l' r H. induction H as [s|a e1 e2 b Hi|s1 s2 s3 H12 IH12 H23 IH23].
    - apply teq_refl.
    - rewrite <- (app_assoc a (e1 :: e2 :: b) r), <- (app_assoc a (e2 :: e1 :: b) r).
      exact (teq_swap a e1 e2 (b ++ r) Hi).
    - eapply teq_trans; eassumption.
  Qed.

  Lemma teq_app : forall l l' r r', teq l l' -> teq r r' -> teq (l ++ r) (l' ++ r').
  Proof.
    intros l l' r r' Hl Hr. apply (teq_trans _ (l' ++ r)); [apply teq_app_r; exact Hl|apply teq_app_l; exact Hr].
  Qed.

  Lemma teq_perm : forall s s', teq s s' -> Permutation s s'.
  Proof.
    intros s s' H. induction H as [s|a e1 e2 b Hi|s1 s2 s3 H12 IH12 H23 IH23].
    - apply Permutation_refl.
    - apply Permutation_app_head. apply perm_swap.
    - eapply Permutation_trans; eassumption.
  Qed.

  (* ---- x occurs (strictly) before y ---- *)
  Definition before (x y : A) (s : list A) : Prop := exists a b c, s = a ++ x :: b ++ y :: c.

  Lemma before_In : forall x y s, before x y s -> In x s /\ In y s.
  Proof.
    intros x y s (a & b & c & E). subst s. split.
    - apply in_or_app. right. left. reflexivity.
    - apply in_or_app. right. right. apply in_or_app. right. left. reflexivity.
  Qed.

  Lemma before_head : forall x y s, In y s -> before x y (x :: s).
  Proof. intros x y s H. destruct (in_split _ _ H) as (b & c & E). subst s. exists [], b, c. reflexivity. Qed.

  Lemma before_tail : forall x y z s, before x y s -> before x y (z :: s).
  Proof. intros x y z s (a & b & c & E). subst s. exists (z :: a), b, c. reflexivity. Qed.

  Lemma before_cons_inv : forall x y z s, before x y (z :: s) -> (z = x /\ In y s) \/ before x y s.
  Proof.
    intros x y z s (a & b & c & E). destruct a as [|z' a]; cbn [app] in E; injection E as E1 E2.
    - left. split; [exact E1|]. subst s. apply in_or_app. right. left. reflexivity.
    - right. exists a, b, c. exact E2.
  Qed.

  Lemma before_nil : forall x y, ~ before x y [].
  Proof. intros x y (a & b & c & E). destruct a; discriminate E. Qed.

  (* in a duplicate-free list `before` is antisymmetric (and, with x = y, irreflexive) *)
  Lemma before_antisym : forall s x y, NoDup s -> before x y s -> before y x s -> False.
  Proof.
    induction s as [|z s IH]; intros x y Hnd Hxy Hyx.
    - exact (before_nil _ _ Hxy).
    - inversion Hnd as [|z' s' Hz Hs]; subst z' s'.
      destruct (before_cons_inv _ _ _ _ Hxy) as [[E1 I1]|B1]; destruct (before_cons_inv _ _ _ _ Hyx) as [[E2 I2]|B2].
      + subst x. subst y. apply Hz. exact I1.
      + subst x. apply Hz. exact (proj2 (before_In _ _ _ B2)).
      + subst y. apply Hz. exact (proj2 (before_In _ _ _ B1)).
      + exact (IH x y Hs B1 B2).
  Qed.

  Lemma before_irrefl : forall s x, NoDup s -> ~ before x x s.
  Proof. intros s x Hnd H. exact (before_antisym s x x Hnd H H). Qed.

  (* removing a third element keeps the order of the others *)
  Lemma before_remove : forall a x b u v, u <> x -> v <> x -> before u v (a ++ x :: b) -> before u v (a ++ b).
  Proof.
    induction a as [|z a IH]; intros x b u v Hu Hv H; cbn [app] in *.
    - destruct (before_cons_inv _ _ _ _ H) as [[E _]|B]; [exfalso; apply Hu; symmetry; exact E|exact B].
    - destruct (before_cons_inv _ _ _ _ H) as [[E I]|B].
      + subst z. apply before_head. apply in_or_app. apply in_app_or in I. destruct I as [I|I]; [left; exact I|].
        destruct I as [I|I]; [exfalso; apply Hv; symmetry; exact I|right; exact I].
      + apply before_tail. exact (IH x b u v Hu Hv B).
  Qed.

  (* ---- the linearization lemma ---- *)
  (* an element that is independent of everything in front of it can be moved to the front *)
  Lemma teq_bubble : forall a x b, (forall y, In y a -> indep y x = true) -> teq (a ++ x :: b) (x :: a ++ b).
  Proof.
    induction a as [|y a IH]; intros x b H; cbn [app].
    - apply teq_refl.
    - apply (teq_trans _ (y :: x :: a ++ b)).
      + apply teq_cons. apply IH. intros y' Hy'. apply H. right. exact Hy'.
      + apply (teq_swap [] y x (a ++ b)). apply H. left. reflexivity.
  Qed.

  Theorem linearize : forall s1 s2, NoDup s1 -> Permutation s1 s2 ->
    (forall x y, indep x y = false -> before x y s1 -> before x y s2) -> teq s1 s2.
  Proof.
    induction s1 as [|x r IH]; intros s2 Hnd Hp Hord.
    - apply Permutation_nil in Hp. subst s2. apply teq_refl.
    - inversion Hnd as [|x' r' Hx Hr]; subst x' r'.
      assert (Hin : In x s2) by (apply (Permutation_in _ Hp); left; reflexivity).
      destruct (in_split _ _ Hin) as (a & b & E). subst s2.
      assert (Hnd2 : NoDup (a ++ x :: b)) by (exact (Permutation_NoDup Hp Hnd)).
      assert (Hp' : Permutation r (a ++ b)) by (exact (Permutation_cons_app_inv _ _ Hp)).
      (* everything in front of x in s2 is independent of x *)
      assert (Hfront : forall y, In y a -> indep y x = true).
      { intros y Hy. destruct (indep y x) eqn:Eyx; [reflexivity|]. exfalso.
        assert (Exy : indep x y = false) by (rewrite indep_sym; exact Eyx).
        assert (Hy1 : In y (x :: r)).
        { apply (Permutation_in _ (Permutation_sym Hp)). apply in_or_app. left. exact Hy. }
        destruct Hy1 as [Hy1|Hy1].
        - subst y. apply (NoDup_remove_2 _ _ _ Hnd2). apply in_or_app. left. exact Hy.
        - assert (B1 : before x y (a ++ x :: b)) by (apply Hord; [exact Exy|apply before_head; exact Hy1]).
          destruct (in_split _ _ Hy) as (a1 & a2 & Ea). subst a.
          assert (B2 : before y x ((a1 ++ y :: a2) ++ x :: b)).
          { exists a1, a2, b. rewrite <- app_assoc. reflexivity. }
          exact (before_antisym _ _ _ Hnd2 B1 B2). }
      (* the rest, by induction *)
      assert (Hrest : teq r (a ++ b)).
      { apply IH; [exact Hr|exact Hp'|]. intros u v Huv B.
        destruct (before_In _ _ _ B) as [Iu Iv].
        apply (before_remove a x b).
        - intros Eu. subst u. exact (Hx Iu).
        - intros Ev. subst v. exact (Hx Iv).
        - apply Hord; [exact Huv|apply before_tail; exact B]. }
      apply (teq_trans _ (x :: a ++ b)).
      + apply teq_cons. exact Hrest.
      + apply teq_sym. apply teq_bubble. exact Hfront.
  Qed.

  (* ---- all ordered pairs of a list: makes "forall x y, before x y s -> ..." a finite check ---- *)
  Fixpoint pairs_before (s : list A) : list (A * A) :=
    match s with
    | [] => []
    | x :: r => map (pair x) r ++ pairs_before r
    end.

  Lemma pairs_before_spec : forall s x y, before x y s <-> In (x, y) (pairs_before s).
  Proof.
    induction s as [|z s IH]; intros x y; cbn [pairs_before].
    - split; [intros H; exact (before_nil _ _ H)|intros []].
    - split.
      + intros H. apply in_or_app. destruct (before_cons_inv _ _ _ _ H) as [[E I]|B].
        * subst z. left. apply in_map. exact I.
        * right. apply IH. exact B.
      + intros H. apply in_app_or in H. destruct H as [H|H].
        * apply in_map_iff in H. destruct H as (y' & E & I). injection E as E1 E2. subst z y'. apply before_head. exact I.
        * apply before_tail. apply IH. exact H.
  Qed.
End Linearize.

Arguments teq {A} indep _ _.
Arguments before {A} x y s.
Arguments pairs_before {A} s.
Arguments before_In {A} x y s _.
Arguments before_head {A} x y s _.
Arguments before_tail {A} x y z s _.
Arguments before_antisym {A} s x y _ _ _.
Arguments before_irrefl {A} s x _ _.
Arguments pairs_before_spec {A} s x y.

(* ---------------------------------------------------------------------------------------------------------------------- *)
(* streams with duplicates: every element carries a unique tag                                                             *)
(* ---------------------------------------------------------------------------------------------------------------------- *)
Section Tagged.
  Variable A : Type.
  Variable indep : A -> A -> bool.
  Hypothesis indep_sym : forall x y, indep x y = indep y x.

  Definition tindep (x y : nat * A) : bool := indep (snd x) (snd y).

  Lemma tindep_sym : forall x y, tindep x y = tindep y x.
  Proof. intros x y. apply indep_sym. Qed.

  Lemma teq_map_snd : forall s s', teq tindep s s' -> teq indep (map snd s) (map snd s').
  Proof.
    intros s s' H. induction H as [s|a e1 e2 b Hi|s1 s2 s3 H12 IH12 H23 IH23].
    - apply teq_refl.
    - rewrite !map_app. cbn [map]. apply teq_swap. exact Hi.
    - eapply teq_trans; eassumption.
  Qed.

  Theorem linearize_tagged : forall s1 s2 : list (nat * A), NoDup (map fst s1) -> Permutation s1 s2 ->
    (forall x y, indep (snd x) (snd y) = false -> before x y s1 -> before x y s2) ->
    teq indep (map snd s1) (map snd s2).
  Proof.
    intros s1 s2 Hnd Hp Hord. apply teq_map_snd. apply (linearize _ tindep tindep_sym).
    - exact (NoDup_map_inv _ _ Hnd).
    - exact Hp.
    - exact Hord.
  Qed.

  (* the order hypothesis derived from a task structure *)
  Theorem linearize_tasks : forall (task_of : nat -> nat) (ordered : nat -> nat -> Prop) (s1 s2 : list (nat * A)),
    NoDup (map fst s1) -> Permutation s1 s2 ->
    (* H1 *) (forall x y, task_of (fst x) = task_of (fst y) -> before x y s1 -> before x y s2) ->
    (* H2 *) (forall x y, In x s1 -> In y s1 -> ordered (task_of (fst x)) (task_of (fst y)) -> before x y s1) ->
             (forall x y, In x s2 -> In y s2 -> ordered (task_of (fst x)) (task_of (fst y)) -> before x y s2) ->
    (* H3 *) (forall x y, In x s1 -> In y s1 -> indep (snd x) (snd y) = false -> x <> y ->
                task_of (fst x) = task_of (fst y) \/ ordered (task_of (fst x)) (task_of (fst y)) \/
                ordered (task_of (fst y)) (task_of (fst x))) ->
    teq indep (map snd s1) (map snd s2).
  Proof.
    intros task_of ordered s1 s2 Hnd Hp H1 H2a H2b H3. apply linearize_tagged; [exact Hnd|exact Hp|].
    intros x y Hxy B. assert (Hnd1 : NoDup s1) by (exact (NoDup_map_inv _ _ Hnd)).
    destruct (before_In _ _ _ B) as [Ix Iy].
    assert (Hne : x <> y). { intros E. subst y. exact (before_irrefl _ _ Hnd1 B). }
    destruct (H3 x y Ix Iy Hxy Hne) as [Hs|[Ho|Ho]].
    - exact (H1 x y Hs B).
    - apply H2b; [exact (Permutation_in _ Hp Ix)|exact (Permutation_in _ Hp Iy)|exact Ho].
    - exfalso. exact (before_antisym s1 x y Hnd1 B (H2a y x Iy Ix Ho)).
  Qed.

  (* executable H3 *)
  Definition tcoverageb (task_of : nat -> nat) (orderedb : nat -> nat -> bool) (s : list (nat * A)) : bool :=
    forallb (fun x => forallb (fun y =>
      indep (snd x) (snd y) || Nat.eqb (task_of (fst x)) (task_of (fst y)) ||
      orderedb (task_of (fst x)) (task_of (fst y)) || orderedb (task_of (fst y)) (task_of (fst x))) s) s.

  Lemma tcoverageb_sound : forall task_of orderedb s, tcoverageb task_of orderedb s = true ->
    forall x y, In x s -> In y s -> indep (snd x) (snd y) = false -> x <> y ->
      task_of (fst x) = task_of (fst y) \/ orderedb (task_of (fst x)) (task_of (fst y)) = true \/
      orderedb (task_of (fst y)) (task_of (fst x)) = true.
  Proof.
    intros task_of orderedb s H x y Ix Iy Hxy _. unfold tcoverageb in H.
    pose proof (proj1 (forallb_forall _ _) (proj1 (forallb_forall _ _) H x Ix) y Iy) as Hc. cbn beta in Hc.
    rewrite Hxy in Hc. cbn [orb] in Hc. apply orb_true_iff in Hc. destruct Hc as [Hc|Hc]; [|right; right; exact Hc].
    apply orb_true_iff in Hc. destruct Hc as [Hc|Hc]; [|right; left; exact Hc].
    left. apply Nat.eqb_eq. exact Hc.
  Qed.
End Tagged.

Arguments tindep {A} indep x y.
Arguments tcoverageb {A} indep task_of orderedb s.

(* ---------------------------------------------------------------------------------------------------------------------- *)
(* executable checkers for `before` on tagged streams (the tags decide)                                                    *)
(* ---------------------------------------------------------------------------------------------------------------------- *)
Fixpoint beforeb_nat (i j : nat) (l : list nat) : bool :=
  match l with
  | [] => false
  | k :: r => if Nat.eqb k i then existsb (Nat.eqb j) r else beforeb_nat i j r
  end.

Section TagCheck.
  Variable A : Type.

  Lemma beforeb_nat_tagged : forall (s : list (nat * A)) i j, beforeb_nat i j (map fst s) = true ->
    exists x y, fst x = i /\ fst y = j /\ before x y s.
  Proof.
    induction s as [|z s IH]; intros i j H; cbn [map beforeb_nat] in H; [discriminate H|].
    destruct (Nat.eqb (fst z) i) eqn:E.
    - apply Nat.eqb_eq in E. apply existsb_exists in H. destruct H as (k & Hk & Ejk). apply Nat.eqb_eq in Ejk. subst k.
      apply in_map_iff in Hk. destruct Hk as (y & Ey & Hy). exists z, y. split; [exact E|]. split; [exact Ey|].
      apply before_head. exact Hy.
    - destruct (IH i j H) as (x & y & Ex & Ey & B). exists x, y. split; [exact Ex|]. split; [exact Ey|].
      apply before_tail. exact B.
  Qed.

  Lemma tag_inj : forall (s : list (nat * A)) x y, NoDup (map fst s) -> In x s -> In y s -> fst x = fst y -> x = y.
  Proof.
    induction s as [|z s IH]; intros x y Hnd Ix Iy E; [destruct Ix|].
    cbn [map] in Hnd. inversion Hnd as [|k l Hz Hs]; subst k l.
    destruct Ix as [Ix|Ix]; destruct Iy as [Iy|Iy].
    - subst x. exact Iy.
    - subst x. exfalso. apply Hz. rewrite E. apply in_map. exact Iy.
    - subst y. exfalso. apply Hz. rewrite <- E. apply in_map. exact Ix.
    - exact (IH x y Hs Ix Iy E).
  Qed.

  Lemma before_of_tags : forall (s : list (nat * A)) x y, NoDup (map fst s) -> In x s -> In y s ->
    beforeb_nat (fst x) (fst y) (map fst s) = true -> before x y s.
  Proof.
    intros s x y Hnd Ix Iy H. destruct (beforeb_nat_tagged s _ _ H) as (x' & y' & Ex & Ey & B).
    destruct (before_In _ _ _ B) as [Ix' Iy'].
    rewrite (tag_inj s x x' Hnd Ix Ix' (eq_sym Ex)), (tag_inj s y y' Hnd Iy Iy' (eq_sym Ey)). exact B.
  Qed.

  (* every pair related by rel and ordered x-before-y in s1 is ordered the same way in s2 *)
  Definition preservedb (rel : nat * A -> nat * A -> bool) (s1 s2 : list (nat * A)) : bool :=
    forallb (fun p => negb (rel (fst p) (snd p)) || beforeb_nat (fst (fst p)) (fst (snd p)) (map fst s2))
            (pairs_before s1).

  Lemma preservedb_sound : forall rel s1 s2, NoDup (map fst s2) -> (forall x, In x s1 -> In x s2) ->
    preservedb rel s1 s2 = true -> forall x y, rel x y = true -> before x y s1 -> before x y s2.
  Proof.
    intros rel s1 s2 Hnd Hin H x y Hr B. unfold preservedb in H.
    pose proof (proj1 (forallb_forall _ _) H (x, y) (proj1 (pairs_before_spec _ _ _) B)) as Hc.
    cbn [fst snd] in Hc. rewrite Hr in Hc. cbn [negb orb] in Hc.
    destruct (before_In _ _ _ B) as [Ix Iy]. apply before_of_tags; [exact Hnd|exact (Hin x Ix)|exact (Hin y Iy)|exact Hc].
  Qed.

  (* H2: the events of a task come after the events of the tasks it is ordered after *)
  Definition startafterb (task_of : nat -> nat) (orderedb : nat -> nat -> bool) (s : list (nat * A)) : bool :=
    forallb (fun x => forallb (fun y =>
      negb (orderedb (task_of (fst x)) (task_of (fst y))) || beforeb_nat (fst x) (fst y) (map fst s)) s) s.

  Lemma startafterb_sound : forall task_of orderedb s, NoDup (map fst s) -> startafterb task_of orderedb s = true ->
    forall x y, In x s -> In y s -> orderedb (task_of (fst x)) (task_of (fst y)) = true -> before x y s.
  Proof.
    intros task_of orderedb s Hnd H x y Ix Iy Ho. unfold startafterb in H.
    pose proof (proj1 (forallb_forall _ _) (proj1 (forallb_forall _ _) H x Ix) y Iy) as Hc. cbn beta in Hc.
    rewrite Ho in Hc. cbn [negb orb] in Hc. apply before_of_tags; [exact Hnd|exact Ix|exact Iy|exact Hc].
  Qed.
End TagCheck.

Arguments preservedb {A} rel s1 s2.
Arguments startafterb {A} task_of orderedb s.

(* ====================================================================================================================== *)
(* PART 2. the report writer                                                                                               *)
(* ====================================================================================================================== *)
Lemma teq_trace_equiv : forall s1 s2, teq indep s1 s2 -> trace_equiv s1 s2.
Proof.
  intros s1 s2 H. induction H as [s|a e1 e2 b Hi|s1 s2 s3 H12 IH12 H23 IH23].
  - apply TE_refl.
  - apply TE_swap. exact Hi.
  - eapply TE_trans; eassumption.
Qed.

Lemma trace_equiv_teq : forall s1 s2, trace_equiv s1 s2 -> teq indep s1 s2.
Proof.
  intros s1 s2 H. induction H as [s|a e1 e2 b Hi|s1 s2 s3 H12 IH12 H23 IH23].
  - apply teq_refl.
  - apply teq_swap. exact Hi.
  - eapply teq_trans; eassumption.
Qed.

(* trace equivalence, characterized without reference to swaps *)
Theorem trace_equiv_linearizations : forall s1 s2 : list (nat * event), NoDup (map fst s1) -> Permutation s1 s2 ->
  (forall x y, indep (snd x) (snd y) = false -> before x y s1 -> before x y s2) ->
  trace_equiv (map snd s1) (map snd s2).
Proof.
  intros s1 s2 Hnd Hp Hord. apply teq_trace_equiv. exact (linearize_tagged event indep indep_sym s1 s2 Hnd Hp Hord).
Qed.

Theorem aggregate_linearizations : forall (s1 s2 : list (nat * event)) w1,
  NoDup (map fst s1) -> Permutation s1 s2 ->
  (forall x y, indep (snd x) (snd y) = false -> before x y s1 -> before x y s2) ->
  apply_all init_wstate (map snd s1) = Ok w1 -> all_aligned init_wstate (map snd s1) -> keys_distinct w1 ->
  aggregate (map snd s1) = aggregate (map snd s2).
Proof.
  intros s1 s2 w1 Hnd Hp Hord Hs Ha Hk.
  exact (aggregate_trace_equiv_report _ _ w1 (trace_equiv_linearizations s1 s2 Hnd Hp Hord) Hs Ha Hk).
Qed.

(* The form a scheduler argument can feed.  task_of maps the tag of an event to the task that emitted it; ordered t t' reads
   "t' (transitively) depends on t".
     H1  each task's own events keep their order;
     H2  (for s1 and for s2) the events of a task come after the events of every task it depends on;
     H3  dependent events come from the same task or from tasks ordered by the dependency graph.
   No irreflexivity hypothesis on `ordered` is needed (see the header). *)
Theorem aggregate_task_linearizations :
  forall (task_of : nat -> nat) (ordered : nat -> nat -> Prop) (s1 s2 : list (nat * event)) w1,
  NoDup (map fst s1) -> Permutation s1 s2 ->
  (* H1 *) (forall x y, task_of (fst x) = task_of (fst y) -> before x y s1 -> before x y s2) ->
  (* H2 *) (forall x y, In x s1 -> In y s1 -> ordered (task_of (fst x)) (task_of (fst y)) -> before x y s1) ->
           (forall x y, In x s2 -> In y s2 -> ordered (task_of (fst x)) (task_of (fst y)) -> before x y s2) ->
  (* H3 *) (forall x y, In x s1 -> In y s1 -> indep (snd x) (snd y) = false -> x <> y ->
              task_of (fst x) = task_of (fst y) \/ ordered (task_of (fst x)) (task_of (fst y)) \/
              ordered (task_of (fst y)) (task_of (fst x))) ->
  apply_all init_wstate (map snd s1) = Ok w1 -> all_aligned init_wstate (map snd s1) -> keys_distinct w1 ->
  aggregate (map snd s1) = aggregate (map snd s2).
Proof.
  intros task_of ordered s1 s2 w1 Hnd Hp H1 H2a H2b H3 Hs Ha Hk.
  apply (aggregate_trace_equiv_report _ _ w1); [|exact Hs|exact Ha|exact Hk].
  apply teq_trace_equiv. exact (linearize_tasks event indep indep_sym task_of ordered s1 s2 Hnd Hp H1 H2a H2b H3).
Qed.

(* executable H3 *)
Definition coverageb (task_of : nat -> nat) (orderedb : nat -> nat -> bool) (s : list (nat * event)) : bool :=
  tcoverageb indep task_of orderedb s.

Lemma coverageb_sound : forall task_of orderedb s, coverageb task_of orderedb s = true ->
  forall x y, In x s -> In y s -> indep (snd x) (snd y) = false -> x <> y ->
    task_of (fst x) = task_of (fst y) \/ orderedb (task_of (fst x)) (task_of (fst y)) = true \/
    orderedb (task_of (fst y)) (task_of (fst x)) = true.
Proof. intros task_of orderedb s H. exact (tcoverageb_sound event indep task_of orderedb s H). Qed.

(* the fully executable form: every hypothesis about the order is a boolean check *)
Corollary aggregate_task_linearizations_b :
  forall (task_of : nat -> nat) (orderedb : nat -> nat -> bool) (s1 s2 : list (nat * event)) w1,
  NoDup (map fst s1) -> Permutation s1 s2 ->
  preservedb (fun x y => Nat.eqb (task_of (fst x)) (task_of (fst y))) s1 s2 = true ->
  startafterb task_of orderedb s1 = true -> startafterb task_of orderedb s2 = true ->
  coverageb task_of orderedb s1 = true ->
  apply_all init_wstate (map snd s1) = Ok w1 -> all_aligned init_wstate (map snd s1) -> keys_distinct w1 ->
  aggregate (map snd s1) = aggregate (map snd s2).
Proof.
  intros task_of orderedb s1 s2 w1 Hnd Hp C1 C2a C2b C3 Hs Ha Hk.
  assert (Hnd2 : NoDup (map fst s2)) by (exact (Permutation_NoDup (Permutation_map fst Hp) Hnd)).
  apply (aggregate_task_linearizations task_of (fun t t' => orderedb t t' = true) s1 s2 w1 Hnd Hp);
    [| | | |exact Hs|exact Ha|exact Hk].
  - intros x y E B. apply (preservedb_sound _ _ s1 s2 Hnd2 (fun z Hz => Permutation_in z Hp Hz) C1 x y); [|exact B].
    cbn beta. apply Nat.eqb_eq. exact E.
  - exact (startafterb_sound _ task_of orderedb s1 Hnd C2a).
  - exact (startafterb_sound _ task_of orderedb s2 Hnd2 C2b).
  - exact (coverageb_sound task_of orderedb s1 C3).
Qed.

(* ====================================================================================================================== *)
(* non-vacuity: WriterOrderP.Ex.s1 / Ex.s2 (two tests a, b of one suite; sequential order vs overlapping order), tagged    *)
(* ====================================================================================================================== *)
(* solves Permutation l l' for explicit lists whose elements are syntactically equal *)
Ltac perm_explicit T :=
  repeat lazymatch goal with
  | |- Permutation [] [] => apply perm_nil
  | |- Permutation (?x :: ?r) ?l =>
      let rec go pre l :=
        lazymatch l with
        | x :: ?b => apply (@Permutation_cons_app T r (rev pre) b x); cbn [rev app]
        | ?y :: ?b => go constr:(y :: pre) b
        end in
      go constr:(@nil T) l
  end.

Module LinEx.
  Import Ex.
  Local Open Scope Z_scope.
  Definition e0 := ESessionStart 1.
  Definition e1 := ESuiteStart nS 2.
  Definition e2 := ETestStart nA 3.
  Definition e3 := EStepStart lA d 1 4.
  Definition e4 := ELog lA d 1 s_info [109%N] 5.
  Definition e5 := EStepEnd lA d 1 6.
  Definition e6 := ETestEnd nA 7.
  Definition e7 := ETestStart nB 8.
  Definition e8 := EStepStart lB d 2 9.
  Definition e9 := ECheck lB d 2 [99%N] false None 10.
  Definition e10 := EStepEnd lB d 2 11.
  Definition e11 := ETestEnd nB 12.
  Definition e12 := ESuiteEnd nS 13.
  Definition e13 := ESessionEnd 14.
  Local Close Scope Z_scope.

  (* the tag of an event is its position in the sequential run *)
  Definition ts1 : list (nat * event) :=
    [ (0, e0); (1, e1); (2, e2); (3, e3); (4, e4); (5, e5); (6, e6); (7, e7); (8, e8); (9, e9); (10, e10); (11, e11);
      (12, e12); (13, e13) ].
  Definition ts2 : list (nat * event) :=
    [ (0, e0); (1, e1); (7, e7); (2, e2); (8, e8); (3, e3); (4, e4); (9, e9); (5, e5); (10, e10); (11, e11); (6, e6);
      (12, e12); (13, e13) ].

  Example ts1_payload : map snd ts1 = Ex.s1.  Proof. reflexivity. Qed.
  Example ts2_payload : map snd ts2 = Ex.s2.  Proof. reflexivity. Qed.

  Example ts_differ : map snd ts1 <> map snd ts2.
  Proof. intros E. cbn in E. discriminate E. Qed.

  Example ts1_nodup : NoDup (map fst ts1).
  Proof. cbn. repeat (constructor; [cbn; intros H; repeat (destruct H as [H|H]; [discriminate H|]); exact H|]). constructor. Qed.

  Example ts_perm : Permutation ts1 ts2.
  Proof. unfold ts1, ts2. perm_explicit (nat * event)%type. Qed.

  Example ts2_nodup : NoDup (map fst ts2).
  Proof. exact (Permutation_NoDup (Permutation_map fst ts_perm) ts1_nodup). Qed.

  (* dependent events are ordered the same way in both streams *)
  Example ts_order : forall x y, indep (snd x) (snd y) = false -> before x y ts1 -> before x y ts2.
  Proof.
    intros x y H B.
    apply (preservedb_sound _ (fun x y => negb (indep (snd x) (snd y))) ts1 ts2 ts2_nodup
             (fun z Hz => Permutation_in z ts_perm Hz)); [vm_compute; reflexivity| |exact B].
    cbn beta. rewrite H. reflexivity.
  Qed.

  (* ... and the check is not trivially true: some pairs ARE dependent, some pairs ARE reordered *)
  Example ts_some_dependent : indep e2 e3 = false /\ indep e1 e7 = false /\ indep e6 e7 = true.
  Proof. vm_compute. repeat split. Qed.
  Example ts_some_reordered : before (6, e6) (7, e7) ts1 /\ before (7, e7) (6, e6) ts2.
  Proof.
    split.
    - exists [(0, e0); (1, e1); (2, e2); (3, e3); (4, e4); (5, e5)], [], [(8, e8); (9, e9); (10, e10); (11, e11); (12, e12); (13, e13)].
      reflexivity.
    - exists [(0, e0); (1, e1)], [(2, e2); (8, e8); (3, e3); (4, e4); (9, e9); (5, e5); (10, e10); (11, e11)], [(12, e12); (13, e13)].
      reflexivity.
  Qed.

  Example ts1_hyps : exists w1, apply_all init_wstate (map snd ts1) = Ok w1 /\ all_aligned init_wstate (map snd ts1) /\
                                keys_distinct w1.
  Proof. rewrite ts1_payload. exact Ex.s1_hyps. Qed.

  (* every hypothesis of aggregate_linearizations holds *)
  Example ts_same_report : aggregate (map snd ts1) = aggregate (map snd ts2).
  Proof.
    destruct ts1_hyps as (w1 & Hs & Ha & Hk).
    exact (aggregate_linearizations ts1 ts2 w1 ts1_nodup ts_perm ts_order Hs Ha Hk).
  Qed.

  (* the task structure: 0 = session/suite start, 1 = test a, 2 = test b, 3 = suite/session end;
     0 < 1, 0 < 2, 0 < 3, 1 < 3, 2 < 3; the two tests are NOT ordered *)
  Definition task_of (i : nat) : nat := if Nat.ltb i 2 then 0 else if Nat.ltb i 7 then 1 else if Nat.ltb i 12 then 2 else 3.
  Definition orderedb (t t' : nat) : bool := Nat.ltb t t' && negb (Nat.eqb t 1 && Nat.eqb t' 2).

  Example ts_tasks_unordered : orderedb 1 2 = false /\ orderedb 2 1 = false.
  Proof. split; reflexivity. Qed.

  Example ts_task_checks :
    preservedb (fun x y => Nat.eqb (task_of (fst x)) (task_of (fst y))) ts1 ts2 = true /\
    startafterb task_of orderedb ts1 = true /\ startafterb task_of orderedb ts2 = true /\
    coverageb task_of orderedb ts1 = true.
  Proof. vm_compute. repeat split. Qed.

  (* every hypothesis of aggregate_task_linearizations holds *)
  Example ts_same_report_by_tasks : aggregate (map snd ts1) = aggregate (map snd ts2).
  Proof.
    destruct ts1_hyps as (w1 & Hs & Ha & Hk). destruct ts_task_checks as (C1 & C2a & C2b & C3).
    exact (aggregate_task_linearizations_b task_of orderedb ts1 ts2 w1 ts1_nodup ts_perm C1 C2a C2b C3 Hs Ha Hk).
  Qed.
End LinEx.

Print Assumptions linearize.
Print Assumptions linearize_tagged.
Print Assumptions linearize_tasks.
Print Assumptions aggregate_linearizations.
Print Assumptions aggregate_task_linearizations.
Print Assumptions aggregate_task_linearizations_b.
Print Assumptions LinEx.ts_same_report.
Print Assumptions LinEx.ts_same_report_by_tasks.
