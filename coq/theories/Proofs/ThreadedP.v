(* Proofs about Model/Threaded.v : an invariant preserved by every step of every actor, hence true after every schedule. *)
From Coq Require Import List Arith Bool Lia Permutation.
Import ListNotations.
From LCC Require Import Model.Threaded.

Definition cnt (l : list tid) (t : tid) : nat := count_occ Nat.eq_dec l t.

Record Inv (s : state) : Prop := {
  i_lt : forall t o, In (t, o) (created s) -> o < next s;
  i_nd_t : NoDup (map fst (created s));
  i_nd_o : NoDup (map snd (created s));
  i_local : forall t o, locals s t = Some o -> In (t, o) (created s);
  i_owner : forall t o, In (t, o) (created s) -> locals s t = Some o \/ pcs s t = AtStore o;
  i_pc_setup : forall t, pcs s t = AtSetup \/ pcs s t = InSetup -> locals s t = None;
  i_pc_store : forall t o, pcs s t = AtStore o -> locals s t = None /\ In (t, o) (created s);
  i_pc_app : forall t o, pcs s t = AtAppend o \/ pcs s t = AtReturn o -> locals s t = Some o;
  i_objs1 : forall t o, In (t, o) (created s) -> in_flight s t o \/ In o (objects s);
  i_objs2 : forall t o, In o (objects s) -> ~ in_flight s t o;
  i_objs_created : forall o, In o (objects s) -> exists t, In (t, o) (created s);
  i_nd_objs : NoDup (objects s);
  i_acc : forall t o, In (t, Some o) (accesses s) -> In (t, o) (created s);
  i_calls : forall t, cnt (setup_calls s) t =
                      cnt (map fst (created s)) t + cnt (failed s) t + match pcs s t with InSetup => 1 | _ => 0 end;
  i_td : match td s with
         | TdNotCalled => torn s = []
         | TdFor i => torn s = firstn i (objects s) /\ i <= length (objects s)
         | TdBody i o => torn s = firstn i (objects s) /\ nth_error (objects s) i = Some o
         | TdDone => exists i, torn s = firstn i (objects s) /\ i <= length (objects s)
         | TdRaised => exists i, torn s = firstn i (objects s) /\ i <= length (objects s)
         end
}.

Lemma inv_init : Inv init.
Proof.
  constructor; simpl; unfold in_flight; simpl; intros; try tauto; try discriminate; try constructor; try intuition discriminate.
Qed.

Lemma upd_same : forall A (f : tid -> A) t v, upd f t v t = v.
Proof. intros; unfold upd; rewrite Nat.eqb_refl; reflexivity. Qed.
Lemma upd_other : forall A (f : tid -> A) t v x, x <> t -> upd f t v x = f x.
Proof. intros; unfold upd; destruct (Nat.eqb_spec x t); [contradiction|reflexivity]. Qed.

Lemma firstn_snoc_keep : forall A (l : list A) i x, i <= length l -> firstn i (l ++ [x]) = firstn i l.
Proof.
  intros. rewrite firstn_app. replace (i - length l) with 0 by lia. simpl. apply app_nil_r.
Qed.

Lemma firstn_S_nth : forall A (l : list A) i x, nth_error l i = Some x -> firstn (S i) l = firstn i l ++ [x].
Proof.
  induction l; intros i x H; destruct i; simpl in *; try discriminate.
  - inversion H; reflexivity.
  - f_equal. apply IHl; assumption.
Qed.

Lemma nth_error_lt : forall A (l : list A) i x, nth_error l i = Some x -> i < length l.
Proof. intros. apply nth_error_Some. rewrite H. discriminate. Qed.

Lemma In_firstn : forall A (l : list A) i x, In x (firstn i l) -> In x l.
Proof. induction l; destruct i; simpl; intros; try tauto. destruct H; eauto. Qed.

Lemma NoDup_firstn : forall A (l : list A) i, NoDup l -> NoDup (firstn i l).
Proof.
  induction l; destruct i; simpl; intros; try constructor.
  - inversion H; subst. intro. apply H2. eapply In_firstn; eauto.
  - inversion H; auto.
Qed.

Lemma in_map_fst : forall (l : list (tid * obj)) t o, In (t, o) l -> In t (map fst l).
Proof. intros. change t with (fst (t, o)). apply in_map. assumption. Qed.
Lemma in_map_snd : forall (l : list (tid * obj)) t o, In (t, o) l -> In o (map snd l).
Proof. intros. change o with (snd (t, o)). apply in_map. assumption. Qed.

Ltac cmp x t := destruct (Nat.eq_dec x t) as [?E|?N]; [subst; rewrite ?upd_same in *|rewrite ?(upd_other _ _ _ _ _ N) in *].

Lemma cnt_cons : forall l t x, cnt (x :: l) t = (if Nat.eq_dec x t then 1 else 0) + cnt l t.
Proof. intros. unfold cnt. simpl. destruct (Nat.eq_dec x t); reflexivity. Qed.

Inductive Mark (o : nat) : Prop := mk_mark.
Ltac sat I t :=
  pose proof (i_pc_setup _ I t) as L3; pose proof (i_calls _ I t) as L8;
  repeat match goal with
  | o : obj |- _ =>
      lazymatch goal with _ : Mark o |- _ => fail | _ => idtac end;
      pose proof (mk_mark o);
      pose proof (i_local _ I t o); pose proof (i_owner _ I t o); pose proof (i_pc_store _ I t o);
      pose proof (i_pc_app _ I t o); pose proof (i_objs1 _ I t o); pose proof (i_objs2 _ I t o)
  end.

Ltac close I t Hpc :=
  sat I t; unfold in_flight in *; rewrite ?Hpc in *;
  try solve [intuition (try congruence; try discriminate; eauto)].

Ltac cntgoal I x :=
  solve [ pose proof (i_calls _ I x); unfold cnt in *; simpl in *;
          repeat match goal with |- context [Nat.eq_dec ?a ?b] => destruct (Nat.eq_dec a b) end;
          try congruence; try lia ].

Ltac byI I :=
  solve [ eapply (i_lt _ I); eauto | eapply (i_local _ I); eauto | eapply (i_owner _ I); eauto
        | eapply (i_pc_setup _ I); eauto | eapply (i_pc_store _ I); eauto | eapply (i_pc_app _ I); eauto
        | eapply (i_objs1 _ I); eauto | eapply (i_objs2 _ I); eauto | eapply (i_objs_created _ I); eauto
        | eapply (i_acc _ I); eauto | eapply (i_calls _ I); eauto ].

Ltac pcsplit I t Hpc :=
  intros x; intros; cmp x t; [close I t Hpc; try cntgoal I t | try byI I; try cntgoal I x;
    try solve [match goal with H : _ \/ _ |- _ => destruct H as [H|H]; [inversion H; subst; congruence | byI I] end]].

Lemma step_thread_inv : forall c t s, Inv s -> Inv (step_thread c t s).
Proof.
  intros c t s I. unfold step_thread.
  destruct (pcs s t) eqn:Hpc.
  - constructor; simpl; unfold in_flight; simpl; try apply I; pcsplit I t Hpc.
  - destruct (locals s t) as [o|] eqn:Hloc.
    + constructor; simpl; unfold in_flight; simpl; try apply I; try pcsplit I t Hpc.
    + constructor; simpl; unfold in_flight; simpl; try apply I; try pcsplit I t Hpc.
  - constructor; simpl; unfold in_flight; simpl; try apply I; try pcsplit I t Hpc.
  - destruct (setup_fails c t (count_occ Nat.eq_dec (failed s) t)).
    + constructor; simpl; unfold in_flight; simpl; try apply I; try pcsplit I t Hpc.
    + assert (Hfresh_t : ~ In t (map fst (created s))).
      { intro Hin. apply in_map_iff in Hin. destruct Hin as [[t' o'] [E Hin]]. simpl in E. subst t'.
        destruct (i_owner _ I _ _ Hin) as [Hl|Hp]; [|congruence].
        rewrite (i_pc_setup _ I t) in Hl; [discriminate|auto]. }
      assert (Hfresh_o : ~ In (next s) (map snd (created s))).
      { intro Hin. apply in_map_iff in Hin. destruct Hin as [[t' o'] [E Hin]]. simpl in E. subst o'.
        apply (i_lt _ I) in Hin. lia. }
      assert (Hfresh_obj : ~ In (next s) (objects s)).
      { intro Hin. destruct (i_objs_created _ I _ Hin) as [t' Hc]. apply (i_lt _ I) in Hc. lia. }
      constructor; simpl; unfold in_flight; simpl; try apply I; try pcsplit I t Hpc.
      * destruct H as [H|H]; [inversion H; lia|]. apply (i_lt _ I) in H. lia.
      * destruct H as [H|H]; [inversion H; lia|]. apply (i_lt _ I) in H. lia.
      * constructor; [assumption|apply I].
      * constructor; [assumption|apply I].
      * right. byI I.
      * destruct (i_pc_store _ I _ _ H). auto.
      * destruct (i_objs_created _ I _ H) as [t' Ht']. exists t'. auto.
      * right. byI I.
  - constructor; simpl; unfold in_flight; simpl; try apply I; try pcsplit I t Hpc.
  - assert (Hnew : ~ In o (objects s)).
    { intro Hin. apply (i_objs2 _ I t o Hin). right. assumption. }
    constructor; simpl; unfold in_flight; simpl; try apply I; try pcsplit I t Hpc.
