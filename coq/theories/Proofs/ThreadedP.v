(* Proofs about Model/Threaded.v : an invariant preserved by every step of every actor, hence true after every schedule. *)
From Coq Require Import List Arith Bool Lia Permutation.
Import ListNotations.
From LCC Require Import Model.Threaded.

Definition cnt (l : list tid) (t : tid) : nat := count_occ Nat.eq_dec l t.

(* what teardown_factory has torn down so far: a prefix of _objects whose length is fixed by its program counter *)
Definition td_inv (d : tdpc) (tn objs : list obj) : Prop :=
  match d with
  | TdNotCalled | TdInit => tn = []
  | TdFor i _ => tn = firstn i objs /\ i <= length objs
  | TdTry i o _ | TdBody i o _ => tn = firstn i objs /\ nth_error objs i = Some o
  | TdExcept i _ _ | TdIfNone i _ _ | TdAssign i _ => tn = firstn (S i) objs /\ S i <= length objs
  | TdExceptBase _ _ | TdIfFinal _ | TdRaise _ | TdDone | TdRaised _ | TdAborted _ =>
      exists i, tn = firstn i objs /\ i <= length objs
  end.

Record Inv (s : state) : Prop := {
  i_lt : forall t o, In (t, o) (created s) -> o < next s;
  i_nd_t : NoDup (map fst (created s));
  i_nd_o : NoDup (map snd (created s));
  i_local : forall t o, locals s t = Some o -> In (t, o) (created s);
  i_owner : forall t o, In (t, o) (created s) -> locals s t = Some o \/ pcs s t = AtStore o;
  i_pc_setup : forall t, pcs s t = AtSetup \/ pcs s t = InSetup -> locals s t = None;
  i_pc_store : forall t o, pcs s t = AtStore o -> locals s t = None /\ In (t, o) (created s);
  i_pc_app : forall t o, pcs s t = AtAppend o \/ pcs s t = AtReturn o -> locals s t = Some o;
  i_objs1 : forall t o, In (t, o) (created s) -> in_flight s t o \/ In o (objects s);
  i_objs2 : forall t o, In o (objects s) -> ~ in_flight s t o;
  i_objs_created : forall o, In o (objects s) -> exists t, In (t, o) (created s);
  i_nd_objs : NoDup (objects s);
  i_acc : forall t o, In (t, Some o) (accesses s) -> In (t, o) (created s);
  i_calls : forall t, cnt (setup_calls s) t =
                      cnt (map fst (created s)) t + cnt (failed s) t + match pcs s t with InSetup => 1 | _ => 0 end;
  i_td : td_inv (td s) (torn s) (objects s)
}.

Lemma inv_init : Inv init.
Proof.
  constructor; simpl; unfold in_flight; simpl; intros; try tauto; try discriminate; try constructor; try intuition discriminate.
Qed.

Lemma upd_same : forall A (f : tid -> A) t v, upd f t v t = v.
Proof. intros; unfold upd; rewrite Nat.eqb_refl; reflexivity. Qed.
Lemma upd_other : forall A (f : tid -> A) t v x, x <> t -> upd f t v x = f x.
Proof. intros; unfold upd; destruct (Nat.eqb_spec x t); [contradiction|reflexivity]. Qed.

Lemma firstn_snoc_keep : forall A (l : list A) i x, i <= length l -> firstn i (l ++ [x]) = firstn i l.
Proof.
  intros. rewrite firstn_app. replace (i - length l) with 0 by lia. simpl. apply app_nil_r.
Qed.

Lemma firstn_S_nth : forall A (l : list A) i x, nth_error l i = Some x -> firstn (S i) l = firstn i l ++ [x].
Proof.
  induction l; intros i x H; destruct i; simpl in *; try discriminate.
  - inversion H; reflexivity.
  - f_equal. apply IHl; assumption.
Qed.

Lemma nth_error_lt : forall A (l : list A) i x, nth_error l i = Some x -> i < length l.
Proof. intros. apply nth_error_Some. rewrite H. discriminate. Qed.

Lemma td_inv_snoc : forall d tn objs x, td_inv d tn objs -> td_inv d tn (objs ++ [x]).
Proof.
  intros d tn objs x H.
  assert (K : forall i, tn = firstn i objs /\ i <= length objs -> tn = firstn i (objs ++ [x]) /\ i <= length (objs ++ [x])).
  { intros i [E L]. rewrite app_length, firstn_snoc_keep by assumption. split; [assumption|simpl; lia]. }
  destruct d; unfold td_inv in *; auto;
    try (destruct H as [i' H]; exists i'; auto; fail).
  - destruct H as [E L]. pose proof (nth_error_lt _ _ _ _ L). rewrite firstn_snoc_keep by lia.
    split; [assumption|]. rewrite nth_error_app1 by assumption. assumption.
  - destruct H as [E L]. pose proof (nth_error_lt _ _ _ _ L). rewrite firstn_snoc_keep by lia.
    split; [assumption|]. rewrite nth_error_app1 by assumption. assumption.
Qed.

Lemma In_firstn : forall A (l : list A) i x, In x (firstn i l) -> In x l.
Proof. induction l; destruct i; simpl; intros; try tauto. destruct H; eauto. Qed.

Lemma NoDup_firstn : forall A (l : list A) i, NoDup l -> NoDup (firstn i l).
Proof.
  induction l; destruct i; simpl; intros; try constructor.
  - inversion H; subst. intro. apply H2. eapply In_firstn; eauto.
  - inversion H; auto.
Qed.

Lemma in_map_fst : forall (l : list (tid * obj)) t o, In (t, o) l -> In t (map fst l).
Proof. intros. change t with (fst (t, o)). apply in_map. assumption. Qed.
Lemma in_map_snd : forall (l : list (tid * obj)) t o, In (t, o) l -> In o (map snd l).
Proof. intros. change o with (snd (t, o)). apply in_map. assumption. Qed.

Ltac cmp x t := destruct (Nat.eq_dec x t) as [?E|?N]; [subst; rewrite ?upd_same in *|rewrite ?(upd_other _ _ _ _ _ N) in *].

Lemma cnt_cons : forall l t x, cnt (x :: l) t = (if Nat.eq_dec x t then 1 else 0) + cnt l t.
Proof. intros. unfold cnt. simpl. destruct (Nat.eq_dec x t); reflexivity. Qed.

Lemma nodup_fst_fun : forall (l : list (tid * obj)) t o o', NoDup (map fst l) -> In (t, o) l -> In (t, o') l -> o = o'.
Proof.
  induction l as [|[a b] l IH]; simpl; intros t o o' ND H1 H2; [tauto|].
  inversion ND; subst.
  destruct H1 as [H1|H1]; destruct H2 as [H2|H2]; try congruence.
  - inversion H1; subst. exfalso. apply H3. eapply in_map_fst; eauto.
  - inversion H2; subst. exfalso. apply H3. eapply in_map_fst; eauto.
  - eauto.
Qed.
Lemma nodup_snd_fun : forall (l : list (tid * obj)) t t' o, NoDup (map snd l) -> In (t, o) l -> In (t', o) l -> t = t'.
Proof.
  induction l as [|[a b] l IH]; simpl; intros t t' o ND H1 H2; [tauto|].
  inversion ND; subst.
  destruct H1 as [H1|H1]; destruct H2 as [H2|H2]; try congruence.
  - inversion H1; subst. exfalso. apply H3. eapply in_map_snd; eauto.
  - inversion H2; subst. exfalso. apply H3. eapply in_map_snd; eauto.
  - eauto.
Qed.
Lemma NoDup_snoc : forall A (l : list A) x, NoDup l -> ~ In x l -> NoDup (l ++ [x]).
Proof.
  induction l; simpl; intros x ND H.
  - constructor; [tauto|constructor].
  - inversion ND; subst. constructor.
    + rewrite in_app_iff. simpl. intuition.
    + apply IHl; tauto.
Qed.

Inductive Mark (o : nat) : Prop := mk_mark.
Ltac sat I t :=
  pose proof (i_pc_setup _ I t) as L3; pose proof (i_calls _ I t) as L8;
  repeat match goal with
  | o : obj |- _ =>
      lazymatch goal with _ : Mark o |- _ => fail | _ => idtac end;
      pose proof (mk_mark o);
      pose proof (i_local _ I t o); pose proof (i_owner _ I t o); pose proof (i_pc_store _ I t o);
      pose proof (i_pc_app _ I t o); pose proof (i_objs1 _ I t o); pose proof (i_objs2 _ I t o);
      pose proof (i_acc _ I t o)
  end.

Ltac close I t Hpc :=
  try match goal with H : (_, _) = (_, _) \/ _ |- _ => destruct H as [H|H]; [inversion H; subst; clear H|] end;
  sat I t; unfold in_flight in *; rewrite ?Hpc in *;
  try solve [intuition (try congruence; try discriminate; eauto)].

Ltac cntgoal I x :=
  solve [ pose proof (i_calls _ I x); unfold cnt in *; simpl in *;
          repeat match goal with |- context [Nat.eq_dec ?a ?b] => destruct (Nat.eq_dec a b) end;
          try congruence; try lia ].

Ltac byI I :=
  solve [ eapply (i_lt _ I); eauto | eapply (i_local _ I); eauto | eapply (i_owner _ I); eauto
        | eapply (i_pc_setup _ I); eauto | eapply (i_pc_store _ I); eauto | eapply (i_pc_app _ I); eauto
        | eapply (i_objs1 _ I); eauto | eapply (i_objs2 _ I); eauto | eapply (i_objs_created _ I); eauto
        | eapply (i_acc _ I); eauto | eapply (i_calls _ I); eauto ].

Ltac fin I :=
  try match goal with H : (_, _) = (_, _) \/ _ |- _ => destruct H as [H|H]; [inversion H; subst; clear H|] end;
  try lia; try congruence;
  try solve [match goal with H : In _ (created _) |- _ => apply (i_lt _ I) in H; lia end];
  try solve [constructor; [assumption|apply I]];
  try solve [right; byI I];
  try solve [match goal with H : pcs _ _ = AtStore _ |- _ => destruct (i_pc_store _ I _ _ H); auto end];
  try solve [match goal with H : In _ (objects _) |- _ =>
               let t' := fresh "t'" in let Ht' := fresh "Ht'" in
               destruct (i_objs_created _ I _ H) as [t' Ht']; exists t'; auto end].

Ltac pcsplit I t Hpc :=
  intros x; intros; cmp x t; [close I t Hpc; try cntgoal I t | try byI I; try cntgoal I x;
    try solve [match goal with H : _ \/ _ |- _ => destruct H as [H|H]; [inversion H; subst; congruence | byI I] end]].

Lemma step_thread_inv : forall c t s, Inv s -> Inv (step_thread c t s).
Proof.
  intros c t s I. unfold step_thread.
  destruct (pcs s t) eqn:Hpc.
  - constructor; simpl; unfold in_flight; simpl; try apply I; pcsplit I t Hpc.
  - destruct (locals s t) as [o|] eqn:Hloc.
    + constructor; simpl; unfold in_flight; simpl; try apply I; try pcsplit I t Hpc.
    + constructor; simpl; unfold in_flight; simpl; try apply I; try pcsplit I t Hpc.
  - constructor; simpl; unfold in_flight; simpl; try apply I; try pcsplit I t Hpc.
  - destruct (setup_fails c t (count_occ Nat.eq_dec (failed s) t)).
    + constructor; simpl; unfold in_flight; simpl; try apply I; try pcsplit I t Hpc.
    + assert (Hfresh_t : ~ In t (map fst (created s))).
      { intro Hin. apply in_map_iff in Hin. destruct Hin as [[t' o'] [E Hin]]. simpl in E. subst t'.
        destruct (i_owner _ I _ _ Hin) as [Hl|Hp]; [|congruence].
        rewrite (i_pc_setup _ I t) in Hl; [discriminate|auto]. }
      assert (Hfresh_o : ~ In (next s) (map snd (created s))).
      { intro Hin. apply in_map_iff in Hin. destruct Hin as [[t' o'] [E Hin]]. simpl in E. subst o'.
        apply (i_lt _ I) in Hin. lia. }
      assert (Hfresh_obj : ~ In (next s) (objects s)).
      { intro Hin. destruct (i_objs_created _ I _ Hin) as [t' Hc]. apply (i_lt _ I) in Hc. lia. }
      constructor; simpl; unfold in_flight; simpl; try apply I; try pcsplit I t Hpc.
      all: fin I.
  - constructor; simpl; unfold in_flight; simpl; try apply I; try pcsplit I t Hpc.
  - assert (Hnew : ~ In o (objects s)).
    { intro Hin. apply (i_objs2 _ I t o Hin). right. assumption. }
    assert (Hloc : locals s t = Some o) by (apply (i_pc_app _ I); auto).
    assert (Hcr : In (t, o) (created s)) by (apply (i_local _ I); auto).
    constructor; simpl; unfold in_flight; simpl; try apply I; try pcsplit I t Hpc.
    + right. rewrite in_app_iff. right. left. eapply nodup_fst_fun; [apply (i_nd_t _ I)| |]; eauto.
    + rewrite in_app_iff. destruct (i_objs1 _ I _ _ H) as [Hf|Hf]; [left; exact Hf|auto].
    + rewrite in_app_iff in H. destruct H as [H|[H|[]]]; [byI I|]. subst o0.
      intros [Hp|Hp].
      * apply (i_pc_store _ I) in Hp. destruct Hp as [_ Hp]. apply N. eapply nodup_snd_fun; [apply (i_nd_o _ I)| |]; eauto.
      * assert (Hl : locals s x = Some o) by (apply (i_pc_app _ I); auto).
        apply (i_local _ I) in Hl. apply N. eapply nodup_snd_fun; [apply (i_nd_o _ I)| |]; eauto.
    + rewrite in_app_iff in H. destruct H as [H|[H|[]]]; [byI I|]. subst. eauto.
    + rewrite in_app_iff in H. destruct H as [H|[H|[]]]; [byI I|]. subst. eauto.
    + apply NoDup_snoc; [apply I|assumption].
    + apply td_inv_snoc. apply I.
  - constructor; simpl; unfold in_flight; simpl; try apply I; try pcsplit I t Hpc.
Qed.

Lemma step_main_inv : forall c s, Inv s -> Inv (step_main c s).
Proof.
  intros c s I. unfold step_main. pose proof (i_td _ I) as Htd. unfold td_inv in Htd.
  destruct (td s) as [| |i ff|i o ff|i o ff|i o ff|o ff|i o ff|i o|ff|e| |e|o] eqn:Htds; try assumption.
  - constructor; simpl; try apply I. assumption.
  - constructor; simpl; try apply I. rewrite Htd. simpl. split; [reflexivity|lia].
  - destruct Htd as [E L]. destruct (nth_error (objects s) i) as [o|] eqn:Hn.
    + constructor; simpl; try apply I. auto.
    + constructor; simpl; try apply I. exists i. auto.
  - constructor; simpl; try apply I. assumption.
  - destruct Htd as [E L].
    assert (E' : torn s ++ [o] = firstn (S i) (objects s)) by (rewrite E; symmetry; apply firstn_S_nth; assumption).
    pose proof (nth_error_lt _ _ _ _ L).
    constructor; simpl; try apply I.
    destruct (td_outcome c o); simpl; [|split; auto|exists (S i); split; auto]; split; auto.
  - constructor; simpl; try apply I. assumption.
  - constructor; simpl; try apply I. assumption.
  - constructor; simpl; try apply I. destruct ff; simpl; assumption.
  - constructor; simpl; try apply I. assumption.
  - constructor; simpl; try apply I. destruct ff; simpl; assumption.
  - constructor; simpl; try apply I. assumption.
Qed.

Lemma step_inv : forall c s a, Inv s -> Inv (step c s a).
Proof. intros c s [t|]; simpl; [apply step_thread_inv|apply step_main_inv]. Qed.

Lemma run_from_inv : forall c sch s, Inv s -> Inv (run_from c s sch).
Proof. unfold run_from. induction sch; simpl; intros; [assumption|]. apply IHsch. apply step_inv. assumption. Qed.

Lemma run_inv : forall c sch, Inv (run c sch).
Proof. intros. apply run_from_inv. apply inv_init. Qed.

(* ------------------------------------------------------------------ consequences *)
Lemma run_snoc : forall c sch a, run c (sch ++ [a]) = step c (run c sch) a.
Proof. intros. unfold run, run_from. rewrite fold_left_app. reflexivity. Qed.
Lemma run_app : forall c sch1 sch2, run c (sch1 ++ sch2) = run_from c (run c sch1) sch2.
Proof. intros. unfold run, run_from. apply fold_left_app. Qed.

Lemma insetup_not_created : forall s t, Inv s -> pcs s t = AtSetup \/ pcs s t = InSetup -> ~ In t (map fst (created s)).
Proof.
  intros s t I Hpc Hin. apply in_map_iff in Hin. destruct Hin as [[t' o'] [E Hin]]. simpl in E. subst t'.
  destruct (i_owner _ I _ _ Hin) as [Hl|Hp]; [|destruct Hpc; congruence].
  rewrite (i_pc_setup _ I t) in Hl; [discriminate|auto].
Qed.

Lemma at_most_one : forall c sch,
  NoDup (map fst (created (run c sch))) /\
  forall t, count_occ Nat.eq_dec (setup_calls (run c sch)) t <= 1 + count_occ Nat.eq_dec (failed (run c sch)) t.
Proof.
  intros c sch. pose proof (run_inv c sch) as I. split; [apply I|]. intro t.
  pose proof (i_calls _ I t) as E. unfold cnt in E. rewrite E.
  pose proof (proj1 (NoDup_count_occ Nat.eq_dec _) (i_nd_t _ I) t) as Hle.
  destruct (pcs (run c sch) t) eqn:Hpc; try lia.
  assert (Hz : count_occ Nat.eq_dec (map fst (created (run c sch))) t = 0).
  { apply count_occ_not_In. apply insetup_not_created; auto. }
  lia.
Qed.

Lemma owner_only : forall c sch t o,
  In (t, Some o) (accesses (run c sch)) ->
  In (t, o) (created (run c sch)) /\
  (forall t', In (t', o) (created (run c sch)) -> t' = t) /\
  (forall t', In (t', Some o) (accesses (run c sch)) -> t' = t) /\
  (forall t', locals (run c sch) t' = Some o -> t' = t).
Proof.
  intros c sch t o H. pose proof (run_inv c sch) as I.
  assert (Hc : In (t, o) (created (run c sch))) by (apply (i_acc _ I); assumption).
  split; [assumption|]. split; [|split].
  - intros t' H'. eapply nodup_snd_fun; [apply (i_nd_o _ I)| |]; eauto.
  - intros t' H'. apply (i_acc _ I) in H'. eapply nodup_snd_fun; [apply (i_nd_o _ I)| |]; eauto.
  - intros t' H'. apply (i_local _ I) in H'. eapply nodup_snd_fun; [apply (i_nd_o _ I)| |]; eauto.
Qed.

Lemma same_object : forall c sch t o o',
  In (t, Some o) (accesses (run c sch)) -> In (t, Some o') (accesses (run c sch)) -> o = o'.
Proof.
  intros c sch t o o' H H'. pose proof (run_inv c sch) as I.
  apply (i_acc _ I) in H. apply (i_acc _ I) in H'. eapply nodup_fst_fun; [apply (i_nd_t _ I)| |]; eauto.
Qed.

(* once a thread has its object, no step of anybody changes it or calls setup_object on that thread again,
   and every get_object the thread completes from then on returns that object *)
Definition new_accesses_return (t : tid) (o : obj) (before after : list (tid * option obj)) : Prop :=
  exists new, after = new ++ before /\ forall r, In (t, r) new -> r = Some o.

Lemma step_keeps_object : forall c s a t o, Inv s -> locals s t = Some o ->
  locals (step c s a) t = Some o /\ cnt (setup_calls (step c s a)) t = cnt (setup_calls s) t /\
  new_accesses_return t o (accesses s) (accesses (step c s a)).
Proof.
  intros c s a t o I Hl.
  assert (Hsame : new_accesses_return t o (accesses s) (accesses s)) by (exists []; simpl; tauto).
  assert (Hone : forall t' r, (t' = t -> r = Some o) -> new_accesses_return t o (accesses s) ((t', r) :: accesses s)).
  { intros t' r Hr. exists [(t', r)]. split; [reflexivity|]. simpl. intros r' [E|[]]. inversion E; subst. auto. }
  destruct a as [t'|]; simpl.
  - unfold step_thread. destruct (Nat.eq_dec t' t) as [E|N].
    + subst t'. destruct (pcs s t) eqn:Hpc; simpl; auto.
      * rewrite Hl. simpl. auto.
      * rewrite (i_pc_setup _ I t) in Hl by auto. discriminate.
      * rewrite (i_pc_setup _ I t) in Hl by auto. discriminate.
      * destruct (i_pc_store _ I _ _ Hpc) as [Hn _]. congruence.
      * pose proof (i_pc_app _ I t o0 (or_intror Hpc)). split; [assumption|]. split; [reflexivity|]. apply Hone. congruence.
    + assert (Hc : forall l, cnt (t' :: l) t = cnt l t).
      { intro l. rewrite cnt_cons. destruct (Nat.eq_dec t' t); [contradiction|reflexivity]. }
      destruct (pcs s t') eqn:Hpc; simpl;
        try (destruct (locals s t'); simpl);
        try (destruct (setup_fails c t' (count_occ Nat.eq_dec (failed s) t')); simpl);
        try (destruct (Nat.eq_dec t' t) as [?|_]; [contradiction|]);
        rewrite ?upd_other by auto;
        (split; [assumption|]; split; [reflexivity|]); auto; apply Hone; intro; contradiction.
  - unfold step_main. destruct (td s); simpl; auto. destruct (nth_error _ _); simpl; auto.
Qed.

Lemma run_keeps_object : forall c sch s t o, Inv s -> locals s t = Some o ->
  locals (run_from c s sch) t = Some o /\ cnt (setup_calls (run_from c s sch)) t = cnt (setup_calls s) t /\
  new_accesses_return t o (accesses s) (accesses (run_from c s sch)).
Proof.
  unfold run_from. induction sch as [|a sch IH]; simpl; intros s t o I Hl.
  - split; [assumption|]. split; [reflexivity|]. exists []. simpl. tauto.
  - destruct (step_keeps_object c s a t o I Hl) as [H1 [H2 [n1 [E1 H3]]]].
    destruct (IH (step c s a) t o (step_inv _ _ _ I) H1) as [H4 [H5 [n2 [E2 H6]]]].
    split; [assumption|]. split; [congruence|]. exists (n2 ++ n1). split.
    + rewrite E2, E1. apply app_assoc.
    + intros r Hr. apply in_app_iff in Hr. destruct Hr; auto.
Qed.

Lemma reused : forall c sch1 sch2 t o,
  locals (run c sch1) t = Some o ->
  locals (run c (sch1 ++ sch2)) t = Some o /\
  count_occ Nat.eq_dec (setup_calls (run c (sch1 ++ sch2))) t = count_occ Nat.eq_dec (setup_calls (run c sch1)) t /\
  new_accesses_return t o (accesses (run c sch1)) (accesses (run c (sch1 ++ sch2))).
Proof.
  intros. rewrite run_app. apply run_keeps_object; [apply run_inv|assumption].
Qed.

Lemma torn_prefix : forall s, Inv s -> exists i, torn s = firstn i (objects s).
Proof.
  intros s I. pose proof (i_td _ I) as Htd. unfold td_inv in Htd.
  destruct (td s);
    try (exists 0; rewrite Htd; reflexivity);
    try (let E := fresh "E" in destruct Htd as [E _]; eauto; fail);
    try (let i' := fresh "i'" in let E := fresh "E" in destruct Htd as [i' [E _]]; eauto; fail).
Qed.

Lemma never_twice : forall c sch,
  NoDup (torn (run c sch)) /\ forall o, In o (torn (run c sch)) -> exists t, In (t, o) (created (run c sch)).
Proof.
  intros c sch. pose proof (run_inv c sch) as I.
  destruct (torn_prefix _ I) as [i E]. rewrite E. split.
  - apply NoDup_firstn. apply I.
  - intros o Ho. apply In_firstn in Ho. apply (i_objs_created _ I). assumption.
Qed.

(* ------------------------------------------------------------------ the end of the loop of teardown_factory *)
Lemma step_thread_td : forall c t s, td (step_thread c t s) = td s /\ torn (step_thread c t s) = torn s.
Proof.
  intros. unfold step_thread. destruct (pcs s t); simpl; auto.
  - destruct (locals s t); simpl; auto.
  - destruct (setup_fails c t _); simpl; auto.
Qed.

Lemma step_main_objects : forall c s, objects (step_main c s) = objects s /\ pcs (step_main c s) = pcs s.
Proof. intros. unfold step_main. destruct (td s); simpl; auto. destruct (nth_error _ _); auto. Qed.

Lemma step_thread_objects : forall c t s, (forall o, pcs s t <> AtAppend o) -> objects (step_thread c t s) = objects s.
Proof.
  intros c t s H. unfold step_thread. destruct (pcs s t) eqn:E; simpl; auto.
  - destruct (locals s t); simpl; auto.
  - destruct (setup_fails c t _); simpl; auto.
  - exfalso. eapply H. reflexivity.
Qed.

Lemma loop_end : forall c sch, teardown_loop_ends_after c sch ->
  torn (run c (sch ++ [Main])) = objects (run c (sch ++ [Main])) /\
  forall t o, In (t, o) (created (run c (sch ++ [Main]))) ->
              In o (torn (run c (sch ++ [Main]))) \/ in_flight (run c (sch ++ [Main])) t o.
Proof.
  intros c sch [Hnot Hdone].
  assert (Ht : torn (run c (sch ++ [Main])) = objects (run c (sch ++ [Main]))).
  { rewrite run_snoc in *. simpl in *. pose proof (run_inv c sch) as I. pose proof (i_td _ I) as Htd.
    unfold step_main in *. unfold td_inv in Htd.
    destruct (td (run c sch)) as [| |i ff|i o ff|i o ff|i o ff|o ff|i o ff|i o|ff|e| |e|o] eqn:Htds;
      simpl in *; try discriminate.
    - destruct (nth_error (objects (run c sch)) i) eqn:Hn; simpl in *; try discriminate.
      destruct Htd as [E L]. apply nth_error_None in Hn. rewrite E. apply firstn_all2. assumption.
    - destruct (td_outcome c o); discriminate.
    - destruct ff; discriminate.
    - rewrite Htds in Hdone. discriminate. }
  split; [assumption|]. intros t o Hc. rewrite Ht.
  destruct (i_objs1 _ (run_inv c (sch ++ [Main])) _ _ Hc); auto.
Qed.

Lemma step_after_loop : forall c s a, after_loop (td s) = true ->
  after_loop (td (step c s a)) = true /\ torn (step c s a) = torn s.
Proof.
  intros c s [t|] H; simpl.
  - destruct (step_thread_td c t s) as [E1 E2]. rewrite E1, E2. auto.
  - unfold step_main. destruct (td s) eqn:E; simpl in *; try discriminate; rewrite ?E; auto. destruct ff; simpl; auto.
Qed.

Lemma run_from_after_loop : forall c sch s, after_loop (td s) = true ->
  after_loop (td (run_from c s sch)) = true /\ torn (run_from c s sch) = torn s.
Proof.
  unfold run_from. induction sch as [|a sch IH]; simpl; intros s H; [auto|].
  destruct (step_after_loop c s a H) as [H1 H2]. destruct (IH _ H1) as [H3 H4]. split; [assumption|congruence].
Qed.

Lemma nothing_after_loop : forall c sch1 sch2, after_loop (td (run c sch1)) = true ->
  torn (run c (sch1 ++ sch2)) = torn (run c sch1).
Proof. intros. rewrite run_app. apply run_from_after_loop. assumption. Qed.

Lemma firstn_prefix_snoc : forall A n (l : list A) a, exists m, firstn n l = firstn m (l ++ [a]).
Proof.
  intros A n l a. destruct (le_lt_dec n (length l)) as [L|L].
  - exists n. rewrite firstn_app. replace (n - length l) with 0 by lia. simpl. symmetry. apply app_nil_r.
  - exists (length l). rewrite firstn_all2 by lia. rewrite firstn_app, firstn_all, Nat.sub_diag. simpl. symmetry. apply app_nil_r.
Qed.

Lemma firstn_length_snoc : forall A (l : list A) a, firstn (length l) (l ++ [a]) = l.
Proof. intros. rewrite firstn_app, firstn_all, Nat.sub_diag. simpl. apply app_nil_r. Qed.

Lemma quiet_prefix : forall c l a, quiet_after_loop c (l ++ [a]) -> quiet_after_loop c l.
Proof.
  unfold quiet_after_loop. intros c l a H n t o. destruct (firstn_prefix_snoc _ n l a) as [m E]. rewrite E. apply H.
Qed.

(* when no thread is in flight from the end of the loop on, _objects does not grow any more: torn = _objects *)
Lemma quiet_torn_objects : forall c sch, quiet_after_loop c sch -> after_loop (td (run c sch)) = true ->
  torn (run c sch) = objects (run c sch).
Proof.
  intros c sch. induction sch as [|a l IH] using rev_ind; intros Hq Hal.
  - vm_compute in Hal. discriminate.
  - specialize (IH (quiet_prefix _ _ _ Hq)).
    destruct (after_loop (td (run c l))) eqn:Hbefore.
    + specialize (IH eq_refl).
      assert (Hnf : forall t o, ~ in_flight (run c l) t o).
      { intros t o. pose proof (Hq (length l) t o) as Hq'. rewrite firstn_length_snoc in Hq'. apply Hq'. assumption. }
      rewrite run_snoc. destruct (step_after_loop c (run c l) a Hbefore) as [_ Et]. rewrite Et, IH.
      destruct a as [t|]; simpl.
      * symmetry. apply step_thread_objects. intros o Hp. apply (Hnf t o). right. assumption.
      * symmetry. apply step_main_objects.
    + destruct a as [t|].
      * rewrite run_snoc in Hal. simpl in Hal. destruct (step_thread_td c t (run c l)) as [E _]. congruence.
      * apply loop_end. split; assumption.
Qed.

Lemma finished_after_loop : forall d, td_finished d = true -> after_loop d = true.
Proof. destruct d; simpl; congruence. Qed.

Lemma teardown_exact_after_loop : forall c sch, after_loop (td (run c sch)) = true -> quiet_after_loop c sch ->
  NoDup (torn (run c sch)) /\
  forall o, In o (torn (run c sch)) <-> exists t, In (t, o) (created (run c sch)).
Proof.
  intros c sch Hal Hq. destruct (never_twice c sch) as [ND Hsub].
  split; [assumption|]. intro o. split; [apply Hsub|].
  intros [t Hc]. rewrite (quiet_torn_objects c sch Hq Hal).
  destruct (i_objs1 _ (run_inv c sch) _ _ Hc) as [H|H]; [|assumption].
  exfalso. pose proof (Hq (length sch) t o) as Hq'. rewrite firstn_all in Hq'. apply Hq'; assumption.
Qed.

Lemma teardown_exact : forall c sch, td_finished (td (run c sch)) = true -> quiet_after_loop c sch ->
  NoDup (torn (run c sch)) /\
  forall o, In o (torn (run c sch)) <-> exists t, In (t, o) (created (run c sch)).
Proof. intros c sch H. apply teardown_exact_after_loop. apply finished_after_loop. assumption. Qed.

(* ------------------------------------------------------------------ teardown_factory running alone (the framework's situation) *)
Lemma run_from_app : forall c s a b, run_from c s (a ++ b) = run_from c (run_from c s a) b.
Proof. intros. unfold run_from. apply fold_left_app. Qed.

Lemma step_not_called_back : forall c s a, td (step c s a) = TdNotCalled -> td s = TdNotCalled.
Proof.
  intros c s [t|]; simpl.
  - destruct (step_thread_td c t s) as [E _]. congruence.
  - unfold step_main. destruct (td s) eqn:E; simpl; try congruence.
    + destruct (nth_error _ _); simpl; congruence.
    + destruct (td_outcome c o); simpl; congruence.
    + destruct ff; simpl; congruence.
    + destruct ff; simpl; congruence.
Qed.

Lemma not_called_back : forall c l s, td (run_from c s l) = TdNotCalled -> td s = TdNotCalled.
Proof.
  unfold run_from. induction l as [|a l IH]; simpl; intros s H; [assumption|].
  eapply step_not_called_back. apply IH. exact H.
Qed.

Lemma main_only_pcs : forall c l s, Forall (eq Main) l -> pcs (run_from c s l) = pcs s.
Proof.
  unfold run_from. induction l as [|a l IH]; simpl; intros s H; [reflexivity|].
  inversion H; subst. rewrite IH by assumption. simpl. apply step_main_objects.
Qed.

Lemma quiet_alone : forall c sch k, td (run c sch) = TdNotCalled -> (forall t o, ~ in_flight (run c sch) t o) ->
  quiet_after_loop c (sch ++ repeat Main k).
Proof.
  intros c sch k Hnc Hnf n t o Hal. rewrite firstn_app in *.
  destruct (le_lt_dec n (length sch)) as [L|L].
  - exfalso. replace (n - length sch) with 0 in Hal by lia. simpl in Hal. rewrite app_nil_r in Hal.
    assert (E : td (run c (firstn n sch)) = TdNotCalled).
    { apply (not_called_back c (skipn n sch)). rewrite <- run_app, firstn_skipn. assumption. }
    rewrite E in Hal. discriminate.
  - rewrite firstn_all2 by lia. rewrite run_app. unfold in_flight. rewrite main_only_pcs.
    + apply Hnf.
    + apply Forall_forall. intros x Hx. apply In_firstn in Hx. symmetry. eapply repeat_spec. exact Hx.
Qed.

Lemma teardown_exact_alone : forall c sch k, td (run c sch) = TdNotCalled -> (forall t o, ~ in_flight (run c sch) t o) ->
  td_finished (td (run c (sch ++ repeat Main k))) = true ->
  NoDup (torn (run c (sch ++ repeat Main k))) /\
  forall o, In o (torn (run c (sch ++ repeat Main k))) <-> exists t, In (t, o) (created (run c (sch ++ repeat Main k))).
Proof. intros c sch k Hnc Hnf Hfin. apply teardown_exact; [assumption|]. apply quiet_alone; assumption. Qed.

(* ------------------------------------------------------------------ teardown_factory terminates *)
(* upper bound of the number of lines teardown_factory still has to execute (at most 7 per remaining object) *)
Definition mu (len : nat) (d : tdpc) : nat :=
  match d with
  | TdNotCalled => 7 * len + 5
  | TdInit => 7 * len + 4
  | TdFor i _ => 7 * (len - i) + 3
  | TdTry i _ _ => 7 * (len - S i) + 9
  | TdBody i _ _ => 7 * (len - S i) + 8
  | TdExcept i _ _ => 7 * (len - S i) + 7
  | TdIfNone i _ _ => 7 * (len - S i) + 6
  | TdAssign i _ => 7 * (len - S i) + 5
  | TdIfFinal _ => 2
  | TdRaise _ => 1
  | _ => 0
  end.
Definition td_live (d : tdpc) : bool := match d with TdExceptBase _ _ | TdAborted _ => false | _ => true end.

Lemma main_step_decreases : forall c s, (forall o, td_outcome c o <> TdBaseExc) ->
  td_live (td s) = true -> td_finished (td s) = false ->
  mu (length (objects s)) (td (step_main c s)) < mu (length (objects s)) (td s) /\
  td_live (td (step_main c s)) = true /\ objects (step_main c s) = objects s.
Proof.
  intros c s Hnb Hl Hf. split; [|split; [|apply step_main_objects]].
  - unfold step_main. destruct (td s) as [| |i ff|i o ff|i o ff|i o ff|o ff|i o ff|i o|ff|e| |e|o] eqn:E;
      simpl in *; try discriminate; try lia.
    + destruct (nth_error (objects s) i) eqn:Hn; simpl; [|lia]. apply nth_error_lt in Hn. lia.
    + destruct (td_outcome c o) eqn:Ho; simpl; try lia; exfalso; eapply Hnb; eauto.
    + destruct ff; simpl; lia.
    + destruct ff; simpl; lia.
  - unfold step_main. destruct (td s) as [| |i ff|i o ff|i o ff|i o ff|o ff|i o ff|i o|ff|e| |e|o] eqn:E;
      simpl in *; try discriminate; auto.
    + destruct (nth_error (objects s) i); reflexivity.
    + destruct (td_outcome c o) eqn:Ho; simpl; auto; exfalso; eapply Hnb; eauto.
    + destruct ff; reflexivity.
    + destruct ff; reflexivity.
Qed.

Lemma main_alone_finishes : forall c, (forall o, td_outcome c o <> TdBaseExc) ->
  forall n s, td_live (td s) = true -> mu (length (objects s)) (td s) <= n ->
  exists k, td_finished (td (run_from c s (repeat Main k))) = true.
Proof.
  intros c Hnb. induction n as [|n IH]; intros s Hl Hm.
  - destruct (td_finished (td s)) eqn:Hf; [exists 0; assumption|].
    destruct (main_step_decreases c s Hnb Hl Hf) as [Hd _]. lia.
  - destruct (td_finished (td s)) eqn:Hf; [exists 0; assumption|].
    destruct (main_step_decreases c s Hnb Hl Hf) as [Hd [Hl' Ho]].
    destruct (IH (step_main c s) Hl') as [k Hk]; [rewrite Ho; lia|].
    exists (S k). exact Hk.
Qed.

Lemma teardown_completes : forall c sch, (forall o, td_outcome c o <> TdBaseExc) -> td (run c sch) = TdNotCalled ->
  exists k, teardown_finishes_after c (sch ++ repeat Main k).
Proof.
  intros c sch Hnb Ht.
  set (s0 := run c sch). assert (Ht' : td s0 = TdNotCalled) by exact Ht.
  destruct (main_alone_finishes c Hnb (mu (length (objects s0)) (td s0)) s0) as [n Hdone]; [rewrite Ht'; reflexivity|apply le_n|].
  (* smallest prefix reaching a finished state *)
  assert (Hex : forall n, td_finished (td (run_from c s0 (repeat Main n))) = true ->
                exists k, td_finished (td (run_from c s0 (repeat Main k))) = false /\
                          td_finished (td (run_from c s0 (repeat Main (S k)))) = true).
  { clear n Hdone. induction n as [|n IH]; intro Hn.
    - simpl in Hn. rewrite Ht' in Hn. discriminate.
    - destruct (td_finished (td (run_from c s0 (repeat Main n)))) eqn:E; [apply IH; reflexivity|].
      exists n; split; assumption. }
  destruct (Hex _ Hdone) as [k [Hk1 Hk2]]. exists k. unfold teardown_finishes_after. unfold run in *.
  rewrite <- app_assoc. rewrite !run_from_app. fold (run c sch). fold s0. split; [assumption|].
  assert (Hr : repeat Main (S k) = repeat Main k ++ [Main]) by (clear; induction k; simpl; [reflexivity|]; f_equal; assumption).
  rewrite Hr, run_from_app in Hk2. exact Hk2.
Qed.

(* ------------------------------------------------------------------ what teardown_factory raises: the first failure *)
Definition ff_inv (c : cfg) (d : tdpc) (tn : list obj) : Prop :=
  match d with
  | TdNotCalled | TdInit => tn = []
  | TdFor _ ff | TdTry _ _ ff | TdBody _ _ ff | TdIfFinal ff => find (td_fails c) tn = ff
  | TdExcept _ o ff | TdIfNone _ o ff => exists l, tn = l ++ [o] /\ find (td_fails c) l = ff /\ td_fails c o = true
  | TdAssign _ o => exists l, tn = l ++ [o] /\ find (td_fails c) l = None /\ td_fails c o = true
  | TdRaise e | TdRaised e => find (td_fails c) tn = Some e
  | TdDone => find (td_fails c) tn = None
  | TdExceptBase _ _ | TdAborted _ => True
  end.

Lemma find_snoc : forall A (f : A -> bool) l x,
  find f (l ++ [x]) = match find f l with Some y => Some y | None => if f x then Some x else None end.
Proof. induction l as [|a l IH]; simpl; intro x; [reflexivity|]. destruct (f a); [reflexivity|apply IH]. Qed.

Lemma step_ff_inv : forall c s a, ff_inv c (td s) (torn s) -> ff_inv c (td (step c s a)) (torn (step c s a)).
Proof.
  intros c s [t|] H; simpl.
  - destruct (step_thread_td c t s) as [E1 E2]. rewrite E1, E2. assumption.
  - unfold step_main. destruct (td s) as [| |i ff|i o ff|i o ff|i o ff|o ff|i o ff|i o|ff|e| |e|o] eqn:E;
      simpl in *; auto.
    + rewrite H. reflexivity.
    + destruct (nth_error (objects s) i); simpl; assumption.
    + destruct (td_outcome c o) eqn:Ho; simpl; auto.
      * rewrite find_snoc, H. unfold td_fails. rewrite Ho. destruct ff; reflexivity.
      * exists (torn s). unfold td_fails at 2. rewrite Ho. auto.
    + destruct H as [l [E1 [E2 E3]]]. destruct ff as [e|]; simpl.
      * rewrite E1, find_snoc, E2. reflexivity.
      * exists l. auto.
    + destruct H as [l [E1 [E2 E3]]]. rewrite E1, find_snoc, E2, E3. reflexivity.
    + destruct ff; simpl; assumption.
    + rewrite E. assumption.
    + rewrite E. assumption.
    + rewrite E. exact I.
Qed.

Lemma run_ff_inv : forall c sch, ff_inv c (td (run c sch)) (torn (run c sch)).
Proof.
  intros c sch. induction sch as [|a l IH] using rev_ind; [reflexivity|]. rewrite run_snoc. apply step_ff_inv. assumption.
Qed.

Lemma first_failure : forall c sch,
  (td (run c sch) = TdDone -> find (td_fails c) (torn (run c sch)) = None) /\
  (forall e, td (run c sch) = TdRaised e -> find (td_fails c) (torn (run c sch)) = Some e).
Proof.
  intros c sch. pose proof (run_ff_inv c sch) as H. split.
  - intro E. rewrite E in H. exact H.
  - intros e E. rewrite E in H. exact H.
Qed.
