(* C20 — specifications (enumeration-based counts, independent of the model functions) and proofs.
   Style: stdlib + lia. *)
From Coq Require Import List NArith ZArith Bool Arith Lia.
Import ListNotations.
From LCC Require Import Base.Util Model.Report Model.Stats Model.Junit Model.Diff.

(* ================================================================ specification side ================ *)
(* the number of tests of the report whose status is exactly st, by plain enumeration *)
Definition test_has_status (st : str) (t : test_result) : bool := status_is st (t_result t).
Definition count_in (st : str) (ts : list test_result) : nat := length (filter (test_has_status st) ts).
Definition count_status (st : str) (r : report) : nat := count_in st (all_tests r).

(* a status that `if test.status:` lets through is one of Result.STATUSES *)
Definition known_statusb (r : result) : bool :=
  match status_truthy (r_status r) with
  | None => true
  | Some st => str_eqb st s_passed || str_eqb st s_failed || str_eqb st s_skipped || str_eqb st s_disabled
  end.
Definition statuses_known (r : report) : Prop := forallb (fun t => known_statusb (t_result t)) (all_tests r) = true.

(* ================================================================ generic list lemmas ================ *)
Lemma list_eqb_N_eq : forall a b : list N, list_eqb N.eqb a b = true <-> a = b.
Proof.
  induction a as [|x a IH]; destruct b as [|y b]; simpl; split; intro H; try discriminate; auto.
  - apply andb_true_iff in H. destruct H as [H1 H2]. apply N.eqb_eq in H1. apply IH in H2. subst; auto.
  - inversion H; subst. apply andb_true_iff. split; [apply N.eqb_refl | apply IH; auto].
Qed.
Lemma str_eqb_eq : forall a b, str_eqb a b = true <-> a = b.
Proof. exact list_eqb_N_eq. Qed.
Lemma str_eqb_refl : forall a, str_eqb a a = true.
Proof. intro a. apply str_eqb_eq. reflexivity. Qed.
Lemma str_eqb_neq : forall a b, str_eqb a b = false <-> a <> b.
Proof.
  intros a b. split; intro H.
  - intro E. apply str_eqb_eq in E. congruence.
  - destruct (str_eqb a b) eqn:E; auto. apply str_eqb_eq in E. contradiction.
Qed.

Lemma filter_map_length : forall {A B} (f : A -> B) (p : B -> bool) l,
  length (filter p (map f l)) = length (filter (fun x => p (f x)) l).
Proof. induction l; simpl; auto. destruct (p (f a)); simpl; auto. Qed.

Lemma filter_flat_map : forall {A B} (f : A -> list B) (p : B -> bool) l,
  filter p (flat_map f l) = flat_map (fun x => filter p (f x)) l.
Proof. induction l; simpl; auto. rewrite filter_app, IHl. reflexivity. Qed.

Lemma forallb_map : forall {A B} (f : A -> B) (p : B -> bool) l,
  forallb p (map f l) = forallb (fun x => p (f x)) l.
Proof. induction l; simpl; auto. rewrite IHl. reflexivity. Qed.

Lemma map_flat_map : forall {A B C} (f : A -> list B) (g : B -> C) l,
  map g (flat_map f l) = flat_map (fun x => map g (f x)) l.
Proof. induction l; simpl; auto. rewrite map_app, IHl. reflexivity. Qed.

Lemma filter_map_const_kind_false : forall (k : rkind) (l : list result),
  k <> KTest -> filter is_test (map (fun r => (k, r)) l) = [].
Proof. intros k l Hk. induction l; simpl; auto. unfold is_test at 1. simpl. destruct k; try contradiction; auto. Qed.

(* ================================================================ ReportStats ================ *)
Lemma tests_of_suite_results : forall s,
  map snd (filter is_test (suite_results s)) = map t_result (s_tests_of s).
Proof.
  intro s. unfold suite_results. rewrite !filter_app.
  rewrite (filter_map_const_kind_false KSuiteSetup) by discriminate.
  rewrite (filter_map_const_kind_false KSuiteTeardown) by discriminate.
  rewrite app_nil_r. simpl.
  induction (s_tests_of s); simpl; auto. f_equal; auto.
Qed.

Lemma tests_of_suites_results : forall l,
  map snd (filter is_test (flat_map suite_results l)) = map t_result (flat_map s_tests_of l).
Proof.
  induction l; simpl; auto.
  rewrite filter_app, !map_app, IHl, tests_of_suite_results. reflexivity.
Qed.

Lemma tests_of_all_results : forall r,
  map snd (filter is_test (all_results r)) = map t_result (all_tests r).
Proof.
  intro r. unfold all_results, all_tests. rewrite !filter_app.
  rewrite (filter_map_const_kind_false KSessionSetup) by discriminate.
  rewrite (filter_map_const_kind_false KSessionTeardown) by discriminate.
  rewrite app_nil_r. simpl. apply tests_of_suites_results.
Qed.

Definition count_res (st : str) (l : list result) : nat := length (filter (status_is st) l).

Lemma count_res_map : forall st ts, count_res st (map t_result ts) = count_in st ts.
Proof. intros. unfold count_res, count_in. rewrite filter_map_length. reflexivity. Qed.

Lemma status_truthy_none : forall x st, status_truthy (r_status x) = None -> st <> [] -> status_is st x = false.
Proof.
  intros x st H Hst. unfold status_is. destruct (r_status x) as [[|c s]|]; simpl in *; try discriminate; auto.
  destruct st; [contradiction | reflexivity].
Qed.
Lemma status_truthy_some : forall x st, status_truthy (r_status x) = Some st -> r_status x = Some st.
Proof. intros x st H. destruct (r_status x) as [[|c s]|]; simpl in *; try discriminate. inversion H; reflexivity. Qed.

Lemma count_by_status_ok : forall l c c',
  count_by_status l c = VOk c' ->
  n_passed c' = n_passed c + count_res s_passed l /\
  n_failed c' = n_failed c + count_res s_failed l /\
  n_skipped c' = n_skipped c + count_res s_skipped l /\
  n_disabled c' = n_disabled c + count_res s_disabled l.
Proof.
  unfold count_res. induction l as [|x l IH]; intros c c' H; simpl in H.
  - inversion H; subst. simpl. lia.
  - destruct (status_truthy (r_status x)) as [st|] eqn:E.
    + apply status_truthy_some in E.
      unfold bump_status in H.
      destruct (str_eqb st s_passed) eqn:E1; [|destruct (str_eqb st s_failed) eqn:E2;
        [|destruct (str_eqb st s_skipped) eqn:E3; [|destruct (str_eqb st s_disabled) eqn:E4; [|discriminate]]]];
      apply IH in H; simpl in H;
      match goal with Heq : str_eqb st _ = true |- _ => apply str_eqb_eq in Heq; subst st end;
      assert (Hp : status_is s_passed x = _) by (unfold status_is; rewrite E; vm_compute; reflexivity);
      assert (Hf : status_is s_failed x = _) by (unfold status_is; rewrite E; vm_compute; reflexivity);
      assert (Hs : status_is s_skipped x = _) by (unfold status_is; rewrite E; vm_compute; reflexivity);
      assert (Hd : status_is s_disabled x = _) by (unfold status_is; rewrite E; vm_compute; reflexivity);
      cbn [filter]; rewrite Hp, Hf, Hs, Hd; cbn [length]; lia.
    + simpl. rewrite !(status_truthy_none x) by (auto; discriminate). apply IH in H. exact H.
Qed.

Lemma count_by_status_known : forall l c,
  forallb known_statusb l = true -> exists c', count_by_status l c = VOk c'.
Proof.
  induction l as [|x l IH]; intros c H; simpl in *.
  - eauto.
  - apply andb_true_iff in H. destruct H as [Hx Hl]. unfold known_statusb in Hx.
    destruct (status_truthy (r_status x)) as [st|]; [|auto].
    unfold bump_status.
    destruct (str_eqb st s_passed); [auto|]. destruct (str_eqb st s_failed); [auto|].
    destruct (str_eqb st s_skipped); [auto|]. destruct (str_eqb st s_disabled); [auto|]. discriminate.
Qed.

Lemma count_by_status_err : forall l c e, count_by_status l c = VErr e -> e = KeyError /\ forallb known_statusb l = false.
Proof.
  induction l as [|x l IH]; intros c e H; simpl in H; [discriminate|].
  simpl. unfold known_statusb at 1.
  destruct (status_truthy (r_status x)) as [st|].
  - unfold bump_status in H.
    destruct (str_eqb st s_passed); [apply IH in H; simpl; exact H|].
    destruct (str_eqb st s_failed); [apply IH in H; simpl; exact H|].
    destruct (str_eqb st s_skipped); [apply IH in H; simpl; exact H|].
    destruct (str_eqb st s_disabled); [apply IH in H; simpl; exact H|].
    inversion H. simpl. auto.
  - apply IH in H. simpl. exact H.
Qed.

Definition stats_agree (s : stats) (ts : list test_result) : Prop :=
  st_tests_nb s = length ts /\
  n_passed (st_by s) = count_in s_passed ts /\
  n_failed (st_by s) = count_in s_failed ts /\
  n_skipped (st_by s) = count_in s_skipped ts /\
  n_disabled (st_by s) = count_in s_disabled ts.

Lemma from_results_counts : forall results d s ts,
  map snd (filter is_test results) = map t_result ts ->
  from_results results d = VOk s -> stats_agree s ts /\ st_duration s = d.
Proof.
  intros results d s ts Hts H. unfold from_results in H. rewrite Hts in H.
  destruct (count_by_status (map t_result ts) by0) as [c|e] eqn:E; [|discriminate].
  inversion H; subst; clear H. apply count_by_status_ok in E. simpl in E.
  rewrite !count_res_map in E. unfold stats_agree. simpl. rewrite map_length. intuition.
Qed.

Lemma from_results_err : forall results d e ts,
  map snd (filter is_test results) = map t_result ts ->
  from_results results d = VErr e ->
  e = KeyError /\ forallb (fun t => known_statusb (t_result t)) ts = false.
Proof.
  intros results d e ts Hts H. unfold from_results in H. rewrite Hts in H.
  destruct (count_by_status (map t_result ts) by0) as [c|e'] eqn:E; [discriminate|].
  inversion H; subst. apply count_by_status_err in E. rewrite forallb_map in E. exact E.
Qed.

Lemma from_results_known : forall results d ts,
  map snd (filter is_test results) = map t_result ts ->
  forallb (fun t => known_statusb (t_result t)) ts = true ->
  exists s, from_results results d = VOk s.
Proof.
  intros results d ts Hts Hk. unfold from_results. rewrite Hts.
  destruct (count_by_status_known (map t_result ts) by0) as [c Hc].
  - rewrite forallb_map. exact Hk.
  - rewrite Hc. eauto.
Qed.

Lemma stats_counts : forall r s, from_report r = VOk s ->
  stats_agree s (all_tests r) /\ st_duration s = report_duration r.
Proof. intros r s H. eapply from_results_counts; [apply tests_of_all_results | exact H]. Qed.

Lemma stats_total : forall r, statuses_known r -> exists s, from_report r = VOk s.
Proof. intros r H. eapply from_results_known; [apply tests_of_all_results | exact H]. Qed.

Lemma stats_err : forall r e, from_report r = VErr e -> e = KeyError /\ ~ statuses_known r.
Proof.
  intros r e H. eapply from_results_err in H; [|apply tests_of_all_results].
  destruct H as [H1 H2]. split; auto. unfold statuses_known. rewrite H2. discriminate.
Qed.

(* ================================================================ message variables ================ *)
Definition msg_agree (m : msg_ints) (r : report) : Prop :=
  mv_total m = length (all_tests r) /\
  mv_passed m = count_status s_passed r /\ mv_failed m = count_status s_failed r /\
  mv_skipped m = count_status s_skipped r /\ mv_disabled m = count_status s_disabled r /\
  mv_enabled m = count_status s_passed r + count_status s_failed r + count_status s_skipped r.

Lemma message_vars : forall r m, message_ints r = VOk m -> msg_agree m r.
Proof.
  intros r m H. unfold message_ints in H.
  destruct (from_report r) as [s|e] eqn:E; [|discriminate].
  inversion H; subst; clear H.
  apply stats_counts in E. destruct E as [[H1 [H2 [H3 [H4 H5]]]] _].
  unfold msg_agree, enabled_nb, count_status. simpl. rewrite H1, H2, H3, H4, H5. intuition.
Qed.

(* build_message returns on every report with known statuses, finished or not; its only error is the KeyError of from_report *)
Lemma message_vars_total : forall r, statuses_known r -> exists m, message_ints r = VOk m.
Proof. intros r Hk. unfold message_ints. destruct (stats_total r Hk) as [s Hs']. rewrite Hs'. eauto. Qed.

Lemma message_vars_err : forall r e, message_ints r = VErr e -> e = KeyError /\ ~ statuses_known r.
Proof.
  intros r e H. unfold message_ints in H. destruct (from_report r) as [s|e'] eqn:E; [discriminate|].
  inversion H; subst. apply stats_err. exact E.
Qed.

(* the duration variable reads "n/a" exactly when the start or the end time of the report is missing *)
Lemma message_na : forall r m, message_ints r = VOk m ->
  (mv_duration m = None <-> rp_start r = None \/ rp_end r = None) /\
  (forall b e, rp_start r = Some b -> rp_end r = Some e -> mv_duration m = Some (e - b)%Z).
Proof.
  intros r m H. unfold message_ints in H. destruct (from_report r) as [s|e'] eqn:E; [|discriminate].
  inversion H; subst; clear H. simpl. unfold report_duration, get_duration.
  destruct (rp_start r), (rp_end r); simpl; repeat split; intros; try discriminate; try tauto; try congruence;
    try (destruct H; discriminate).
Qed.

(* ================================================================ percentages (integer arithmetic) ================ *)
Lemma pct_zero : forall v, pct v 0 = 0%Z.
Proof. reflexivity. Qed.

(* pct v o is the floor of 100 * v / o *)
Lemma pct_floor : forall v o, 0 < o ->
  (pct v o * Z.of_nat o <= Z.of_nat v * 100 < (pct v o + 1) * Z.of_nat o)%Z.
Proof.
  intros v o Ho. unfold pct. destruct o as [|o]; [lia|].
  set (d := Z.of_nat (S o)). set (a := (Z.of_nat v * 100)%Z).
  assert (Hd : (0 < d)%Z) by (unfold d; lia).
  pose proof (Z.mul_div_le a d Hd). pose proof (Z.mul_succ_div_gt a d Hd). lia.
Qed.

Lemma pct_nonneg : forall v o, (0 <= pct v o)%Z.
Proof.
  intros v o. unfold pct. destruct o as [|o]; [lia|]. apply Z.div_pos; lia.
Qed.

Lemma pct_range : forall v o, v <= o -> (0 <= pct v o <= 100)%Z.
Proof.
  intros v o Hv. split; [apply pct_nonneg|]. destruct o as [|o]; [rewrite pct_zero; lia|].
  pose proof (pct_floor v (S o) ltac:(lia)) as [H _]. nia.
Qed.

(* the three percentages of the enabled tests never add up to more than 100, and lose at most 2 points to the truncations *)
Lemma pct_sum : forall a b c, let e := a + b + c in
  (0 <= pct a e + pct b e + pct c e <= 100)%Z /\ (0 < e -> (98 <= pct a e + pct b e + pct c e)%Z).
Proof.
  intros a b c e.
  pose proof (pct_nonneg a e). pose proof (pct_nonneg b e). pose proof (pct_nonneg c e).
  destruct (Nat.eq_dec e 0) as [E|E].
  - rewrite E. rewrite !pct_zero. split; [lia|intro; lia].
  - assert (He : 0 < e) by lia.
    destruct (pct_floor a e He) as [A1 A2]. destruct (pct_floor b e He) as [B1 B2]. destruct (pct_floor c e He) as [C1 C2].
    assert (Hs : (Z.of_nat a + Z.of_nat b + Z.of_nat c = Z.of_nat e)%Z) by (unfold e; lia).
    assert (Hpos : (0 < Z.of_nat e)%Z) by lia.
    split; [split; [lia|]|intros _]; nia.
Qed.

(* ================================================================ diff ================ *)
Lemma status_eqb_refl : forall s, status_eqb s s = true.
Proof. destruct s; simpl; auto. apply str_eqb_refl. Qed.

Lemma diff_self_empty : forall l, compute_diff l l = mkDiff [] [] [].
Proof.
  induction l as [|t l IH]; simpl; auto.
  rewrite str_eqb_refl, status_eqb_refl. exact IH.
Qed.

(* ================================================================ more list lemmas ================ *)
Lemma flat_map_comp : forall {A B C} (h : A -> list B) (g : B -> list C) l,
  flat_map g (flat_map h l) = flat_map (fun x => flat_map g (h x)) l.
Proof. induction l; simpl; auto. rewrite flat_map_app, IHl. reflexivity. Qed.

Lemma flat_map_map : forall {A B C} (h : A -> B) (g : B -> list C) l,
  flat_map g (map h l) = flat_map (fun x => g (h x)) l.
Proof. induction l; simpl; auto. rewrite IHl. reflexivity. Qed.

Lemma flat_map_filter_drop : forall {A B} (T : A -> list B) (keep : A -> bool) l,
  (forall x, In x l -> keep x = false -> T x = []) -> flat_map T (filter keep l) = flat_map T l.
Proof.
  induction l as [|x l IH]; intros H; simpl; auto.
  destruct (keep x) eqn:E; simpl.
  - rewrite IH; auto. intros; apply H; simpl; auto.
  - rewrite (H x) by (simpl; auto). simpl. apply IH. intros; apply H; simpl; auto.
Qed.

Lemma flat_map_ext_in : forall {A B} (f g : A -> list B) l,
  (forall x, In x l -> f x = g x) -> flat_map f l = flat_map g l.
Proof.
  induction l as [|x l IH]; intros H; simpl; auto.
  rewrite (H x) by (simpl; auto). rewrite IH; auto. intros; apply H; simpl; auto.
Qed.

Lemma filter_true : forall {A} (l : list A), filter (fun _ => true) l = l.
Proof. induction l; simpl; auto. f_equal; auto. Qed.

Lemma list_sum_flat_map_length : forall {A B} (T : A -> list B) l,
  length (flat_map T l) = list_sum (map (fun x => length (T x)) l).
Proof. induction l; simpl; auto. rewrite app_length, IHl. reflexivity. Qed.

(* ================================================================ suites : induction principle, paths ================ *)
Section SuiteInd.
  Variable P : suite_result -> Prop.
  Hypothesis Hstep : forall m a e su td ts subs, Forall P subs -> P (SuiteResult m a e su td ts subs).
  Fixpoint suite_ind' (s : suite_result) : P s :=
    match s with
    | SuiteResult m a e su td ts subs =>
        Hstep m a e su td ts subs
          ((fix go (l : list suite_result) : Forall P l :=
              match l with
              | [] => Forall_nil P
              | x :: l' => Forall_cons x (suite_ind' x) (go l')
              end) subs)
    end.
End SuiteInd.

Lemma flatten_suite_p_snd : forall s prefix, map snd (flatten_suite_p prefix s) = flatten_suite s.
Proof.
  induction s as [m a e su td ts subs IH] using suite_ind'. intro prefix. simpl. f_equal.
  rewrite map_flat_map. induction IH as [|x l Hx Hl IHl]; simpl; auto. rewrite Hx, IHl. reflexivity.
Qed.

Lemma suites_with_path_snd : forall l, map snd (suites_with_path l) = flatten_suites l.
Proof.
  unfold suites_with_path, flatten_suites. induction l; simpl; auto.
  rewrite map_app, flatten_suite_p_snd, IHl. reflexivity.
Qed.

Lemma tests_with_path_snd : forall r, map snd (tests_with_path r) = all_tests r.
Proof.
  intro r. unfold tests_with_path, all_tests. rewrite <- suites_with_path_snd.
  induction (suites_with_path (rp_suites r)) as [|ps l IH]; simpl; auto.
  rewrite map_app, IH. f_equal. unfold tests_of_p. rewrite map_map. simpl. apply map_id.
Qed.

(* ================================================================ JUnit ================ *)
Definition is_fail_child (c : jchild) : bool := match c with JFailure | JError => true | JSkipped => false end.
Definition has_fail_child (l : list jchild) : bool := existsb is_fail_child l.
Definition has_skipped_child (l : list jchild) : bool := existsb (fun c => match c with JSkipped => true | _ => false end) l.

(* a test recorded as failed holds at least one error-level log or unsuccessful check (what the report writer guarantees:
   `status = "passed" if result.is_successful() else "failed"`, writer.py) *)
Definition failed_has_cause (x : result) : Prop :=
  status_is s_failed x = true -> forallb step_successful (r_steps x) = false.

Lemma log_children_fail : forall l, existsb is_fail_child (log_children l) = negb (log_successful l).
Proof.
  destruct l as [lv msg t|d ok det t|d f i t|d u t]; simpl; auto.
  - destruct (str_eqb lv s_error); reflexivity.
  - destruct ok; reflexivity.
Qed.
Lemma log_children_no_skipped : forall l, existsb (fun c => match c with JSkipped => true | _ => false end) (log_children l) = false.
Proof.
  destruct l as [lv msg t|d ok det t|d f i t|d u t]; simpl; auto.
  - destruct (str_eqb lv s_error); reflexivity.
  - destruct ok; reflexivity.
Qed.

Lemma existsb_flat_map : forall {A B} (p : B -> bool) (f : A -> list B) l,
  existsb p (flat_map f l) = existsb (fun x => existsb p (f x)) l.
Proof. induction l; simpl; auto. rewrite existsb_app, IHl. reflexivity. Qed.

Lemma existsb_negb_forallb : forall {A} (p : A -> bool) l, existsb (fun x => negb (p x)) l = negb (forallb p l).
Proof. induction l; simpl; auto. rewrite IHl, negb_andb. reflexivity. Qed.

Lemma existsb_ext' : forall {A} (p q : A -> bool) l, (forall x, p x = q x) -> existsb p l = existsb q l.
Proof. induction l; simpl; intros; auto. rewrite H, IHl; auto. Qed.

Lemma steps_fail_children : forall steps,
  has_fail_child (flat_map (fun s => flat_map log_children (st_logs s)) steps) = negb (forallb step_successful steps).
Proof.
  intro steps. unfold has_fail_child. rewrite existsb_flat_map, <- existsb_negb_forallb.
  apply existsb_ext'. intro s. unfold step_successful. rewrite existsb_flat_map, <- existsb_negb_forallb.
  apply existsb_ext'. apply log_children_fail.
Qed.

Lemma steps_no_skipped_child : forall steps,
  has_skipped_child (flat_map (fun s => flat_map log_children (st_logs s)) steps) = false.
Proof.
  intro steps. unfold has_skipped_child. rewrite existsb_flat_map.
  induction steps as [|s l IH]; simpl; auto. rewrite IH, orb_false_r, existsb_flat_map.
  induction (st_logs s); simpl; auto. rewrite log_children_no_skipped. auto.
Qed.

Lemma status_failed_not_skipped : forall x, status_is s_failed x = true -> status_is s_skipped x = false.
Proof.
  intros x H. unfold status_is in *. destruct (r_status x); [|discriminate].
  apply str_eqb_eq in H. subst. reflexivity.
Qed.

(* unconditional description of the children *)
Lemma junit_children_spec : forall x,
  has_skipped_child (junit_children x) = status_is s_skipped x /\
  has_fail_child (junit_children x) = status_is s_failed x && negb (forallb step_successful (r_steps x)).
Proof.
  intro x. unfold junit_children. destruct (status_is s_skipped x) eqn:E; simpl.
  - destruct (status_is s_failed x) eqn:F; auto. apply status_failed_not_skipped in F. congruence.
  - destruct (status_is s_failed x); simpl; auto.
    unfold steps_children. rewrite steps_no_skipped_child, steps_fail_children. auto.
Qed.

Lemma junit_iff_cause : forall x, failed_has_cause x ->
  has_fail_child (junit_children x) = status_is s_failed x /\
  has_skipped_child (junit_children x) = status_is s_skipped x.
Proof.
  intros x Hc. destruct (junit_children_spec x) as [H1 H2]. split; auto. rewrite H2.
  destruct (status_is s_failed x) eqn:F; simpl; auto. rewrite (Hc F). reflexivity.
Qed.

Lemma vmap_ok : forall {A B} (f : A -> vres B) l ys, vmap f l = VOk ys -> Forall2 (fun x y => f x = VOk y) l ys.
Proof.
  induction l as [|x l IH]; intros ys H; simpl in H.
  - inversion H. constructor.
  - destruct (f x) as [y|e] eqn:E; [|discriminate].
    destruct (vmap f l) as [ys'|e] eqn:E'; [|discriminate]. inversion H; subst. constructor; auto.
Qed.

(* what a <testsuite> element must say, by enumeration of the tests of that suite *)
Definition jsuite_spec (ps : list str * suite_result) (js : jsuite) : Prop :=
  let tests := s_tests_of (snd ps) in
  js_name js = path_str (fst ps) /\
  js_tests js = length tests /\
  js_failures js = count_in s_failed tests /\
  js_skipped js = count_in s_skipped tests /\
  js_cases js = map (fun t => mkCase (m_name (t_meta t)) (junit_children (t_result t))) tests.

Lemma junit_suite_ok : forall ps js, junit_suite ps = VOk js -> jsuite_spec ps js.
Proof.
  intros ps js H. unfold junit_suite in H.
  destruct (existsb _ (s_tests_of (snd ps))); [discriminate|]. inversion H; subst; clear H.
  unfold jsuite_spec, count_in. simpl. intuition.
Qed.

Lemma junit_structure : forall r j, junit_report r = VOk j ->
  Forall2 jsuite_spec (junit_shown r) (jr_suites j) /\
  jr_tests j = count_status s_passed r /\ jr_failures j = count_status s_failed r.
Proof.
  intros r j H. unfold junit_report in H.
  destruct (from_report r) as [s|e] eqn:E; [|discriminate].
  destruct (negb (is_none (rp_end r)) && is_none (rp_start r)); [discriminate|].
  destruct (vmap junit_suite (junit_shown r)) as [js|e] eqn:E'; [|discriminate].
  inversion H; subst; clear H. simpl.
  apply stats_counts in E. destruct E as [[_ [Hp [Hf _]]] _].
  split; [|split; auto].
  apply vmap_ok in E'. induction E'; constructor; auto. apply junit_suite_ok; auto.
Qed.

Lemma shown_tests : forall r, flat_map (fun ps => s_tests_of (snd ps)) (junit_shown r) = all_tests r.
Proof.
  intro r. unfold junit_shown. rewrite flat_map_filter_drop.
  - unfold all_tests. rewrite <- suites_with_path_snd, flat_map_map. reflexivity.
  - intros x _ H. destruct (s_tests_of (snd x)); [reflexivity|discriminate].
Qed.

Lemma junit_cases_all : forall r j, junit_report r = VOk j ->
  flat_map js_cases (jr_suites j) = map (fun t => mkCase (m_name (t_meta t)) (junit_children (t_result t))) (all_tests r).
Proof.
  intros r j H. apply junit_structure in H. destruct H as [H _]. rewrite <- shown_tests.
  induction H as [|ps js l l' Hs _ IH]; simpl; auto.
  rewrite map_app, IH. f_equal. destruct Hs as [_ [_ [_ [_ Hc]]]]. exact Hc.
Qed.

Lemma junit_counter_sums : forall r j, junit_report r = VOk j ->
  list_sum (map js_tests (jr_suites j)) = length (all_tests r) /\
  list_sum (map js_failures (jr_suites j)) = count_status s_failed r /\
  list_sum (map js_skipped (jr_suites j)) = count_status s_skipped r.
Proof.
  intros r j H. apply junit_structure in H. destruct H as [H _].
  unfold count_status, count_in. rewrite <- shown_tests.
  induction H as [|ps js l l' Hs _ IH]; simpl; auto.
  destruct Hs as [_ [Ht [Hf [Hk _]]]]. destruct IH as [I1 [I2 I3]].
  rewrite !filter_app, !app_length, Ht, Hf, Hk, I1, I2, I3. unfold count_in. auto.
Qed.

Lemma count_children : forall l, Forall (fun t => failed_has_cause (t_result t)) l ->
  count_in s_failed l = length (filter (fun x => has_fail_child (junit_children (t_result x))) l) /\
  count_in s_skipped l = length (filter (fun x => has_skipped_child (junit_children (t_result x))) l).
Proof.
  unfold count_in. intros l Hs. induction Hs as [|t l Ht _ IH]; [simpl; auto|].
  destruct (junit_iff_cause _ Ht) as [H1 H2]. destruct IH as [I1 I2].
  cbn [filter]. rewrite H1, H2.
  change (test_has_status s_failed t) with (status_is s_failed (t_result t)).
  change (test_has_status s_skipped t) with (status_is s_skipped (t_result t)).
  destruct (status_is s_failed (t_result t)), (status_is s_skipped (t_result t)); cbn [length]; rewrite I1, I2; auto.
Qed.

(* the per-suite failures counter counts the testcases that carry a failure/error child, when every failed test has a cause *)
Lemma junit_counter_children : forall ps js, jsuite_spec ps js ->
  Forall (fun t => failed_has_cause (t_result t)) (s_tests_of (snd ps)) ->
  js_failures js = length (filter (fun c => has_fail_child (jc_children c)) (js_cases js)) /\
  js_skipped js = length (filter (fun c => has_skipped_child (jc_children c)) (js_cases js)).
Proof.
  intros ps js [_ [_ [Hf [Hk Hc]]]] Hs. rewrite Hf, Hk, Hc. rewrite !filter_map_length. simpl.
  apply count_children. exact Hs.
Qed.

(* ================================================================ filtered suites (lcc report with a filter) ================ *)
Definition tests_under (s : suite_result) : list test_result := flat_map s_tests_of (flatten_suite s).
Definition results_under (s : suite_result) : list (rkind * result) := flat_map suite_results (flatten_suite s).

Lemma tests_under_unfold : forall m a e su td ts subs,
  tests_under (SuiteResult m a e su td ts subs) = ts ++ flat_map tests_under subs.
Proof. intros. unfold tests_under. simpl. rewrite flat_map_comp. reflexivity. Qed.

Lemma results_under_unfold : forall m a e su td ts subs,
  results_under (SuiteResult m a e su td ts subs) =
  suite_results (SuiteResult m a e su td ts subs) ++ flat_map results_under subs.
Proof. intros. unfold results_under. simpl. rewrite flat_map_comp. reflexivity. Qed.

Lemma empty_suite_nothing : forall s, suite_is_empty s = true -> tests_under s = [] /\ results_under s = [].
Proof.
  induction s as [m a e su td ts subs IH] using suite_ind'. intro H. simpl in H.
  apply andb_true_iff in H. destruct H as [H Htd]. apply andb_true_iff in H. destruct H as [H Hsu].
  apply andb_true_iff in H. destruct H as [Hts Hsubs].
  destruct ts; [|discriminate]. destruct su; [discriminate|]. destruct td; [discriminate|].
  rewrite tests_under_unfold, results_under_unfold. unfold suite_results. simpl.
  rewrite forallb_forall in Hsubs. rewrite Forall_forall in IH.
  split.
  - induction subs as [|x l IHl]; simpl; auto.
    rewrite (proj1 (IH x (or_introl eq_refl) (Hsubs x (or_introl eq_refl)))). simpl.
    apply IHl; intros; [apply IH | apply Hsubs]; simpl; auto.
  - induction subs as [|x l IHl]; simpl; auto.
    rewrite (proj2 (IH x (or_introl eq_refl) (Hsubs x (or_introl eq_refl)))). simpl.
    apply IHl; intros; [apply IH | apply Hsubs]; simpl; auto.
Qed.

Lemma tests_filter_suite : forall f s,
  tests_under (filter_suite f s) = filter (fun t => f (t_result t)) (tests_under s).
Proof.
  intro f. induction s as [m a e su td ts subs IH] using suite_ind'.
  simpl filter_suite. rewrite !tests_under_unfold, filter_app. f_equal.
  rewrite flat_map_filter_drop.
  - rewrite flat_map_map, filter_flat_map. rewrite Forall_forall in IH.
    apply flat_map_ext_in. intros x Hx. apply IH. exact Hx.
  - intros x _ Hx. apply negb_false_iff in Hx. apply empty_suite_nothing in Hx. tauto.
Qed.

Lemma flatten_tests_under : forall l, flat_map s_tests_of (flatten_suites l) = flat_map tests_under l.
Proof. intro l. unfold flatten_suites. rewrite flat_map_comp. reflexivity. Qed.
Lemma flatten_results_under : forall l, suites_results l = flat_map results_under l.
Proof. intro l. unfold suites_results, flatten_suites. rewrite flat_map_comp. reflexivity. Qed.

(* the tests of the filtered suites are the tests of the report that satisfy the filter, in order *)
Lemma tests_filter_suites : forall f l,
  flat_map s_tests_of (flatten_suites (filter_suites f l)) =
  filter (fun t => f (t_result t)) (flat_map s_tests_of (flatten_suites l)).
Proof.
  intros f l. rewrite !flatten_tests_under. unfold filter_suites.
  rewrite flat_map_filter_drop.
  - rewrite flat_map_map, filter_flat_map. apply flat_map_ext. intro x. apply tests_filter_suite.
  - intros x _ Hx. apply negb_false_iff in Hx. apply empty_suite_nothing in Hx. tauto.
Qed.

Lemma in_filter_opt : forall {A} (f : A -> bool) o x, In x (opt_list (filter_opt f o)) -> In x (opt_list o).
Proof. intros A f [y|] x; simpl; auto. destruct (f y); simpl; auto. Qed.

Lemma results_filter_suite_incl : forall f s kr, In kr (results_under (filter_suite f s)) -> In kr (results_under s).
Proof.
  intro f. induction s as [m a e su td ts subs IH] using suite_ind'. intros kr H.
  simpl filter_suite in H. rewrite results_under_unfold in *. apply in_app_iff in H. apply in_app_iff.
  destruct H as [H|H].
  - left. unfold suite_results in *. simpl in *.
    repeat (rewrite in_app_iff in * ). rewrite !in_map_iff in *.
    destruct H as [[x [E Hx]]|[[x [E Hx]]|[x [E Hx]]]].
    + left. exists x. split; auto. eapply in_filter_opt; eauto.
    + right. left. exists x. split; auto. apply filter_In in Hx. tauto.
    + right. right. exists x. split; auto. eapply in_filter_opt; eauto.
  - right. apply in_flat_map in H. destruct H as [x [Hx Hkr]].
    apply filter_In in Hx. destruct Hx as [Hx _]. apply in_map_iff in Hx. destruct Hx as [y [Ey Hy]]. subst x.
    apply in_flat_map. exists y. split; auto. rewrite Forall_forall in IH. apply IH; auto.
Qed.

Lemma results_filter_suites_incl : forall f l kr,
  In kr (suites_results (filter_suites f l)) -> In kr (suites_results l).
Proof.
  intros f l kr H. rewrite flatten_results_under in *. apply in_flat_map in H. destruct H as [x [Hx Hkr]].
  unfold filter_suites in Hx. apply filter_In in Hx. destruct Hx as [Hx _].
  apply in_map_iff in Hx. destruct Hx as [y [Ey Hy]]. subst x.
  apply in_flat_map. exists y. split; auto. apply results_filter_suite_incl with f. exact Hkr.
Qed.

Lemma suites_results_in_all : forall r kr, In kr (suites_results (rp_suites r)) -> In kr (all_results r).
Proof. intros r kr H. unfold all_results. rewrite !in_app_iff. right. left. exact H. Qed.

(* ================================================================ console ================ *)
Definition label_of (t : test_result) : label := status_label (r_status (t_result t)).

Lemma from_suites_ok : forall suites par s, from_suites suites par = VOk s ->
  stats_agree s (flat_map s_tests_of (flatten_suites suites)).
Proof.
  intros suites par s H. unfold from_suites in H.
  eapply from_results_counts in H; [|apply tests_of_suites_results]. tauto.
Qed.

Lemma shown_lines : forall l,
  concat (map (fun s => map label_of (s_tests_of s)) (filter (fun s => negb (is_nil (s_tests_of s))) l)) =
  map label_of (flat_map s_tests_of l).
Proof.
  induction l as [|s l IH]; simpl; auto.
  destruct (s_tests_of s) eqn:E; simpl.
  - exact IH.
  - rewrite E, IH, map_app. reflexivity.
Qed.

Lemma console_counts : forall truthy f r lines s,
  console_short truthy f r = VOk (COut lines s) ->
  let sel := filter (fun t => f (t_result t)) (all_tests r) in
  concat lines = map label_of sel /\
  stats_agree s (if truthy then sel else all_tests r).
Proof.
  intros truthy f r lines s H sel. unfold console_short in H.
  set (suites := filter_suites f (rp_suites r)) in *.
  assert (L := shown_lines (flatten_suites suites)).
  destruct (filter (fun s0 => negb (is_nil (s_tests_of s0))) (flatten_suites suites)) as [|x shown] eqn:E; [discriminate|].
  destruct (if truthy then from_suites suites (parallelized r) else from_report r) as [s'|e] eqn:E'; [|discriminate].
  inversion H; subst; clear H.
  assert (S : flat_map s_tests_of (flatten_suites suites) = sel) by (unfold suites, sel, all_tests; apply tests_filter_suites).
  split.
  - rewrite <- S, <- L. reflexivity.
  - destruct truthy.
    + rewrite <- S. eapply from_suites_ok; eauto.
    + apply stats_counts in E'. tauto.
Qed.

Lemma forallb_filter_false : forall {A} (p q : A -> bool) l, forallb p (filter q l) = false -> forallb p l = false.
Proof.
  induction l as [|x l IH]; simpl; intro H; [discriminate|].
  destruct (q x); simpl in H.
  - apply andb_false_iff in H. apply andb_false_iff. destruct H; auto.
  - apply andb_false_iff. auto.
Qed.

(* the statuses of the tests selected by a filter are known when those of the whole report are *)
Lemma selected_known : forall f r, statuses_known r ->
  forallb (fun t => known_statusb (t_result t)) (flat_map s_tests_of (flatten_suites (filter_suites f (rp_suites r)))) = true.
Proof.
  intros f r Hk. rewrite tests_filter_suites. fold (all_tests r).
  unfold statuses_known in Hk. rewrite forallb_forall in *. intros t Hin. apply filter_In in Hin. apply Hk. tauto.
Qed.

(* on every report with known statuses, finished or not, the console report (filtered or not) does not raise *)
Lemma console_total : forall truthy f r, statuses_known r -> exists out, console_short truthy f r = VOk out.
Proof.
  intros truthy f r Hk. unfold console_short.
  set (suites := filter_suites f (rp_suites r)).
  destruct (filter (fun s0 => negb (is_nil (s_tests_of s0))) (flatten_suites suites)) as [|x shown] eqn:Esh; [eauto|].
  destruct truthy.
  - unfold from_suites.
    destruct (from_results_known (suites_results suites) (suites_duration (suites_results suites) (parallelized r))
                (flat_map s_tests_of (flatten_suites suites)) (tests_of_suites_results _) (selected_known f r Hk)) as [s Hs].
    rewrite Hs. eauto.
  - destruct (stats_total r Hk) as [s Hs]. rewrite Hs. eauto.
Qed.

(* its only error is the KeyError of a status outside Result.STATUSES *)
Lemma console_err : forall truthy f r e, console_short truthy f r = VErr e -> e = KeyError /\ ~ statuses_known r.
Proof.
  intros truthy f r e H. unfold console_short in H.
  set (suites := filter_suites f (rp_suites r)) in *.
  destruct (filter (fun s0 => negb (is_nil (s_tests_of s0))) (flatten_suites suites)) as [|x shown]; [discriminate|].
  destruct truthy.
  - destruct (from_suites suites (parallelized r)) as [s|e'] eqn:E; [discriminate|]. inversion H; subst; clear H.
    unfold from_suites in E. eapply from_results_err in E; [|apply tests_of_suites_results].
    destruct E as [E1 E2]. split; auto. intro Hk. unfold suites in E2. rewrite (selected_known f r Hk) in E2. discriminate.
  - destruct (from_report r) as [s|e'] eqn:E; [discriminate|]. inversion H; subst. apply stats_err. exact E.
Qed.

(* ================================================================ diff : partition ================ *)
Lemma status_eqb_eq : forall a b, status_eqb a b = true <-> a = b.
Proof.
  intros [a|] [b|]; simpl; split; intro H; try discriminate; auto.
  - apply str_eqb_eq in H. subst; auto.
  - inversion H. apply str_eqb_refl.
Qed.

Lemma find_remove_none : forall p l, find_remove p l = None <-> ~ In p (map fst l).
Proof.
  intros p. induction l as [|t l IH]; simpl.
  - split; auto.
  - destruct (str_eqb (fst t) p) eqn:E.
    + apply str_eqb_eq in E. split; [discriminate|]. intro H. exfalso. apply H. auto.
    + apply str_eqb_neq in E. destruct (find_remove p l) as [[x rest]|].
      * split; [discriminate|]. intro H. exfalso. apply H. right. destruct IH as [_ IH].
        destruct (in_dec (list_eq_dec N.eq_dec) p (map fst l)) as [i|n]; auto. specialize (IH n). discriminate.
      * split; auto. intros _ [H|H]; [contradiction|]. destruct IH as [IH _]. apply IH; auto.
Qed.

Lemma find_remove_some : forall p l t l', find_remove p l = Some (t, l') ->
  fst t = p /\ (forall x, In x l <-> x = t \/ In x l') /\
  (NoDup (map fst l) -> NoDup (map fst l') /\ ~ In p (map fst l')).
Proof.
  intros p. induction l as [|u l IH]; intros t l' H; simpl in H; [discriminate|].
  destruct (str_eqb (fst u) p) eqn:E.
  - inversion H; subst; clear H. apply str_eqb_eq in E. split; auto. split.
    + intro x. simpl. split; intros [A|A]; auto.
    + intro N. inversion N; subst. split; auto.
  - destruct (find_remove p l) as [[x rest]|] eqn:F; [|discriminate]. inversion H; subst; clear H.
    destruct (IH _ _ eq_refl) as [I1 [I2 I3]]. apply str_eqb_neq in E. split; auto. split.
    + intro y. simpl. rewrite I2. tauto.
    + intro N. simpl in N. inversion N as [|a b Hn Hd]; subst. destruct (I3 Hd) as [J1 J2]. simpl. split.
      * constructor; auto. intro Hin. apply Hn. apply in_map_iff in Hin. destruct Hin as [y [Ey Hy]].
        apply in_map_iff. exists y. split; auto. apply I2. auto.
      * intros [A|A]; auto.
Qed.

Definition diff_spec (l1 l2 : list dtest) (d : diff) : Prop :=
  (forall x, In x (d_added d) <-> In x l2 /\ ~ In (fst x) (map fst l1)) /\
  (forall x, In x (d_removed d) <-> In x l1 /\ ~ In (fst x) (map fst l2)) /\
  (forall s1 s2 p, In (s1, s2, p) (d_changed d) <-> In (p, s1) l1 /\ In (p, s2) l2 /\ s1 <> s2) /\
  NoDup (map fst (d_added d)) /\ NoDup (map fst (d_removed d)) /\ NoDup (map snd (d_changed d)).

Lemma in_fst : forall (x : dtest) l, In x l -> In (fst x) (map fst l).
Proof. intros. apply in_map. auto. Qed.

Lemma nodup_fst_unique : forall (l : list dtest) p s s', NoDup (map fst l) -> In (p, s) l -> In (p, s') l -> s = s'.
Proof.
  induction l as [|t l IH]; intros p s s' N H1 H2; [contradiction|].
  simpl in N. inversion N as [|a b Hn Hd]; subst.
  destruct H1 as [H1|H1], H2 as [H2|H2].
  - congruence.
  - subst t. exfalso. apply Hn. simpl. apply (in_fst (p, s')). auto.
  - subst t. exfalso. apply Hn. simpl. apply (in_fst (p, s)). auto.
  - eapply IH; eauto.
Qed.

Lemma diff_partition_lists : forall l1 l2, NoDup (map fst l1) -> NoDup (map fst l2) -> diff_spec l1 l2 (compute_diff l1 l2).
Proof.
  induction l1 as [|t1 l1 IH]; intros l2 N1 N2.
  - simpl. unfold diff_spec. simpl. repeat split; try tauto; try constructor; auto.
  - simpl in N1. inversion N1 as [|a b Hn1 Hd1]; subst. simpl.
    destruct (find_remove (fst t1) l2) as [[t2 l2']|] eqn:F.
    + destruct (find_remove_some _ _ _ _ F) as [Ep [Hl2 Hnd]]. destruct (Hnd N2) as [N2' Hnot].
      specialize (IH l2' Hd1 N2'). destruct IH as [IA [IR [IC [NA [NR NC]]]]].
      assert (Common :
        (forall x, In x (d_added (compute_diff l1 l2')) <-> In x l2 /\ ~ In (fst x) (map fst (t1 :: l1))) /\
        (forall x, In x (d_removed (compute_diff l1 l2')) <-> In x (t1 :: l1) /\ ~ In (fst x) (map fst l2))).
      { split; intro x.
        - rewrite IA, Hl2. simpl. split.
          + intros [Hx Hn]. split; auto. intros [E|E]; auto. apply Hnot. rewrite E. apply in_fst. auto.
          + intros [[Hx|Hx] Hn]; [subst x; exfalso; apply Hn; auto|]. split; auto.
        - rewrite IR. simpl. split.
          + intros [Hx Hn]. split; auto. intro Hin. apply in_map_iff in Hin. destruct Hin as [y [Ey Hy]].
            apply Hl2 in Hy. destruct Hy as [Hy|Hy].
            * subst y. apply Hn1. rewrite <- Ep, Ey. apply in_fst. auto.
            * apply Hn. rewrite <- Ey. apply in_fst. auto.
          + intros [[Hx|Hx] Hn].
            * subst x. exfalso. apply Hn. rewrite <- Ep. apply in_fst. apply Hl2. auto.
            * split; auto. intro Hin. apply Hn. apply in_map_iff in Hin. destruct Hin as [y [Ey Hy]].
              rewrite <- Ey. apply in_fst. apply Hl2. auto. }
      destruct Common as [CA CR].
      assert (ChangedRest : forall s1 s2 p, In (s1, s2, p) (d_changed (compute_diff l1 l2')) <->
                 In (p, s1) l1 /\ In (p, s2) l2 /\ s1 <> s2 /\ p <> fst t1).
      { intros s1 s2 p. rewrite IC, Hl2. split.
        - intros [H1 [H2 H3]]. repeat split; auto. intro E. apply Hn1. rewrite <- E. apply (in_fst (p, s1)). auto.
        - intros [H1 [[H2|H2] [H3 H4]]]; [|tauto]. exfalso. apply H4. rewrite <- H2 in Ep. simpl in Ep. auto. }
      destruct t1 as [p1 s1]. destruct t2 as [p2 s2]. simpl in *. subst p2.
      assert (Hin2 : In (p1, s2) l2) by (apply Hl2; auto).
      destruct (status_eqb s2 s1) eqn:Es.
      * apply status_eqb_eq in Es. subst s2. unfold diff_spec.
        split; [exact CA|]. split; [exact CR|]. split; [|auto].
        intros a b p. split.
        -- intro H. apply ChangedRest in H. destruct H as [H1 [H2 [H3 H4]]]. simpl. auto.
        -- intros [[H1|H1] [H2 H3]].
           ++ inversion H1; subst. exfalso. apply H3. apply (nodup_fst_unique l2 p a b); auto.
           ++ apply ChangedRest. repeat split; auto. intro E. subst p. apply Hn1. apply (in_fst (p1, a)). auto.
      * assert (Hne : s1 <> s2) by (intro E; subst; rewrite status_eqb_refl in Es; discriminate).
        unfold diff_spec. simpl.
        split; [exact CA|]. split; [exact CR|]. split; [|split; [auto|split; [auto|]]].
        -- intros a b p. split.
           ++ intros [H|H].
              ** inversion H; subst. auto.
              ** apply ChangedRest in H. destruct H as [H1 [H2 [H3 H4]]]. auto.
           ++ intros [[H1|H1] [H2 H3]].
              ** inversion H1; subst. left. assert (s2 = b) by (apply (nodup_fst_unique l2 p s2 b); auto). subst; auto.
              ** right. apply ChangedRest. repeat split; auto. intro E. subst p. apply Hn1. apply (in_fst (p1, a)). auto.
        -- constructor; auto. intro Hin. apply in_map_iff in Hin. destruct Hin as [[[a b] c] [Ec Hc]]. simpl in Ec. subst c.
           apply ChangedRest in Hc. tauto.
    + assert (Hnone := proj1 (find_remove_none _ _) F).
      specialize (IH l2 Hd1 N2). destruct IH as [IA [IR [IC [NA [NR NC]]]]].
      unfold diff_spec. simpl.
      split; [|split; [|split; [|split; [auto|split; [|auto]]]]].
      * intro x. rewrite IA. split.
        -- intros [Hx Hn]. split; auto. intros [E|E]; auto. apply Hnone. rewrite E. apply in_fst. auto.
        -- intros [Hx Hn]. split; auto.
      * intro x. rewrite IR. split.
        -- intros [H|H]; [subst; split; auto|]. destruct H. split; auto.
        -- intros [[H|H] H']; auto.
      * intros a b p. rewrite IC. split.
        -- intros [H1 [H2 H3]]. auto.
        -- intros [[H|H] [H2 H3]]; auto. subst t1. exfalso. apply Hnone. simpl. apply (in_fst (p, b)). auto.
      * constructor; auto. intro Hin. apply in_map_iff in Hin. destruct Hin as [y [Ey Hy]]. apply IR in Hy.
        apply Hn1. rewrite <- Ey. apply in_fst. tauto.
Qed.

(* every path of either list falls in exactly one of the four classes *)
Definition in_added (p : str) (d : diff) : Prop := In p (map fst (d_added d)).
Definition in_removed (p : str) (d : diff) : Prop := In p (map fst (d_removed d)).
Definition in_changed (p : str) (d : diff) : Prop := In p (map snd (d_changed d)).
Definition unchanged (p : str) (l1 l2 : list dtest) : Prop := exists s, In (p, s) l1 /\ In (p, s) l2.
Definition exactly_one (A B C D : Prop) : Prop :=
  (A /\ ~ B /\ ~ C /\ ~ D) \/ (~ A /\ B /\ ~ C /\ ~ D) \/ (~ A /\ ~ B /\ C /\ ~ D) \/ (~ A /\ ~ B /\ ~ C /\ D).

Lemma str_in_dec : forall (p : str) l, {In p l} + {~ In p l}.
Proof. intros. apply in_dec. apply list_eq_dec. apply N.eq_dec. Qed.

Lemma in_map_fst_ex : forall p (l : list dtest), In p (map fst l) -> exists s, In (p, s) l.
Proof. intros p l H. apply in_map_iff in H. destruct H as [[q s] [E H]]. simpl in E. subst. eauto. Qed.

Lemma diff_exactly_once : forall l1 l2 d, NoDup (map fst l1) -> NoDup (map fst l2) -> diff_spec l1 l2 d ->
  forall p, In p (map fst l1) \/ In p (map fst l2) ->
  exactly_one (in_added p d) (in_removed p d) (in_changed p d) (unchanged p l1 l2).
Proof.
  intros l1 l2 d N1 N2 [IA [IR [IC _]]] p Hp. unfold exactly_one, in_added, in_removed, in_changed, unchanged.
  assert (NA1 : In p (map fst l1) -> ~ In p (map fst (d_added d))).
  { intros H1 H. apply in_map_iff in H. destruct H as [x [E H]]. apply IA in H. subst p. tauto. }
  assert (NR2 : In p (map fst l2) -> ~ In p (map fst (d_removed d))).
  { intros H1 H. apply in_map_iff in H. destruct H as [x [E H]]. apply IR in H. subst p. tauto. }
  assert (NA2 : ~ In p (map fst l2) -> ~ In p (map fst (d_added d))).
  { intros H1 H. apply in_map_iff in H. destruct H as [x [E H]]. apply IA in H. subst p. apply H1. apply in_fst. tauto. }
  assert (NR1 : ~ In p (map fst l1) -> ~ In p (map fst (d_removed d))).
  { intros H1 H. apply in_map_iff in H. destruct H as [x [E H]]. apply IR in H. subst p. apply H1. apply in_fst. tauto. }
  assert (NC : ~ In p (map fst l1) \/ ~ In p (map fst l2) -> ~ In p (map snd (d_changed d))).
  { intros H1 H. apply in_map_iff in H. destruct H as [[[a b] q] [E H]]. simpl in E. subst q. apply IC in H.
    destruct H as [Ha [Hb _]]. destruct H1 as [H1|H1]; apply H1.
    - apply (in_fst (p, a)); auto.
    - apply (in_fst (p, b)); auto. }
  assert (NU : ~ In p (map fst l1) \/ ~ In p (map fst l2) -> ~ (exists s, In (p, s) l1 /\ In (p, s) l2)).
  { intros H1 [s [Ha Hb]]. destruct H1 as [H1|H1]; apply H1.
    - apply (in_fst (p, s)); auto.
    - apply (in_fst (p, s)); auto. }
  destruct (str_in_dec p (map fst l1)) as [H1|H1], (str_in_dec p (map fst l2)) as [H2|H2].
  - destruct (in_map_fst_ex _ _ H1) as [s1 Hs1]. destruct (in_map_fst_ex _ _ H2) as [s2 Hs2].
    destruct (status_eqb s1 s2) eqn:E.
    + apply status_eqb_eq in E. subst s2. right. right. right. repeat split; auto; [| eauto].
      intro H. apply in_map_iff in H. destruct H as [[[a b] q] [Eq H]]. simpl in Eq. subst q. apply IC in H.
      destruct H as [Ha [Hb Hne]]. apply Hne.
      rewrite (nodup_fst_unique l1 p a s1 N1 Ha Hs1). rewrite (nodup_fst_unique l2 p b s1 N2 Hb Hs2). reflexivity.
    + assert (Hne : s1 <> s2) by (intro Eq; subst; rewrite status_eqb_refl in E; discriminate).
      right. right. left. repeat split; auto.
      * apply in_map_iff. exists (s1, s2, p). split; auto. apply IC. auto.
      * intros [s [Ha Hb]]. apply Hne.
        rewrite (nodup_fst_unique l1 p s1 s N1 Hs1 Ha). rewrite (nodup_fst_unique l2 p s2 s N2 Hs2 Hb). reflexivity.
  - destruct (in_map_fst_ex _ _ H1) as [s1 Hs1]. right. left. repeat split; auto.
    apply in_map_iff. exists (p, s1). split; auto. apply IR. auto.
  - destruct (in_map_fst_ex _ _ H2) as [s2 Hs2]. left. repeat split; auto.
    apply in_map_iff. exists (p, s2). split; auto. apply IA. auto.
  - tauto.
Qed.

(* report level *)
Definition unique_test_paths (r : report) : Prop := NoDup (map fst (tests_with_path r)).

Lemma nodup_map_fst_filter : forall {A B} (h : A * B -> bool) (l : list (A * B)),
  NoDup (map fst l) -> NoDup (map fst (filter h l)).
Proof.
  induction l as [|x l IH]; simpl; intro N; auto. inversion N as [|a b Hn Hd]; subst.
  destruct (h x); simpl; auto. constructor; auto.
  intro Hin. apply Hn. apply in_map_iff in Hin. destruct Hin as [y [Ey Hy]]. apply filter_In in Hy.
  apply in_map_iff. exists y. tauto.
Qed.

Lemma dtests_nodup : forall f r, unique_test_paths r -> NoDup (map fst (dtests f r)).
Proof.
  intros f r N. unfold dtests. rewrite map_map. simpl.
  apply (nodup_map_fst_filter (fun pt => f (t_result (snd pt)))). exact N.
Qed.

Fixpoint nodupb (l : list str) : bool :=
  match l with [] => true | x :: l' => negb (existsb (str_eqb x) l') && nodupb l' end.
Lemma nodupb_NoDup : forall l, nodupb l = true -> NoDup l.
Proof.
  induction l as [|x l IH]; simpl; intro H; constructor.
  - apply andb_true_iff in H. destruct H as [H _]. apply negb_true_iff in H. intro Hin.
    assert (existsb (str_eqb x) l = true) by (apply existsb_exists; exists x; split; auto; apply str_eqb_refl). congruence.
  - apply IH. apply andb_true_iff in H. tauto.
Qed.

(* ================================================================ witnesses ================ *)
Definition w_name (c : N) : str := [c].
Definition w_meta (c : N) : meta := mkMeta (w_name c) (w_name c) [] [] [].
(* an unfinished run: suite "s" with one test "t" in progress that already logged an error *)
Definition w_open_result : result :=
  mkResult (Some 1002%Z) None None None [mkStep (w_name 97) (Some 1003%Z) None [LLog s_error (w_name 98) 1004%Z]].
Definition w_unfinished : report :=
  mkReport [] [] (Some 1000%Z) None None 1%Z None None
    [SuiteResult (w_meta 115) (Some 1001%Z) None None None [mkTest (w_meta 116) w_open_result] []].

(* a report (not producible by the report writer) whose only test is recorded as failed but holds no failing log *)
Definition w_nocause : report :=
  mkReport [] [] (Some 1000%Z) (Some 9000%Z) None 1%Z None None
    [SuiteResult (w_meta 115) (Some 1001%Z) (Some 8000%Z) None None
       [mkTest (w_meta 116) (mkResult (Some 1002%Z) (Some 1003%Z) (Some s_failed) None [])] []].

(* a finished run with the four statuses, a failure made of an error log and one made of a failed check *)
Definition w_res (s e : Z) (st : str) (logs : list steplog) : result :=
  mkResult (Some s) (Some e) (Some st) None
           (match logs with [] => [] | _ => [mkStep (w_name 97) (Some s) (Some e) logs] end).
Definition w_finished : report :=
  mkReport [] [] (Some 1000%Z) (Some 9000%Z) None 1%Z None None
    [SuiteResult (w_meta 115) (Some 1001%Z) (Some 8000%Z) (Some (w_res 1001 1002 s_passed [LLog s_info (w_name 98) 1001%Z])) None
       [mkTest (w_meta 97) (w_res 1100 1200 s_passed [LCheck (w_name 99) true None 1150%Z]);
        mkTest (w_meta 98) (w_res 1300 1400 s_failed [LLog s_error (w_name 99) 1350%Z]);
        mkTest (w_meta 99) (w_res 1500 1600 s_failed [LCheck (w_name 99) false (Some (w_name 100)) 1550%Z]);
        mkTest (w_meta 100) (w_res 1700 1700 s_skipped []);
        mkTest (w_meta 101) (w_res 1800 1800 s_disabled [])]
       [SuiteResult (w_meta 117) (Some 2000%Z) (Some 3000%Z) None None
          [mkTest (w_meta 97) (w_res 2100 2200 s_passed [])] []];
     SuiteResult (w_meta 118) (Some 4000%Z) (Some 5000%Z) None None [] []].
(* the same run where test s.b now passes, s.d was removed and s.z added *)
Definition w_finished2 : report :=
  mkReport [] [] (Some 1000%Z) (Some 9000%Z) None 1%Z None None
    [SuiteResult (w_meta 115) (Some 1001%Z) (Some 8000%Z) None None
       [mkTest (w_meta 97) (w_res 1100 1200 s_passed []);
        mkTest (w_meta 98) (w_res 1300 1400 s_passed []);
        mkTest (w_meta 99) (w_res 1500 1600 s_failed [LCheck (w_name 99) false None 1550%Z]);
        mkTest (w_meta 122) (w_res 1700 1700 s_skipped []);
        mkTest (w_meta 101) (w_res 1800 1800 s_disabled [])]
       [SuiteResult (w_meta 117) (Some 2000%Z) (Some 3000%Z) None None
          [mkTest (w_meta 97) (w_res 2100 2200 s_passed [])] []]].
Definition f_enabled_only : rfilter := mkFilter [] true false.

Lemma status_is_true : forall st x, status_is st x = true <-> r_status x = Some st.
Proof.
  intros st x. unfold status_is. destruct (r_status x) as [y|]; split; intro H; try discriminate.
  - apply str_eqb_eq in H. subst; auto.
  - inversion H. apply str_eqb_refl.
Qed.

(* the OK / KO / -- label of the console lines *)
Definition status_in_enum (o : option str) : Prop :=
  o = None \/ o = Some s_passed \/ o = Some s_failed \/ o = Some s_skipped \/ o = Some s_disabled.
Lemma label_spec : forall o, status_in_enum o ->
  (status_label o = LOK <-> o = Some s_passed) /\ (status_label o = LKO <-> o = Some s_failed).
Proof.
  intros o [H|[H|[H|[H|H]]]]; subst; vm_compute; split; split; intro H; try discriminate; auto.
Qed.

Lemma no_shown_no_tests : forall l,
  filter (fun s => negb (is_nil (s_tests_of s))) l = [] -> flat_map s_tests_of l = [].
Proof.
  induction l as [|s l IH]; simpl; auto. destruct (s_tests_of s) eqn:E; simpl; [auto | discriminate].
Qed.

Lemma console_no_test : forall truthy f r, console_short truthy f r = VOk CNoTest ->
  filter (fun t => f (t_result t)) (all_tests r) = [].
Proof.
  intros truthy f r H. unfold console_short in H.
  destruct (filter (fun s0 => negb (is_nil (s_tests_of s0))) (flatten_suites (filter_suites f (rp_suites r)))) as [|x l] eqn:E.
  - apply no_shown_no_tests in E. rewrite tests_filter_suites in E. exact E.
  - destruct (if truthy then _ else _); discriminate.
Qed.

(* ================================================================ the statements of Props/C20.v ================ *)
Lemma thm_junit_children : forall r j, junit_report r = VOk j ->
  flat_map js_cases (jr_suites j) = map (fun t => mkCase (m_name (t_meta t)) (junit_children (t_result t))) (all_tests r) /\
  forall t, In t (all_tests r) ->
    has_skipped_child (junit_children (t_result t)) = status_is s_skipped (t_result t) /\
    has_fail_child (junit_children (t_result t)) =
      status_is s_failed (t_result t) && negb (forallb step_successful (r_steps (t_result t))).
Proof. intros r j H. split; [apply junit_cases_all; exact H | intros t _; apply junit_children_spec]. Qed.

(* F12 repaired: a failure/error child only on a failed test, a skipped child exactly on a skipped test, nothing at all on a
   test in progress -- for every test, no hypothesis *)
Lemma thm_junit_child_status : forall r j, junit_report r = VOk j ->
  forall t, In t (all_tests r) ->
    (has_fail_child (junit_children (t_result t)) = true -> r_status (t_result t) = Some s_failed) /\
    (has_skipped_child (junit_children (t_result t)) = true <-> r_status (t_result t) = Some s_skipped) /\
    (r_status (t_result t) = None -> junit_children (t_result t) = []).
Proof.
  intros r j _ t _. destruct (junit_children_spec (t_result t)) as [H1 H2]. split; [|split].
  - rewrite H2. intro H. apply andb_true_iff in H. apply status_is_true. tauto.
  - rewrite H1. apply status_is_true.
  - intro H. unfold junit_children, status_is. rewrite H. reflexivity.
Qed.

Lemma thm_junit_iff_partial : forall r j, junit_report r = VOk j ->
  forall t, In t (all_tests r) -> failed_has_cause (t_result t) ->
    (has_fail_child (junit_children (t_result t)) = true <-> r_status (t_result t) = Some s_failed) /\
    (has_skipped_child (junit_children (t_result t)) = true <-> r_status (t_result t) = Some s_skipped).
Proof.
  intros r j _ t _ Hs. destruct (junit_iff_cause _ Hs) as [H1 H2]. rewrite H1, H2. split; apply status_is_true.
Qed.

(* the hypothesis is needed: a test recorded as failed without any failing log has no child, and the counter says 1 *)
Lemma thm_junit_iff_needs_failing_log : exists r j t,
  junit_report r = VOk j /\ In t (all_tests r) /\ r_status (t_result t) = Some s_failed /\
  ~ failed_has_cause (t_result t) /\
  has_fail_child (junit_children (t_result t)) = false /\
  jr_failures j = 1 /\ map js_failures (jr_suites j) = [1].
Proof.
  exists w_nocause. eexists. exists (mkTest (w_meta 116) (mkResult (Some 1002%Z) (Some 1003%Z) (Some s_failed) None [])).
  split; [vm_compute; reflexivity|]. split; [simpl; auto|]. split; [reflexivity|].
  split; [intro H; specialize (H eq_refl); discriminate H|]. vm_compute. auto.
Qed.

(* F12, the code before the repair: an in-progress test with an error log got an <error> child although its status is not
   failed and every failures counter is 0; the repaired code gives that testcase no child *)
Lemma thm_junit_iff_unfixed_refuted : exists r j t,
  junit_report r = VOk j /\ In t (all_tests r) /\ r_status (t_result t) = None /\
  junit_children_unfixed (t_result t) = [JError] /\
  has_fail_child (junit_children_unfixed (t_result t)) = true /\
  jr_failures j = 0 /\ map js_failures (jr_suites j) = [0] /\
  flat_map js_cases (jr_suites j) = [mkCase (m_name (t_meta t)) []].
Proof.
  exists w_unfinished. eexists. exists (mkTest (w_meta 116) w_open_result).
  split; [vm_compute; reflexivity|]. vm_compute. intuition.
Qed.

Lemma thm_junit_counters : forall r j, junit_report r = VOk j ->
  Forall2 (fun ps js =>
             js_name js = path_str (fst ps) /\
             js_tests js = length (s_tests_of (snd ps)) /\
             js_failures js = count_in s_failed (s_tests_of (snd ps)) /\
             js_skipped js = count_in s_skipped (s_tests_of (snd ps)))
          (junit_shown r) (jr_suites j) /\
  list_sum (map js_tests (jr_suites j)) = length (all_tests r) /\
  list_sum (map js_failures (jr_suites j)) = count_status s_failed r /\
  list_sum (map js_skipped (jr_suites j)) = count_status s_skipped r /\
  jr_failures j = count_status s_failed r /\ jr_tests j = count_status s_passed r.
Proof.
  intros r j H. destruct (junit_structure r j H) as [S [T F]]. destruct (junit_counter_sums r j H) as [A [B C]].
  repeat split; auto. clear -S. induction S as [|ps js l l' Hs _ IH]; constructor; auto.
  unfold jsuite_spec in Hs. tauto.
Qed.

Lemma thm_junit_counters_children_partial : forall r j, junit_report r = VOk j ->
  Forall (fun t => failed_has_cause (t_result t)) (all_tests r) ->
  Forall (fun js => js_failures js = length (filter (fun c => has_fail_child (jc_children c)) (js_cases js)) /\
                    js_skipped js = length (filter (fun c => has_skipped_child (jc_children c)) (js_cases js)))
         (jr_suites j).
Proof.
  intros r j H Hs. destruct (junit_structure r j H) as [S _]. rewrite <- shown_tests in Hs.
  induction S as [|ps js l l' Hj _ IH]; constructor.
  - apply (junit_counter_children ps js Hj). simpl in Hs. apply Forall_app in Hs. tauto.
  - apply IH. simpl in Hs. apply Forall_app in Hs. tauto.
Qed.

Lemma thm_stats_counts : forall r s, from_report r = VOk s ->
  st_tests_nb s = length (all_tests r) /\
  n_passed (st_by s) = count_status s_passed r /\ n_failed (st_by s) = count_status s_failed r /\
  n_skipped (st_by s) = count_status s_skipped r /\ n_disabled (st_by s) = count_status s_disabled r /\
  enabled_nb (st_by s) = count_status s_passed r + count_status s_failed r + count_status s_skipped r.
Proof.
  intros r s H. destruct (stats_counts r s H) as [[A [B [C [D E]]]] _]. unfold enabled_nb, count_status.
  rewrite A, B, C, D, E. repeat split; reflexivity.
Qed.

Lemma thm_stats_total : forall r,
  (statuses_known r -> exists s, from_report r = VOk s) /\
  (forall e, from_report r = VErr e -> e = KeyError /\ ~ statuses_known r).
Proof. intro r. split; [apply stats_total | apply stats_err]. Qed.

Lemma thm_message_total : forall r,
  (statuses_known r -> exists m, message_ints r = VOk m) /\
  (forall e, message_ints r = VErr e -> e = KeyError /\ ~ statuses_known r).
Proof. intro r. split; [apply message_vars_total | apply message_vars_err]. Qed.

Lemma thm_message_unfixed_refuted : exists r m, statuses_known r /\ rp_end r = None /\
  message_ints_unfixed r = VErr TypeError /\
  message_ints r = VOk m /\ mv_duration m = None /\ mv_total m = 1.
Proof. exists w_unfinished. eexists. repeat split; vm_compute; reflexivity. Qed.

Definition enabled_count (r : report) : nat := count_status s_passed r + count_status s_failed r + count_status s_skipped r.

Lemma thm_message_pcts : forall r m, message_ints r = VOk m ->
  let p := message_pcts m in
  p_passed p = pct (count_status s_passed r) (enabled_count r) /\
  p_failed p = pct (count_status s_failed r) (enabled_count r) /\
  p_skipped p = pct (count_status s_skipped r) (enabled_count r) /\
  p_disabled p = pct (count_status s_disabled r) (length (all_tests r)) /\
  (0 <= p_passed p + p_failed p + p_skipped p <= 100)%Z /\
  (0 < enabled_count r -> (98 <= p_passed p + p_failed p + p_skipped p)%Z) /\
  (0 <= p_disabled p)%Z.
Proof.
  intros r m H p. destruct (message_vars r m H) as [Ht [Hp [Hf [Hs [Hd He]]]]].
  unfold p, message_pcts, enabled_count. simpl. rewrite Ht, Hp, Hf, Hs, Hd, He.
  destruct (pct_sum (count_status s_passed r) (count_status s_failed r) (count_status s_skipped r)) as [S1 S2].
  repeat split; try reflexivity; try (apply S1); try exact S2. apply pct_nonneg.
Qed.

Lemma thm_pct_floor : forall v o,
  (o = 0 -> pct v o = 0%Z) /\
  (0 < o -> (pct v o * Z.of_nat o <= Z.of_nat v * 100 < (pct v o + 1) * Z.of_nat o)%Z) /\
  (v <= o -> (0 <= pct v o <= 100)%Z).
Proof.
  intros v o. split; [intro; subst; apply pct_zero|]. split; [apply pct_floor | apply pct_range].
Qed.

Lemma thm_console_counts : forall truthy f r lines s,
  console_short truthy f r = VOk (COut lines s) ->
  let sel := filter (fun t => f (t_result t)) (all_tests r) in
  let shown := if truthy then sel else all_tests r in
  concat lines = map label_of sel /\
  sm_tests (summary_of s) = length shown /\
  sm_passed (summary_of s) = count_in s_passed shown /\
  sm_failed (summary_of s) = count_in s_failed shown /\
  sm_skipped (summary_of s) = nz (count_in s_skipped shown) /\
  sm_disabled (summary_of s) = nz (count_in s_disabled shown) /\
  summary_pct s = pct (count_in s_passed shown) (count_in s_passed shown + count_in s_failed shown + count_in s_skipped shown).
Proof.
  intros truthy f r lines s H sel shown. destruct (console_counts truthy f r lines s H) as [L [A [B [C [D E]]]]].
  unfold summary_of, summary_pct, enabled_nb. simpl. fold sel in A, B, C, D, E. fold shown in A, B, C, D, E.
  rewrite A, B, C, D, E. repeat split; auto.
Qed.

(* the console percentage of the unfiltered report is the passed_pct message variable *)
Lemma thm_console_pct_is_message_pct : forall r s m, from_report r = VOk s -> message_ints r = VOk m ->
  summary_pct s = p_passed (message_pcts m).
Proof.
  intros r s m Hs Hm. unfold message_ints in Hm. rewrite Hs in Hm. inversion Hm; subst. reflexivity.
Qed.

Lemma thm_console_total : forall truthy f r,
  (statuses_known r -> exists out, console_short truthy f r = VOk out) /\
  (forall e, console_short truthy f r = VErr e -> e = KeyError /\ ~ statuses_known r).
Proof. intros truthy f r. split; [apply console_total | apply console_err]. Qed.

Lemma thm_console_labels : forall t, status_in_enum (r_status (t_result t)) ->
  (label_of t = LOK <-> r_status (t_result t) = Some s_passed) /\ (label_of t = LKO <-> r_status (t_result t) = Some s_failed).
Proof. intros t H. apply label_spec. exact H. Qed.

(* F13, the code before the repair: ReportStats.from_suites raised TypeError on the filtered suites of an unfinished report
   whose last selected result is in progress (and IndexError on an empty selection); the repaired code returns, duration n/a *)
Lemma thm_console_unfixed_refuted : exists r s, statuses_known r /\ rf_truthy f_enabled_only = true /\
  from_suites_unfixed (filter_suites (rf_apply f_enabled_only) (rp_suites r)) (parallelized r) = VErr TypeError /\
  from_suites_unfixed [] false = VErr IndexError /\
  console_short true (rf_apply f_enabled_only) r = VOk (COut [[LDash]] s) /\
  st_duration s = None /\ st_tests_nb s = 1 /\
  exists s0, from_suites [] false = VOk s0 /\ st_tests_nb s0 = 0 /\ st_duration s0 = None.
Proof.
  exists w_unfinished. eexists. repeat split; try (vm_compute; reflexivity). eexists. vm_compute. auto.
Qed.

Lemma thm_diff_partition : forall f r1 r2, unique_test_paths r1 -> unique_test_paths r2 ->
  let l1 := dtests f r1 in let l2 := dtests f r2 in let d := diff_reports f r1 r2 in
  (forall x, In x (d_added d) <-> In x l2 /\ ~ In (fst x) (map fst l1)) /\
  (forall x, In x (d_removed d) <-> In x l1 /\ ~ In (fst x) (map fst l2)) /\
  (forall s1 s2 p, In (s1, s2, p) (d_changed d) <-> In (p, s1) l1 /\ In (p, s2) l2 /\ s1 <> s2) /\
  NoDup (map fst (d_added d)) /\ NoDup (map fst (d_removed d)) /\ NoDup (map snd (d_changed d)) /\
  forall p, In p (map fst l1) \/ In p (map fst l2) ->
    exactly_one (in_added p d) (in_removed p d) (in_changed p d) (unchanged p l1 l2).
Proof.
  intros f r1 r2 U1 U2 l1 l2 d.
  assert (N1 := dtests_nodup f r1 U1). assert (N2 := dtests_nodup f r2 U2).
  assert (S := diff_partition_lists _ _ N1 N2). fold l1 l2 in N1, N2, S.
  change (compute_diff l1 l2) with d in S.
  destruct S as [A [B [C [D [E F]]]]]. repeat (split; [assumption|]).
  apply (diff_exactly_once l1 l2 d N1 N2). exact (conj A (conj B (conj C (conj D (conj E F))))).
Qed.

Lemma thm_diff_partition_needs_unique_paths : exists l1 l2 : list dtest,
  (forall x, In x l1 <-> In x l2) /\ length (d_changed (compute_diff l1 l2)) = 2 /\
  ~ NoDup (map snd (d_changed (compute_diff l1 l2))).
Proof.
  exists [([112%N], Some s_passed); ([112%N], Some s_failed)], [([112%N], Some s_failed); ([112%N], Some s_passed)].
  split; [|split].
  - intro x. simpl. tauto.
  - vm_compute. reflexivity.
  - vm_compute. intro N. inversion N as [|a b Hn _]. apply Hn. simpl. auto.
Qed.

Lemma thm_diff_self_empty : forall f r, diff_reports f r r = mkDiff [] [] [] /\ diff_is_empty (diff_reports f r r) = true.
Proof. intros f r. unfold diff_reports. rewrite diff_self_empty. split; reflexivity. Qed.
