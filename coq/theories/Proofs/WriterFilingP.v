(* Where the writer (Model/Writer.v, lemoncheesecake reporting/writer.py ReportWriter) files the logs, and what status it computes.

   T1 active_wellformed      every Step object a thread has open (w_active) exists: its owner result is in the report and the
                             step index is within the result's steps.
   T2 log_filed_with_thread  a log-like event changes exactly one thing: the log is appended to the open step of the EMITTING THREAD;
                             every other result, and the table of open steps, are unchanged.
   T3 logs_come_from_events  every log found in a result of a reachable state was emitted by an event of the stream whose thread had,
                             at that moment, its open step in that very result.
   T4 status_sound           the End event of a result sets "passed" iff Result.is_successful() held just before; steps unchanged;
                             result_successful characterised in terms of the logs.

   Why no "sibling names are pairwise distinct" invariant is needed: Report.get (find_suite / find_test) and the lookups of the
   writer are both "first child with the name"; get_result below is that same function.  add_suite / add_test refuse (Err Unmodelled)
   a name already present, so an appended child never hides or replaces an existing one, and an update of the first child with a name
   never changes which child is first for any name (names are preserved by every update).

   Only stdlib; depends on Model/Writer.v, Proofs/WriterP.v (string equality lemmas, apply_all_app) and Model/Saving.v (only for the
   bridge lemma get_result_saving: the get_result defined here is the Report.get of Model/Saving.v). *)
From Coq Require Import List NArith ZArith Bool Lia Arith.
Import ListNotations.
From LCC Require Import Base.Util Model.Report Model.Events Model.Writer Proofs.WriterP.
From LCC Require Model.Saving.

(* ====================================================================================================================== *)
(* 0. definitions                                                                                                          *)
(* ====================================================================================================================== *)
(* testtree.find_suite at one level: first suite with the name *)
Fixpoint find_first (n : str) (l : list lsuite) : option lsuite :=
  match l with
  | [] => None
  | s :: r => if str_eqb (ls_name s) n then Some s else find_first n r
  end.

(* find_suite(report._suites, hierarchy); the empty hierarchy resolves to nothing *)
Fixpoint get_suite (p : path) (l : list lsuite) : option lsuite :=
  match p with
  | [] => None
  | n :: rest => match find_first n l with
                 | None => None
                 | Some s => match rest with [] => Some s | _ :: _ => get_suite rest (ls_subs s) end
                 end
  end.

(* first test with the name *)
Fixpoint get_test (n : str) (l : list (Z * test_result)) : option result :=
  match l with
  | [] => None
  | rt :: r => if str_eqb (m_name (t_meta (snd rt))) n then Some (t_result (snd rt)) else get_test n r
  end.

(* Report.get(location): the Result object at a location *)
Definition get_result (w : wstate) (loc : location) : option result :=
  match loc with
  | LocSessionSetup => w_setup w
  | LocSessionTeardown => w_teardown w
  | LocSuiteSetup p => match get_suite p (w_suites w) with Some s => ls_setup s | None => None end
  | LocSuiteTeardown p => match get_suite p (w_suites w) with Some s => ls_teardown s | None => None end
  | LocTest p => match split_last p with
                 | None => None
                 | Some (q, n) => match get_suite q (w_suites w) with Some s => get_test n (ls_tests s) | None => None end
                 end
  end.

Lemma get_result_saving : forall w loc, get_result w loc = Saving.get_result loc w.
Proof.
  assert (F : forall n l, find_first n l = Saving.find_first n l) by (induction l; simpl; auto; rewrite IHl; reflexivity).
  assert (G : forall p l, get_suite p l = Saving.get_suite p l).
  { induction p as [|n rest IH]; intros l; [reflexivity|]. simpl. rewrite F. destruct (Saving.find_first n l); auto. }
  assert (T : forall n l, get_test n l = Saving.get_test n l) by (induction l; simpl; auto; rewrite IHl; reflexivity).
  intros w loc. destruct loc; simpl; auto; try (rewrite G; reflexivity).
Qed.

(* the log a log-like event carries, with the location it names and the emitting thread *)
Definition steplog_of (e : event) : option (location * tid * steplog) :=
  match e with
  | ELog loc _ th _ _ _ | ECheck loc _ th _ _ _ _ | ELogAttachment loc _ th _ _ _ _ | ELogUrl loc _ th _ _ _ =>
      match event_steplog e with Some lg => Some (loc, th, lg) | None => None end
  | _ => None
  end.

Definition logs_of (r : result) : list steplog := concat (map st_logs (r_steps r)).

(* the step i of a list of steps with one more log at the end of its logs *)
Definition add_log (lg : steplog) (st : step) : step :=
  mkStep (st_description st) (st_start st) (st_end st) (st_logs st ++ [lg]).
Fixpoint add_log_at (i : nat) (lg : steplog) (l : list step) : list step :=
  match l, i with
  | [], _ => []
  | st :: r, O => add_log lg st :: r
  | st :: r, S j => st :: add_log_at j lg r
  end.
Definition result_add_log (i : nat) (lg : steplog) (r : result) : result := set_steps r (add_log_at i lg (r_steps r)).

(* the result an End event finishes, and the time it carries *)
Definition end_of (e : event) : option (location * Z) :=
  match e with
  | ETestEnd n t => Some (LocTest (node_path n), t)
  | ESuiteSetupEnd n t => Some (LocSuiteSetup (node_path n), t)
  | ESuiteTeardownEnd n t => Some (LocSuiteTeardown (node_path n), t)
  | ESessionSetupEnd t => Some (LocSessionSetup, t)
  | ESessionTeardownEnd t => Some (LocSessionTeardown, t)
  | _ => None
  end.

Definition reachable (evs : list event) (w : wstate) : Prop := apply_all init_wstate evs = Ok w.

(* ====================================================================================================================== *)
(* 1. monad plumbing                                                                                                       *)
(* ====================================================================================================================== *)
Lemma put_ok : forall A B X (g : A -> B) (x : res (A * X)) b o, put g x = Ok (b, o) -> exists a, x = Ok (a, o) /\ b = g a.
Proof. intros A B X g [[a o']|e] b o H; simpl in H; inversion H; subst. eauto. Qed.

Lemma drop_ok : forall A (x : res (A * unit)) a, drop x = Ok a -> x = Ok (a, tt).
Proof. intros A [[a' []]|e] a H; simpl in H; inversion H; subst. reflexivity. Qed.

Lemma pure_ok : forall A (x : res A) a u, pure x = Ok (a, u) -> x = Ok a.
Proof. intros A [a'|e] a u H; simpl in H; inversion H; subst. reflexivity. Qed.

Lemma bind_ok_inv : forall A B (x : res A) (f : A -> res B) b, bind x f = Ok b -> exists a, x = Ok a /\ f a = Ok b.
Proof. intros A B [a|e] f b H; simpl in H; try discriminate. eauto. Qed.

Lemma str_eqb_neq : forall a b, a <> b -> str_eqb a b = false.
Proof. intros a b H. destruct (str_eqb a b) eqn:E; auto. apply str_eqb_eq in E. contradiction. Qed.

Lemma str_eqb_false : forall a b, str_eqb a b = false -> a <> b.
Proof. intros a b H E. subst. rewrite str_eqb_refl in H. discriminate. Qed.

(* ====================================================================================================================== *)
(* 2. first-match lookups against first-match updates                                                                      *)
(* ====================================================================================================================== *)
Lemma upd_first_names : forall X n (g : lsuite -> res (lsuite * X)) l l' x,
  upd_first n g l = Ok (l', x) ->
  exists pre s post s', l = pre ++ s :: post /\ g s = Ok (s', x) /\ l' = pre ++ s' :: post
                        /\ (forall y, In y pre -> str_eqb (ls_name y) n = false) /\ ls_name s = n.
Proof.
  intros X n g. induction l as [|s r IH]; simpl; intros l' x H; try discriminate.
  destruct (str_eqb (ls_name s) n) eqn:En.
  - apply put_ok in H. destruct H as (s' & Hg & El). exists [], s, r, s'. repeat split; auto. + intros y []. + apply str_eqb_eq; assumption.
  - apply put_ok in H. destruct H as (r' & Hr & El). destruct (IH _ _ Hr) as (pre & s0 & post & s' & E1 & E2 & E3 & E4 & E5).
    subst. exists (s :: pre), s0, post, s'. repeat split; auto. intros y [Hy|Hy]; subst; auto.
Qed.

Lemma find_first_mid : forall n pre s post, (forall y, In y pre -> str_eqb (ls_name y) n = false) -> ls_name s = n ->
  find_first n (pre ++ s :: post) = Some s.
Proof.
  induction pre as [|y pre IH]; simpl; intros s post Hp Hs.
  - rewrite Hs, str_eqb_refl. reflexivity.
  - rewrite (Hp y) by auto. apply IH; auto.
Qed.

(* replacing a suite by one of the same name does not change what the other names find *)
Lemma find_first_other : forall n' pre s s' post, ls_name s' = ls_name s -> str_eqb (ls_name s) n' = false ->
  find_first n' (pre ++ s' :: post) = find_first n' (pre ++ s :: post).
Proof.
  induction pre as [|y pre IH]; simpl; intros s s' post Hn Hs.
  - rewrite Hn, Hs. reflexivity.
  - destruct (str_eqb (ls_name y) n'); auto.
Qed.

(* a slot of a suite that holds a Result *)
Inductive slot := SSetup | STeardown | STest (n : str).
Definition slot_get (sl : slot) (s : lsuite) : option result :=
  match sl with SSetup => ls_setup s | STeardown => ls_teardown s | STest n => get_test n (ls_tests s) end.
Definition sget (q : path) (sl : slot) (l : list lsuite) : option result :=
  match get_suite q l with Some s => slot_get sl s | None => None end.

Lemma slot_get_set_subs : forall sl s u, slot_get sl (set_ls_subs s u) = slot_get sl s.
Proof. destruct sl, s; reflexivity. Qed.

Lemma get_suite_cons : forall n r l,
  get_suite (n :: r) l = match find_first n l with
                         | None => None
                         | Some s => match r with [] => Some s | _ :: _ => get_suite r (ls_subs s) end
                         end.
Proof. reflexivity. Qed.

(* upd_suite p f: the suite at p is replaced by what f makes of it; a path q is p, or goes through p, or sees what it saw *)
Lemma upd_suite_tri : forall X (f : lsuite -> res (lsuite * X)) p l l' x,
  upd_suite p f l = Ok (l', x) -> (forall s s', f s = Ok (s', x) -> ls_name s' = ls_name s) ->
  exists s s', get_suite p l = Some s /\ f s = Ok (s', x) /\ get_suite p l' = Some s' /\
    forall q, q = p
              \/ (exists q', q' <> [] /\ q = p ++ q' /\ get_suite q l' = get_suite q' (ls_subs s')
                             /\ get_suite q l = get_suite q' (ls_subs s))
              \/ (forall sl, sget q sl l' = sget q sl l).
Proof.
  intros X f. induction p as [|n rest IH]; intros l l' x H Hn; [discriminate|].
  destruct rest as [|n2 rest'].
  - cbn [upd_suite] in H. destruct (upd_first_names _ _ _ _ _ _ H) as (pre & s & post & s' & E1 & E2 & E3 & E4 & E5). subst l l'.
    assert (Hs' : ls_name s' = n) by (rewrite (Hn _ _ E2); assumption).
    exists s, s'. rewrite !get_suite_cons, !find_first_mid by auto. repeat split; auto.
    intros [|n' r'].
    + right. right. intros sl. reflexivity.
    + destruct (str_eqb (ls_name s) n') eqn:En.
      * rewrite E5 in En. apply str_eqb_eq in En. subst n'.
        destruct r' as [|a b]; [left; reflexivity|].
        right. left. exists (a :: b). split; [discriminate|]. split; [reflexivity|].
        rewrite !get_suite_cons, !find_first_mid by auto. split; reflexivity.
      * right. right. intros sl. unfold sget. rewrite !get_suite_cons.
        rewrite (find_first_other n' pre s s' post) by (auto; congruence). reflexivity.
  - cbn [upd_suite] in H. destruct (upd_first_names _ _ _ _ _ _ H) as (pre & s0 & post & s0' & E1 & E2 & E3 & E4 & E5). subst l l'.
    apply put_ok in E2. destruct E2 as (u' & Hu & Es). subst s0'.
    destruct (IH _ _ _ Hu Hn) as (s & s' & G1 & G2 & G3 & G4).
    assert (Hs' : ls_name (set_ls_subs s0 u') = n) by (rewrite ls_name_set_subs; assumption).
    exists s, s'. rewrite !get_suite_cons, !find_first_mid by auto. rewrite ls_subs_set_subs. repeat split; auto.
    intros [|n' r'].
    + right. right. intros sl. reflexivity.
    + destruct (str_eqb (ls_name s0) n') eqn:En.
      * rewrite E5 in En. apply str_eqb_eq in En. subst n'.
        destruct r' as [|a b].
        { right. right. intros sl. unfold sget. rewrite !get_suite_cons, !find_first_mid by auto. apply slot_get_set_subs. }
        destruct (G4 (a :: b)) as [Eq | [(q' & Q1 & Q2 & Q3 & Q4) | Same]].
        { left. rewrite Eq. reflexivity. }
        { right. left. exists q'. split; [assumption|]. split; [rewrite Q2; reflexivity|].
          rewrite !get_suite_cons, !find_first_mid by auto. rewrite ls_subs_set_subs. split; assumption. }
        { right. right. intros sl. unfold sget. rewrite !get_suite_cons, !find_first_mid by auto. rewrite ls_subs_set_subs.
          apply (Same sl). }
      * right. right. intros sl. unfold sget. rewrite !get_suite_cons.
        rewrite (find_first_other n' pre s0 (set_ls_subs s0 u') post) by (auto using ls_name_set_subs). reflexivity.
Qed.

(* f changes neither the name nor the sub-suites of the suite at p: a path q is p or sees what it saw *)
Lemma upd_suite_slot : forall X (f : lsuite -> res (lsuite * X)) p l l' x,
  upd_suite p f l = Ok (l', x) ->
  (forall s s', f s = Ok (s', x) -> ls_name s' = ls_name s /\ ls_subs s' = ls_subs s) ->
  exists s s', get_suite p l = Some s /\ f s = Ok (s', x) /\ get_suite p l' = Some s' /\
    forall q, q = p \/ (forall sl, sget q sl l' = sget q sl l).
Proof.
  intros X f p l l' x H Hf.
  destruct (upd_suite_tri _ f p l l' x H) as (s & s' & G1 & G2 & G3 & G4).
  - intros a b Hab. apply (Hf a b Hab).
  - exists s, s'. repeat split; auto. intros q.
    destruct (G4 q) as [Eq | [(q' & Q1 & Q2 & Q3 & Q4) | Same]]; [left; assumption| |right; apply Same].
    right. intros sl. unfold sget. rewrite Q3, Q4. destruct (Hf _ _ G2) as [_ Es]. rewrite Es. reflexivity.
Qed.

(* f changes no Result at all (neither in the suite at p nor below it) *)
Lemma upd_suite_same : forall X (f : lsuite -> res (lsuite * X)) p l l' x,
  upd_suite p f l = Ok (l', x) ->
  (forall s s', f s = Ok (s', x) -> ls_name s' = ls_name s /\ (forall sl, slot_get sl s' = slot_get sl s)
                                    /\ forall q sl, sget q sl (ls_subs s') = sget q sl (ls_subs s)) ->
  forall q sl, sget q sl l' = sget q sl l.
Proof.
  intros X f p l l' x H Hf q sl.
  destruct (upd_suite_tri _ f p l l' x H) as (s & s' & G1 & G2 & G3 & G4).
  - intros a b Hab. apply (Hf a b Hab).
  - destruct (Hf _ _ G2) as (_ & Hslot & Hsub).
    destruct (G4 q) as [Eq | [(q' & Q1 & Q2 & Q3 & Q4) | Same]]; [| |apply Same].
    + subst q. unfold sget. rewrite G1, G3. apply Hslot.
    + unfold sget. rewrite Q3, Q4. exact (Hsub q' sl).
Qed.

Lemma find_first_app : forall n new l,
  find_first n (l ++ [new]) = match find_first n l with
                              | Some s => Some s
                              | None => if str_eqb (ls_name new) n then Some new else None
                              end.
Proof. induction l as [|y l IH]; simpl; auto. destruct (str_eqb (ls_name y) n); auto. Qed.

(* a new suite without results adds no result *)
Lemma sget_add_suite : forall m rk st en l q sl,
  sget q sl (l ++ [LSuite m rk st en None None [] []]) = sget q sl l.
Proof.
  intros. destruct q as [|n r]; [reflexivity|]. unfold sget. rewrite !get_suite_cons, find_first_app.
  destruct (find_first n l); auto.
  destruct (str_eqb _ n); auto. destruct r; [destruct sl; reflexivity | reflexivity].
Qed.

(* ---------------- tests of a suite ---------------- *)
Lemma upd_test_spec : forall X n (f : result -> res (result * X)) l l' x,
  upd_test n f l = Ok (l', x) ->
  exists r r', get_test n l = Some r /\ f r = Ok (r', x) /\ get_test n l' = Some r' /\
               forall n', n' <> n -> get_test n' l' = get_test n' l.
Proof.
  intros X n f. induction l as [|rt r IH]; simpl; intros l' x H; try discriminate.
  destruct (str_eqb (m_name (t_meta (snd rt))) n) eqn:En.
  - apply put_ok in H. destruct H as (r' & Hg & El). subst l'. exists (t_result (snd rt)), r'. simpl. rewrite En.
    repeat split; auto. intros n' Hn'. apply str_eqb_eq in En. rewrite En. rewrite str_eqb_neq by congruence. reflexivity.
  - apply put_ok in H. destruct H as (r' & Hr & El). subst l'. destruct (IH _ _ Hr) as (a & b & G1 & G2 & G3 & G4).
    exists a, b. simpl. rewrite En. repeat split; auto. intros n' Hn'. rewrite (G4 n' Hn'). reflexivity.
Qed.

Lemma get_test_app : forall n rk m r l,
  get_test n (l ++ [(rk, mkTest m r)]) = match get_test n l with
                                         | Some x => Some x
                                         | None => if str_eqb (m_name m) n then Some r else None
                                         end.
Proof. induction l as [|y l IH]; simpl; auto. destruct (str_eqb (m_name (t_meta (snd y))) n); auto. Qed.

Lemma test_taken_get : forall n l, test_taken n l = false -> get_test n l = None.
Proof.
  induction l as [|y l IH]; simpl; intros H; auto. apply orb_false_iff in H. destruct H as [H1 H2]. rewrite H1. auto.
Qed.

(* ---------------- slots ---------------- *)
Definition slot_upd {X} (sl : slot) (ne : err) (f : result -> res (result * X)) (s : lsuite) : res (lsuite * X) :=
  match sl with
  | SSetup => put (set_ls_setup s) (upd_opt_result ne f (ls_setup s))
  | STeardown => put (set_ls_teardown s) (upd_opt_result ne f (ls_teardown s))
  | STest n => put (set_ls_tests s) (upd_test n f (ls_tests s))
  end.

Lemma upd_opt_result_ok : forall X ne (f : result -> res (result * X)) o o' x,
  upd_opt_result ne f o = Ok (o', x) -> exists r r', o = Some r /\ f r = Ok (r', x) /\ o' = Some r'.
Proof.
  intros X ne f [r|] o' x H; simpl in H; try discriminate. apply put_ok in H. destruct H as (r' & Hf & E). eauto.
Qed.

Lemma slot_upd_spec : forall X sl ne (f : result -> res (result * X)) s s' x,
  slot_upd sl ne f s = Ok (s', x) ->
  ls_name s' = ls_name s /\ ls_subs s' = ls_subs s /\
  exists r r', slot_get sl s = Some r /\ f r = Ok (r', x) /\ slot_get sl s' = Some r' /\
               forall sl', sl' <> sl -> slot_get sl' s' = slot_get sl' s.
Proof.
  intros X sl ne f s s' x H. destruct sl; cbn [slot_upd] in H; apply put_ok in H; destruct H as (o' & Ho & E); subst s'.
  - apply upd_opt_result_ok in Ho. destruct Ho as (r & r' & E1 & E2 & E3). subst o'.
    destruct s; simpl in *. repeat split; auto. exists r, r'. repeat split; auto.
    intros [| |n] Hne; [contradiction| |]; reflexivity.
  - apply upd_opt_result_ok in Ho. destruct Ho as (r & r' & E1 & E2 & E3). subst o'.
    destruct s; simpl in *. repeat split; auto. exists r, r'. repeat split; auto.
    intros [| |n] Hne; [|contradiction|]; reflexivity.
  - destruct (upd_test_spec _ _ _ _ _ _ Ho) as (r & r' & E1 & E2 & E3 & E4).
    destruct s; simpl in *. repeat split; auto. exists r, r'. repeat split; auto.
    intros [| |n'] Hne; try reflexivity. simpl. apply E4. congruence.
Qed.

(* ---------------- locations ---------------- *)
Definition loc_slot (loc : location) : option (path * slot) :=
  match loc with
  | LocSuiteSetup p => Some (p, SSetup)
  | LocSuiteTeardown p => Some (p, STeardown)
  | LocTest p => match split_last p with Some (q, n) => Some (q, STest n) | None => None end
  | _ => None
  end.

Lemma split_last_none : forall p, split_last p = None -> p = [].
Proof. destruct p; simpl; auto. destruct (split_last p) as [[q l]|]; discriminate. Qed.

Lemma split_last_inv : forall p q n, split_last p = Some (q, n) -> p = q ++ [n].
Proof.
  induction p as [|a rest IH]; simpl; intros q n H; try discriminate.
  destruct (split_last rest) as [[q' l']|] eqn:E.
  - inversion H; subst. simpl. f_equal. apply IH. reflexivity.
  - inversion H; subst. apply split_last_none in E. subst. reflexivity.
Qed.

Lemma loc_slot_inj : forall a b q sl, loc_slot a = Some (q, sl) -> loc_slot b = Some (q, sl) -> a = b.
Proof.
  intros a b q sl Ha Hb.
  destruct a as [| |p|p|p]; simpl in Ha; try discriminate; destruct b as [| |p'|p'|p']; simpl in Hb; try discriminate;
    try (destruct (split_last p) as [[q1 n1]|] eqn:E1; try discriminate);
    try (destruct (split_last p') as [[q2 n2]|] eqn:E2; try discriminate);
    inversion Ha; subst; inversion Hb; subst; try reflexivity.
  apply split_last_inv in E1. apply split_last_inv in E2. congruence.
Qed.

Lemma get_result_slot : forall w loc q sl, loc_slot loc = Some (q, sl) -> get_result w loc = sget q sl (w_suites w).
Proof.
  intros w loc q sl H. destruct loc as [| |p|p|p]; simpl in H; try discriminate.
  - inversion H; subst. reflexivity.
  - inversion H; subst. reflexivity.
  - simpl. destruct (split_last p) as [[q1 n1]|]; try discriminate. inversion H; subst. reflexivity.
Qed.

Lemma upd_result_slot : forall X ne loc (f : result -> res (result * X)) w q sl, loc_slot loc = Some (q, sl) ->
  upd_result ne loc f w = put (set_w_suites w) (upd_suite q (slot_upd sl ne f) (w_suites w)).
Proof.
  intros X ne loc f w q sl H. destruct loc as [| |p|p|p]; simpl in H; try discriminate.
  - inversion H; subst. reflexivity.
  - inversion H; subst. reflexivity.
  - simpl. destruct (split_last p) as [[q1 n1]|]; try discriminate. inversion H; subst. reflexivity.
Qed.

Lemma loc_eq_dec : forall a b : location, {a = b} + {a <> b}.
Proof. decide equality; apply (list_eq_dec (list_eq_dec N.eq_dec)). Qed.

(* only the suites change, and no Result in them *)
Lemma suites_same : forall w l', (forall q sl, sget q sl l' = sget q sl (w_suites w)) ->
  forall loc, get_result (set_w_suites w l') loc = get_result w loc.
Proof.
  intros w l' H loc. destruct (loc_slot loc) as [[q sl]|] eqn:E.
  - rewrite !(get_result_slot _ _ _ _ E). apply H.
  - destruct loc as [| |p|p|p]; simpl in E; try discriminate; try reflexivity.
    simpl. destruct (split_last p) as [[q1 n1]|]; try discriminate. reflexivity.
Qed.

(* only the suites change, and in them only the Result in slot sl0 of the suite at q0 *)
Lemma suites_frame : forall w l' loc0 q0 sl0 s s', loc_slot loc0 = Some (q0, sl0) ->
  get_suite q0 (w_suites w) = Some s -> get_suite q0 l' = Some s' ->
  (forall sl, sl <> sl0 -> slot_get sl s' = slot_get sl s) ->
  (forall q, q = q0 \/ forall sl, sget q sl l' = sget q sl (w_suites w)) ->
  get_result w loc0 = slot_get sl0 s /\ get_result (set_w_suites w l') loc0 = slot_get sl0 s' /\
  forall loc, loc <> loc0 -> get_result (set_w_suites w l') loc = get_result w loc.
Proof.
  intros w l' loc0 q0 sl0 s s' Hl Hs Hs' Hsl Hq. rewrite !(get_result_slot _ _ _ _ Hl). cbn [w_suites set_w_suites].
  unfold sget at 1 2. rewrite Hs, Hs'. repeat split; auto.
  intros loc Hne. destruct (loc_slot loc) as [[q sl]|] eqn:E.
  - rewrite !(get_result_slot _ _ _ _ E). cbn [w_suites set_w_suites].
    destruct (Hq q) as [Eq|Same]; [|apply Same]. subst q. unfold sget. rewrite Hs, Hs'. apply Hsl.
    intro Esl. subst sl. apply Hne. eapply loc_slot_inj; eauto.
  - destruct loc as [| |p|p|p]; simpl in E; try discriminate; try reflexivity.
    simpl. destruct (split_last p) as [[q1 n1]|]; try discriminate. reflexivity.
Qed.

(* Report.get(location) then an update of the Result found: exactly that Result changes *)
Lemma upd_result_spec : forall X ne loc (f : result -> res (result * X)) w w' x,
  upd_result ne loc f w = Ok (w', x) ->
  exists r r', get_result w loc = Some r /\ f r = Ok (r', x) /\ get_result w' loc = Some r' /\
    (forall l, l <> loc -> get_result w' l = get_result w l) /\
    w_active w' = w_active w /\ w_start w' = w_start w /\ w_end w' = w_end w.
Proof.
  intros X ne loc f w w' x H. destruct (loc_slot loc) as [[q sl]|] eqn:E.
  - rewrite (upd_result_slot _ _ _ _ _ _ _ E) in H. apply put_ok in H. destruct H as (l' & Hu & Ew). subst w'.
    destruct (upd_suite_slot _ _ _ _ _ _ Hu) as (s & s' & G1 & G2 & G3 & G4).
    { intros a b Hab. destruct (slot_upd_spec _ _ _ _ _ _ _ Hab) as (N1 & N2 & _). auto. }
    destruct (slot_upd_spec _ _ _ _ _ _ _ G2) as (_ & _ & r & r' & R1 & R2 & R3 & R4).
    destruct (suites_frame w l' loc q sl s s' E G1 G3 R4 G4) as (F1 & F2 & F3).
    exists r, r'. rewrite F1, F2. repeat split; auto.
  - destruct loc as [| |p|p|p]; simpl in E; try discriminate.
    + cbn [upd_result] in H. apply put_ok in H. destruct H as (o' & Ho & Ew). subst w'.
      apply upd_opt_result_ok in Ho. destruct Ho as (r & r' & E1 & E2 & E3). subst o'.
      exists r, r'. repeat split; auto. intros l Hl. destruct l; try reflexivity. contradiction.
    + cbn [upd_result] in H. apply put_ok in H. destruct H as (o' & Ho & Ew). subst w'.
      apply upd_opt_result_ok in Ho. destruct Ho as (r & r' & E1 & E2 & E3). subst o'.
      exists r, r'. repeat split; auto. intros l Hl. destruct l; try reflexivity. contradiction.
    + cbn [upd_result] in H. destruct (split_last p) as [[q1 n1]|]; discriminate.
Qed.

Lemma on_suite_ok : forall p (f : lsuite -> res lsuite) w w', on_suite p f w = Ok w' ->
  exists l', upd_suite p (fun s => pure (f s)) (w_suites w) = Ok (l', tt) /\ w' = set_w_suites w l'.
Proof.
  intros p f w w' H. unfold on_suite in H. apply drop_ok in H. apply put_ok in H. destruct H as (l' & Hu & E). eauto.
Qed.

(* ====================================================================================================================== *)
(* 3. steps                                                                                                                *)
(* ====================================================================================================================== *)
Lemma upd_nth_length : forall A (f : A -> res A) i l l', upd_nth i f l = Ok l' -> length l' = length l /\ i < length l.
Proof.
  intros A f. induction i as [|j IH]; intros [|x r] l' H; simpl in H; try discriminate.
  - apply bind_ok_inv in H. destruct H as (x' & _ & E). inversion E; subst. simpl. split; auto. lia.
  - apply bind_ok_inv in H. destruct H as (r' & Hr & E). inversion E; subst. destruct (IH _ _ Hr). simpl. split; auto. lia.
Qed.

Lemma upd_nth_logs : forall (Q : steplog -> Prop) (f : step -> res step) i l l', upd_nth i f l = Ok l' ->
  (forall st st', f st = Ok st' -> forall lg, In lg (st_logs st') -> In lg (st_logs st) \/ Q lg) ->
  forall lg, In lg (concat (map st_logs l')) -> In lg (concat (map st_logs l)) \/ Q lg.
Proof.
  intros Q f. induction i as [|j IH]; intros [|x r] l' H Hf lg Hin; simpl in H; try discriminate.
  - apply bind_ok_inv in H. destruct H as (x' & Hx & E). inversion E; subst. simpl in *. rewrite in_app_iff in *.
    destruct Hin as [Hin|Hin]; auto. destruct (Hf _ _ Hx _ Hin); auto.
  - apply bind_ok_inv in H. destruct H as (r' & Hr & E). inversion E; subst. simpl in *. rewrite in_app_iff in *.
    destruct Hin as [Hin|Hin]; auto. destruct (IH _ _ Hr Hf _ Hin); auto.
Qed.

(* the function _add_step_log applies to the Step *)
Definition log_adder (lg : steplog) (st : step) : res step :=
  if truthy_time (st_end st) then Err AssertionError
  else Ok (mkStep (st_description st) (st_start st) (st_end st) (st_logs st ++ [lg])).

Lemma upd_nth_add_log : forall lg i l l', upd_nth i (log_adder lg) l = Ok l' -> l' = add_log_at i lg l.
Proof.
  intros lg. induction i as [|j IH]; intros [|x r] l' H; simpl in H; try discriminate.
  - apply bind_ok_inv in H. destruct H as (x' & Hx & E). inversion E; subst. unfold log_adder in Hx.
    destruct (truthy_time (st_end x)); inversion Hx; subst. reflexivity.
  - apply bind_ok_inv in H. destruct H as (r' & Hr & E). inversion E; subst. simpl. f_equal. auto.
Qed.

Lemma upd_step_spec : forall loc0 i (f : step -> res step) w w', upd_step (loc0, i) f w = Ok w' ->
  exists r l', get_result w loc0 = Some r /\ upd_nth i f (r_steps r) = Ok l' /\ get_result w' loc0 = Some (set_steps r l') /\
    (forall l, l <> loc0 -> get_result w' l = get_result w l) /\
    w_active w' = w_active w /\ w_start w' = w_start w /\ w_end w' = w_end w.
Proof.
  intros loc0 i f w w' H. unfold upd_step in H. cbn [fst snd] in H. apply drop_ok in H.
  destruct (upd_result_spec _ _ _ _ _ _ _ H) as (r & r' & R1 & R2 & R3 & R4).
  apply pure_ok in R2. apply bind_ok_inv in R2. destruct R2 as (l' & Hl & E). inversion E; subst r'.
  exists r, l'. auto.
Qed.

(* ====================================================================================================================== *)
(* 4. what one event does to the results and to the table of open steps                                                    *)
(* ====================================================================================================================== *)
(* the log lg is carried by e and the emitting thread's open step belongs to the result at loc *)
Definition filed_here (w : wstate) (e : event) (loc : location) (lg : steplog) : Prop :=
  exists l0 th i, steplog_of e = Some (l0, th, lg) /\ lookup_active th (w_active w) = Some (loc, i).

Definition step_rel (w : wstate) (e : event) (loc : location) (o o' : option result) : Prop :=
  match o, o' with
  | None, None => True
  | None, Some r' => r_steps r' = []
  | Some r, Some r' => length (r_steps r) <= length (r_steps r')
                       /\ forall lg, In lg (logs_of r') -> In lg (logs_of r) \/ filed_here w e loc lg
  | Some _, None => False
  end.

Definition results_ok (w : wstate) (e : event) (w' : wstate) : Prop :=
  forall loc, step_rel w e loc (get_result w loc) (get_result w' loc).

Definition active_rel (w : wstate) (e : event) (w' : wstate) : Prop :=
  match e with
  | EStepStart loc d th t =>
      exists r, get_result w loc = Some r /\
                get_result w' loc = Some (set_steps r (r_steps r ++ [mkStep d (Some t) None []])) /\
                w_active w' = set_active th (loc, length (r_steps r)) (w_active w)
  | _ => w_active w' = w_active w
  end.

Lemma step_rel_refl : forall w e loc o, step_rel w e loc o o.
Proof. intros. destruct o; simpl; auto. Qed.

Lemma results_same : forall w e w', (forall loc, get_result w' loc = get_result w loc) -> results_ok w e w'.
Proof. intros w e w' H loc. rewrite H. apply step_rel_refl. Qed.

Lemma results_fresh : forall w e w' loc0 r0, get_result w loc0 = None -> get_result w' loc0 = Some r0 -> r_steps r0 = [] ->
  (forall l, l <> loc0 -> get_result w' l = get_result w l) -> results_ok w e w'.
Proof.
  intros w e w' loc0 r0 H0 H1 H2 Hf loc. destruct (loc_eq_dec loc loc0) as [E|E].
  - subst. rewrite H0, H1. exact H2.
  - rewrite (Hf _ E). apply step_rel_refl.
Qed.

Lemma results_changed : forall w e w' loc0 r r', get_result w loc0 = Some r -> get_result w' loc0 = Some r' ->
  length (r_steps r) <= length (r_steps r') ->
  (forall lg, In lg (logs_of r') -> In lg (logs_of r) \/ filed_here w e loc0 lg) ->
  (forall l, l <> loc0 -> get_result w' l = get_result w l) -> results_ok w e w'.
Proof.
  intros w e w' loc0 r r' H0 H1 H2 H3 Hf loc. destruct (loc_eq_dec loc loc0) as [E|E].
  - subst. rewrite H0, H1. split; assumption.
  - rewrite (Hf _ E). apply step_rel_refl.
Qed.

(* ---------------- End events are one upd_result ---------------- *)
Lemma upd_first_ext : forall X n (g g' : lsuite -> res (lsuite * X)) l, (forall s, g s = g' s) -> upd_first n g l = upd_first n g' l.
Proof. induction l as [|s r IH]; simpl; intros H; auto. rewrite H, IH by assumption. reflexivity. Qed.

Lemma upd_suite_ext : forall X (f f' : lsuite -> res (lsuite * X)) p l, (forall s, f s = f' s) -> upd_suite p f l = upd_suite p f' l.
Proof.
  intros X f f'. induction p as [|n rest IH]; intros l H; [reflexivity|].
  destruct rest as [|n2 rest'].
  - cbn [upd_suite]. apply upd_first_ext. assumption.
  - change (upd_first n (fun s => put (set_ls_subs s) (upd_suite (n2 :: rest') f (ls_subs s))) l =
            upd_first n (fun s => put (set_ls_subs s) (upd_suite (n2 :: rest') f' (ls_subs s))) l).
    apply upd_first_ext. intros s. rewrite (IH (ls_subs s) H). reflexivity.
Qed.

Lemma apply_end : forall w e loc t, end_of e = Some (loc, t) ->
  apply w e = drop (upd_result AttributeError loc (fun r => Ok (finalize_result t r, tt)) w).
Proof.
  intros w e loc t H. destruct e; simpl in H; inversion H; subst; clear H; cbn [apply upd_result].
  - destruct (w_setup w); reflexivity.
  - destruct (w_teardown w); reflexivity.
  - unfold on_suite. f_equal. f_equal. apply upd_suite_ext. intros s. destruct (ls_setup s); reflexivity.
  - unfold on_suite. f_equal. f_equal. apply upd_suite_ext. intros s. destruct (ls_teardown s); reflexivity.
  - reflexivity.
Qed.

Lemma end_step : forall w e w' loc t, end_of e = Some (loc, t) -> apply w e = Ok w' ->
  exists r, get_result w loc = Some r /\ get_result w' loc = Some (finalize_result t r) /\
    (forall l, l <> loc -> get_result w' l = get_result w l) /\
    w_active w' = w_active w /\ w_start w' = w_start w /\ w_end w' = w_end w.
Proof.
  intros w e w' loc t He H. rewrite (apply_end _ _ _ _ He) in H. apply drop_ok in H.
  destruct (upd_result_spec _ _ _ _ _ _ _ H) as (r & r' & R1 & R2 & R3 & R4). inversion R2; subst r'. exists r. auto.
Qed.

(* ---------------- handlers that go through on_suite ---------------- *)
Lemma on_suite_fresh : forall p (f : lsuite -> res lsuite) w w' sl0 loc0, on_suite p f w = Ok w' -> loc_slot loc0 = Some (p, sl0) ->
  (forall s s', f s = Ok s' -> ls_name s' = ls_name s /\ ls_subs s' = ls_subs s /\ slot_get sl0 s = None /\
                                (exists r0, slot_get sl0 s' = Some r0 /\ r_steps r0 = []) /\
                                forall sl, sl <> sl0 -> slot_get sl s' = slot_get sl s) ->
  exists r0, get_result w loc0 = None /\ get_result w' loc0 = Some r0 /\ r_steps r0 = [] /\
             (forall l, l <> loc0 -> get_result w' l = get_result w l) /\ w_active w' = w_active w.
Proof.
  intros p f w w' sl0 loc0 H Hl Hf. destruct (on_suite_ok _ _ _ _ H) as (l' & Hu & Ew). subst w'.
  destruct (upd_suite_slot _ _ _ _ _ _ Hu) as (s & s' & G1 & G2 & G3 & G4).
  { intros a b Hab. apply pure_ok in Hab. destruct (Hf _ _ Hab) as (N1 & N2 & _). auto. }
  apply pure_ok in G2. destruct (Hf _ _ G2) as (_ & _ & N3 & (r0 & N4 & N5) & N6).
  destruct (suites_frame w l' loc0 p sl0 s s' Hl G1 G3 N6 G4) as (F1 & F2 & F3).
  exists r0. rewrite F1, F2. auto.
Qed.

Lemma on_suite_same : forall p (f : lsuite -> res lsuite) w w', on_suite p f w = Ok w' ->
  (forall s s', f s = Ok s' -> ls_name s' = ls_name s /\ (forall sl, slot_get sl s' = slot_get sl s)
                                /\ forall q sl, sget q sl (ls_subs s') = sget q sl (ls_subs s)) ->
  (forall loc, get_result w' loc = get_result w loc) /\ w_active w' = w_active w.
Proof.
  intros p f w w' H Hf. destruct (on_suite_ok _ _ _ _ H) as (l' & Hu & Ew). subst w'. split; [|reflexivity].
  apply suites_same. eapply upd_suite_same; eauto. intros a b Hab. apply pure_ok in Hab. auto.
Qed.

Lemma add_test_fresh : forall nd r s s', add_test nd r s = Ok s' ->
  ls_name s' = ls_name s /\ ls_subs s' = ls_subs s /\ slot_get (STest (m_name (n_meta nd))) s = None /\
  slot_get (STest (m_name (n_meta nd))) s' = Some r /\
  forall sl, sl <> STest (m_name (n_meta nd)) -> slot_get sl s' = slot_get sl s.
Proof.
  intros nd r s s' H. unfold add_test in H. destruct (test_taken _ _) eqn:Et; inversion H; subst s'. clear H.
  apply test_taken_get in Et. destruct s as [m rk st en su td ts us]. cbn [ls_tests set_ls_tests slot_get ls_name ls_subs ls_meta] in *.
  repeat split; auto.
  - rewrite get_test_app, Et, str_eqb_refl. reflexivity.
  - intros [| |n'] Hne; try reflexivity. cbn [slot_get ls_tests]. rewrite get_test_app. destruct (get_test n' ts); auto.
    rewrite str_eqb_neq; auto. congruence.
Qed.

Lemma loc_slot_test : forall nd, loc_slot (LocTest (node_path nd)) = Some (n_parent nd, STest (m_name (n_meta nd))).
Proof. intros. unfold node_path. simpl. rewrite split_last_app. reflexivity. Qed.

Lemma get_result_set_active : forall w a loc, get_result (set_w_active w a) loc = get_result w loc.
Proof. intros. destruct loc; reflexivity. Qed.

Lemma apply_log : forall w e loc th lg, steplog_of e = Some (loc, th, lg) -> apply w e = add_step_log loc th lg w.
Proof. intros w e loc th lg H. destruct e; simpl in H; inversion H; subst; reflexivity. Qed.

Lemma add_step_log_log_adder : forall loc th lg w,
  add_step_log loc th lg w =
  bind (upd_result AssertionError loc (fun r => Ok (r, tt)) w) (fun _ =>
  match lookup_active th (w_active w) with
  | None => Err AssertionError
  | Some ref => upd_step ref (log_adder lg) w
  end).
Proof. reflexivity. Qed.

Lemma add_log_at_length : forall lg i l, length (add_log_at i lg l) = length l.
Proof. intros lg. induction i as [|j IH]; intros [|x r]; simpl; auto. Qed.

Lemma add_log_at_logs : forall lg i l x, In x (concat (map st_logs (add_log_at i lg l))) -> In x (concat (map st_logs l)) \/ x = lg.
Proof.
  intros lg. induction i as [|j IH]; intros [|y r] x H; simpl in *; auto.
  - rewrite !in_app_iff in H. rewrite in_app_iff. simpl in H. intuition.
  - rewrite in_app_iff in *. destruct H as [H|H]; auto. destruct (IH _ _ H); auto.
Qed.

(* a log-like event: the whole effect (this is T2 without the event wrapper) *)
Lemma log_step : forall w loc th lg w', add_step_log loc th lg w = Ok w' ->
  exists loc' i r, lookup_active th (w_active w) = Some (loc', i) /\ get_result w loc' = Some r /\ i < length (r_steps r) /\
    get_result w' loc' = Some (result_add_log i lg r) /\
    (forall l, l <> loc' -> get_result w' l = get_result w l) /\
    w_active w' = w_active w /\ w_start w' = w_start w /\ w_end w' = w_end w /\
    exists r0, get_result w loc = Some r0.
Proof.
  intros w loc th lg w' H. rewrite add_step_log_log_adder in H. apply bind_ok_inv in H. destruct H as ([wx u] & Hassert & H).
  destruct (upd_result_spec _ _ _ _ _ _ _ Hassert) as (r0 & _ & R0 & _).
  destruct (lookup_active th (w_active w)) as [[loc' i]|]; try discriminate.
  destruct (upd_step_spec _ _ _ _ _ H) as (r & l' & S1 & S2 & S3 & S4 & S5 & S6 & S7).
  destruct (upd_nth_length _ _ _ _ _ S2) as [_ Hi]. apply upd_nth_add_log in S2. subst l'.
  exists loc', i, r. repeat split; auto. exists r0. assumption.
Qed.

Lemma apply_step : forall w e w', apply w e = Ok w' -> results_ok w e w' /\ active_rel w e w'.
Proof.
  intros w e w' H.
  destruct (end_of e) as [[loc t]|] eqn:Eend.
  { destruct (end_step _ _ _ _ _ Eend H) as (r & R1 & R2 & R3 & R4 & _). split.
    - eapply results_changed; eauto; try (intros lg Hin; left; exact Hin).
    - destruct e; simpl in Eend; try discriminate; exact R4. }
  destruct (steplog_of e) as [[[loc th] lg]|] eqn:Elog.
  { rewrite (apply_log _ _ _ _ _ Elog) in H.
    destruct (log_step _ _ _ _ _ H) as (loc' & i & r & L1 & L2 & L3 & L4 & L5 & L6 & _). split.
    - apply results_changed with (loc0 := loc') (r := r) (r' := result_add_log i lg r); auto.
      + unfold result_add_log. simpl. rewrite add_log_at_length. lia.
      + intros x Hx. unfold result_add_log, logs_of in Hx. simpl in Hx. apply add_log_at_logs in Hx.
        destruct Hx as [Hx|Hx]; [left; exact Hx|]. subst x. right. exists loc, th, i. split; assumption.
    - destruct e; simpl in Elog; try discriminate; exact L6. }
  destruct e; simpl in Eend, Elog; try discriminate; cbn [apply] in H.
  - (* SessionStart *) inversion H; subst. split; [|reflexivity]. apply results_same. intros loc. destruct loc; reflexivity.
  - (* SessionEnd *) inversion H; subst. split; [|reflexivity]. apply results_same. intros loc. destruct loc; reflexivity.
  - (* SessionSetupStart *) apply bind_ok_inv in H. destruct H as (o & Ho & E). inversion E; subst w'. clear E.
    destruct (w_setup w) eqn:Es; simpl in Ho; inversion Ho; subst o. split; [|reflexivity].
    apply (results_fresh _ _ _ LocSessionSetup (initialize_result time)); auto.
    intros l Hl. destruct l; try reflexivity. contradiction.
  - (* SessionTeardownStart *) apply bind_ok_inv in H. destruct H as (o & Ho & E). inversion E; subst w'. clear E.
    destruct (w_teardown w) eqn:Es; simpl in Ho; inversion Ho; subst o. split; [|reflexivity].
    apply (results_fresh _ _ _ LocSessionTeardown (initialize_result time)); auto.
    intros l Hl. destruct l; try reflexivity. contradiction.
  - (* SuiteStart *) destruct (n_parent suite) as [|a b].
    + apply bind_ok_inv in H. destruct H as (l' & Hl & E). inversion E; subst w'. clear E.
      unfold add_suite in Hl. destruct (name_taken _ _); inversion Hl; subst l'.
      split; [|reflexivity]. apply results_same. apply suites_same. intros q sl. apply sget_add_suite.
    + destruct (on_suite_same _ _ _ _ H) as [Hs Ha]; [|split; [apply results_same; exact Hs|exact Ha]].
      intros s s' Hf. apply bind_ok_inv in Hf. destruct Hf as (u & Hu & E). inversion E; subst s'. clear E.
      unfold add_suite in Hu. destruct (name_taken _ _); inversion Hu; subst u.
      split; [apply ls_name_set_subs|]. split; [intros sl; apply slot_get_set_subs|].
      intros q sl. rewrite ls_subs_set_subs. apply sget_add_suite.
  - (* SuiteEnd *) destruct (on_suite_same _ _ _ _ H) as [Hs Ha]; [|split; [apply results_same; exact Hs|exact Ha]].
    intros s s' Hf. inversion Hf; subst s'. destruct s; simpl. split; [reflexivity|]. split; [intros sl; destruct sl; reflexivity|].
    intros q sl. reflexivity.
  - (* SuiteSetupStart *)
    destruct (on_suite_fresh _ _ _ _ SSetup (LocSuiteSetup (node_path suite)) H eq_refl) as (r0 & F1 & F2 & F3 & F4 & F5).
    + intros s s' Hf. apply bind_ok_inv in Hf. destruct Hf as (o & Ho & E). inversion E; subst s'. clear E.
      destruct (ls_setup s) eqn:Es; simpl in Ho; inversion Ho; subst o. destruct s; simpl in *.
      repeat split; auto. * eexists. split; reflexivity. * intros [| |n] Hne; [contradiction| |]; reflexivity.
    + split; [|exact F5]. eapply results_fresh; eauto.
  - (* SuiteTeardownStart *)
    destruct (on_suite_fresh _ _ _ _ STeardown (LocSuiteTeardown (node_path suite)) H eq_refl) as (r0 & F1 & F2 & F3 & F4 & F5).
    + intros s s' Hf. apply bind_ok_inv in Hf. destruct Hf as (o & Ho & E). inversion E; subst s'. clear E.
      destruct (ls_teardown s) eqn:Es; simpl in Ho; inversion Ho; subst o. destruct s; simpl in *.
      repeat split; auto. * eexists. split; reflexivity. * intros [| |n] Hne; [|contradiction|]; reflexivity.
    + split; [|exact F5]. eapply results_fresh; eauto.
  - (* TestStart *)
    destruct (on_suite_fresh _ _ _ _ _ _ H (loc_slot_test test)) as (r0 & F1 & F2 & F3 & F4 & F5).
    + intros s s' Hf. destruct (add_test_fresh _ _ _ _ Hf) as (A1 & A2 & A3 & A4 & A5). repeat split; auto.
      eexists. split; [exact A4|reflexivity].
    + split; [|exact F5]. eapply results_fresh; eauto.
  - (* TestSkipped *)
    destruct (on_suite_fresh _ _ _ _ _ _ H (loc_slot_test test)) as (r0 & F1 & F2 & F3 & F4 & F5).
    + intros s s' Hf. destruct (add_test_fresh _ _ _ _ Hf) as (A1 & A2 & A3 & A4 & A5). repeat split; auto.
      eexists. split; [exact A4|reflexivity].
    + split; [|exact F5]. eapply results_fresh; eauto.
  - (* TestDisabled *)
    destruct (on_suite_fresh _ _ _ _ _ _ H (loc_slot_test test)) as (r0 & F1 & F2 & F3 & F4 & F5).
    + intros s s' Hf. destruct (add_test_fresh _ _ _ _ Hf) as (A1 & A2 & A3 & A4 & A5). repeat split; auto.
      eexists. split; [exact A4|reflexivity].
    + split; [|exact F5]. eapply results_fresh; eauto.
  - (* StepStart *) apply bind_ok_inv in H. destruct H as ([wi x] & Hu & E). inversion E; subst w'. clear E. cbn [fst snd].
    destruct (upd_result_spec _ _ _ _ _ _ _ Hu) as (r & r' & R1 & R2 & R3 & R4 & R5 & _). inversion R2; subst r' x. clear R2.
    split.
    + apply results_changed with (loc0 := loc) (r := r) (r' := set_steps r (r_steps r ++ [mkStep description (Some time) None []])).
      * exact R1.
      * rewrite get_result_set_active. exact R3.
      * simpl. rewrite app_length. lia.
      * intros lg Hin. left. unfold logs_of in *. simpl in Hin. rewrite map_app, concat_app, in_app_iff in Hin.
        destruct Hin as [Hin|Hin]; [exact Hin|]. simpl in Hin. contradiction.
      * intros l Hl. rewrite get_result_set_active. auto.
    + exists r. rewrite get_result_set_active. auto.
  - (* StepEnd *) destruct (lookup_active thread (w_active w)) as [[loc' i]|] eqn:El; try discriminate.
    destruct (upd_step_spec _ _ _ _ _ H) as (r & l' & S1 & S2 & S3 & S4 & S5 & _). split; [|exact S5].
    apply results_changed with (loc0 := loc') (r := r) (r' := set_steps r l'); auto.
    + simpl. destruct (upd_nth_length _ _ _ _ _ S2) as [Hlen _]. lia.
    + intros lg Hin. unfold logs_of in *. simpl in Hin.
      destruct (upd_nth_logs (fun _ => False) _ _ _ _ S2) with (lg := lg) as [Hl|[]]; auto.
      intros st st' Hst x Hx. inversion Hst; subst st'. left. exact Hx.
Qed.

(* ====================================================================================================================== *)
(* 5. reachable states                                                                                                     *)
(* ====================================================================================================================== *)
Lemma apply_all_inv : forall (P : wstate -> Prop), (forall w e w', P w -> apply w e = Ok w' -> P w') ->
  forall evs w w', P w -> apply_all w evs = Ok w' -> P w'.
Proof.
  intros P Hstep. induction evs as [|e evs IH]; simpl; intros w w' Hw H.
  - inversion H; subst. assumption.
  - apply bind_ok_inv in H. destruct H as (w1 & H1 & H2). eauto.
Qed.

Lemma apply_all_snoc : forall evs e w w', apply_all w (evs ++ [e]) = Ok w' ->
  exists w1, apply_all w evs = Ok w1 /\ apply w1 e = Ok w'.
Proof.
  intros evs e w w' H. rewrite apply_all_app in H. apply bind_ok_inv in H. destruct H as (w1 & H1 & H2).
  simpl in H2. apply bind_ok_inv in H2. destruct H2 as (w2 & H2 & H3). inversion H3; subst. eauto.
Qed.

Lemma get_suite_nil : forall p, get_suite p [] = None.
Proof. destruct p; reflexivity. Qed.

Lemma get_result_init : forall loc, get_result init_wstate loc = None.
Proof.
  destruct loc; simpl; auto; try (rewrite get_suite_nil; reflexivity).
  destruct (split_last p) as [[q n]|]; auto. rewrite get_suite_nil. reflexivity.
Qed.

Lemma lookup_set_active_other : forall th th' r l, th' <> th -> lookup_active th' (set_active th r l) = lookup_active th' l.
Proof.
  intros th th' r l Hne. induction l as [|[t0 r0] l IH]; simpl.
  - destruct (Z.eqb_spec th th'); [congruence|reflexivity].
  - destruct (Z.eqb_spec t0 th) as [E|E]; simpl.
    + subst t0. destruct (Z.eqb_spec th th'); [congruence|reflexivity].
    + destruct (Z.eqb t0 th'); auto.
Qed.

(* ---------------- T1 ---------------- *)
Definition active_ok (w : wstate) : Prop :=
  forall th loc i, lookup_active th (w_active w) = Some (loc, i) ->
                   exists r, get_result w loc = Some r /\ i < length (r_steps r).

Lemma active_ok_step : forall w e w', active_ok w -> apply w e = Ok w' -> active_ok w'.
Proof.
  intros w e w' Hinv H. destruct (apply_step _ _ _ H) as [Hr Ha]. intros th loc i Hl.
  assert (Old : lookup_active th (w_active w) = Some (loc, i) -> exists r, get_result w' loc = Some r /\ i < length (r_steps r)).
  { intros Ho. destruct (Hinv _ _ _ Ho) as (r & R1 & R2). specialize (Hr loc). rewrite R1 in Hr.
    destruct (get_result w' loc) as [r'|]; simpl in Hr; [|contradiction]. exists r'. split; auto. lia. }
  destruct e; simpl in Ha; try (rewrite Ha in Hl; auto; fail).
  destruct Ha as (r & R1 & R2 & R3). rewrite R3 in Hl. destruct (Z.eq_dec th thread) as [E|E].
  - subst th. rewrite lookup_set_active in Hl. inversion Hl; subst loc0 i. eexists. split; [exact R2|].
    simpl. rewrite app_length. simpl. lia.
  - rewrite lookup_set_active_other in Hl by assumption. auto.
Qed.

(* T1: every Step object a thread has open exists in the report *)
Theorem active_wellformed : forall evs w, apply_all init_wstate evs = Ok w ->
  forall th loc i, lookup_active th (w_active w) = Some (loc, i) ->
  exists r, get_result w loc = Some r /\ i < length (r_steps r).
Proof.
  intros evs w H. apply (apply_all_inv active_ok active_ok_step evs init_wstate w); [|exact H].
  intros th loc i Hl. simpl in Hl. discriminate.
Qed.

(* ---------------- T2 ---------------- *)
(* T2: a log-like event files its log in the open step of the emitting thread, and does nothing else.
   (Holds for every state in which the writer accepts the event; reachable states are a special case, see the corollary.) *)
Theorem log_filed_with_thread : forall w e w' loc th lg loc' i,
  apply w e = Ok w' -> steplog_of e = Some (loc, th, lg) -> lookup_active th (w_active w) = Some (loc', i) ->
  exists r, get_result w loc' = Some r /\ i < length (r_steps r) /\
            get_result w' loc' = Some (result_add_log i lg r) /\
            (forall l, l <> loc' -> get_result w' l = get_result w l) /\
            w_active w' = w_active w /\ w_start w' = w_start w /\ w_end w' = w_end w.
Proof.
  intros w e w' loc th lg loc' i H Hs Hl. rewrite (apply_log _ _ _ _ _ Hs) in H.
  destruct (log_step _ _ _ _ _ H) as (loc1 & i1 & r & L1 & L2 & L3 & L4 & L5 & L6 & L7 & L8 & _).
  rewrite Hl in L1. inversion L1; subst loc1 i1. exists r. repeat split; auto.
Qed.

(* what "lg appended to the logs of step i" means, in list terms *)
Lemma add_log_at_spec : forall lg i l, i < length l ->
  exists pre st post, l = pre ++ st :: post /\ length pre = i /\ add_log_at i lg l = pre ++ add_log lg st :: post.
Proof.
  intros lg. induction i as [|j IH]; intros [|x l] Hi; simpl in Hi; try lia.
  - exists [], x, l. simpl. repeat split; auto.
  - destruct (IH l) as (pre & st & post & E1 & E2 & E3); [lia|].
    exists (x :: pre), st, post. simpl. rewrite E1 at 1. rewrite E2, E3. repeat split; auto.
Qed.

Lemma result_add_log_spec : forall i lg r, i < length (r_steps r) ->
  exists pre st post, r_steps r = pre ++ st :: post /\ length pre = i /\
    r_steps (result_add_log i lg r) = pre ++ add_log lg st :: post /\
    st_logs (add_log lg st) = st_logs st ++ [lg] /\
    r_start (result_add_log i lg r) = r_start r /\ r_end (result_add_log i lg r) = r_end r /\
    r_status (result_add_log i lg r) = r_status r /\ r_status_details (result_add_log i lg r) = r_status_details r.
Proof.
  intros i lg r Hi. destruct (add_log_at_spec lg i (r_steps r) Hi) as (pre & st & post & E1 & E2 & E3).
  exists pre, st, post. unfold result_add_log. simpl. repeat split; auto.
Qed.

(* the writer never accepts a log from a thread without an open step, nor for a location that holds no result *)
Theorem log_needs_open_step : forall w e w' loc th lg,
  apply w e = Ok w' -> steplog_of e = Some (loc, th, lg) ->
  (exists loc' i, lookup_active th (w_active w) = Some (loc', i)) /\ (exists r0, get_result w loc = Some r0).
Proof.
  intros w e w' loc th lg H Hs. rewrite (apply_log _ _ _ _ _ Hs) in H.
  destruct (log_step _ _ _ _ _ H) as (loc1 & i1 & r & L1 & _ & _ & _ & _ & _ & _ & _ & L9). eauto.
Qed.

Corollary log_filed_with_thread_reachable : forall evs w e w' loc th lg,
  apply_all init_wstate evs = Ok w -> apply w e = Ok w' -> steplog_of e = Some (loc, th, lg) ->
  exists loc' i r, lookup_active th (w_active w) = Some (loc', i) /\
    get_result w loc' = Some r /\ i < length (r_steps r) /\
    get_result w' loc' = Some (result_add_log i lg r) /\
    (forall l, l <> loc' -> get_result w' l = get_result w l) /\ w_active w' = w_active w.
Proof.
  intros evs w e w' loc th lg _ H Hs. destruct (log_needs_open_step _ _ _ _ _ _ H Hs) as [(loc' & i & Hl) _].
  destruct (log_filed_with_thread _ _ _ _ _ _ _ _ H Hs Hl) as (r & R1 & R2 & R3 & R4 & R5 & _).
  exists loc', i, r. repeat split; auto.
Qed.

(* ---------------- T3 ---------------- *)
(* T3: a result only ever contains logs emitted by threads whose open step belonged to that result at that moment *)
Theorem logs_come_from_events : forall evs w, apply_all init_wstate evs = Ok w ->
  forall loc r lg, get_result w loc = Some r -> In lg (logs_of r) ->
  exists evs1 e evs2 w1 l0 th i,
    evs = evs1 ++ e :: evs2 /\ apply_all init_wstate evs1 = Ok w1 /\
    steplog_of e = Some (l0, th, lg) /\ lookup_active th (w_active w1) = Some (loc, i).
Proof.
  induction evs as [|x evs IH] using rev_ind; intros w H loc r lg Hg Hin.
  - simpl in H. inversion H; subst w. rewrite get_result_init in Hg. discriminate.
  - destruct (apply_all_snoc _ _ _ _ H) as (w1 & H1 & H2).
    destruct (apply_step _ _ _ H2) as [Hr _]. specialize (Hr loc). rewrite Hg in Hr.
    destruct (get_result w1 loc) as [r1|] eqn:Eg; simpl in Hr.
    + destruct Hr as [_ Hlogs]. destruct (Hlogs lg Hin) as [Old|(l0 & th & i & S1 & S2)].
      * destruct (IH w1 H1 loc r1 lg Eg Old) as (evs1 & e & evs2 & w0 & l0 & th & i & E1 & E2 & E3 & E4).
        exists evs1, e, (evs2 ++ [x]), w0, l0, th, i. rewrite E1. rewrite <- app_assoc. simpl. auto.
      * exists evs, x, [], w1, l0, th, i. auto.
    + unfold logs_of in Hin. rewrite Hr in Hin. simpl in Hin. contradiction.
Qed.

(* ---------------- T4 ---------------- *)
Lemma steps_successful_logs : forall l,
  forallb step_successful l = true <-> forall lg, In lg (concat (map st_logs l)) -> log_successful lg = true.
Proof.
  induction l as [|st l IH]; simpl.
  - split; [intros _ lg Hin; destruct Hin | reflexivity].
  - rewrite andb_true_iff, IH. unfold step_successful. rewrite forallb_forall. split.
    + intros [H1 H2] lg Hin. rewrite in_app_iff in Hin. destruct Hin; auto.
    + intros H. split; intros lg Hin; apply H; rewrite in_app_iff; auto.
Qed.

(* Result.is_successful(), spelled out: a truthy status decides alone ("passed" and "disabled" are the successful ones);
   with status None or "" the result is successful iff no log of any step is a failing one *)
Theorem result_successful_char : forall r,
  result_successful r = true <->
  match r_status r with
  | Some ((_ :: _) as st) => st = s_passed \/ st = s_disabled
  | _ => forall lg, In lg (logs_of r) -> log_successful lg = true
  end.
Proof.
  intros r. unfold result_successful, logs_of. destruct (r_status r) as [[|c st]|].
  - apply steps_successful_logs.
  - rewrite orb_true_iff. split; (intros [H|H]; [left|right]); try (apply str_eqb_eq; exact H); rewrite H; apply str_eqb_refl.
  - apply steps_successful_logs.
Qed.

(* a failing log: an "error" log or a check that failed *)
Lemma log_successful_char : forall lg,
  log_successful lg = false <->
  match lg with LLog level _ _ => level = s_error | LCheck _ ok _ _ => ok = false | _ => False end.
Proof.
  destruct lg; simpl; try (split; [discriminate|contradiction]).
  - rewrite negb_false_iff. split; [apply str_eqb_eq | intros H; rewrite H; apply str_eqb_refl].
  - reflexivity.
Qed.

Lemma forallb_false : forall A (f : A -> bool) l, forallb f l = false <-> exists x, In x l /\ f x = false.
Proof.
  induction l as [|a l IH]; simpl.
  - split; [discriminate | intros (x & [] & _)].
  - rewrite andb_false_iff, IH. split.
    + intros [H|(x & H1 & H2)]; eauto.
    + intros (x & [H1|H1] & H2); subst; eauto.
Qed.

Lemma result_unsuccessful_open : forall r, (r_status r = None \/ r_status r = Some []) ->
  (result_successful r = false <-> exists lg, In lg (logs_of r) /\ log_successful lg = false).
Proof.
  intros r Hs. assert (E : result_successful r = forallb step_successful (r_steps r)).
  { unfold result_successful. destruct Hs as [Hs|Hs]; rewrite Hs; reflexivity. }
  rewrite E, forallb_false. unfold logs_of. split.
  - intros (st & H1 & H2). unfold step_successful in H2. apply forallb_false in H2. destruct H2 as (lg & H2 & H3).
    exists lg. split; auto. apply in_concat. exists (st_logs st). split; auto. apply in_map. assumption.
  - intros (lg & H1 & H2). apply in_concat in H1. destruct H1 as (ls & H1 & H3). apply in_map_iff in H1.
    destruct H1 as (st & H1 & H4). subst ls. exists st. split; auto. unfold step_successful. apply forallb_false. eauto.
Qed.

(* T4: the End event of a result sets its status to "passed" iff Result.is_successful() held just before, "failed" otherwise,
   sets the end time, and touches neither the steps nor any other result nor the open steps *)
Theorem status_sound : forall w e w' loc t, apply w e = Ok w' -> end_of e = Some (loc, t) ->
  exists r r', get_result w loc = Some r /\ get_result w' loc = Some r' /\
    r_steps r' = r_steps r /\ r_start r' = r_start r /\ r_end r' = Some t /\ r_status_details r' = r_status_details r /\
    (r_status r' = Some s_passed \/ r_status r' = Some s_failed) /\
    (r_status r' = Some s_passed <-> result_successful r = true) /\
    (r_status r' = Some s_failed <-> result_successful r = false) /\
    (forall l, l <> loc -> get_result w' l = get_result w l) /\ w_active w' = w_active w.
Proof.
  intros w e w' loc t H He. destruct (end_step _ _ _ _ _ He H) as (r & R1 & R2 & R3 & R4 & _).
  exists r, (finalize_result t r). simpl. repeat split; auto; destruct (result_successful r); auto; intros; discriminate.
Qed.

(* T4, in terms of the logs, for a result that was not finished before (status None, or the falsy ""):
   passed iff no failing log was recorded in it, failed iff one was *)
Theorem status_from_logs : forall w e w' loc t, apply w e = Ok w' -> end_of e = Some (loc, t) ->
  exists r r', get_result w loc = Some r /\ get_result w' loc = Some r' /\ logs_of r' = logs_of r /\
    ((r_status r = None \/ r_status r = Some []) ->
       (r_status r' = Some s_passed <-> forall lg, In lg (logs_of r) -> log_successful lg = true) /\
       (r_status r' = Some s_failed <-> exists lg, In lg (logs_of r) /\ log_successful lg = false)).
Proof.
  intros w e w' loc t H He.
  destruct (status_sound _ _ _ _ _ H He) as (r & r' & R1 & R2 & R3 & _ & _ & _ & _ & R4 & R5 & _).
  exists r, r'. repeat split; auto; try (unfold logs_of; rewrite R3; reflexivity).
  - intros Hp. apply R4 in Hp. apply result_successful_char in Hp. destruct H0 as [E|E]; rewrite E in Hp; exact Hp.
  - intros Hl. apply R4. apply result_successful_char. destruct H0 as [E|E]; rewrite E; exact Hl.
  - intros Hf. apply R5 in Hf. apply result_unsuccessful_open in Hf; assumption.
  - intros Hl. apply R5. apply result_unsuccessful_open; assumption.
Qed.

(* every End event is covered by end_of, nothing else is *)
Lemma end_of_events : forall e, end_of e <> None <->
  match e with
  | ETestEnd _ _ | ESuiteSetupEnd _ _ | ESuiteTeardownEnd _ _ | ESessionSetupEnd _ | ESessionTeardownEnd _ => True
  | _ => False
  end.
Proof. destruct e; simpl; split; intros; try contradiction; try discriminate; auto. Qed.

(* ====================================================================================================================== *)
(* 6. non-vacuity: two tests of one suite run by two threads, their steps and logs interleaved                              *)
(* ====================================================================================================================== *)
Module Ex.
  Definition mt (c : N) : meta := mkMeta [c] [] [] [] [].
  Definition nsuite : node := mkNode [] (mt 115) 0.                 (* suite "s" *)
  Definition na : node := mkNode [[115%N]] (mt 97) 0.               (* test "s.a" *)
  Definition nb : node := mkNode [[115%N]] (mt 98) 1.               (* test "s.b" *)
  Definition la : location := LocTest [[115%N]; [97%N]].
  Definition lb : location := LocTest [[115%N]; [98%N]].
  Definition th1 : tid := 101%Z.
  Definition th2 : tid := 102%Z.
  Definition d : str := [100%N].

  Definition log_b1 := ELog lb d th2 s_info [98; 49]%N 7.           (* "b1", info, thread 2 *)
  Definition log_a1 := ELog la d th1 s_error [97; 49]%N 8.          (* "a1", error, thread 1 *)
  Definition chk_b2 := ECheck lb d th2 [98; 50]%N true None 9.      (* check "b2" ok, thread 2 *)
  Definition url_a2 := ELogUrl la d th1 [117%N] [97; 50]%N 10.      (* url "a2", thread 1 *)

  Definition prefix : list event :=
    [ESessionStart 1; ESuiteStart nsuite 2; ETestStart na 3; ETestStart nb 4;
     EStepStart la d th1 5; EStepStart lb d th2 6].
  Definition evs : list event :=
    prefix ++ [log_b1; log_a1; chk_b2; url_a2;
               EStepEnd lb d th2 11; EStepEnd la d th1 12; ETestEnd nb 13; ETestEnd na 14; ESuiteEnd nsuite 15; ESessionEnd 16].

  Definition summary (w : wstate) (loc : location) : option (list steplog * option str) :=
    match get_result w loc with Some r => Some (logs_of r, r_status r) | None => None end.

  (* the writer accepts the stream; each test holds exactly the logs its own thread emitted; a failed (error log), b passed *)
  Example run_ok : exists w, apply_all init_wstate evs = Ok w /\
    summary w la = Some ([LLog s_error [97; 49]%N 8; LUrl [97; 50]%N [117%N] 10], Some s_failed) /\
    summary w lb = Some ([LLog s_info [98; 49]%N 7; LCheck [98; 50]%N true None 9], Some s_passed).
  Proof. eexists. split; [vm_compute; reflexivity|]. split; vm_compute; reflexivity. Qed.

  (* the hypotheses of T2 hold at the first log: thread 2's open step is step 0 of b, thread 1's is step 0 of a *)
  Example t2_hyps : exists w w', apply_all init_wstate prefix = Ok w /\ apply w log_b1 = Ok w' /\
    steplog_of log_b1 = Some (lb, th2, LLog s_info [98; 49]%N 7) /\
    lookup_active th2 (w_active w) = Some (lb, 0) /\ lookup_active th1 (w_active w) = Some (la, 0) /\
    summary w' lb = Some ([LLog s_info [98; 49]%N 7], None) /\ summary w' la = Some ([], None).
  Proof. eexists. eexists. split; [vm_compute; reflexivity|]. split; [vm_compute; reflexivity|]. repeat split; vm_compute; reflexivity. Qed.

  (* what T2 says when the event names another result than the one owning the emitting thread's open step: the log follows the
     THREAD (a log event naming test a but emitted by thread 2 is filed in b); a is untouched *)
  Definition stray := ELog la d th2 s_info [120%N] 7.
  Example stray_follows_thread : exists w w', apply_all init_wstate prefix = Ok w /\ apply w stray = Ok w' /\
    summary w' lb = Some ([LLog s_info [120%N] 7], None) /\ summary w' la = Some ([], None).
  Proof. eexists. eexists. split; [vm_compute; reflexivity|]. split; [vm_compute; reflexivity|]. split; vm_compute; reflexivity. Qed.

  (* a thread without open step cannot log: the writer raises (AssertionError) *)
  Example no_open_step : exists w, apply_all init_wstate prefix = Ok w /\
    apply w (ELog la d 103%Z s_info [120%N] 7) = Err AssertionError.
  Proof. eexists. split; vm_compute; reflexivity. Qed.

  (* T3 instantiated on the final state: the witness event for the log "a1" found in a *)
  Example t3_instance : exists w, apply_all init_wstate evs = Ok w /\
    exists r, get_result w la = Some r /\ In (LLog s_error [97; 49]%N 8) (logs_of r) /\
    exists w1, apply_all init_wstate (prefix ++ [log_b1]) = Ok w1 /\ evs = (prefix ++ [log_b1]) ++ log_a1 :: skipn 8 evs /\
      steplog_of log_a1 = Some (la, th1, LLog s_error [97; 49]%N 8) /\ lookup_active th1 (w_active w1) = Some (la, 0).
  Proof.
    eexists. split; [vm_compute; reflexivity|]. eexists. split; [vm_compute; reflexivity|]. split; [simpl; auto|].
    eexists. split; [vm_compute; reflexivity|]. repeat split; vm_compute; reflexivity.
  Qed.
End Ex.

Print Assumptions active_wellformed.
Print Assumptions log_filed_with_thread.
Print Assumptions log_needs_open_step.
Print Assumptions log_filed_with_thread_reachable.
Print Assumptions result_add_log_spec.
Print Assumptions logs_come_from_events.
Print Assumptions status_sound.
Print Assumptions result_successful_char.
Print Assumptions status_from_logs.
Print Assumptions get_result_saving.
