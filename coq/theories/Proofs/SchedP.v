(* Proofs about Model/Sched.v: the dispatch loop, for every well-formed graph, every n >= 1, every interleaving. *)
From Coq Require Import List Arith Bool Lia Permutation.
Import ListNotations.
From LCC Require Import Base.Util Model.Proj Model.Sched.

(* ------------------------------------------------------------------ basic list facts *)
Lemma mem_In x l : mem x l = true <-> In x l.
Proof.
  unfold mem. rewrite existsb_exists. split.
  - intros [y [Hy He]]. apply Nat.eqb_eq in He. subst; auto.
  - intros H. exists x. split; auto. apply Nat.eqb_refl.
Qed.

Lemma mem_false x l : mem x l = false <-> ~ In x l.
Proof. rewrite <- mem_In. destruct (mem x l); split; congruence. Qed.

Lemma remove_all_In xs l x : In x (remove_all xs l) <-> In x l /\ ~ In x xs.
Proof.
  unfold remove_all. rewrite filter_In, negb_true_iff, mem_false. tauto.
Qed.

Lemma firstn_In {A} (k : nat) (l : list A) x : In x (firstn k l) -> In x l.
Proof.
  revert l. induction k as [|k IH]; intros l H; simpl in *; [tauto|].
  destruct l; simpl in *; [tauto|]. destruct H; auto.
Qed.

Lemma NoDup_firstn {A} (k : nat) (l : list A) : NoDup l -> NoDup (firstn k l).
Proof.
  revert l. induction k as [|k IH]; intros l H; simpl; [constructor|].
  destruct l; [constructor|]. inversion H; subst. constructor; auto.
  intro Hin. apply firstn_In in Hin. auto.
Qed.

Lemma NoDup_filter {A} (f : A -> bool) (l : list A) : NoDup l -> NoDup (filter f l).
Proof.
  induction l as [|a l IH]; simpl; intros H; [constructor|].
  inversion H; subst. destruct (f a); auto. constructor; auto.
  rewrite filter_In. tauto.
Qed.

Lemma filter_nil_firstn {A} (f : A -> bool) l n : 1 <= n -> firstn n (filter f l) = [] -> filter f l = [].
Proof. intros Hn H. destruct (filter f l) eqn:E; auto. destruct n; [lia|]. simpl in H. discriminate. Qed.

Lemma filter_sub_nil {A} (f g : A -> bool) l : filter f l = [] -> filter f (filter g l) = [].
Proof.
  induction l as [|a l IH]; simpl; auto. destruct (f a) eqn:Fa; [discriminate|]. intros H.
  destruct (g a); simpl; rewrite ?Fa; auto.
Qed.

Lemma pop_sub g r c n x : In x (pop_runnable g r c n) -> In x r.
Proof. unfold pop_runnable. intros H. apply firstn_In in H. apply filter_In in H. tauto. Qed.

Lemma pop_runnable_runnable g r c n x : In x (pop_runnable g r c n) -> runnable g c x = true.
Proof. unfold pop_runnable. intros H. apply firstn_In in H. apply filter_In in H. tauto. Qed.

Lemma pop_nodup g r c n : NoDup r -> NoDup (pop_runnable g r c n).
Proof. intros H. unfold pop_runnable. apply NoDup_firstn. apply NoDup_filter. exact H. Qed.

Lemma map_fst_handle (p : list nat) : map fst (map (fun i => (i, JHandle)) p) = p.
Proof. rewrite map_map. simpl. apply map_id. Qed.

Lemma map_fst_skip (p : list nat) r : map fst (map (fun i => (i, JSkip r)) p) = p.
Proof. rewrite map_map. simpl. apply map_id. Qed.

(* permutation facts used for the partition invariant *)
Lemma NoDup_app_intro {A} (a b : list A) : NoDup a -> NoDup b -> (forall x, In x a -> ~ In x b) -> NoDup (a ++ b).
Proof.
  induction a as [|x a IH]; simpl; intros Ha Hb H; auto.
  inversion Ha; subst. constructor.
  - rewrite in_app_iff. intros [Hin|Hin]; auto. apply (H x); auto.
  - apply IH; auto.
Qed.

Lemma remove_all_split xs l : NoDup l -> NoDup xs -> (forall x, In x xs -> In x l) ->
  Permutation l (remove_all xs l ++ xs).
Proof.
  intros NDl NDx Hsub. apply NoDup_Permutation; auto.
  - apply NoDup_app_intro; auto.
    + unfold remove_all. apply NoDup_filter. exact NDl.
    + intros x Hx. apply remove_all_In in Hx. tauto.
  - intros x. rewrite in_app_iff, remove_all_In. split.
    + intros H. destruct (in_dec Nat.eq_dec x xs); auto.
    + intros [[H _]|H]; auto.
Qed.

(* ------------------------------------------------------------------ the invariant *)
Definition inflight (s : st) : list nat := map fst (poolq s) ++ map fst (running s) ++ complq s.
Definition everything (s : st) : list nat := remaining s ++ inflight s ++ completed s ++ dead s.

(* rank function witnessing acyclicity; closed: dependencies are tasks of the graph *)
Record wf (g : graph) (rk : nat -> nat) : Prop := {
  wf_closed : forall i d, i < length g -> In d (all_deps (get_task g i)) -> d < length g;
  wf_rank : forall i d, i < length g -> In d (all_deps (get_task g i)) -> rk d < rk i }.

Record Inv (g : graph) (n : nat) (s : st) : Prop := {
  i_perm : Permutation (everything s) (seq 0 (length g));
  i_running : length (running s) <= n;
  i_pc : pc s = PDone <-> length (completed s) = length g;
  i_quiet : dead s = [] -> pc s <> PDone -> inflight s = [] ->
            filter (runnable g (completed s)) (remaining s) = [] }.

Lemma Inv_range g n s : Inv g n s -> forall t, In t (everything s) <-> t < length g.
Proof.
  intros I t. split; intros H.
  - apply (Permutation_in _ (i_perm _ _ _ I)) in H. apply in_seq in H. lia.
  - apply (Permutation_in _ (Permutation_sym (i_perm _ _ _ I))). apply in_seq. lia.
Qed.

Lemma Inv_nodup g n s : Inv g n s -> NoDup (everything s).
Proof.
  intros I. apply (Permutation_NoDup (Permutation_sym (i_perm _ _ _ I))). apply seq_NoDup.
Qed.

Lemma Inv_length g n s : Inv g n s -> length (everything s) = length g.
Proof. intros I. rewrite (Permutation_length (i_perm _ _ _ I)). apply seq_length. Qed.

Lemma pc_after_done g done o : pc_after g done o = PDone <-> (length done = length g \/ o = PDone).
Proof. unfold pc_after. destruct (Nat.eqb_spec (length done) (length g)); split; intros; auto; tauto. Qed.
Lemma pc_after_other g done o x : pc_after g done o = x -> x <> PDone -> o = x.
Proof. unfold pc_after. destruct (Nat.eqb (length done) (length g)); intros; congruence. Qed.
Arguments pc_after : simpl never.

Lemma init_Inv g n : 1 <= n -> Inv g n (init g n).
Proof.
  intros Hn. unfold init. set (all := seq 0 (length g)). set (p := pop_runnable g all [] n).
  assert (NDall : NoDup all) by apply seq_NoDup.
  assert (NDp : NoDup p) by (apply pop_nodup; auto).
  assert (Psub : forall x, In x p -> In x all) by (intros x; apply pop_sub).
  constructor; simpl.
  - unfold everything, inflight; simpl. rewrite map_fst_handle, !app_nil_r.
    apply Permutation_sym. apply remove_all_split; auto.
  - lia.
  - rewrite pc_after_done. simpl. split; [intros [H|H]; auto; discriminate|auto].
  - intros _ _ H. unfold inflight in H; simpl in H. rewrite map_fst_handle, !app_nil_r in H.
    unfold remove_all. apply filter_sub_nil. apply (filter_nil_firstn _ _ n Hn). exact H.
Qed.

(* ------------------------------------------------------------------ preservation *)
Ltac perm_solve :=
  apply (Permutation_count_occ Nat.eq_dec); intros ?x;
  repeat match goal with H : Permutation _ _ |- _ =>
           let H' := fresh "Hc" in
           pose proof (proj1 (Permutation_count_occ Nat.eq_dec _ _) H x) as H'; clear H end;
  repeat (rewrite ?count_occ_app in *; cbn [count_occ map fst] in * );
  repeat match goal with |- context [Nat.eq_dec ?a ?b] => destruct (Nat.eq_dec a b) end; lia.

Ltac perm_simpl := unfold everything, inflight in *; simpl in *; rewrite ?map_app, ?map_fst_handle, ?map_fst_skip in *.

Lemma find_running_In (s : st) t md : running_mode s t = Some md -> In (t, md) (running s).
Proof.
  unfold running_mode. destruct (find _ (running s)) as [[t' m']|] eqn:E; [|discriminate].
  intros H. inversion H; subst. apply find_some in E as [Hin He]. simpl in He. apply Nat.eqb_eq in He. subst. auto.
Qed.

Lemma remove_running_perm t md (l : list (nat * mode)) : NoDup (map fst l) -> In (t, md) l ->
  Permutation (map fst l) (t :: map fst (remove_running t l)).
Proof.
  induction l as [|[a m] l IH]; simpl; intros ND Hin; [tauto|].
  inversion ND as [|? ? Hn ND']; subst. destruct Hin as [E|Hin].
  - inversion E; subst. rewrite Nat.eqb_refl. simpl.
    replace (remove_running t l) with l; auto.
    unfold remove_running. symmetry. clear -Hn. induction l as [|[b mb] l IH]; simpl in *; auto.
    destruct (Nat.eqb_spec b t); [subst; tauto|]. simpl. f_equal. apply IH. tauto.
  - destruct (Nat.eqb_spec a t) as [->|Hne].
    + exfalso. apply Hn. apply in_map_iff. exists (t, md). auto.
    + simpl. eapply perm_trans; [apply perm_skip; apply IH; auto|]. apply perm_swap.
Qed.

Lemma remove_running_length t (l : list (nat * mode)) : length (remove_running t l) <= length l.
Proof. unfold remove_running. induction l as [|a l IH]; simpl; [lia|]. destruct (negb _); simpl; lia. Qed.

Lemma NoDup_app_l {A} (l1 l2 : list A) : NoDup (l1 ++ l2) -> NoDup l1.
Proof. induction l1; simpl; intros H; [constructor|]. inversion H; subst. constructor; auto. rewrite in_app_iff in *. tauto. Qed.
Lemma NoDup_app_r {A} (l1 l2 : list A) : NoDup (l1 ++ l2) -> NoDup l2.
Proof. induction l1; simpl; intros H; auto. inversion H; auto. Qed.

Lemma Inv_running_nodup g n s : Inv g n s -> NoDup (map fst (running s)).
Proof.
  intros I. pose proof (Inv_nodup _ _ _ I) as ND. unfold everything, inflight in ND.
  apply NoDup_app_r in ND. apply NoDup_app_l in ND. apply NoDup_app_r in ND. apply NoDup_app_l in ND. exact ND.
Qed.

Lemma Inv_remaining_nodup g n s : Inv g n s -> NoDup (remaining s).
Proof. intros I. pose proof (Inv_nodup _ _ _ I) as ND. unfold everything in ND. apply NoDup_app_l in ND. exact ND. Qed.

Lemma empty_graph_remaining g n s : Inv g n s -> length g = 0 -> remaining s = [].
Proof.
  intros I E. pose proof (Inv_length _ _ _ I) as L. unfold everything in L. rewrite app_length in L.
  destruct (remaining s); auto. simpl in L. lia.
Qed.

(* popping with nb_tasks = len(tasks) takes every runnable task: nothing runnable is left behind when nothing was popped *)
Lemma pop_all_quiet g n s done : Inv g n s ->
  pop_runnable g (remaining s) done (length g) = [] -> filter (runnable g done) (remaining s) = [].
Proof.
  intros I H. destruct (length g) eqn:E.
  - rewrite (empty_graph_remaining g n s I E). reflexivity.
  - apply (filter_nil_firstn _ _ (S n0)); [lia|exact H].
Qed.

Lemma step_Inv g n sof s m s' : 1 <= n -> Inv g n s -> step g n sof s m = Some s' -> Inv g n s'.
Proof.
  intros Hn I Hs. pose proof (Inv_remaining_nodup _ _ _ I) as NDr.
  destruct m as [t|t md|t r|f| |t]; simpl in Hs.
  - (* MMain *)
    destruct (pc s) eqn:Epc; try discriminate; destruct (complq s) as [|t' q] eqn:Ec; try discriminate;
      destruct (Nat.eqb_spec t t') as [<-|]; try discriminate; inversion Hs; subst s'; clear Hs.
    + set (done := t :: completed s). set (p := pop_runnable g (remaining s) done n).
      assert (NDp : NoDup p) by (apply pop_nodup; auto).
      assert (Psub : forall x, In x p -> In x (remaining s)) by (intros x; apply pop_sub).
      constructor; simpl.
      * eapply perm_trans; [|apply (i_perm _ _ _ I)]. perm_simpl. rewrite Ec.
        pose proof (remove_all_split p (remaining s) NDr NDp Psub) as P. fold p. perm_solve.
      * apply (i_running _ _ _ I).
      * rewrite pc_after_done. split; [intros [H|H]; auto; discriminate|auto].
      * intros _ _ H. unfold inflight in H; simpl in H. rewrite map_app, map_fst_handle in H.
        apply app_eq_nil in H as [H _]. apply app_eq_nil in H as [_ H].
        unfold remove_all. apply filter_sub_nil. apply (filter_nil_firstn _ _ n Hn). exact H.
    + set (done := t :: completed s). set (p := pop_runnable g (remaining s) done (length g)).
      assert (NDp : NoDup p) by (apply pop_nodup; auto).
      assert (Psub : forall x, In x p -> In x (remaining s)) by (intros x; apply pop_sub).
      constructor; simpl.
      * eapply perm_trans; [|apply (i_perm _ _ _ I)]. perm_simpl. rewrite Ec.
        pose proof (remove_all_split p (remaining s) NDr NDp Psub) as P. fold p. perm_solve.
      * apply (i_running _ _ _ I).
      * rewrite pc_after_done. split; [intros [H|H]; auto; discriminate|auto].
      * intros _ _ H. unfold inflight in H; simpl in H. rewrite map_app, map_fst_skip in H.
        apply app_eq_nil in H as [H _]. apply app_eq_nil in H as [_ H].
        unfold remove_all. apply filter_sub_nil. apply (pop_all_quiet g n s done I H).
  - (* MTake *)
    destruct (poolq s) as [|[t' j] q] eqn:Ep; try discriminate.
    destruct (Nat.eqb_spec t t') as [<-|]; simpl in Hs; try discriminate.
    destruct (Nat.ltb_spec (length (running s)) n); simpl in Hs; try discriminate.
    destruct (mode_eqb md (decide g sof s t j)); try discriminate. inversion Hs; subst s'; clear Hs.
    constructor; simpl.
    + eapply perm_trans; [|apply (i_perm _ _ _ I)]. perm_simpl. rewrite Ep. perm_solve.
    + lia.
    + apply (i_pc _ _ _ I).
    + intros _ _ H0. unfold inflight in H0; simpl in H0. apply app_eq_nil in H0 as [_ H0]. discriminate.
  - (* MFinish *)
    destruct (running_mode s t) as [md|] eqn:Er; try discriminate.
    destruct (result_allowed g t md r); try discriminate. inversion Hs; subst s'; clear Hs.
    apply find_running_In in Er.
    pose proof (remove_running_perm t md (running s) (Inv_running_nodup _ _ _ I) Er) as P.
    constructor; simpl.
    + eapply perm_trans; [|apply (i_perm _ _ _ I)]. perm_simpl.
      perm_solve.
    + pose proof (remove_running_length t (running s)). pose proof (i_running _ _ _ I). lia.
    + apply (i_pc _ _ _ I).
    + intros _ _ H. unfold inflight in H; simpl in H. apply app_eq_nil in H as [_ H]. apply app_eq_nil in H as [_ H].
      apply app_eq_nil in H as [_ H]. discriminate.
  - (* MFlag *)
    inversion Hs; subst s'; clear Hs. destruct I. constructor; simpl; auto.
  - (* MInterrupt *)
    destruct (pc s) eqn:Epc; try discriminate. inversion Hs; subst s'; clear Hs.
    set (p := pop_runnable g (remaining s) (completed s) (length g)).
    assert (NDp : NoDup p) by (apply pop_nodup; auto).
    assert (Psub : forall x, In x p -> In x (remaining s)) by (intros x; apply pop_sub).
    constructor; simpl.
    + eapply perm_trans; [|apply (i_perm _ _ _ I)]. perm_simpl.
      pose proof (remove_all_split p (remaining s) NDr NDp Psub) as P. fold p. perm_solve.
    + apply (i_running _ _ _ I).
    + rewrite pc_after_done. split; [intros [H|H]; auto; discriminate|auto].
    + intros _ _ H. unfold inflight in H; simpl in H. rewrite map_app, map_fst_skip in H.
      apply app_eq_nil in H as [H _]. apply app_eq_nil in H as [_ H].
      unfold remove_all. apply filter_sub_nil. apply (pop_all_quiet g n s (completed s) I H).
  - (* MDie *)
    destruct (running_mode s t) as [md|] eqn:Er; try discriminate. inversion Hs; subst s'; clear Hs.
    apply find_running_In in Er.
    pose proof (remove_running_perm t md (running s) (Inv_running_nodup _ _ _ I) Er) as P.
    constructor; simpl.
    + eapply perm_trans; [|apply (i_perm _ _ _ I)]. perm_simpl.
      perm_solve.
    + pose proof (remove_running_length t (running s)). pose proof (i_running _ _ _ I). lia.
    + apply (i_pc _ _ _ I).
    + intros H. discriminate.
Qed.

Lemma run_Inv g n sof ms : forall s s', 1 <= n -> Inv g n s -> run g n sof s ms = Some s' -> Inv g n s'.
Proof.
  induction ms as [|m ms IH]; simpl; intros s s' Hn I H.
  - inversion H; subst; auto.
  - destruct (step g n sof s m) as [s1|] eqn:E; [|discriminate].
    apply (IH s1 s' Hn); auto. eapply step_Inv; eauto.
Qed.

Definition reachable (g : graph) (n : nat) (sof : bool) (s : st) : Prop :=
  exists ms, run g n sof (init g n) ms = Some s.

Lemma reachable_Inv g n sof s : 1 <= n -> reachable g n sof s -> Inv g n s.
Proof. intros Hn [ms H]. eapply run_Inv; eauto. apply init_Inv; auto. Qed.

(* ------------------------------------------------------------------ progress: no deadlock *)
Lemma exists_min (rk : nat -> nat) (l : list nat) : l <> [] -> exists m, In m l /\ forall x, In x l -> rk m <= rk x.
Proof.
  induction l as [|a l IH]; [congruence|]. intros _. destruct l as [|b l'].
  - exists a. simpl. split; auto. intros x [->|[]]. lia.
  - destruct IH as [m [Hm Hle]]; [discriminate|].
    destruct (le_lt_dec (rk a) (rk m)).
    + exists a. split; [left; auto|]. intros x [->|Hx]; [lia|]. specialize (Hle x Hx). lia.
    + exists m. split; [right; auto|]. intros x [->|Hx]; [lia|]. auto.
Qed.

Lemma reason_eqb_refl r : reason_eqb r r = true.
Proof. destruct r as [t| |e| | | |]; simpl; auto. apply Nat.eqb_refl. destruct e; auto. Qed.
Lemma mode_eqb_refl m : mode_eqb m m = true.
Proof. destruct m as [|[r|]]; simpl; auto. apply reason_eqb_refl. Qed.
Definition default_result (md : mode) : tres := match md with Run => ResSuccess | Skip x => ResSkipped x end.
Lemma default_allowed g t md : result_allowed g t md (default_result md) = true.
Proof. destruct md as [|[r|]]; simpl; auto. apply reason_eqb_refl. Qed.

Definition task_move (m : move) : bool := match m with MFlag _ => false | _ => true end.

Theorem progress g rk n sof s :
  wf g rk -> 1 <= n -> Inv g n s -> dead s = [] -> pc s <> PDone ->
  exists m s', task_move m = true /\ step g n sof s m = Some s'.
Proof.
  intros W Hn I Hdead Hpc.
  destruct (poolq s) as [|[t j] q] eqn:Ep.
  2:{ destruct (Nat.ltb_spec (length (running s)) n) as [Hlt|Hge].
      - exists (MTake t (decide g sof s t j)). eexists. split; auto. simpl. rewrite Ep, Nat.eqb_refl.
        destruct (Nat.ltb_spec (length (running s)) n); [|lia]. simpl. rewrite mode_eqb_refl. reflexivity.
      - destruct (running s) as [|[r md] rs] eqn:Er; [simpl in Hge; lia|].
        exists (MFinish r (default_result md)). eexists. split; auto.
        simpl. unfold running_mode. rewrite Er. simpl. rewrite Nat.eqb_refl, default_allowed. reflexivity. }
  destruct (running s) as [|[r md] rs] eqn:Er.
  2:{ exists (MFinish r (default_result md)). eexists. split; auto.
      simpl. unfold running_mode. rewrite Er. simpl. rewrite Nat.eqb_refl, default_allowed. reflexivity. }
  destruct (complq s) as [|c cs] eqn:Ec.
  2:{ exists (MMain c). destruct (pc s) eqn:Epc; [| |congruence]; eexists; (split; [reflexivity|]);
      simpl; rewrite Epc, Ec, Nat.eqb_refl; reflexivity. }
  exfalso.
  assert (Q : inflight s = []) by (unfold inflight; rewrite Ep, Er, Ec; auto).
  assert (Ev : everything s = remaining s ++ completed s).
  { unfold everything. rewrite Q, Hdead. simpl. rewrite app_nil_r. auto. }
  assert (Hrem : remaining s <> []).
  { intro E. apply Hpc. apply (i_pc _ _ _ I). rewrite <- (Inv_length _ _ _ I), Ev, E. auto. }
  pose proof (i_quiet _ _ _ I Hdead Hpc Q) as F.
  destruct (exists_min rk (remaining s) Hrem) as [m [Hm Hmin]].
  assert (Hmt : m < length g).
  { apply (Inv_range _ _ _ I). rewrite Ev. apply in_or_app. auto. }
  assert (R : runnable g (completed s) m = true).
  { unfold runnable. apply forallb_forall. intros d Hd. apply mem_In.
    pose proof (wf_closed _ _ W m d Hmt Hd) as Hdt. apply (Inv_range _ _ _ I) in Hdt.
    rewrite Ev in Hdt. apply in_app_or in Hdt as [Hdt|Hdt]; auto.
    apply Hmin in Hdt. pose proof (wf_rank _ _ W m d Hmt Hd). lia. }
  assert (In m (filter (runnable g (completed s)) (remaining s))) by (apply filter_In; auto).
  rewrite F in H. inversion H.
Qed.

(* ------------------------------------------------------------------ termination: a weight that every task move decreases *)
Definition pc_weight (p : mainpc) : nat := match p with PLoop => 2 | PDrain => 1 | PDone => 0 end.
Definition weight (s : st) : nat :=
  3 * length (remaining s) + 3 * length (poolq s) + 2 * length (running s) + length (complq s).

Lemma remove_all_length xs l : NoDup l -> NoDup xs -> (forall x, In x xs -> In x l) ->
  length l = length (remove_all xs l) + length xs.
Proof. intros A B C. rewrite (Permutation_length (remove_all_split xs l A B C)), app_length. auto. Qed.

Lemma remove_running_lt t md (l : list (nat * mode)) : In (t, md) l -> length (remove_running t l) < length l.
Proof.
  induction l as [|[a m] l IH]; simpl; [tauto|]. intros [E|H].
  - inversion E; subst. rewrite Nat.eqb_refl. simpl. pose proof (remove_running_length t l). lia.
  - specialize (IH H). destruct (Nat.eqb a t); simpl; lia.
Qed.

Theorem weight_decreases g n sof s m s' :
  1 <= n -> Inv g n s -> step g n sof s m = Some s' -> task_move m = true ->
  weight s' + pc_weight (pc s') < weight s + pc_weight (pc s) \/
  (weight s' < weight s /\ pc_weight (pc s') <= pc_weight (pc s)).
Proof.
  intros Hn I Hs Hm. pose proof (Inv_remaining_nodup _ _ _ I) as NDr.
  destruct m as [t|t md|t r|f| |t]; simpl in Hs; try discriminate.
  - destruct (pc s) eqn:Epc; try discriminate; destruct (complq s) as [|t' q] eqn:Ec; try discriminate;
      destruct (Nat.eqb t t'); try discriminate; inversion Hs; subst s'; clear Hs; right; unfold weight; simpl.
    + set (p := pop_runnable g (remaining s) (t :: completed s) n).
      assert (L : length (remaining s) = length (remove_all p (remaining s)) + length p).
      { apply remove_all_length; auto. apply pop_nodup; auto. intros x; apply pop_sub. }
      rewrite app_length, map_length, Ec. simpl. split; [lia|].
      unfold pc_after. destruct (Nat.eqb _ _); simpl; lia.
    + set (p := pop_runnable g (remaining s) (t :: completed s) (length g)).
      assert (L : length (remaining s) = length (remove_all p (remaining s)) + length p).
      { apply remove_all_length; auto. apply pop_nodup; auto. intros x; apply pop_sub. }
      rewrite app_length, map_length, Ec. simpl. split; [lia|].
      unfold pc_after. destruct (Nat.eqb _ _); simpl; lia.
  - destruct (poolq s) as [|[t' j] q] eqn:Ep; try discriminate.
    destruct (Nat.eqb t t' && Nat.ltb (length (running s)) n && mode_eqb md (decide g sof s t j)); try discriminate.
    inversion Hs; subst s'; clear Hs. right. unfold weight; simpl. rewrite Ep. simpl. lia.
  - destruct (running_mode s t) as [md|] eqn:Er; try discriminate.
    destruct (result_allowed g t md r); try discriminate. inversion Hs; subst s'; clear Hs.
    apply find_running_In in Er. pose proof (remove_running_lt t md _ Er).
    right. unfold weight; simpl. rewrite app_length. simpl. lia.
  - destruct (pc s) eqn:Epc; try discriminate. inversion Hs; subst s'; clear Hs. left.
    set (p := pop_runnable g (remaining s) (completed s) (length g)).
    assert (L : length (remaining s) = length (remove_all p (remaining s)) + length p).
    { apply remove_all_length; auto. apply pop_nodup; auto. intros x; apply pop_sub. }
    unfold weight; simpl. rewrite app_length, map_length. fold p. unfold pc_after. destruct (Nat.eqb _ _); simpl; lia.
  - destruct (running_mode s t) as [md|] eqn:Er; try discriminate. inversion Hs; subst s'; clear Hs.
    apply find_running_In in Er. pose proof (remove_running_lt t md _ Er).
    right. unfold weight; simpl. lia.
Qed.

Definition total_weight (s : st) : nat := weight s + pc_weight (pc s).

Lemma flag_weight g n sof s f s' : step g n sof s (MFlag f) = Some s' -> total_weight s' = total_weight s.
Proof. simpl. intros H. inversion H; subst. reflexivity. Qed.

Fixpoint count_task_moves (ms : list move) : nat :=
  match ms with [] => 0 | m :: r => (if task_move m then 1 else 0) + count_task_moves r end.

Theorem bounded_task_moves g n sof ms : forall s s',
  1 <= n -> Inv g n s -> run g n sof s ms = Some s' -> count_task_moves ms + total_weight s' <= total_weight s.
Proof.
  induction ms as [|m ms IH]; simpl; intros s s' Hn I H.
  - inversion H; subst. lia.
  - destruct (step g n sof s m) as [s1|] eqn:E; [|discriminate].
    pose proof (step_Inv _ _ _ _ _ _ Hn I E) as I1.
    specialize (IH s1 s' Hn I1 H).
    destruct (task_move m) eqn:Tm.
    + pose proof (weight_decreases _ _ _ _ _ _ Hn I E Tm) as D. unfold total_weight in *. lia.
    + destruct m; try discriminate. pose proof (flag_weight _ _ _ _ _ _ E). lia.
Qed.

Lemma init_weight g n : total_weight (init g n) <= 3 * length g + 2.
Proof.
  unfold total_weight, weight, init. simpl. set (all := seq 0 (length g)). set (p := pop_runnable g all [] n).
  assert (L : length all = length (remove_all p all) + length p).
  { apply remove_all_length. apply seq_NoDup. apply pop_nodup, seq_NoDup. intros x; apply pop_sub. }
  unfold all in L at 1. rewrite seq_length in L. rewrite map_length.
  unfold pc_after. destruct (Nat.eqb _ _); simpl; lia.
Qed.

(* ------------------------------------------------------------------ each task exactly once *)
Definition is_take (t : nat) (m : move) : bool := match m with MTake t' _ => Nat.eqb t t' | _ => false end.
Definition is_finish (t : nat) (m : move) : bool :=
  match m with MFinish t' _ => Nat.eqb t t' | MDie t' => Nat.eqb t t' | _ => false end.
Definition is_main (t : nat) (m : move) : bool := match m with MMain t' => Nat.eqb t t' | _ => false end.
Definition count (f : move -> bool) (ms : list move) : nat := length (filter f ms).

Definition taken (s : st) : list nat := map fst (running s) ++ complq s ++ completed s ++ dead s.
Definition finished_tasks (s : st) : list nat := complq s ++ completed s ++ dead s.

Lemma run_app g n sof ms1 : forall ms2 s,
  run g n sof s (ms1 ++ ms2) = match run g n sof s ms1 with Some s1 => run g n sof s1 ms2 | None => None end.
Proof.
  induction ms1 as [|m ms1 IH]; simpl; intros ms2 s; auto.
  destruct (step g n sof s m); auto.
Qed.

Definition bcount (b : bool) : nat := if b then 1 else 0.

Lemma count_snoc f ms m : count f (ms ++ [m]) = count f ms + bcount (f m).
Proof. unfold count. rewrite filter_app, app_length. simpl. destruct (f m); simpl; lia. Qed.

Definition occ (l : list nat) (t : nat) : nat := count_occ Nat.eq_dec l t.

Ltac occ_solve :=
  unfold occ in *;
  repeat match goal with H : Permutation _ _ |- _ =>
           let H' := fresh "Hc" in
           pose proof (fun x => proj1 (Permutation_count_occ Nat.eq_dec _ _) H x) as H'; clear H end;
  repeat (rewrite ?count_occ_app in *; cbn [count_occ map fst] in * );
  repeat match goal with
         | |- context [Nat.eq_dec ?a ?b] => destruct (Nat.eq_dec a b)
         | H : context [Nat.eq_dec ?a ?b] |- _ => destruct (Nat.eq_dec a b)
         end;
  repeat match goal with |- context [Nat.eqb ?a ?b] => destruct (Nat.eqb_spec a b) end;
  subst; cbn [bcount]; try lia; try congruence.

(* the three counters are determined by where the task currently is (as multisets) *)
Theorem once_invariant g n sof ms : forall s, 1 <= n ->
  run g n sof (init g n) ms = Some s ->
  forall t, count (is_take t) ms = occ (taken s) t /\
            count (is_finish t) ms = occ (finished_tasks s) t /\
            count (is_main t) ms = occ (completed s) t.
Proof.
  induction ms as [|m ms IH] using rev_ind; intros s Hn H t.
  - simpl in H. inversion H; subst. unfold init, taken, finished_tasks, count, occ. simpl. auto.
  - rewrite run_app in H. destruct (run g n sof (init g n) ms) as [s0|] eqn:E0; [|discriminate].
    simpl in H. destruct (step g n sof s0 m) as [s1|] eqn:Es; [|discriminate]. inversion H; subst s1; clear H.
    destruct (IH s0 Hn eq_refl t) as [Ht [Hf Hm]]. rewrite !count_snoc, Ht, Hf, Hm. clear IH Ht Hf Hm.
    assert (I0 : Inv g n s0) by (eapply run_Inv; eauto; apply init_Inv; auto).
    unfold taken, finished_tasks.
    destruct m as [t0|t0 md|t0 r|f| |t0]; simpl in Es.
    + destruct (pc s0); try discriminate; destruct (complq s0) as [|t' q] eqn:Ec; try discriminate;
        destruct (Nat.eqb_spec t0 t') as [<-|]; try discriminate; inversion Es; subst s; clear Es; simpl;
        rewrite ?Ec; repeat split; occ_solve.
    + destruct (poolq s0) as [|[t' j] q] eqn:Ep; try discriminate.
      destruct (Nat.eqb_spec t0 t') as [<-|]; simpl in Es; try discriminate.
      destruct (Nat.ltb (length (running s0)) n && mode_eqb md (decide g sof s0 t0 j)); try discriminate.
      inversion Es; subst s; clear Es; simpl. repeat split; occ_solve.
    + destruct (running_mode s0 t0) as [md|] eqn:Er; try discriminate.
      destruct (result_allowed g t0 md r); try discriminate. inversion Es; subst s; clear Es; simpl.
      apply find_running_In in Er.
      pose proof (remove_running_perm t0 md (running s0) (Inv_running_nodup _ _ _ I0) Er) as P.
      repeat split; occ_solve; try (specialize (Hc t); occ_solve); try (specialize (Hc t0); occ_solve).
    + inversion Es; subst s; clear Es; simpl. repeat split; occ_solve.
    + destruct (pc s0); try discriminate. inversion Es; subst s; clear Es; simpl. repeat split; occ_solve.
    + destruct (running_mode s0 t0) as [md|] eqn:Er; try discriminate. inversion Es; subst s; clear Es; simpl.
      apply find_running_In in Er.
      pose proof (remove_running_perm t0 md (running s0) (Inv_running_nodup _ _ _ I0) Er) as P.
      repeat split; occ_solve; try (specialize (Hc t); occ_solve); try (specialize (Hc t0); occ_solve).
Qed.

(* ------------------------------------------------------------------ consequences: at most once / exactly once *)
Lemma occ_le_1 l t : NoDup l -> occ l t <= 1.
Proof. intros H. unfold occ. apply (proj1 (NoDup_count_occ Nat.eq_dec l) H). Qed.

Lemma occ_In l t : In t l <-> occ l t > 0.
Proof. unfold occ. apply count_occ_In. Qed.

Lemma occ_app l1 l2 t : occ (l1 ++ l2) t = occ l1 t + occ l2 t.
Proof. unfold occ. apply count_occ_app. Qed.

Theorem at_most_once g n sof ms s t : 1 <= n -> run g n sof (init g n) ms = Some s ->
  count (is_take t) ms <= 1 /\ count (is_finish t) ms <= 1 /\ count (is_main t) ms <= 1.
Proof.
  intros Hn H. destruct (once_invariant g n sof ms s Hn H t) as [A [B C]]. rewrite A, B, C.
  assert (I : Inv g n s) by (eapply run_Inv; eauto; apply init_Inv; auto).
  pose proof (occ_le_1 _ t (Inv_nodup _ _ _ I)) as L. unfold everything, inflight, taken, finished_tasks in *.
  rewrite !occ_app in *. lia.
Qed.

Theorem exactly_once_when_finished g n sof ms s t : 1 <= n -> run g n sof (init g n) ms = Some s ->
  finished g s = true -> t < length g ->
  count (is_take t) ms = 1 /\ count (is_finish t) ms = 1 /\ count (is_main t) ms = 1 /\ dead s = [].
Proof.
  intros Hn H F Ht. destruct (once_invariant g n sof ms s Hn H t) as [A [B C]]. rewrite A, B, C.
  assert (I : Inv g n s) by (eapply run_Inv; eauto; apply init_Inv; auto).
  unfold finished in F. destruct (pc s) eqn:Epc; try discriminate. apply Nat.eqb_eq in F.
  pose proof (Inv_length _ _ _ I) as L. unfold everything, inflight in L. rewrite !app_length in L.
  assert (Z : length (remaining s) = 0 /\ length (map fst (poolq s)) = 0 /\ length (map fst (running s)) = 0 /\
              length (complq s) = 0 /\ length (dead s) = 0) by lia.
  destruct Z as [Z1 [Z2 [Z3 [Z4 Z5]]]].
  apply length_zero_iff_nil in Z1, Z2, Z3, Z4, Z5.
  pose proof (proj2 (Inv_range _ _ _ I t) Ht) as Hin. unfold everything, inflight in Hin.
  rewrite Z1, Z2, Z3, Z4, Z5 in Hin. simpl in Hin. rewrite app_nil_r in Hin.
  pose proof (occ_le_1 _ t (Inv_nodup _ _ _ I)) as L1. unfold everything, inflight in L1.
  rewrite Z1, Z2, Z3, Z4, Z5 in L1. simpl in L1. rewrite app_nil_r in L1.
  apply occ_In in Hin. unfold taken, finished_tasks. rewrite Z3, Z4, Z5. simpl. rewrite !app_nil_r.
  repeat split; auto; lia.
Qed.

(* ------------------------------------------------------------------ dependencies are completed before a task is dispatched *)
Definition no_interrupt (ms : list move) : Prop := ~ In MInterrupt ms.
Definition dispatched (s : st) : list nat := map fst (poolq s) ++ taken s.

Lemma runnable_deps g c t d : runnable g c t = true -> In d (all_deps (get_task g t)) -> In d c.
Proof. unfold runnable. rewrite forallb_forall. intros H Hd. apply mem_In. auto. Qed.

Definition deps_done (g : graph) (s : st) : Prop :=
  forall t d, In t (dispatched s) -> In d (all_deps (get_task g t)) -> In d (completed s).

Lemma step_deps_done g n sof s m s' : Inv g n s ->
  deps_done g s -> step g n sof s m = Some s' -> deps_done g s'.
Proof.
  intros I D Hs. unfold deps_done, dispatched, taken in *.
  assert (Hsub : forall t0 x, In x (map fst (remove_running t0 (running s))) -> In x (map fst (running s))).
  { intros t0 x Hx. apply in_map_iff in Hx as [[a b] [E Hin]]. apply filter_In in Hin as [Hin _].
    apply in_map_iff. exists (a, b); auto. }
  destruct m as [t0|t0 md|t0 r|f| |t0]; simpl in Hs.
  - destruct (pc s) eqn:Epc; try discriminate; destruct (complq s) as [|t' q] eqn:Ec; try discriminate;
      destruct (Nat.eqb_spec t0 t') as [<-|]; try discriminate; inversion Hs; subst s'; clear Hs; simpl in *.
    + intros t d Ht Hd. rewrite map_app, map_fst_handle in Ht.
      repeat (rewrite ?in_app_iff in Ht; simpl in Ht).
      destruct Ht as [[Ht|Ht]|Ht].
      * right. apply (D t d); auto. rewrite ?in_app_iff. tauto.
      * change (In d (t0 :: completed s)). eapply runnable_deps; eauto. eapply pop_runnable_runnable; eauto.
      * right. apply (D t d); auto. repeat (rewrite ?in_app_iff; simpl). tauto.
    + intros t d Ht Hd. rewrite map_app, map_fst_skip in Ht.
      repeat (rewrite ?in_app_iff in Ht; simpl in Ht).
      destruct Ht as [[Ht|Ht]|Ht].
      * right. apply (D t d); auto. rewrite ?in_app_iff. tauto.
      * change (In d (t0 :: completed s)). eapply runnable_deps; eauto. eapply pop_runnable_runnable; eauto.
      * right. apply (D t d); auto. repeat (rewrite ?in_app_iff; simpl). tauto.
  - destruct (poolq s) as [|[t' j] q] eqn:Ep; try discriminate.
    destruct (Nat.eqb_spec t0 t') as [<-|]; simpl in Hs; try discriminate.
    destruct (Nat.ltb (length (running s)) n && mode_eqb md (decide g sof s t0 j)); try discriminate.
    inversion Hs; subst s'; clear Hs; simpl in *.
    intros t d Ht Hd. apply (D t d); auto. repeat (rewrite ?in_app_iff in *; simpl in * ). tauto.
  - destruct (running_mode s t0) as [md|] eqn:Er; try discriminate.
    destruct (result_allowed g t0 md r); try discriminate. inversion Hs; subst s'; clear Hs; simpl in *.
    apply find_running_In in Er.
    intros t d Ht Hd. apply (D t d); auto. repeat (rewrite ?in_app_iff in *; simpl in * ).
    assert (Ht0 : In t0 (map fst (running s))) by (apply in_map_iff; exists (t0, md); auto).
    pose proof (Hsub t0 t). intuition (subst; auto).
  - inversion Hs; subst s'; clear Hs; simpl in *. auto.
  - destruct (pc s) eqn:Epc; try discriminate. inversion Hs; subst s'; clear Hs; simpl in *.
    intros t d Ht Hd. rewrite map_app, map_fst_skip in Ht.
    repeat (rewrite ?in_app_iff in Ht; simpl in Ht).
    destruct Ht as [[Ht|Ht]|Ht].
    + apply (D t d); auto. rewrite ?in_app_iff. tauto.
    + eapply runnable_deps; eauto. eapply pop_runnable_runnable; eauto.
    + apply (D t d); auto. repeat (rewrite ?in_app_iff; simpl). tauto.
  - destruct (running_mode s t0) as [md|] eqn:Er; try discriminate. inversion Hs; subst s'; clear Hs; simpl in *.
    apply find_running_In in Er.
    intros t d Ht Hd. apply (D t d); auto. repeat (rewrite ?in_app_iff in *; simpl in * ).
    assert (Ht0 : In t0 (map fst (running s))) by (apply in_map_iff; exists (t0, md); auto).
    pose proof (Hsub t0 t). intuition (subst; auto).
Qed.

Lemma init_deps_done g n : deps_done g (init g n).
Proof.
  unfold deps_done, dispatched, taken, init. simpl. intros t d Ht Hd. rewrite map_fst_handle, app_nil_r in Ht.
  change (In d (@nil nat)). eapply runnable_deps; eauto. eapply pop_runnable_runnable; eauto.
Qed.

Lemma run_deps_done g n sof ms : forall s s', 1 <= n -> Inv g n s -> deps_done g s ->
  run g n sof s ms = Some s' -> deps_done g s'.
Proof.
  induction ms as [|m ms IH]; simpl; intros s s' Hn I D H.
  - inversion H; subst; auto.
  - destruct (step g n sof s m) as [s1|] eqn:E; [|discriminate].
    apply (IH s1 s' Hn); auto.
    + eapply step_Inv; eauto.
    + eapply step_deps_done; eauto.
Qed.

(* the order theorem: when a task is taken by a worker, every dependency (on-success and on-completion) has already
   been finished by its worker and acknowledged by the main thread — also after a keyboard interrupt, since the remaining
   tasks are then submitted to be skipped in dependency order *)
Theorem take_after_dependencies g n sof ms1 t md ms2 s d :
  1 <= n ->
  run g n sof (init g n) (ms1 ++ MTake t md :: ms2) = Some s ->
  In d (all_deps (get_task g t)) ->
  count (is_main d) ms1 = 1 /\ count (is_finish d) ms1 = 1.
Proof.
  intros Hn H Hd. rewrite run_app in H.
  destruct (run g n sof (init g n) ms1) as [s1|] eqn:E1; [|discriminate].
  cbn [run] in H. destruct (step g n sof s1 (MTake t md)) as [s2|] eqn:E2; [|discriminate].
  assert (I1 : Inv g n s1) by (eapply run_Inv; eauto; apply init_Inv; auto).
  assert (D1 : deps_done g s1).
  { apply (run_deps_done g n sof ms1 (init g n) s1 Hn (init_Inv g n Hn) (init_deps_done g n) E1). }
  simpl in E2. destruct (poolq s1) as [|[t' j] q] eqn:Ep; try discriminate.
  destruct (Nat.eqb_spec t t') as [<-|]; simpl in E2; try discriminate.
  assert (Hc : In d (completed s1)).
  { apply (D1 t d); auto. unfold dispatched. rewrite Ep. simpl. auto. }
  destruct (once_invariant g n sof ms1 s1 Hn E1 d) as [_ [B C]].
  destruct (at_most_once g n sof ms1 s1 d Hn E1) as [_ [B' C']].
  apply occ_In in Hc. unfold finished_tasks in B. rewrite !occ_app in B. lia.
Qed.

(* ------------------------------------------------------------------ skip decisions *)
Lemma dep_skip_none s deps : dep_skip s deps = None <-> forall d, In d deps -> result_of s d = Some ResSuccess.
Proof.
  induction deps as [|d r IH]; simpl.
  - split; auto. intros _ d [].
  - destruct (result_of s d) as [[| | |]|] eqn:E; try (split; [discriminate|intros H; specialize (H d (or_introl eq_refl)); congruence]).
    rewrite IH. split.
    + intros H x [->|Hx]; auto.
    + intros H x Hx. apply H. auto.
Qed.

Theorem run_only_if_dependencies_succeeded g sof s t :
  decide g sof s t JHandle = Run -> forall d, In d (t_succ (get_task g t)) -> result_of s d = Some ResSuccess.
Proof.
  unfold decide. destruct (dep_skip s (t_succ (get_task g t))) eqn:E; [discriminate|].
  intros _. apply dep_skip_none. exact E.
Qed.

(* the first non-successful dependency gives the skip reason *)
Definition skip_reason_of (r : tres) : option reason :=
  match r with ResFailure x => Some x | ResSkipped x => x | _ => None end.

Lemma dep_skip_first s deps1 d deps2 r :
  (forall x, In x deps1 -> result_of s x = Some ResSuccess) -> result_of s d = Some r -> r <> ResSuccess ->
  dep_skip s (deps1 ++ d :: deps2) = Some (skip_reason_of r).
Proof.
  induction deps1 as [|a l IH]; simpl; intros H Hr Hne.
  - rewrite Hr. destruct r; simpl; auto. congruence.
  - rewrite (H a (or_introl eq_refl)). apply IH; auto.
Qed.

Theorem skipped_if_a_dependency_did_not_succeed g sof s t deps1 d deps2 r :
  t_succ (get_task g t) = deps1 ++ d :: deps2 ->
  (forall x, In x deps1 -> result_of s x = Some ResSuccess) -> result_of s d = Some r -> r <> ResSuccess ->
  decide g sof s t JHandle = Skip (skip_reason_of r).
Proof.
  intros E H Hr Hne. unfold decide. rewrite E, (dep_skip_first s deps1 d deps2 r H Hr Hne). reflexivity.
Qed.

(* context flags: once raised they stay raised, and a raised flag forbids Run (except the empty handler text, F17) *)
Definition ctx_le (a b : ctx) : Prop :=
  (c_tasks_aborted a = true -> c_tasks_aborted b = true) /\
  (forall e, c_pending a = Some e -> c_pending b = Some e) /\
  (c_aborted_session a = true -> c_aborted_session b = true) /\
  (forall p, In p (c_aborted_suites a) -> In p (c_aborted_suites b)) /\
  (c_has_failures a = true -> c_has_failures b = true).

Lemma ctx_le_refl c : ctx_le c c.
Proof. unfold ctx_le. tauto. Qed.
Lemma ctx_le_trans a b c : ctx_le a b -> ctx_le b c -> ctx_le a c.
Proof. unfold ctx_le. intros [A1 [A2 [A3 [A4 A5]]]] [B1 [B2 [B3 [B4 B5]]]]. repeat split; auto. Qed.

Lemma raise_flag_le c f : ctx_le c (raise_flag c f).
Proof.
  unfold ctx_le. destruct f; simpl; repeat split; auto.
  intros e0 H. rewrite H. auto.
Qed.

Lemma step_ctx_le g n sof s m s' : step g n sof s m = Some s' -> ctx_le (cx s) (cx s').
Proof.
  destruct m as [t0|t0 md|t0 r|f| |t0]; simpl; intros Hs.
  - destruct (pc s); try discriminate; destruct (complq s); try discriminate; destruct (Nat.eqb t0 n0); try discriminate;
      inversion Hs; subst; simpl; apply ctx_le_refl.
  - destruct (poolq s) as [|[t' j] q]; try discriminate. destruct (_ && _); try discriminate.
    inversion Hs; subst; simpl; apply ctx_le_refl.
  - destruct (running_mode s t0); try discriminate. destruct (result_allowed _ _ _ _); try discriminate.
    inversion Hs; subst; simpl; apply ctx_le_refl.
  - inversion Hs; subst; simpl. apply raise_flag_le.
  - destruct (pc s); try discriminate. inversion Hs; subst; simpl. apply (raise_flag_le (cx s) FTasksAborted).
  - destruct (running_mode s t0); try discriminate. inversion Hs; subst; simpl; apply ctx_le_refl.
Qed.

Lemma run_ctx_le g n sof ms : forall s s', run g n sof s ms = Some s' -> ctx_le (cx s) (cx s').
Proof.
  induction ms as [|m ms IH]; simpl; intros s s' H.
  - inversion H; subst. apply ctx_le_refl.
  - destruct (step g n sof s m) as [s1|] eqn:E; [|discriminate].
    eapply ctx_le_trans; [eapply step_ctx_le; eauto|]. apply IH; auto.
Qed.

(* a state in which new work must not start *)
Definition stop_requested (sof : bool) (c : ctx) : Prop :=
  c_tasks_aborted c = true \/ c_pending c <> None \/ c_aborted_session c = true \/
  (sof = true /\ c_has_failures c = true).

Theorem no_run_after_stop g sof s t j :
  stop_requested sof (cx s) -> decide g sof s t j <> Run.
Proof.
  intros H. unfold decide. destruct j; [|discriminate].
  destruct (dep_skip s (t_succ (get_task g t))); [discriminate|].
  unfold ctx_skip.
  destruct (c_tasks_aborted (cx s)) eqn:E1; [discriminate|].
  destruct (c_pending (cx s)) as [e|] eqn:E2; [discriminate|].
  destruct (c_aborted_session (cx s)) eqn:E3; [discriminate|].
  destruct (kind_eqb _ _ && _); [discriminate|].
  destruct H as [H|[H|[H|[H1 H2]]]]; try congruence.
  rewrite H1, H2. simpl. discriminate.
Qed.

Lemma stop_requested_mono sof a b : ctx_le a b -> stop_requested sof a -> stop_requested sof b.
Proof.
  intros [A1 [A2 [A3 [A4 A5]]]] [H|[H|[H|[H1 H2]]]]; unfold stop_requested; auto.
  - right. left. destruct (c_pending a) as [e|] eqn:E; [|congruence]. rewrite (A2 e eq_refl). discriminate.
  - right; right; right; auto.
Qed.

(* tests of an aborted suite (not of its sub-suites) are not run *)
Theorem no_run_in_aborted_suite g sof s t :
  t_kind (get_task g t) = KTest -> In (parent_path (t_path (get_task g t))) (c_aborted_suites (cx s)) ->
  decide g sof s t JHandle <> Run.
Proof.
  intros Hk Hin. unfold decide.
  destruct (dep_skip s (t_succ (get_task g t))); [discriminate|].
  unfold ctx_skip.
  destruct (c_tasks_aborted (cx s)); [discriminate|].
  destruct (c_pending (cx s)) as [e|]; [discriminate|].
  destruct (c_aborted_session (cx s)); [discriminate|].
  rewrite Hk. simpl.
  assert (E : existsb (path_eqb (parent_path (t_path (get_task g t)))) (c_aborted_suites (cx s)) = true).
  { apply existsb_exists. exists (parent_path (t_path (get_task g t))). split; auto.
    clear. induction (parent_path (t_path (get_task g t))) as [|a l IH]; simpl; auto. rewrite Nat.eqb_refl. auto. }
  rewrite E. discriminate.
Qed.

(* F17 (fixed in /repo): a pending handler failure stops new work whatever its text, the empty text included *)
Theorem handler_failure_skips_whatever_the_text g sof s t e :
  c_tasks_aborted (cx s) = false -> c_pending (cx s) = Some e ->
  dep_skip s (t_succ (get_task g t)) = None ->
  decide g sof s t JHandle = Skip (Some (RHandler e)).
Proof. intros A B C. unfold decide, ctx_skip. rewrite C, A, B. reflexivity. Qed.

(* a keyboard interrupt raises the abort flag and leaves the normal loop; the runnable remaining tasks are queued to be
   skipped, the others stay in [remaining] until their dependencies are completed *)
Theorem interrupt_sets_abort g n sof s s' :
  step g n sof s MInterrupt = Some s' -> c_tasks_aborted (cx s') = true /\ pc s' <> PLoop.
Proof.
  simpl. destruct (pc s); try discriminate. intros H. inversion H; subst; simpl. split; auto.
  unfold pc_after. destruct (Nat.eqb _ _); discriminate.
Qed.

(* ------------------------------------------------------------------ soundness of the executable well-formedness check *)
Lemma index_of_lt x l : In x l -> index_of x l < length l.
Proof.
  induction l as [|y r IH]; simpl; [tauto|]. intros H. destruct (Nat.eqb_spec x y); [lia|].
  destruct H; [congruence|]. specialize (IH H). lia.
Qed.

Lemma index_of_app_l x l1 l2 : In x l1 -> index_of x (l1 ++ l2) = index_of x l1.
Proof.
  induction l1 as [|y r IH]; simpl; [tauto|]. intros H. destruct (Nat.eqb_spec x y); auto.
  destruct H; [congruence|]. rewrite IH; auto.
Qed.

Lemma index_of_app_r x l1 l2 : ~ In x l1 -> index_of x (l1 ++ l2) = length l1 + index_of x l2.
Proof.
  induction l1 as [|y r IH]; simpl; auto. intros H. destruct (Nat.eqb_spec x y); [subst; tauto|].
  rewrite IH; auto.
Qed.

Lemma topo_ok_rank g : forall order before (pre : list nat),
  (forall x, In x before <-> In x pre) ->
  topo_ok_from g before order = true ->
  forall x d, In x order -> In d (all_deps (get_task g x)) ->
  index_of d (pre ++ order) < index_of x (pre ++ order).
Proof.
  induction order as [|y r IH]; simpl; intros before pre Hb H x d Hx Hd; [tauto|].
  apply andb_prop in H as [H H3]. apply andb_prop in H as [H1 H2].
  apply negb_true_iff in H2. apply mem_false in H2.
  rewrite forallb_forall in H1.
  destruct Hx as [<-|Hx].
  - assert (Hdp : In d pre) by (apply Hb; apply mem_In; apply H1; auto).
    rewrite (index_of_app_l d pre _ Hdp).
    rewrite index_of_app_r by (intro Hc; apply H2; apply Hb; auto).
    pose proof (index_of_lt d pre Hdp). lia.
  - replace (pre ++ y :: r) with ((pre ++ [y]) ++ r) by (rewrite <- app_assoc; reflexivity).
    apply (IH (y :: before) (pre ++ [y])); auto.
    intros z. simpl. rewrite in_app_iff. simpl. rewrite Hb. tauto.
Qed.

Theorem wf_b_sound g order : wf_b g order = true -> wf g (fun i => index_of i order).
Proof.
  unfold wf_b. intros H. apply andb_prop in H as [H H3]. apply andb_prop in H as [H1 H2].
  rewrite forallb_forall in H3.
  assert (Hall : forall i, i < length g -> In i order).
  { intros i Hi. apply mem_In. apply H3. apply in_seq. lia. }
  constructor.
  - intros i d Hi Hd. unfold closed_b in H1. rewrite forallb_forall in H1.
    assert (Hin : In (get_task g i) g) by (unfold get_task; apply nth_In; auto).
    specialize (H1 _ Hin). rewrite forallb_forall in H1. apply Nat.ltb_lt. apply H1. auto.
  - intros i d Hi Hd.
    apply (topo_ok_rank g order [] [] (fun x => conj (fun h => h) (fun h => h)) H2 i d (Hall i Hi) Hd).
Qed.

(* ------------------------------------------------------------------ positions in a move sequence *)
(* [before f1 f2 ms]: some move satisfying f1 occurs strictly before some move satisfying f2 ... used through prefixes *)
Definition occurs (f : move -> bool) (ms : list move) : Prop := count f ms >= 1.

Lemma count_app f a b : count f (a ++ b) = count f a + count f b.
Proof. unfold count. rewrite filter_app, app_length. auto. Qed.

Lemma occurs_app_l f a b : occurs f a -> occurs f (a ++ b).
Proof. unfold occurs. rewrite count_app. lia. Qed.

(* a task finishes only after it was taken *)
Theorem finish_after_take g n sof ms s t : 1 <= n ->
  run g n sof (init g n) ms = Some s -> occurs (is_finish t) ms -> occurs (is_take t) ms.
Proof.
  intros Hn H O. unfold occurs in *.
  destruct (once_invariant g n sof ms s Hn H t) as [A [B _]]. rewrite A. rewrite B in O.
  unfold taken, finished_tasks in *. rewrite !occ_app in *. lia.
Qed.

(* the main thread acknowledges a task only after it finished *)
Theorem main_after_finish g n sof ms s t : 1 <= n ->
  run g n sof (init g n) ms = Some s -> occurs (is_main t) ms -> occurs (is_finish t) ms.
Proof.
  intros Hn H O. unfold occurs in *.
  destruct (once_invariant g n sof ms s Hn H t) as [_ [B C]]. rewrite B. rewrite C in O.
  unfold finished_tasks. rewrite !occ_app. lia.
Qed.

Lemma run_prefix g n sof ms1 ms2 s : run g n sof (init g n) (ms1 ++ ms2) = Some s ->
  exists s1, run g n sof (init g n) ms1 = Some s1.
Proof. rewrite run_app. destruct (run g n sof (init g n) ms1); [eauto|discriminate]. Qed.

Lemma no_interrupt_app a b : no_interrupt (a ++ b) -> no_interrupt a /\ no_interrupt b.
Proof. unfold no_interrupt. rewrite in_app_iff. tauto. Qed.

(* paths in the dependency graph *)
Inductive dep_path (g : graph) : nat -> nat -> Prop :=
| dp_one t d : In d (all_deps (get_task g t)) -> dep_path g t d
| dp_step t d e : In d (all_deps (get_task g t)) -> dep_path g d e -> dep_path g t e.

(* The order theorem, transitively: when a worker takes task t, every task t depends on directly or indirectly has been
   taken, finished and acknowledged, in that order, strictly before. *)
Theorem take_after_transitive_dependencies g n sof : forall t e, dep_path g t e ->
  forall ms1 md ms2 s, 1 <= n ->
  run g n sof (init g n) (ms1 ++ MTake t md :: ms2) = Some s ->
  occurs (is_take e) ms1 /\ occurs (is_finish e) ms1 /\ occurs (is_main e) ms1.
Proof.
  induction 1 as [t d Hd | t d e Hd Hp IH]; intros ms1 md ms2 s Hn H.
  - destruct (take_after_dependencies g n sof ms1 t md ms2 s d Hn H Hd) as [A B].
    destruct (run_prefix _ _ _ _ _ _ H) as [s1 E1].
    assert (Of : occurs (is_finish d) ms1) by (unfold occurs; lia).
    split; [exact (finish_after_take g n sof ms1 s1 d Hn E1 Of)|split; [exact Of|unfold occurs; lia]].
  - destruct (take_after_dependencies g n sof ms1 t md ms2 s d Hn H Hd) as [A B].
    destruct (run_prefix _ _ _ _ _ _ H) as [s1 E1].
    assert (Of : occurs (is_finish d) ms1) by (unfold occurs; lia).
    pose proof (finish_after_take g n sof ms1 s1 d Hn E1 Of) as Ot.
    (* locate the take of d inside ms1 *)
    unfold occurs, count in Ot.
    destruct (filter (is_take d) ms1) as [|m0 rest] eqn:Ef; [simpl in Ot; lia|].
    assert (Hin : In m0 (filter (is_take d) ms1)) by (rewrite Ef; left; auto).
    apply filter_In in Hin as [Hin Hm]. apply in_split in Hin as [pre [post Es]].
    destruct m0 as [|t0 md0| | | |]; simpl in Hm; try discriminate. apply Nat.eqb_eq in Hm. subst t0.
    subst ms1.
    rewrite <- app_assoc in H. simpl in H.
    destruct (IH pre md0 (post ++ MTake t md :: ms2) s Hn H) as [X [Y Z]].
    repeat split; apply occurs_app_l; auto.
Qed.

(* with a single worker, tasks never overlap: nothing else is taken while a task is running *)
Theorem single_worker_no_overlap g sof s t md : reachable g 1 sof s -> In (t, md) (running s) ->
  forall t' md', step g 1 sof s (MTake t' md') = None.
Proof.
  intros R Hin t' md'. pose proof (reachable_Inv g 1 sof s (le_n 1) R) as I.
  pose proof (i_running _ _ _ I) as L. simpl.
  destruct (poolq s) as [|[t0 j] q]; auto.
  destruct (running s) as [|x r]; [inversion Hin|]. simpl in L.
  assert (length r = 0) by lia. destruct r; [|simpl in *; lia]. simpl.
  rewrite andb_false_r. reflexivity.
Qed.
