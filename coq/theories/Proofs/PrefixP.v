(* Properties of the prefix order of Model/Prefix.v: reflexive, transitive, finished items are identical, the boolean is sound. *)
From Coq Require Import List NArith ZArith Bool Lia.
Import ListNotations.
From LCC Require Import Base.Util Model.Report Model.Events Model.Prefix.

(* ---------------- executable equalities are equalities ---------------- *)
Lemma list_eqb_sound : forall A (eqb : A -> A -> bool) l1 l2,
  (forall x y, In x l1 -> eqb x y = true -> x = y) -> list_eqb eqb l1 l2 = true -> l1 = l2.
Proof.
  induction l1; destruct l2; simpl; intros H E; try discriminate; auto.
  apply andb_true_iff in E. destruct E. f_equal; auto.
Qed.

Lemma N_list_eqb_eq : forall a b : str, str_eqb a b = true -> a = b.
Proof. intros. apply (list_eqb_sound _ N.eqb); auto. intros. apply N.eqb_eq. assumption. Qed.

Lemma str_eqb_rfl : forall s, str_eqb s s = true.
Proof. induction s; simpl; auto. unfold str_eqb in *. simpl. rewrite N.eqb_refl. auto. Qed.

Lemma option_eqb_sound : forall A (eqb : A -> A -> bool) (a b : option A),
  (forall x y, a = Some x -> eqb x y = true -> x = y) -> option_eqb eqb a b = true -> a = b.
Proof. intros A eqb [x|] [y|] H E; simpl in E; try discriminate; auto. f_equal. eapply H; eauto. Qed.

Lemma ostr_eqb_eq : forall a b, ostr_eqb a b = true -> a = b.
Proof. intros. apply (option_eqb_sound _ str_eqb); auto. intros. apply N_list_eqb_eq. assumption. Qed.

Lemma oZ_eqb_eq : forall a b, oZ_eqb a b = true -> a = b.
Proof. intros. apply (option_eqb_sound _ Z.eqb); auto. intros. apply Z.eqb_eq. assumption. Qed.

Lemma bool_eqb_eq : forall a b, Bool.eqb a b = true -> a = b.
Proof. intros. apply eqb_prop. assumption. Qed.

Ltac split_andb :=
  repeat match goal with
         | H : _ && _ = true |- _ => apply andb_true_iff in H; destruct H
         end.

Lemma pair_eqb_sound : forall A B (ea : A -> A -> bool) (eb : B -> B -> bool) p q,
  (forall x y, ea x y = true -> x = y) -> (forall x y, eb x y = true -> x = y) -> pair_eqb ea eb p q = true -> p = q.
Proof. intros A B ea eb [a b] [c d] Ha Hb E. unfold pair_eqb in E. simpl in E. split_andb. f_equal; auto. Qed.

Lemma meta_eqb_eq : forall a b, meta_eqb a b = true -> a = b.
Proof.
  intros [n d t p l] [n' d' t' p' l'] E. unfold meta_eqb in E. simpl in E. split_andb.
  f_equal; try (apply N_list_eqb_eq; assumption).
  - apply (list_eqb_sound _ str_eqb); auto. intros. apply N_list_eqb_eq. assumption.
  - apply (list_eqb_sound _ (pair_eqb str_eqb str_eqb)); auto. intros. apply (pair_eqb_sound _ _ str_eqb str_eqb); auto using N_list_eqb_eq.
  - apply (list_eqb_sound _ (pair_eqb str_eqb ostr_eqb)); auto. intros.
    apply (pair_eqb_sound _ _ str_eqb ostr_eqb); auto using N_list_eqb_eq, ostr_eqb_eq.
Qed.

Lemma steplog_eqb_eq : forall a b, steplog_eqb a b = true -> a = b.
Proof.
  intros [] [] E; simpl in E; try discriminate; split_andb;
    repeat match goal with
           | H : str_eqb _ _ = true |- _ => apply N_list_eqb_eq in H
           | H : ostr_eqb _ _ = true |- _ => apply ostr_eqb_eq in H
           | H : Z.eqb _ _ = true |- _ => apply Z.eqb_eq in H
           | H : Bool.eqb _ _ = true |- _ => apply bool_eqb_eq in H
           end; subst; reflexivity.
Qed.

Lemma step_eqb_eq : forall a b, step_eqb a b = true -> a = b.
Proof.
  intros [d s e l] [d' s' e' l'] E. unfold step_eqb in E. simpl in E. split_andb.
  f_equal; auto using N_list_eqb_eq, oZ_eqb_eq.
  apply (list_eqb_sound _ steplog_eqb); auto. intros. apply steplog_eqb_eq. assumption.
Qed.

Lemma result_eqb_eq : forall a b, result_eqb a b = true -> a = b.
Proof.
  intros [s e st sd l] [s' e' st' sd' l'] E. unfold result_eqb in E. simpl in E. split_andb.
  f_equal; auto using ostr_eqb_eq, oZ_eqb_eq.
  apply (list_eqb_sound _ step_eqb); auto. intros. apply step_eqb_eq. assumption.
Qed.

Lemma oresult_eqb_eq : forall a b, option_eqb result_eqb a b = true -> a = b.
Proof. intros. apply (option_eqb_sound _ result_eqb); auto. intros. apply result_eqb_eq. assumption. Qed.

Lemma test_eqb_eq : forall a b, test_eqb a b = true -> a = b.
Proof.
  intros [m r] [m' r'] E. unfold test_eqb in E. simpl in E. split_andb. f_equal; auto using meta_eqb_eq, result_eqb_eq.
Qed.

(* ---------------- induction over suites ---------------- *)
Fixpoint suite_ind2 (P : suite_result -> Prop)
  (H : forall m st e su td ts us, Forall P us -> P (SuiteResult m st e su td ts us)) (s : suite_result) : P s :=
  match s with
  | SuiteResult m st e su td ts us =>
      H m st e su td ts us
        ((fix go (l : list suite_result) : Forall P l :=
            match l with
            | [] => Forall_nil P
            | x :: r => Forall_cons x (suite_ind2 P H x) (go r)
            end) us)
  end.

Lemma suite_eqb_eq : forall a b, suite_eqb a b = true -> a = b.
Proof.
  induction a as [m st e su td ts us IH] using suite_ind2. intros [m' st' e' su' td' ts' us'] E.
  simpl in E. split_andb.
  assert (Hus : us = us').
  { clear - IH H0. revert us' H0. induction us as [|x r IHr]; destruct us' as [|y r']; intros E; try discriminate; auto.
    split_andb. inversion IH; subst. f_equal; auto. }
  f_equal; auto using meta_eqb_eq, oZ_eqb_eq, oresult_eqb_eq.
  apply (list_eqb_sound _ test_eqb); auto. intros. apply test_eqb_eq. assumption.
Qed.

Lemma report_eqb_eq : forall a b, report_eqb a b = true -> a = b.
Proof.
  intros [t i s e sv n su td us] [t' i' s' e' sv' n' su' td' us'] E. unfold report_eqb in E. simpl in E. split_andb.
  f_equal; auto using N_list_eqb_eq, oZ_eqb_eq, oresult_eqb_eq.
  - apply (list_eqb_sound _ (pair_eqb str_eqb str_eqb)); auto. intros. apply (pair_eqb_sound _ _ str_eqb str_eqb); auto using N_list_eqb_eq.
  - apply Z.eqb_eq. assumption.
  - apply (list_eqb_sound _ suite_eqb); auto. intros. apply suite_eqb_eq. assumption.
Qed.

(* ---------------- list relations ---------------- *)
Lemma list_prefix_refl : forall A (l : list A), list_prefix l l.
Proof. intros. exists []. rewrite app_nil_r. reflexivity. Qed.

Lemma list_prefix_trans : forall A (a b c : list A), list_prefix a b -> list_prefix b c -> list_prefix a c.
Proof. intros A a b c [r H] [r' H']. subst. exists (r ++ r'). rewrite app_assoc. reflexivity. Qed.

Lemma list_prefix_app : forall A (l r : list A), list_prefix l (l ++ r).
Proof. intros. exists r. reflexivity. Qed.

Lemma lep_refl_in : forall A (R : A -> A -> Prop) l, (forall x, In x l -> R x x) -> lep R l l.
Proof. induction l; intros; constructor; auto with datatypes. Qed.

Lemma lep_app_r : forall A (R : A -> A -> Prop) l r, (forall x, In x l -> R x x) -> lep R l (l ++ r).
Proof. induction l; intros; simpl; constructor; auto with datatypes. Qed.

Lemma lep_trans_in : forall A (R : A -> A -> Prop) l l' l'',
  (forall x, In x l -> forall y z, R x y -> R y z -> R x z) -> lep R l l' -> lep R l' l'' -> lep R l l''.
Proof.
  intros A R l l' l'' HT H. revert l''. induction H; intros l'' H2.
  - constructor.
  - inversion H2; subst. constructor.
    + eapply HT; eauto with datatypes.
    + apply IHlep; auto. intros. eapply HT; eauto with datatypes.
Qed.

Lemma lep_emb : forall A (R : A -> A -> Prop) l l', lep R l l' -> emb R l l'.
Proof. induction 1; constructor; auto. Qed.

Lemma emb_refl_in : forall A (R : A -> A -> Prop) l, (forall x, In x l -> R x x) -> emb R l l.
Proof. induction l; intros; constructor; auto with datatypes. Qed.

Lemma emb_trans_in : forall A (R : A -> A -> Prop) l l' l'',
  (forall x, In x l -> forall y z, R x y -> R y z -> R x z) -> emb R l l' -> emb R l' l'' -> emb R l l''.
Proof.
  intros A R l l' l'' HT H1 H2. revert l HT H1. induction H2; intros l0 HT H1.
  - inversion H1; subst. constructor.
  - inversion H1; subst.
    + constructor.
    + constructor.
      * eapply HT; eauto with datatypes.
      * apply IHemb; auto. intros. eapply HT; eauto with datatypes.
    + apply emb_skip. apply IHemb; auto.
  - apply emb_skip. apply IHemb; auto.
Qed.

Lemma emb_mono : forall A (R R' : A -> A -> Prop) l l', (forall x y, In x l -> R x y -> R' x y) -> emb R l l' -> emb R' l l'.
Proof.
  intros A R R' l l' H E. induction E.
  - constructor.
  - constructor; auto with datatypes.
  - apply emb_skip. auto.
Qed.

Lemma emb_app_l : forall A (R : A -> A -> Prop) pre l l', emb R l l' -> emb R l (pre ++ l').
Proof. induction pre; simpl; intros; auto. apply emb_skip. auto. Qed.

(* ---------------- steps, results, tests ---------------- *)
Lemma le_step_refl : forall a, le_step a a.
Proof. intros. repeat split; auto using list_prefix_refl. Qed.

Lemma le_step_trans : forall a b c, le_step a b -> le_step b c -> le_step a c.
Proof.
  intros a b c (D & S & L & F) (D' & S' & L' & F').
  repeat split; try congruence.
  - eapply list_prefix_trans; eauto.
  - intros He. assert (a = b) by auto. subst b. auto.
Qed.

Lemma le_step_finished : forall a b, le_step a b -> st_end a <> None -> a = b.
Proof. intros a b (_ & _ & _ & F). exact F. Qed.

Lemma le_result_refl : forall a, le_result a a.
Proof. intros. repeat split; auto. apply lep_refl_in. intros. apply le_step_refl. Qed.

Lemma le_result_trans : forall a b c, le_result a b -> le_result b c -> le_result a c.
Proof.
  intros a b c (S & L & F) (S' & L' & F'). repeat split; try congruence.
  - eapply lep_trans_in; eauto. intros. eapply le_step_trans; eauto.
  - intros He. assert (a = b) by auto. subst b. auto.
Qed.

Lemma le_result_finished : forall a b, le_result a b -> r_end a <> None -> a = b.
Proof. intros a b (_ & _ & F). exact F. Qed.

Lemma le_oresult_refl : forall a, le_oresult a a.
Proof. destruct a; simpl; auto using le_result_refl. Qed.

Lemma le_oresult_trans : forall a b c, le_oresult a b -> le_oresult b c -> le_oresult a c.
Proof. intros [a|] [b|] [c|]; simpl; intros; try tauto. eapply le_result_trans; eauto. Qed.

Lemma le_test_refl : forall a, le_test a a.
Proof. intros. split; auto using le_result_refl. Qed.

Lemma le_test_trans : forall a b c, le_test a b -> le_test b c -> le_test a c.
Proof. intros a b c [M R] [M' R']. split; try congruence. eapply le_result_trans; eauto. Qed.

Lemma le_test_finished : forall a b, le_test a b -> r_end (t_result a) <> None -> a = b.
Proof.
  intros [m r] [m' r'] [M R] He. simpl in *. subst. f_equal. apply le_result_finished; auto.
Qed.

(* ---------------- suites ---------------- *)
Lemma le_suite_refl : forall a, le_suite a a.
Proof.
  induction a as [m st e su td ts us IH] using suite_ind2. constructor; auto using le_oresult_refl.
  - apply emb_refl_in. intros. apply le_test_refl.
  - apply emb_refl_in. intros x Hx. rewrite Forall_forall in IH. auto.
Qed.

Lemma le_suite_trans : forall a b c, le_suite a b -> le_suite b c -> le_suite a c.
Proof.
  induction a as [m st e su td ts us IH] using suite_ind2. intros b c H1 H2.
  inversion H1; subst. inversion H2; subst. constructor.
  - eapply le_oresult_trans; eauto.
  - eapply le_oresult_trans; eauto.
  - eapply emb_trans_in; eauto. intros. eapply le_test_trans; eauto.
  - eapply emb_trans_in; eauto. intros x Hx y z. rewrite Forall_forall in IH. apply IH. assumption.
  - intros He.
    match goal with H : e <> None -> SuiteResult _ _ e _ _ _ _ = _ |- _ => pose proof (H He) as E1 end.
    inversion E1; subst.
    match goal with H : _ <> None -> SuiteResult _ _ _ _ _ _ _ = SuiteResult _ _ e'0 _ _ _ _ |- _ => apply H end.
    assumption.
Qed.

Lemma le_suite_finished : forall a b, le_suite a b -> s_end_of a <> None -> a = b.
Proof. intros a b H. inversion H; subst. simpl. auto. Qed.

Lemma le_suite_meta : forall a b, le_suite a b -> s_meta_of a = s_meta_of b.
Proof. intros a b H. inversion H; reflexivity. Qed.

(* ---------------- reports ---------------- *)
Lemma le_otime_refl : forall a, le_otime a a.
Proof. right. reflexivity. Qed.

Lemma le_otime_trans : forall a b c, le_otime a b -> le_otime b c -> le_otime a c.
Proof. unfold le_otime. intros a b c [H|H] [H'|H']; subst; auto. Qed.

Lemma le_report_refl : forall a, le_report a a.
Proof.
  intros. unfold le_report. repeat split; auto using le_otime_refl, le_oresult_refl.
  apply emb_refl_in. intros. apply le_suite_refl.
Qed.

Lemma set_saving_end : forall a b, set_saving a None = set_saving b None -> rp_end a = rp_end b.
Proof. intros [] [] H. inversion H. reflexivity. Qed.

Lemma le_report_trans : forall a b c, le_report a b -> le_report b c -> le_report a c.
Proof.
  intros a b c (T & I & N & S & SU & TD & U & F) (T' & I' & N' & S' & SU' & TD' & U' & F').
  unfold le_report. repeat split; try congruence.
  - eapply le_otime_trans; eauto.
  - eapply le_oresult_trans; eauto.
  - eapply le_oresult_trans; eauto.
  - eapply emb_trans_in; eauto. intros. eapply le_suite_trans; eauto.
  - intros He. pose proof (F He) as E. rewrite E. apply F'. rewrite <- (set_saving_end _ _ E). assumption.
Qed.

(* a finished report is the final report, up to the saving stamp *)
Lemma le_report_finished : forall a b, le_report a b -> rp_end a <> None -> set_saving a None = set_saving b None.
Proof. intros a b (_ & _ & _ & _ & _ & _ & _ & F). exact F. Qed.

(* "items shown as finished never change afterwards", through the whole tree: every finished suite of the snapshot at the top
   level is a suite of the final report; inside an unfinished suite, every finished test is a test of the corresponding suite *)
Lemma emb_finished_in : forall A (R : A -> A -> Prop) (fin : A -> Prop) l l',
  (forall x y, R x y -> fin x -> x = y) -> emb R l l' -> forall x, In x l -> fin x -> In x l'.
Proof.
  intros A R fin l l' HF E. induction E; intros x Hx Hfin.
  - inversion Hx.
  - destruct Hx as [Hx|Hx].
    + subst. left. symmetry. apply HF; auto.
    + right. auto.
  - right. auto.
Qed.

Lemma le_report_finished_suites : forall a b, le_report a b ->
  forall s, In s (rp_suites a) -> s_end_of s <> None -> In s (rp_suites b).
Proof.
  intros a b (_ & _ & _ & _ & _ & _ & U & _) s Hs He.
  eapply (emb_finished_in _ le_suite (fun s => s_end_of s <> None)); eauto. intros. apply le_suite_finished; auto.
Qed.

Lemma le_suite_finished_tests : forall a b, le_suite a b ->
  forall t, In t (s_tests_of a) -> r_end (t_result t) <> None -> In t (s_tests_of b).
Proof.
  intros a b H t Ht He. inversion H; subst. simpl in *.
  eapply (emb_finished_in _ le_test (fun t => r_end (t_result t) <> None)); eauto. intros. apply le_test_finished; auto.
Qed.

(* ---------------- soundness of the executable version ---------------- *)
Lemma list_prefix_b_sound : forall A (eqb : A -> A -> bool), (forall x y, eqb x y = true -> x = y) ->
  forall l l', list_prefix_b eqb l l' = true -> list_prefix l l'.
Proof.
  intros A eqb He. induction l; intros l' E.
  - exists l'. reflexivity.
  - destruct l' as [|b r']; simpl in E; try discriminate. split_andb.
    destruct (IHl _ H0) as [r Hr]. exists r. simpl. apply He in H. subst. reflexivity.
Qed.

Lemma lep_b_sound : forall A (leb : A -> A -> bool) (R : A -> A -> Prop), (forall x y, leb x y = true -> R x y) ->
  forall l l', lep_b leb l l' = true -> lep R l l'.
Proof.
  intros A leb R H. induction l; intros l' E.
  - constructor.
  - destruct l' as [|b r']; simpl in E; try discriminate. split_andb. constructor; auto.
Qed.

Lemma find_after_spec : forall A (key : A -> str) n l' b r',
  find_after key n l' = Some (b, r') -> exists pre, l' = pre ++ b :: r'.
Proof.
  intros A key n. induction l' as [|x t IH]; simpl; intros b r' E; try discriminate.
  destruct (str_eqb (key x) n).
  - inversion E; subst. exists []. reflexivity.
  - destruct (IH _ _ E) as [pre Hp]. exists (x :: pre). simpl. f_equal. assumption.
Qed.

Lemma emb_b_sound : forall A (key : A -> str) (leb : A -> A -> bool) (R : A -> A -> Prop) l,
  (forall x, In x l -> forall y, leb x y = true -> R x y) ->
  forall l', emb_b key leb l l' = true -> emb R l l'.
Proof.
  intros A key leb R. induction l as [|a r IH]; intros H l' E.
  - constructor.
  - simpl in E. destruct (find_after key (key a) l') as [[b r']|] eqn:Ef; try discriminate.
    split_andb. destruct (find_after_spec _ _ _ _ _ _ Ef) as [pre Hp]. subst l'.
    apply emb_app_l. constructor; auto with datatypes.
Qed.

Lemma le_step_b_sound : forall a b, le_step_b a b = true -> le_step a b.
Proof.
  intros a b E. unfold le_step_b in E. split_andb. repeat split; auto using N_list_eqb_eq, oZ_eqb_eq.
  - apply (list_prefix_b_sound _ steplog_eqb); auto using steplog_eqb_eq.
  - intros He. destruct (st_end a); simpl in *; [apply step_eqb_eq; assumption | congruence].
Qed.

Lemma le_result_b_sound : forall a b, le_result_b a b = true -> le_result a b.
Proof.
  intros a b E. unfold le_result_b in E. split_andb. repeat split; auto using oZ_eqb_eq.
  - apply (lep_b_sound _ le_step_b); auto using le_step_b_sound.
  - intros He. destruct (r_end a); simpl in *; [apply result_eqb_eq; assumption | congruence].
Qed.

Lemma le_oresult_b_sound : forall a b, le_oresult_b a b = true -> le_oresult a b.
Proof. intros [a|] [b|] E; simpl in *; auto using le_result_b_sound. discriminate. Qed.

Lemma le_test_b_sound : forall a b, le_test_b a b = true -> le_test a b.
Proof. intros a b E. unfold le_test_b in E. split_andb. split; auto using meta_eqb_eq, le_result_b_sound. Qed.

Lemma le_suite_b_eq : forall m st e su td ts us m' st' e' su' td' ts' us',
  le_suite_b (SuiteResult m st e su td ts us) (SuiteResult m' st' e' su' td' ts' us') =
  (meta_eqb m m' && oZ_eqb st st' && le_oresult_b su su' && le_oresult_b td td'
   && emb_b test_name le_test_b ts ts' && emb_b suite_name le_suite_b us us'
   && (if is_some e then suite_eqb (SuiteResult m st e su td ts us) (SuiteResult m' st' e' su' td' ts' us') else true)).
Proof. reflexivity. Qed.

Lemma le_suite_b_sound : forall a b, le_suite_b a b = true -> le_suite a b.
Proof.
  induction a as [m st e su td ts us IH] using suite_ind2. intros [m' st' e' su' td' ts' us'] E.
  rewrite le_suite_b_eq in E. split_andb.
  match goal with H : meta_eqb _ _ = true |- _ => apply meta_eqb_eq in H end.
  match goal with H : oZ_eqb st _ = true |- _ => apply oZ_eqb_eq in H end. subst m' st'.
  constructor; auto using le_oresult_b_sound.
  - apply (emb_b_sound _ test_name le_test_b); auto. intros. apply le_test_b_sound. assumption.
  - apply (emb_b_sound _ suite_name le_suite_b); auto. intros x Hx y. rewrite Forall_forall in IH. apply IH. assumption.
  - intros He. destruct e as [z|]; [|congruence].
    match goal with H : (if is_some _ then _ else _) = true |- _ => cbn [is_some] in H; apply suite_eqb_eq in H; exact H end.
Qed.

Lemma le_otime_b_sound : forall a b, le_otime_b a b = true -> le_otime a b.
Proof. intros [a|] b E; simpl in E; [right; apply oZ_eqb_eq; assumption | left; reflexivity]. Qed.

Theorem le_report_b_sound : forall a b, le_report_b a b = true -> le_report a b.
Proof.
  intros a b E. unfold le_report_b in E. split_andb. unfold le_report.
  repeat split; auto using N_list_eqb_eq, le_otime_b_sound, le_oresult_b_sound.
  - apply (list_eqb_sound _ (pair_eqb str_eqb str_eqb)); auto. intros. apply (pair_eqb_sound _ _ str_eqb str_eqb); auto using N_list_eqb_eq.
  - apply Z.eqb_eq. assumption.
  - apply (emb_b_sound _ suite_name le_suite_b); auto. intros. apply le_suite_b_sound. assumption.
  - intros He. destruct (rp_end a); simpl in *; [apply report_eqb_eq; assumption | congruence].
Qed.

(* ---------------- completeness of the executable version when sibling names are pairwise distinct ---------------- *)
Lemma list_eqb_rfl : forall A (eqb : A -> A -> bool) l, (forall x, In x l -> eqb x x = true) -> list_eqb eqb l l = true.
Proof. induction l; simpl; intros; auto. rewrite H by auto. simpl. auto. Qed.

Lemma ostr_eqb_rfl : forall a, ostr_eqb a a = true.
Proof. destruct a; simpl; auto using str_eqb_rfl. Qed.
Lemma oZ_eqb_rfl : forall a, oZ_eqb a a = true.
Proof. destruct a; simpl; auto using Z.eqb_refl. Qed.

Lemma meta_eqb_rfl : forall m, meta_eqb m m = true.
Proof.
  intros [n d t p l]. unfold meta_eqb. simpl. rewrite !str_eqb_rfl. simpl.
  rewrite (list_eqb_rfl _ str_eqb) by auto using str_eqb_rfl.
  rewrite (list_eqb_rfl _ (pair_eqb str_eqb str_eqb)) by (intros [a b] _; unfold pair_eqb; simpl; rewrite !str_eqb_rfl; reflexivity).
  rewrite (list_eqb_rfl _ (pair_eqb str_eqb ostr_eqb)) by (intros [a b] _; unfold pair_eqb; simpl; rewrite str_eqb_rfl, ostr_eqb_rfl; reflexivity).
  reflexivity.
Qed.

Lemma steplog_eqb_rfl : forall a, steplog_eqb a a = true.
Proof. destruct a; simpl; rewrite ?str_eqb_rfl, ?ostr_eqb_rfl, ?Z.eqb_refl, ?eqb_reflx; reflexivity. Qed.

Lemma step_eqb_rfl : forall a, step_eqb a a = true.
Proof.
  intros [d s e l]. unfold step_eqb. simpl. rewrite str_eqb_rfl, !oZ_eqb_rfl. simpl.
  apply list_eqb_rfl. intros. apply steplog_eqb_rfl.
Qed.

Lemma result_eqb_rfl : forall a, result_eqb a a = true.
Proof.
  intros [s e st sd l]. unfold result_eqb. simpl. rewrite !oZ_eqb_rfl, !ostr_eqb_rfl. simpl.
  apply list_eqb_rfl. intros. apply step_eqb_rfl.
Qed.

Lemma oresult_eqb_rfl : forall a, option_eqb result_eqb a a = true.
Proof. destruct a; simpl; auto using result_eqb_rfl. Qed.

Lemma test_eqb_rfl : forall a, test_eqb a a = true.
Proof. intros [m r]. unfold test_eqb. simpl. rewrite meta_eqb_rfl, result_eqb_rfl. reflexivity. Qed.

Lemma suite_eqb_rfl : forall a, suite_eqb a a = true.
Proof.
  induction a as [m st e su td ts us IH] using suite_ind2. simpl.
  rewrite meta_eqb_rfl, !oZ_eqb_rfl, !oresult_eqb_rfl. simpl.
  rewrite (list_eqb_rfl _ test_eqb) by (intros; apply test_eqb_rfl). simpl.
  induction us as [|x r IHr]; auto. inversion IH; subst. rewrite H1. simpl. auto.
Qed.

Lemma report_eqb_rfl : forall a, report_eqb a a = true.
Proof.
  intros [t i s e sv n su td us]. unfold report_eqb. simpl.
  rewrite str_eqb_rfl, !oZ_eqb_rfl, Z.eqb_refl, !oresult_eqb_rfl. simpl.
  rewrite (list_eqb_rfl _ (pair_eqb str_eqb str_eqb)) by (intros [a b] _; unfold pair_eqb; simpl; rewrite !str_eqb_rfl; reflexivity).
  simpl. apply list_eqb_rfl. intros. apply suite_eqb_rfl.
Qed.

Lemma list_prefix_b_complete : forall A (eqb : A -> A -> bool), (forall x, eqb x x = true) ->
  forall l l', list_prefix l l' -> list_prefix_b eqb l l' = true.
Proof.
  intros A eqb Hr. induction l; intros l' [r E]; simpl; auto. subst l'. simpl. rewrite Hr. simpl. apply IHl. exists r. reflexivity.
Qed.

Lemma lep_b_complete : forall A (leb : A -> A -> bool) (R : A -> A -> Prop) l l',
  (forall x y, In x l -> R x y -> leb x y = true) -> lep R l l' -> lep_b leb l l' = true.
Proof.
  intros A leb R l l' H E. induction E; simpl; auto. rewrite (H a b) by auto with datatypes. simpl. apply IHE. auto with datatypes.
Qed.

Lemma emb_head_in : forall A (R : A -> A -> Prop) a r l', emb R (a :: r) l' -> exists y, In y l' /\ R a y.
Proof.
  intros A R a r l' H. remember (a :: r) as l eqn:El. induction H; try discriminate.
  - inversion El; subst. exists b. auto with datatypes.
  - destruct (IHemb El) as (y & Hy & Ry). exists y. auto with datatypes.
Qed.

Lemma str_eqb_neq : forall a b, a <> b -> str_eqb a b = false.
Proof. intros a b H. destruct (str_eqb a b) eqn:E; auto. apply N_list_eqb_eq in E. contradiction. Qed.

Lemma emb_b_complete : forall A (key : A -> str) (leb : A -> A -> bool) (R : A -> A -> Prop) l l',
  (forall x y, In x l -> R x y -> key x = key y /\ leb x y = true) ->
  NoDup (map key l') -> emb R l l' -> emb_b key leb l l' = true.
Proof.
  intros A key leb R l l' H Hn E. induction E.
  - reflexivity.
  - destruct (H a b) as [Hk Hl]; auto with datatypes. simpl. rewrite <- Hk, str_eqb_rfl, Hl. simpl.
    inversion Hn; subst. apply IHE; auto with datatypes.
  - destruct l as [|a r]; [reflexivity|].
    inversion Hn as [|? ? Hnotin Hn']; subst.
    destruct (emb_head_in _ _ _ _ _ E) as (y & Hy & Ry). destruct (H a y) as [Hk _]; auto with datatypes.
    assert (Hne : key b <> key a).
    { intros Eq. apply Hnotin. rewrite Eq, Hk. apply in_map. assumption. }
    change (emb_b key leb (a :: r) (b :: l')) with
      (match find_after key (key a) (b :: l') with None => false | Some (b0, r') => leb a b0 && emb_b key leb r r' end).
    cbn [find_after]. rewrite (str_eqb_neq _ _ Hne). apply (IHE H Hn').
Qed.

Lemma le_step_b_complete : forall a b, le_step a b -> le_step_b a b = true.
Proof.
  intros a b (D & S & L & F). unfold le_step_b. rewrite D, S, str_eqb_rfl, oZ_eqb_rfl. simpl.
  rewrite (list_prefix_b_complete _ steplog_eqb steplog_eqb_rfl _ _ L). simpl.
  destruct (st_end a) eqn:E; simpl; auto. rewrite <- F by congruence. apply step_eqb_rfl.
Qed.

Lemma le_result_b_complete : forall a b, le_result a b -> le_result_b a b = true.
Proof.
  intros a b (S & L & F). unfold le_result_b. rewrite S, oZ_eqb_rfl. simpl.
  rewrite (lep_b_complete _ le_step_b le_step _ _ (fun x y _ => le_step_b_complete x y) L). simpl.
  destruct (r_end a) eqn:E; simpl; auto. rewrite <- F by congruence. apply result_eqb_rfl.
Qed.

Lemma le_oresult_b_complete : forall a b, le_oresult a b -> le_oresult_b a b = true.
Proof. intros [a|] [b|] H; simpl in *; auto using le_result_b_complete; try contradiction. Qed.

Lemma le_test_b_complete : forall a b, le_test a b -> le_test_b a b = true.
Proof. intros a b [M R]. unfold le_test_b. rewrite M, meta_eqb_rfl, (le_result_b_complete _ _ R). reflexivity. Qed.

Lemma unique_children : forall l,
  (fix all (l : list suite_result) : Prop := match l with [] => True | x :: r => unique_names_suite x /\ all r end) l ->
  Forall unique_names_suite l.
Proof. induction l; intros H; constructor; destruct H; auto. Qed.

Lemma emb_mono2 : forall A (R R' : A -> A -> Prop) l l',
  (forall x y, In x l -> In y l' -> R x y -> R' x y) -> emb R l l' -> emb R' l l'.
Proof.
  intros A R R' l l' H E. induction E.
  - constructor.
  - constructor; auto with datatypes.
  - apply emb_skip. auto with datatypes.
Qed.

Lemma le_suite_b_complete : forall a b, le_suite a b -> unique_names_suite b -> le_suite_b a b = true.
Proof.
  induction a as [m st e su td ts us IH] using suite_ind2. intros b H U. inversion H; subst.
  rewrite le_suite_b_eq. destruct U as (U1 & U2 & U3). apply unique_children in U3.
  rewrite meta_eqb_rfl, oZ_eqb_rfl. cbn [andb].
  rewrite (le_oresult_b_complete su su') by assumption. rewrite (le_oresult_b_complete td td') by assumption. cbn [andb].
  rewrite (emb_b_complete _ test_name le_test_b le_test ts ts'); auto.
  2:{ intros x y _ Hxy. split; [destruct Hxy as [M _]; unfold test_name; rewrite M; reflexivity | apply le_test_b_complete; assumption]. }
  cbn [andb].
  rewrite (emb_b_complete _ suite_name le_suite_b (fun x y => le_suite x y /\ unique_names_suite y) us us'); auto.
  2:{ intros x y Hx [Hxy Uy]. split.
      - unfold suite_name. apply le_suite_meta in Hxy. rewrite Hxy. reflexivity.
      - rewrite Forall_forall in IH. apply IH; assumption. }
  2:{ eapply emb_mono2; [|eassumption]. intros x y _ Hy Hxy. split; auto. rewrite Forall_forall in U3. auto. }
  cbn [andb]. destruct e as [z|]; cbn [is_some]; [|reflexivity].
  match goal with Hf : Some z <> None -> _ = _ |- _ => rewrite <- Hf by discriminate end.
  apply suite_eqb_rfl.
Qed.

Theorem le_report_b_complete : forall a b, le_report a b -> unique_names b -> le_report_b a b = true.
Proof.
  intros a b (T & I & N & S & SU & TD & U & F) [U1 U2]. unfold le_report_b.
  rewrite T, I, N, str_eqb_rfl, Z.eqb_refl. simpl.
  rewrite (list_eqb_rfl _ (pair_eqb str_eqb str_eqb)) by (intros [x y] _; unfold pair_eqb; simpl; rewrite !str_eqb_rfl; reflexivity).
  simpl.
  assert (Hs : le_otime_b (rp_start a) (rp_start b) = true).
  { destruct S as [S|S]; rewrite S; simpl; auto. destruct (rp_start b); simpl; auto using Z.eqb_refl. }
  rewrite Hs, (le_oresult_b_complete _ _ SU), (le_oresult_b_complete _ _ TD). simpl.
  rewrite (emb_b_complete _ suite_name le_suite_b (fun x y => le_suite x y /\ unique_names_suite y) (rp_suites a) (rp_suites b)); auto.
  - simpl. destruct (rp_end a) eqn:E; simpl; auto. rewrite F by congruence. apply report_eqb_rfl.
  - intros x y _ [Hxy Uy]. split.
    + unfold suite_name. apply le_suite_meta in Hxy. rewrite Hxy. reflexivity.
    + apply le_suite_b_complete; assumption.
  - eapply emb_mono2; [|eassumption]. intros x y _ Hy Hxy. split; auto. rewrite Forall_forall in U2. auto.
Qed.
