(* Proofs about Model/Describe.v (C17). *)
From Coq Require Import List Bool NArith ZArith Arith Lia.
Import ListNotations.
From LCC Require Import Base.Util Model.PyVal Model.Matcher gen.TablesMatchers Model.Describe Proofs.MatcherP.

(* the operand loop of AllOf / AnyOf.build_description *)
Definition descs_loop (ni : not_impl) (cw : comp_words) :=
  fix descs (ms : list matcher) (t : transf) : list str * transf :=
    match ms with
    | [] => ([], t)
    | m' :: r => let '(s, t1) := describe_st ni cw m' t in let '(ss, t2) := descs r t1 in (s :: ss, t2)
    end.

Lemma describe_all_of : forall ni cw ms t, describe_st ni cw (AllOf ms) t = composite (descs_loop ni cw) ms (rel_all cw t) t.
Proof. reflexivity. Qed.

Lemma describe_any_of : forall ni cw ms t, describe_st ni cw (AnyOf ms) t = composite (descs_loop ni cw) ms (rel_any cw t) t.
Proof. reflexivity. Qed.

Lemma flip_flip : forall t, flip (flip t) = t.
Proof. intros [c n]. unfold flip. simpl. rewrite negb_involutive. reflexivity. Qed.

(* when every operand leaves the transformer as it found it, the loop yields the operands' stand-alone descriptions *)
Lemma descs_loop_pure : forall ni cw ms,
  Forall (fun m => forall t, snd (describe_st ni cw m t) = t) ms ->
  forall t, descs_loop ni cw ms t = (map (fun m => fst (describe_st ni cw m t)) ms, t).
Proof.
  intros ni cw ms H. induction H as [|m ms Hm Hms IH]; intro t; simpl; auto.
  specialize (Hm t). destruct (describe_st ni cw m t) as [s t1]. simpl in Hm. subst t1.
  rewrite IH. reflexivity.
Qed.


Lemma composite_layout : forall ni cw ms rel t,
  Forall (fun m => forall t, snd (describe_st ni cw m t) = t) ms ->
  composite (descs_loop ni cw) ms rel t = (layout ms rel (map (fun m => fst (describe_st ni cw m t)) ms), t).
Proof.
  intros ni cw ms rel t H. unfold composite, layout.
  pose proof (descs_loop_pure ni cw ms H) as E. rewrite !E.
  destruct (existsb is_composite ms); auto.
  destruct (existsb has_newline (map (fun m => fst (describe_st ni cw m t)) ms)); rewrite ?E; auto.
  destruct (Nat.ltb sl_limit (List.length (join (fill sl_join_format [rel]) (map (fun m => fst (describe_st ni cw m t)) ms)))); rewrite ?E; auto.
  destruct (join (fill sl_join_format [rel]) (map (fun m => fst (describe_st ni cw m t)) ms)); rewrite ?E; auto.
Qed.

(* C17_transformer_preserved (for the NotFresh implementation of Not; whatever the relationship words are) *)
Lemma transformer_preserved : forall cw m t, snd (describe_st NotFresh cw m t) = t.
Proof.
  intro cw. induction m using matcher_ind'; intro tr; try reflexivity.
  - simpl. destruct (describe_st NotFresh cw m conjugated). reflexivity.
  - simpl. destruct (describe_st NotFresh cw m conjugated). reflexivity.
  - simpl. destruct (describe_st NotFresh cw m conjugated). reflexivity.
  - simpl. destruct vm as [m'|]; auto. destruct (describe_st NotFresh cw m' conjugated). reflexivity.
  - simpl. destruct vm as [m'|]; auto. destruct (describe_st NotFresh cw m' conjugated). reflexivity.
  - rewrite describe_all_of, composite_layout; auto.
  - rewrite describe_any_of, composite_layout; auto.
  - simpl. destruct (describe_st NotFresh cw m (flip tr)). reflexivity.
  - simpl. destruct d; auto.
Qed.

Lemma all_preserved : forall cw ms, Forall (fun m => forall t, snd (describe_st NotFresh cw m t) = t) ms.
Proof. intros cw ms. apply Forall_forall. intros m _. apply transformer_preserved. Qed.

(* C17_sibling_independent *)
Lemma sibling_independent : forall cw ms t,
  describe_st NotFresh cw (AllOf ms) t = (layout ms (rel_all cw t) (map (fun m => fst (describe_st NotFresh cw m t)) ms), t) /\
  describe_st NotFresh cw (AnyOf ms) t = (layout ms (rel_any cw t) (map (fun m => fst (describe_st NotFresh cw m t)) ms), t).
Proof.
  intros. rewrite describe_all_of, describe_any_of. split; apply composite_layout; apply all_preserved.
Qed.

Lemma describe_not : forall cw m t, describe_st NotFresh cw (Not m) t = (fst (describe_st NotFresh cw m (flip t)), t).
Proof. intros. simpl. destruct (describe_st NotFresh cw m (flip t)). reflexivity. Qed.

Lemma double_negation_wording : forall cw m t, describe_st NotFresh cw (Not (Not m)) t = describe_st NotFresh cw m t.
Proof.
  intros. rewrite !describe_not. simpl. rewrite flip_flip.
  pose proof (transformer_preserved cw m t) as H. destruct (describe_st NotFresh cw m t) as [s t']. simpl in *. subst. reflexivity.
Qed.

(* ------------------------------------------------------------------ negation: wording follows logic (De Morgan, F9b repaired) *)
(* the words of a composite follow De Morgan: under a negative transformer all_of uses the word of any_of and conversely *)
Definition de_morgan_words (cw : comp_words) : Prop := cw_all_neg cw = cw_any cw /\ cw_any_neg cw = cw_all cw.

Lemma rel_all_flip : forall cw t, de_morgan_words cw -> rel_all cw (flip t) = rel_any cw t.
Proof. intros cw [c n] [Ha Hb]. unfold rel_all, rel_any, flip. simpl. destruct n; simpl; congruence. Qed.

Lemma rel_any_flip : forall cw t, de_morgan_words cw -> rel_any cw (flip t) = rel_all cw t.
Proof. intros cw [c n] [Ha Hb]. unfold rel_all, rel_any, flip. simpl. destruct n; simpl; congruence. Qed.

Lemma not_is_not_composite : forall ms, existsb is_composite (map Not ms) = false.
Proof. induction ms as [|m ms IH]; simpl; auto. Qed.

Lemma layout_operands_irrelevant : forall ms ms' rel ds,
  existsb is_composite ms = existsb is_composite ms' -> layout ms rel ds = layout ms' rel ds.
Proof. intros ms ms' rel ds H. unfold layout. rewrite H. reflexivity. Qed.

(* the descriptions of the operands of not_(all_of ms) are those of the operands of any_of (map not_ ms) *)
Lemma negated_operands : forall cw ms t,
  map (fun m => fst (describe_st NotFresh cw m (flip t))) ms = map (fun m => fst (describe_st NotFresh cw (Not m) t)) ms.
Proof. intros. apply map_ext. intro m. rewrite describe_not. reflexivity. Qed.

Lemma mapped_operands : forall cw ms t,
  map (fun m => fst (describe_st NotFresh cw m t)) (map Not ms) = map (fun m => fst (describe_st NotFresh cw (Not m) t)) ms.
Proof. intros. rewrite map_map. reflexivity. Qed.

(* general form: same relationship word, same operand descriptions; only the "an operand is itself a composite" test of the
   layout sees different objects (all_of / any_of on one side, Not objects on the other) *)
Lemma de_morgan_layout : forall cw ms t, de_morgan_words cw ->
  let ds := map (fun m => fst (describe_st NotFresh cw (Not m) t)) ms in
  describe_st NotFresh cw (Not (AllOf ms)) t = (layout ms (rel_any cw t) ds, t) /\
  describe_st NotFresh cw (AnyOf (map Not ms)) t = (layout (map Not ms) (rel_any cw t) ds, t) /\
  describe_st NotFresh cw (Not (AnyOf ms)) t = (layout ms (rel_all cw t) ds, t) /\
  describe_st NotFresh cw (AllOf (map Not ms)) t = (layout (map Not ms) (rel_all cw t) ds, t).
Proof.
  intros cw ms t W ds. unfold ds.
  destruct (sibling_independent cw ms (flip t)) as [Ha Ho].
  destruct (sibling_independent cw (map Not ms) t) as [Ha' Ho'].
  rewrite !describe_not, Ha, Ho, Ha', Ho'. cbn [fst].
  rewrite rel_all_flip, rel_any_flip, negated_operands, mapped_operands by exact W. repeat split; reflexivity.
Qed.

Lemma de_morgan_wording : forall cw ms t, de_morgan_words cw -> existsb is_composite ms = false ->
  describe_st NotFresh cw (Not (AllOf ms)) t = describe_st NotFresh cw (AnyOf (map Not ms)) t /\
  describe_st NotFresh cw (Not (AnyOf ms)) t = describe_st NotFresh cw (AllOf (map Not ms)) t.
Proof.
  intros cw ms t W Hc. destruct (de_morgan_layout cw ms t W) as (E1 & E2 & E3 & E4).
  rewrite E1, E2, E3, E4.
  assert (Hl : existsb is_composite ms = existsb is_composite (map Not ms)) by (rewrite not_is_not_composite; exact Hc).
  split; f_equal; apply layout_operands_irrelevant; exact Hl.
Qed.

Lemma source_words_de_morgan : de_morgan_words comp_of_source.
Proof. split; reflexivity. Qed.

Lemma negation_follows_logic : forall m ms t v,
  (* not_(m) is worded as m under the flipped transformer and accepts the opposite *)
  fst (describe_st NotFresh comp_of_source (Not m) t) = fst (describe_st NotFresh comp_of_source m (flip t)) /\
  truth (matches (Not m) v) = rmap negb (truth (matches m v)) /\
  (* De Morgan, wording and logic *)
  (existsb is_composite ms = false ->
   describe_st NotFresh comp_of_source (Not (AllOf ms)) t = describe_st NotFresh comp_of_source (AnyOf (map Not ms)) t /\
   describe_st NotFresh comp_of_source (Not (AnyOf ms)) t = describe_st NotFresh comp_of_source (AllOf (map Not ms)) t) /\
  truth (matches (Not (AllOf ms)) v) = truth (matches (AnyOf (map Not ms)) v) /\
  truth (matches (Not (AnyOf ms)) v) = truth (matches (AllOf (map Not ms)) v).
Proof.
  intros. split; [|split; [|split; [|split]]].
  - rewrite describe_not. reflexivity.
  - apply not_exact.
  - apply de_morgan_wording. exact source_words_de_morgan.
  - apply de_morgan_all.
  - apply de_morgan_any.
Qed.

Lemma negation_de_morgan_layout : forall ms t,
  let ds := map (fun m => fst (describe_st NotFresh comp_of_source (Not m) t)) ms in
  describe_st NotFresh comp_of_source (Not (AllOf ms)) t = (layout ms (rel_any comp_of_source t) ds, t) /\
  describe_st NotFresh comp_of_source (AnyOf (map Not ms)) t = (layout (map Not ms) (rel_any comp_of_source t) ds, t) /\
  describe_st NotFresh comp_of_source (Not (AnyOf ms)) t = (layout ms (rel_all comp_of_source t) ds, t) /\
  describe_st NotFresh comp_of_source (AllOf (map Not ms)) t = (layout (map Not ms) (rel_all comp_of_source t) ds, t).
Proof. intros ms t. apply de_morgan_layout. exact source_words_de_morgan. Qed.

Definition gt0 := Comparator (CCmp Gt) (VInt 0).
Definition lt10 := Comparator (CCmp Lt) (VInt 10).
Definition eq5 := EqualTo (VInt 5).

(* with an operand that is itself a composite the two sides may be laid out differently (the left one is always itemised);
   they still show the same word and the same operand descriptions (negation_de_morgan_layout) *)
Lemma de_morgan_wording_composite_operand : exists ms,
  describe NotFresh comp_of_source (Not (AllOf ms)) <> describe NotFresh comp_of_source (AnyOf (map Not ms)).
Proof. exists [gt0; AnyOf [lt10; eq5]]. intro H. vm_compute in H. discriminate H. Qed.

(* the wording of a negated matcher is the negative form of the same sentence: for a leaf, transform with the flag flipped *)
Lemma negated_leaf_wording : forall cw e t,
  fst (describe_st NotFresh cw (Not (EqualTo e)) t) = transform (flip t) (fill tpl_equal_to [jsonify e]).
Proof. reflexivity. Qed.

(* ------------------------------------------------------------------ pre-fix variant (NotMutates): what F9a is *)
Definition leak_operands : list matcher := [Not IsNone; Comparator (CCmp Gt) (VInt 0)].

(* all_of(is_not_none(), greater_than(0)): the second operand is worded in the negative although it is not negated *)
Lemma sibling_independent_mutating_refuted : exists ms t,
  fst (describe_st NotMutates comp_unfixed (AllOf ms) t) <>
    layout ms (rel_all comp_unfixed t) (map (fun m => fst (describe_st NotMutates comp_unfixed m t)) ms) /\
  snd (describe_st NotMutates comp_unfixed (AllOf ms) t) <> t.
Proof.
  exists leak_operands, fresh. split; intro H; vm_compute in H; discriminate H.
Qed.

(* not_(not_(m)) is worded like not_(m) but accepts what m accepts *)
Lemma double_negation_mutating_refuted : exists m v,
  fst (describe_st NotMutates comp_unfixed (Not (Not m)) fresh) = fst (describe_st NotMutates comp_unfixed (Not m) fresh) /\
  accepts (Not (Not m)) v = true /\ accepts (Not m) v = false.
Proof. exists IsNone, VNone. repeat split; vm_compute; reflexivity. Qed.

(* ------------------------------------------------------------------ F9b: the description does not determine what was verified *)
(* pre-fix variant (comp_unfixed: one relationship word whatever the transformer): not_(all_of(a, b)) is worded like
   all_of(not_(a), not_(b)).  With the words of the source (comp_of_source) the same pair is told apart. *)
Lemma faithful_negated_composite_unfixed_refuted : exists m1 m2 v,
  describe NotFresh comp_unfixed m1 = describe NotFresh comp_unfixed m2 /\ accepts m1 v = true /\ accepts m2 v = false /\
  describe NotFresh comp_of_source m1 <> describe NotFresh comp_of_source m2.
Proof.
  exists (Not (AllOf [gt0; lt10])), (AllOf [Not gt0; Not lt10]), (VInt 20).
  repeat split; try (vm_compute; reflexivity). intro H. vm_compute in H. discriminate H.
Qed.

(* still true of the repaired code: not_(composite) is a Not object, which its parent does not see as a composite, so it is
   joined on the parent's line without grouping:  a and (not b or not c)  reads like  (a and not b) or not c *)
Lemma faithful_refuted_negated_operand : exists m1 m2 v,
  describe not_of_source comp_of_source m1 = describe not_of_source comp_of_source m2 /\ accepts m1 v = true /\ accepts m2 v = false.
Proof.
  exists (AnyOf [Not (AnyOf [Not gt0; lt10]); Not eq5]), (AllOf [gt0; Not (AllOf [lt10; eq5])]), (VInt 0).
  repeat split; vm_compute; reflexivity.
Qed.

Lemma faithful_refuted_empty_composite : exists m1 m2 v,
  describe not_of_source comp_of_source m1 = describe not_of_source comp_of_source m2 /\ accepts m1 v = true /\ accepts m2 v = false.
Proof. exists (AllOf []), (AnyOf []), VNone. repeat split; vm_compute; reflexivity. Qed.

(* json.dumps turns every dict key into a string: {1: 2} and {"1": 2} are printed alike *)
Lemma faithful_refuted_dict_key : exists m1 m2 v,
  describe not_of_source comp_of_source m1 = describe not_of_source comp_of_source m2 /\ accepts m1 v = true /\ accepts m2 v = false.
Proof.
  exists (EqualTo (VDict [(KInt 1, VInt 2)])), (EqualTo (VDict [(KStr [49%N], VInt 2)])), (VDict [(KInt 1, VInt 2)]).
  repeat split; vm_compute; reflexivity.
Qed.

(* ------------------------------------------------------------------ token-level faithfulness of flat expressions *)
Lemma single_line_lits : forall rel ls, rel = TAnd \/ rel = TOr -> toks_lits (single_line_toks rel ls) = ls.
Proof.
  intros rel ls Hrel. induction ls as [|l [|l' r] IH]; simpl; auto.
  simpl in IH. destruct Hrel; subst; simpl; rewrite IH; reflexivity.
Qed.

Lemma items_lits : forall rel ls first, rel = TAnd \/ rel = TOr -> toks_lits (items_toks rel ls first) = ls.
Proof.
  intros rel ls first Hrel. revert first. induction ls as [|l r IH]; intro first; simpl; auto.
  destruct first; destruct Hrel; subst; simpl; rewrite IH; reflexivity.
Qed.

Lemma single_line_or_and : forall ls, toks_has_or (single_line_toks TAnd ls) = false.
Proof. induction ls as [|l [|l' r] IH]; simpl; auto. Qed.

Lemma items_or_and : forall ls first, toks_has_or (items_toks TAnd ls first) = false.
Proof. induction ls as [|l r IH]; intro first; simpl; auto. destruct first; simpl; auto. Qed.

Lemma single_line_or_or : forall ls, toks_has_or (single_line_toks TOr ls) = match ls with _ :: _ :: _ => true | _ => false end.
Proof. destruct ls as [|l [|l' r]]; simpl; auto. Qed.

Lemma items_or_or : forall ls, toks_has_or (items_toks TOr ls true) = match ls with _ :: _ :: _ => true | _ => false end.
Proof. destruct ls as [|l [|l' r]]; simpl; auto. Qed.

(* the tokens determine the verdicts: reading them back gives the semantics of the expression *)
Lemma toks_sem_render : forall val single f, flat_nonempty f = true -> toks_sem val (render_flat single f) = flat_sem val f.
Proof.
  intros val single f Hne. unfold toks_sem. destruct f as [l|ls|ls]; simpl.
  - rewrite andb_true_r. reflexivity.
  - destruct single.
    + rewrite single_line_or_and, single_line_lits; auto.
    + simpl. rewrite items_or_and, items_lits; auto.
  - destruct single.
    + rewrite single_line_or_or, single_line_lits; auto.
      destruct ls as [|l [|l' r]]; simpl in *; try discriminate; rewrite ?andb_true_r, ?orb_false_r; reflexivity.
    + simpl. rewrite items_or_or, items_lits; auto.
      destruct ls as [|l [|l' r]]; simpl in *; try discriminate; rewrite ?andb_true_r, ?orb_false_r; reflexivity.
Qed.

Lemma faithful_partial : forall s1 s2 f1 f2,
  flat_nonempty f1 = true -> flat_nonempty f2 = true ->
  render_flat s1 f1 = render_flat s2 f2 ->
  forall val, flat_sem val f1 = flat_sem val f2.
Proof.
  intros s1 s2 f1 f2 H1 H2 E val.
  rewrite <- (toks_sem_render val s1 f1 H1), <- (toks_sem_render val s2 f2 H2), E. reflexivity.
Qed.

(* without the non-emptiness hypothesis it is false (the empty composites of F9b) *)
Lemma faithful_partial_needs_nonempty : exists s f1 f2 val, render_flat s f1 = render_flat s f2 /\ flat_sem val f1 <> flat_sem val f2.
Proof. exists false, (FAll []), (FAny []), (fun _ => true). split; [reflexivity | discriminate]. Qed.

(* outside the property's fragment: a composite behind hide_result_details() is not seen as a composite by its parent and
   is rendered on the parent's line without grouping: (1 or 2) and 3 reads like 1 or (2 and 3) *)
Lemma faithful_refuted_wrapped_composite : exists m1 m2 v,
  describe not_of_source comp_of_source m1 = describe not_of_source comp_of_source m2 /\ accepts m1 v = true /\ accepts m2 v = false.
Proof.
  exists (any_of [AVal (VInt 1); AMat (hide_result_details (all_of [AVal (VInt 2); AVal (VInt 3)]))]),
         (all_of [AMat (hide_result_details (any_of [AVal (VInt 1); AVal (VInt 2)])); AVal (VInt 3)]), (VInt 1).
  repeat split; vm_compute; reflexivity.
Qed.

(* ------------------------------------------------------------------ token-level faithfulness of nested expressions *)
Section FexprInd.
  Variable P : fexpr -> Prop.
  Hypothesis H_FL : forall l, P (FL l).
  Hypothesis H_FAllN : forall es, Forall P es -> P (FAllN es).
  Hypothesis H_FAnyN : forall es, Forall P es -> P (FAnyN es).
  Fixpoint fexpr_ind' (e : fexpr) : P e :=
    match e with
    | FL l => H_FL l
    | FAllN es => H_FAllN es ((fix go (l : list fexpr) : Forall P l :=
                                 match l with [] => Forall_nil P | x :: r => Forall_cons x (fexpr_ind' x) (go r) end) es)
    | FAnyN es => H_FAnyN es ((fix go (l : list fexpr) : Forall P l :=
                                 match l with [] => Forall_nil P | x :: r => Forall_cons x (fexpr_ind' x) (go r) end) es)
    end.
End FexprInd.

Lemma all_lits_sem : forall val es, forallb fexpr_is_lit es = true ->
  forallb (fsem val) es = forallb (lit_sem val) (fexpr_lits es) /\
  existsb (fsem val) es = existsb (lit_sem val) (fexpr_lits es).
Proof.
  intros val es. induction es as [|e es IH]; simpl; auto.
  destruct e as [l| |]; simpl; try discriminate.
  intro H. destruct (IH H) as [IHa IHe]. rewrite IHa, IHe. auto.
Qed.

Lemma all_lits_length : forall es, forallb fexpr_is_lit es = true -> List.length (fexpr_lits es) = List.length es.
Proof.
  induction es as [|e es IH]; simpl; auto. destruct e; simpl; try discriminate. intro H. rewrite IH; auto.
Qed.

Lemma doc_items_or_and : forall ds first, existsb item_is_or (doc_items TAnd ds first) = false.
Proof. induction ds as [|d r IH]; intro first; simpl; auto. destruct first; simpl; auto. Qed.

Lemma doc_items_or_or : forall ds, existsb item_is_or (doc_items TOr ds true) = match ds with _ :: _ :: _ => true | _ => false end.
Proof. destruct ds as [|d [|d' r]]; simpl; auto. Qed.

Lemma doc_items_forallb : forall val rel es single first,
  Forall (fun e => fexpr_wf e = true -> doc_sem val (render single e) = fsem val e) es ->
  forallb fexpr_wf es = true ->
  forallb (fun it => doc_sem val (snd it)) (doc_items rel (map (render single) es) first) = forallb (fsem val) es /\
  existsb (fun it => doc_sem val (snd it)) (doc_items rel (map (render single) es) first) = existsb (fsem val) es.
Proof.
  intros val rel es single first H. revert first. induction H as [|e es He Hes IH]; intros first Hwf; simpl; auto.
  simpl in Hwf. apply andb_true_iff in Hwf. destruct Hwf as [Hwe Hwes].
  destruct (IH false Hwes) as [IHa IHe]. rewrite He, IHa, IHe; auto.
Qed.

Lemma doc_sem_render : forall val single e, fexpr_wf e = true -> doc_sem val (render single e) = fsem val e.
Proof.
  intros val single. induction e using fexpr_ind'; intro Hwf.
  - simpl. unfold toks_sem. simpl. rewrite andb_true_r. reflexivity.
  - simpl in Hwf. destruct es as [|e0 es0]; try discriminate.
    cbn [render]. destruct (forallb fexpr_is_lit (e0 :: es0) && single (e0 :: es0)) eqn:E.
    + apply andb_true_iff in E. destruct E as [El _].
      cbn [doc_sem]. unfold toks_sem. rewrite single_line_or_and, single_line_lits; auto.
      symmetry. apply (all_lits_sem val _ El).
    + cbn [doc_sem]. rewrite doc_items_or_and.
      apply (doc_items_forallb val TAnd (e0 :: es0) single true H Hwf).
  - simpl in Hwf. destruct es as [|e0 es0]; try discriminate.
    cbn [render]. destruct (forallb fexpr_is_lit (e0 :: es0) && single (e0 :: es0)) eqn:E.
    + apply andb_true_iff in E. destruct E as [El _].
      cbn [doc_sem]. unfold toks_sem. rewrite single_line_or_or, single_line_lits; auto.
      destruct (all_lits_sem val _ El) as [Ha He]. cbn [fsem]. rewrite He.
      pose proof (all_lits_length _ El) as Hlen.
      destruct (fexpr_lits (e0 :: es0)) as [|l [|l' r]] eqn:EL; simpl in *; try discriminate;
        rewrite ?andb_true_r, ?orb_false_r; reflexivity.
    + cbn [doc_sem]. rewrite doc_items_or_or.
      destruct (doc_items_forallb val TOr (e0 :: es0) single true H Hwf) as [Ha He].
      destruct es0 as [|e1 es1].
      * rewrite Ha. simpl. rewrite andb_true_r, orb_false_r. reflexivity.
      * rewrite He. reflexivity.
Qed.

Lemma faithful_partial_nested : forall s1 s2 e1 e2,
  fexpr_wf e1 = true -> fexpr_wf e2 = true ->
  render s1 e1 = render s2 e2 ->
  forall val, fsem val e1 = fsem val e2.
Proof.
  intros s1 s2 e1 e2 H1 H2 E val.
  rewrite <- (doc_sem_render val s1 e1 H1), <- (doc_sem_render val s2 e2 H2), E. reflexivity.
Qed.

(* ------------------------------------------------------------------ token-level faithfulness under one negation (F9b repaired) *)
Lemma neg_lit_false : forall l, neg_lit false l = l.
Proof. intros [id [|]]; reflexivity. Qed.

Lemma lit_sem_neg : forall val b l, lit_sem val (neg_lit b l) = xorb b (lit_sem val l).
Proof. intros val b [id n]. simpl. apply xorb_assoc. Qed.

Lemma forallb_map' : forall {A B} (f : B -> bool) (g : A -> B) l, forallb f (map g l) = forallb (fun x => f (g x)) l.
Proof. induction l as [|x l IH]; simpl; congruence. Qed.

Lemma existsb_map' : forall {A B} (f : B -> bool) (g : A -> B) l, existsb f (map g l) = existsb (fun x => f (g x)) l.
Proof. induction l as [|x l IH]; simpl; congruence. Qed.

Lemma existsb_negb : forall {A} (f : A -> bool) l, existsb (fun x => negb (f x)) l = negb (forallb f l).
Proof. induction l as [|x l IH]; simpl; auto. rewrite IH, negb_andb. reflexivity. Qed.

Lemma forallb_negb : forall {A} (f : A -> bool) l, forallb (fun x => negb (f x)) l = negb (existsb f l).
Proof. induction l as [|x l IH]; simpl; auto. rewrite IH, negb_orb. reflexivity. Qed.

Lemma forallb_ext' : forall {A} (f g : A -> bool) l, (forall x, f x = g x) -> forallb f l = forallb g l.
Proof. intros A f g l H. induction l as [|x l IH]; simpl; congruence. Qed.

Lemma existsb_ext' : forall {A} (f g : A -> bool) l, (forall x, f x = g x) -> existsb f l = existsb g l.
Proof. intros A f g l H. induction l as [|x l IH]; simpl; congruence. Qed.

(* reading one line back *)
Lemma toks_sem_line_and : forall val ls, toks_sem val (single_line_toks TAnd ls) = forallb (lit_sem val) ls.
Proof. intros. unfold toks_sem. rewrite single_line_or_and, single_line_lits; auto. Qed.

Lemma toks_sem_line_or : forall val ls, ls <> [] -> toks_sem val (single_line_toks TOr ls) = existsb (lit_sem val) ls.
Proof.
  intros val ls Hne. unfold toks_sem. rewrite single_line_or_or, single_line_lits; auto.
  destruct ls as [|l [|l' r]]; try congruence; simpl; rewrite ?andb_true_r, ?orb_false_r; reflexivity.
Qed.

(* reading an itemised list back *)
Lemma doc_items_sems : forall val rel ds first,
  forallb (fun it => doc_sem val (snd it)) (doc_items rel ds first) = forallb (doc_sem val) ds /\
  existsb (fun it => doc_sem val (snd it)) (doc_items rel ds first) = existsb (doc_sem val) ds.
Proof.
  intros val rel ds. induction ds as [|d r IH]; intro first; simpl; auto.
  destruct (IH false) as [Ha He]. rewrite Ha, He. auto.
Qed.

Lemma doc_sem_items_and : forall val ds, doc_sem val (DItems (doc_items TAnd ds true)) = forallb (doc_sem val) ds.
Proof. intros. cbn [doc_sem]. rewrite doc_items_or_and. apply doc_items_sems. Qed.

Lemma doc_sem_items_or : forall val ds, ds <> [] -> doc_sem val (DItems (doc_items TOr ds true)) = existsb (doc_sem val) ds.
Proof.
  intros val ds Hne. cbn [doc_sem]. rewrite doc_items_or_or. destruct (doc_items_sems val TOr ds true) as [Ha He].
  destruct ds as [|d [|d' r]]; [congruence | | exact He].
  rewrite Ha. simpl. rewrite andb_true_r, orb_false_r. reflexivity.
Qed.

Lemma operand_sems : forall val single b es,
  Forall (fun e => fexpr_wf e = true -> doc_sem val (render_under single b e) = xorb b (fsem val e)) es ->
  forallb fexpr_wf es = true ->
  map (doc_sem val) (map (render_under single b) es) = map (fun e => xorb b (fsem val e)) es.
Proof.
  intros val single b es H. induction H as [|e es He Hes IH]; intro Hwf; simpl; auto.
  simpl in Hwf. apply andb_true_iff in Hwf. destruct Hwf as [Hwe Hwes]. rewrite He, IH; auto.
Qed.

Lemma forallb_as_map : forall {A} (f : A -> bool) l, forallb f l = forallb (fun b => b) (map f l).
Proof. intros. rewrite forallb_map'. reflexivity. Qed.

Lemma existsb_as_map : forall {A} (f : A -> bool) l, existsb f l = existsb (fun b => b) (map f l).
Proof. intros. rewrite existsb_map'. reflexivity. Qed.

(* the description of e under a transformer with negation flag b reads as: e negated iff b *)
Lemma doc_sem_render_under : forall val single b e, fexpr_wf e = true -> doc_sem val (render_under single b e) = xorb b (fsem val e).
Proof.
  intros val single b. induction e using fexpr_ind'; intro Hwf.
  - cbn [render_under doc_sem]. unfold toks_sem. cbn [toks_has_or toks_lits forallb fsem]. rewrite andb_true_r. apply lit_sem_neg.
  - simpl in Hwf. destruct es as [|e0 es0]; try discriminate.
    assert (Hne : e0 :: es0 <> []) by discriminate.
    cbn [render_under]. destruct (forallb fexpr_is_lit (e0 :: es0) && single b (e0 :: es0)) eqn:E.
    + apply andb_true_iff in E. destruct E as [El _]. cbn [doc_sem fsem].
      destruct (all_lits_sem val _ El) as [Ha He]. pose proof (all_lits_length _ El) as Hlen. rewrite Ha.
      destruct b; cbn [tok_all].
      * rewrite toks_sem_line_or, existsb_map'.
        -- rewrite (existsb_ext' _ (fun l => negb (lit_sem val l))) by (intro l; rewrite lit_sem_neg; apply xorb_true_l).
           rewrite existsb_negb. symmetry. apply xorb_true_l.
        -- destruct (fexpr_lits (e0 :: es0)); [discriminate Hlen | discriminate].
      * rewrite toks_sem_line_and, forallb_map'.
        rewrite (forallb_ext' _ (lit_sem val)) by (intro l; rewrite neg_lit_false; reflexivity). symmetry. apply xorb_false_l.
    + cbn [fsem]. pose proof (operand_sems val single b _ H Hwf) as Hm.
      destruct b; cbn [tok_all].
      * rewrite doc_sem_items_or by (simpl; discriminate).
        rewrite existsb_as_map, Hm, <- existsb_as_map.
        rewrite (existsb_ext' _ (fun e => negb (fsem val e))) by (intro e; apply xorb_true_l).
        rewrite existsb_negb. symmetry. apply xorb_true_l.
      * rewrite doc_sem_items_and. rewrite forallb_as_map, Hm, <- forallb_as_map.
        rewrite (forallb_ext' _ (fsem val)) by (intro e; apply xorb_false_l). symmetry. apply xorb_false_l.
  - simpl in Hwf. destruct es as [|e0 es0]; try discriminate.
    assert (Hne : e0 :: es0 <> []) by discriminate.
    cbn [render_under]. destruct (forallb fexpr_is_lit (e0 :: es0) && single b (e0 :: es0)) eqn:E.
    + apply andb_true_iff in E. destruct E as [El _]. cbn [doc_sem fsem].
      destruct (all_lits_sem val _ El) as [Ha He]. pose proof (all_lits_length _ El) as Hlen. rewrite He.
      destruct b; cbn [tok_any].
      * rewrite toks_sem_line_and, forallb_map'.
        rewrite (forallb_ext' _ (fun l => negb (lit_sem val l))) by (intro l; rewrite lit_sem_neg; apply xorb_true_l).
        rewrite forallb_negb. symmetry. apply xorb_true_l.
      * rewrite toks_sem_line_or, existsb_map'.
        -- rewrite (existsb_ext' _ (lit_sem val)) by (intro l; rewrite neg_lit_false; reflexivity). symmetry. apply xorb_false_l.
        -- destruct (fexpr_lits (e0 :: es0)); [discriminate Hlen | discriminate].
    + cbn [fsem]. pose proof (operand_sems val single b _ H Hwf) as Hm.
      destruct b; cbn [tok_any].
      * rewrite doc_sem_items_and. rewrite forallb_as_map, Hm, <- forallb_as_map.
        rewrite (forallb_ext' _ (fun e => negb (fsem val e))) by (intro e; apply xorb_true_l).
        rewrite forallb_negb. symmetry. apply xorb_true_l.
      * rewrite doc_sem_items_or by (simpl; discriminate).
        rewrite existsb_as_map, Hm, <- existsb_as_map.
        rewrite (existsb_ext' _ (fsem val)) by (intro e; apply xorb_false_l). symmetry. apply xorb_false_l.
Qed.

(* render_under with the flag off is render *)
Lemma render_under_false : forall single e, render_under single false e = render (single false) e.
Proof.
  intros single. induction e using fexpr_ind'; cbn [render_under render tok_all tok_any].
  - rewrite neg_lit_false. reflexivity.
  - rewrite (map_ext _ (fun l => l) neg_lit_false), map_id.
    replace (map (render_under single false) es) with (map (render (single false)) es); auto.
    induction H as [|e es He Hes IH]; simpl; congruence.
  - rewrite (map_ext _ (fun l => l) neg_lit_false), map_id.
    replace (map (render_under single false) es) with (map (render (single false)) es); auto.
    induction H as [|e es He Hes IH]; simpl; congruence.
Qed.

(* C17_faithful_partial, extended: expressions under zero or one not_ *)
Lemma faithful_partial_negated : forall s1 s2 b1 b2 e1 e2,
  fexpr_wf e1 = true -> fexpr_wf e2 = true ->
  render_under s1 b1 e1 = render_under s2 b2 e2 ->
  forall val, xorb b1 (fsem val e1) = xorb b2 (fsem val e2).
Proof.
  intros s1 s2 b1 b2 e1 e2 H1 H2 E val.
  rewrite <- (doc_sem_render_under val s1 b1 e1 H1), <- (doc_sem_render_under val s2 b2 e2 H2), E. reflexivity.
Qed.
