(* Proofs about Model/Describe.v (C17). *)
From Coq Require Import List Bool NArith ZArith Arith Lia.
Import ListNotations.
From LCC Require Import Base.Util Model.PyVal Model.Matcher gen.TablesMatchers Model.Describe Proofs.MatcherP.

(* the operand loop of AllOf / AnyOf.build_description *)
Definition descs_loop (ni : not_impl) :=
  fix descs (ms : list matcher) (t : transf) : list str * transf :=
    match ms with
    | [] => ([], t)
    | m' :: r => let '(s, t1) := describe_st ni m' t in let '(ss, t2) := descs r t1 in (s :: ss, t2)
    end.

Lemma describe_all_of : forall ni ms t, describe_st ni (AllOf ms) t = composite (descs_loop ni) ms rel_and t.
Proof. reflexivity. Qed.

Lemma describe_any_of : forall ni ms t, describe_st ni (AnyOf ms) t = composite (descs_loop ni) ms rel_or t.
Proof. reflexivity. Qed.

Lemma flip_flip : forall t, flip (flip t) = t.
Proof. intros [c n]. unfold flip. simpl. rewrite negb_involutive. reflexivity. Qed.

(* when every operand leaves the transformer as it found it, the loop yields the operands' stand-alone descriptions *)
Lemma descs_loop_pure : forall ni ms,
  Forall (fun m => forall t, snd (describe_st ni m t) = t) ms ->
  forall t, descs_loop ni ms t = (map (fun m => fst (describe_st ni m t)) ms, t).
Proof.
  intros ni ms H. induction H as [|m ms Hm Hms IH]; intro t; simpl; auto.
  specialize (Hm t). destruct (describe_st ni m t) as [s t1]. simpl in Hm. subst t1.
  rewrite IH. reflexivity.
Qed.


Lemma composite_layout : forall ni ms rel t,
  Forall (fun m => forall t, snd (describe_st ni m t) = t) ms ->
  composite (descs_loop ni) ms rel t = (layout ms rel (map (fun m => fst (describe_st ni m t)) ms), t).
Proof.
  intros ni ms rel t H. unfold composite, layout.
  pose proof (descs_loop_pure ni ms H) as E. rewrite !E.
  destruct (existsb is_composite ms); auto.
  destruct (existsb has_newline (map (fun m => fst (describe_st ni m t)) ms)); rewrite ?E; auto.
  destruct (Nat.ltb sl_limit (List.length (join (fill sl_join_format [rel]) (map (fun m => fst (describe_st ni m t)) ms)))); rewrite ?E; auto.
  destruct (join (fill sl_join_format [rel]) (map (fun m => fst (describe_st ni m t)) ms)); rewrite ?E; auto.
Qed.

(* C17_transformer_preserved (for the NotFresh implementation of Not) *)
Lemma transformer_preserved : forall m t, snd (describe_st NotFresh m t) = t.
Proof.
  induction m using matcher_ind'; intro tr; try reflexivity.
  - simpl. destruct (describe_st NotFresh m conjugated). reflexivity.
  - simpl. destruct (describe_st NotFresh m conjugated). reflexivity.
  - simpl. destruct (describe_st NotFresh m conjugated). reflexivity.
  - simpl. destruct vm as [m'|]; auto. destruct (describe_st NotFresh m' conjugated). reflexivity.
  - simpl. destruct vm as [m'|]; auto. destruct (describe_st NotFresh m' conjugated). reflexivity.
  - rewrite describe_all_of, composite_layout; auto.
  - rewrite describe_any_of, composite_layout; auto.
  - simpl. destruct (describe_st NotFresh m (flip tr)). reflexivity.
  - simpl. destruct d; auto.
Qed.

Lemma all_preserved : forall ms, Forall (fun m => forall t, snd (describe_st NotFresh m t) = t) ms.
Proof. intro ms. apply Forall_forall. intros m _. apply transformer_preserved. Qed.

(* C17_sibling_independent *)
Lemma sibling_independent : forall ms t,
  describe_st NotFresh (AllOf ms) t = (layout ms rel_and (map (fun m => fst (describe_st NotFresh m t)) ms), t) /\
  describe_st NotFresh (AnyOf ms) t = (layout ms rel_or (map (fun m => fst (describe_st NotFresh m t)) ms), t).
Proof.
  intros. rewrite describe_all_of, describe_any_of. split; apply composite_layout; apply all_preserved.
Qed.

Lemma describe_not : forall m t, describe_st NotFresh (Not m) t = (fst (describe_st NotFresh m (flip t)), t).
Proof. intros. simpl. destruct (describe_st NotFresh m (flip t)). reflexivity. Qed.

Lemma double_negation_wording : forall m t, describe_st NotFresh (Not (Not m)) t = describe_st NotFresh m t.
Proof.
  intros. rewrite !describe_not. simpl. rewrite flip_flip.
  pose proof (transformer_preserved m t) as H. destruct (describe_st NotFresh m t) as [s t']. simpl in *. subst. reflexivity.
Qed.

Lemma negation_follows_logic : forall m t v,
  fst (describe_st NotFresh (Not m) t) = fst (describe_st NotFresh m (flip t)) /\
  truth (matches (Not m) v) = rmap negb (truth (matches m v)).
Proof. intros. split. rewrite describe_not. reflexivity. apply not_exact. Qed.

(* the wording of a negated matcher is the negative form of the same sentence: for a leaf, transform with the flag flipped *)
Lemma negated_leaf_wording : forall e t,
  fst (describe_st NotFresh (Not (EqualTo e)) t) = transform (flip t) (fill tpl_equal_to [jsonify e]).
Proof. reflexivity. Qed.

(* ------------------------------------------------------------------ pre-fix variant (NotMutates): what F9a is *)
Definition leak_operands : list matcher := [Not IsNone; Comparator (CCmp Gt) (VInt 0)].

(* all_of(is_not_none(), greater_than(0)): the second operand is worded in the negative although it is not negated *)
Lemma sibling_independent_mutating_refuted : exists ms t,
  fst (describe_st NotMutates (AllOf ms) t) <> layout ms rel_and (map (fun m => fst (describe_st NotMutates m t)) ms) /\
  snd (describe_st NotMutates (AllOf ms) t) <> t.
Proof.
  exists leak_operands, fresh. split; intro H; vm_compute in H; discriminate H.
Qed.

(* not_(not_(m)) is worded like not_(m) but accepts what m accepts *)
Lemma double_negation_mutating_refuted : exists m v,
  fst (describe_st NotMutates (Not (Not m)) fresh) = fst (describe_st NotMutates (Not m) fresh) /\
  accepts (Not (Not m)) v = true /\ accepts (Not m) v = false.
Proof. exists IsNone, VNone. repeat split; vm_compute; reflexivity. Qed.

(* ------------------------------------------------------------------ F9b: the description does not determine what was verified *)
Definition gt0 := Comparator (CCmp Gt) (VInt 0).
Definition lt10 := Comparator (CCmp Lt) (VInt 10).

Lemma faithful_refuted_negated_composite : exists m1 m2 v,
  describe not_of_source m1 = describe not_of_source m2 /\ accepts m1 v = true /\ accepts m2 v = false.
Proof.
  exists (Not (AllOf [gt0; lt10])), (AllOf [Not gt0; Not lt10]), (VInt 20).
  repeat split; vm_compute; reflexivity.
Qed.

Lemma faithful_refuted_empty_composite : exists m1 m2 v,
  describe not_of_source m1 = describe not_of_source m2 /\ accepts m1 v = true /\ accepts m2 v = false.
Proof. exists (AllOf []), (AnyOf []), VNone. repeat split; vm_compute; reflexivity. Qed.

(* json.dumps turns every dict key into a string: {1: 2} and {"1": 2} are printed alike *)
Lemma faithful_refuted_dict_key : exists m1 m2 v,
  describe not_of_source m1 = describe not_of_source m2 /\ accepts m1 v = true /\ accepts m2 v = false.
Proof.
  exists (EqualTo (VDict [(KInt 1, VInt 2)])), (EqualTo (VDict [(KStr [49%N], VInt 2)])), (VDict [(KInt 1, VInt 2)]).
  repeat split; vm_compute; reflexivity.
Qed.

(* ------------------------------------------------------------------ token-level faithfulness of flat expressions *)
Lemma single_line_lits : forall rel ls, rel = TAnd \/ rel = TOr -> toks_lits (single_line_toks rel ls) = ls.
Proof.
  intros rel ls Hrel. induction ls as [|l [|l' r] IH]; simpl; auto.
  simpl in IH. destruct Hrel; subst; simpl; rewrite IH; reflexivity.
Qed.

Lemma items_lits : forall rel ls first, rel = TAnd \/ rel = TOr -> toks_lits (items_toks rel ls first) = ls.
Proof.
  intros rel ls first Hrel. revert first. induction ls as [|l r IH]; intro first; simpl; auto.
  destruct first; destruct Hrel; subst; simpl; rewrite IH; reflexivity.
Qed.

Lemma single_line_or_and : forall ls, toks_has_or (single_line_toks TAnd ls) = false.
Proof. induction ls as [|l [|l' r] IH]; simpl; auto. Qed.

Lemma items_or_and : forall ls first, toks_has_or (items_toks TAnd ls first) = false.
Proof. induction ls as [|l r IH]; intro first; simpl; auto. destruct first; simpl; auto. Qed.

Lemma single_line_or_or : forall ls, toks_has_or (single_line_toks TOr ls) = match ls with _ :: _ :: _ => true | _ => false end.
Proof. destruct ls as [|l [|l' r]]; simpl; auto. Qed.

Lemma items_or_or : forall ls, toks_has_or (items_toks TOr ls true) = match ls with _ :: _ :: _ => true | _ => false end.
Proof. destruct ls as [|l [|l' r]]; simpl; auto. Qed.

(* the tokens determine the verdicts: reading them back gives the semantics of the expression *)
Lemma toks_sem_render : forall val single f, flat_nonempty f = true -> toks_sem val (render_flat single f) = flat_sem val f.
Proof.
  intros val single f Hne. unfold toks_sem. destruct f as [l|ls|ls]; simpl.
  - rewrite andb_true_r. reflexivity.
  - destruct single.
    + rewrite single_line_or_and, single_line_lits; auto.
    + simpl. rewrite items_or_and, items_lits; auto.
  - destruct single.
    + rewrite single_line_or_or, single_line_lits; auto.
      destruct ls as [|l [|l' r]]; simpl in *; try discriminate; rewrite ?andb_true_r, ?orb_false_r; reflexivity.
    + simpl. rewrite items_or_or, items_lits; auto.
      destruct ls as [|l [|l' r]]; simpl in *; try discriminate; rewrite ?andb_true_r, ?orb_false_r; reflexivity.
Qed.

Lemma faithful_partial : forall s1 s2 f1 f2,
  flat_nonempty f1 = true -> flat_nonempty f2 = true ->
  render_flat s1 f1 = render_flat s2 f2 ->
  forall val, flat_sem val f1 = flat_sem val f2.
Proof.
  intros s1 s2 f1 f2 H1 H2 E val.
  rewrite <- (toks_sem_render val s1 f1 H1), <- (toks_sem_render val s2 f2 H2), E. reflexivity.
Qed.

(* without the non-emptiness hypothesis it is false (the empty composites of F9b) *)
Lemma faithful_partial_needs_nonempty : exists s f1 f2 val, render_flat s f1 = render_flat s f2 /\ flat_sem val f1 <> flat_sem val f2.
Proof. exists false, (FAll []), (FAny []), (fun _ => true). split; [reflexivity | discriminate]. Qed.

(* outside the property's fragment: a composite behind hide_result_details() is not seen as a composite by its parent and
   is rendered on the parent's line without grouping: (1 or 2) and 3 reads like 1 or (2 and 3) *)
Lemma faithful_refuted_wrapped_composite : exists m1 m2 v,
  describe not_of_source m1 = describe not_of_source m2 /\ accepts m1 v = true /\ accepts m2 v = false.
Proof.
  exists (any_of [AVal (VInt 1); AMat (hide_result_details (all_of [AVal (VInt 2); AVal (VInt 3)]))]),
         (all_of [AMat (hide_result_details (any_of [AVal (VInt 1); AVal (VInt 2)])); AVal (VInt 3)]), (VInt 1).
  repeat split; vm_compute; reflexivity.
Qed.

(* ------------------------------------------------------------------ token-level faithfulness of nested expressions *)
Section FexprInd.
  Variable P : fexpr -> Prop.
  Hypothesis H_FL : forall l, P (FL l).
  Hypothesis H_FAllN : forall es, Forall P es -> P (FAllN es).
  Hypothesis H_FAnyN : forall es, Forall P es -> P (FAnyN es).
  Fixpoint fexpr_ind' (e : fexpr) : P e :=
    match e with
    | FL l => H_FL l
    | FAllN es => H_FAllN es ((fix go (l : list fexpr) : Forall P l :=
                                 match l with [] => Forall_nil P | x :: r => Forall_cons x (fexpr_ind' x) (go r) end) es)
    | FAnyN es => H_FAnyN es ((fix go (l : list fexpr) : Forall P l :=
                                 match l with [] => Forall_nil P | x :: r => Forall_cons x (fexpr_ind' x) (go r) end) es)
    end.
End FexprInd.

Lemma all_lits_sem : forall val es, forallb fexpr_is_lit es = true ->
  forallb (fsem val) es = forallb (lit_sem val) (fexpr_lits es) /\
  existsb (fsem val) es = existsb (lit_sem val) (fexpr_lits es).
Proof.
  intros val es. induction es as [|e es IH]; simpl; auto.
  destruct e as [l| |]; simpl; try discriminate.
  intro H. destruct (IH H) as [IHa IHe]. rewrite IHa, IHe. auto.
Qed.

Lemma all_lits_length : forall es, forallb fexpr_is_lit es = true -> List.length (fexpr_lits es) = List.length es.
Proof.
  induction es as [|e es IH]; simpl; auto. destruct e; simpl; try discriminate. intro H. rewrite IH; auto.
Qed.

Lemma doc_items_or_and : forall ds first, existsb item_is_or (doc_items TAnd ds first) = false.
Proof. induction ds as [|d r IH]; intro first; simpl; auto. destruct first; simpl; auto. Qed.

Lemma doc_items_or_or : forall ds, existsb item_is_or (doc_items TOr ds true) = match ds with _ :: _ :: _ => true | _ => false end.
Proof. destruct ds as [|d [|d' r]]; simpl; auto. Qed.

Lemma doc_items_forallb : forall val rel es single first,
  Forall (fun e => fexpr_wf e = true -> doc_sem val (render single e) = fsem val e) es ->
  forallb fexpr_wf es = true ->
  forallb (fun it => doc_sem val (snd it)) (doc_items rel (map (render single) es) first) = forallb (fsem val) es /\
  existsb (fun it => doc_sem val (snd it)) (doc_items rel (map (render single) es) first) = existsb (fsem val) es.
Proof.
  intros val rel es single first H. revert first. induction H as [|e es He Hes IH]; intros first Hwf; simpl; auto.
  simpl in Hwf. apply andb_true_iff in Hwf. destruct Hwf as [Hwe Hwes].
  destruct (IH false Hwes) as [IHa IHe]. rewrite He, IHa, IHe; auto.
Qed.

Lemma doc_sem_render : forall val single e, fexpr_wf e = true -> doc_sem val (render single e) = fsem val e.
Proof.
  intros val single. induction e using fexpr_ind'; intro Hwf.
  - simpl. unfold toks_sem. simpl. rewrite andb_true_r. reflexivity.
  - simpl in Hwf. destruct es as [|e0 es0]; try discriminate.
    cbn [render]. destruct (forallb fexpr_is_lit (e0 :: es0) && single (e0 :: es0)) eqn:E.
    + apply andb_true_iff in E. destruct E as [El _].
      cbn [doc_sem]. unfold toks_sem. rewrite single_line_or_and, single_line_lits; auto.
      symmetry. apply (all_lits_sem val _ El).
    + cbn [doc_sem]. rewrite doc_items_or_and.
      apply (doc_items_forallb val TAnd (e0 :: es0) single true H Hwf).
  - simpl in Hwf. destruct es as [|e0 es0]; try discriminate.
    cbn [render]. destruct (forallb fexpr_is_lit (e0 :: es0) && single (e0 :: es0)) eqn:E.
    + apply andb_true_iff in E. destruct E as [El _].
      cbn [doc_sem]. unfold toks_sem. rewrite single_line_or_or, single_line_lits; auto.
      destruct (all_lits_sem val _ El) as [Ha He]. cbn [fsem]. rewrite He.
      pose proof (all_lits_length _ El) as Hlen.
      destruct (fexpr_lits (e0 :: es0)) as [|l [|l' r]] eqn:EL; simpl in *; try discriminate;
        rewrite ?andb_true_r, ?orb_false_r; reflexivity.
    + cbn [doc_sem]. rewrite doc_items_or_or.
      destruct (doc_items_forallb val TOr (e0 :: es0) single true H Hwf) as [Ha He].
      destruct es0 as [|e1 es1].
      * rewrite Ha. simpl. rewrite andb_true_r, orb_false_r. reflexivity.
      * rewrite He. reflexivity.
Qed.

Lemma faithful_partial_nested : forall s1 s2 e1 e2,
  fexpr_wf e1 = true -> fexpr_wf e2 = true ->
  render s1 e1 = render s2 e2 ->
  forall val, fsem val e1 = fsem val e2.
Proof.
  intros s1 s2 e1 e2 H1 H2 E val.
  rewrite <- (doc_sem_render val s1 e1 H1), <- (doc_sem_render val s2 e2 H2), E. reflexivity.
Qed.
