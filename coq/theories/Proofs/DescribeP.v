(* Proofs about Model/Describe.v (C17). *)
From Coq Require Import List Bool NArith ZArith Arith Lia.
Import ListNotations.
From LCC Require Import Base.Util Model.PyVal Model.Matcher gen.TablesMatchers Model.Describe Proofs.MatcherP.

(* the operand loop of AllOf / AnyOf.build_description *)
Definition descs_loop (ni : not_impl) (cw : comp_impl) :=
  fix descs (ms : list matcher) (t : transf) : list str * transf :=
    match ms with
    | [] => ([], t)
    | m' :: r => let '(s, t1) := describe_st ni cw m' t in let '(ss, t2) := descs r t1 in (s :: ss, t2)
    end.

Lemma describe_all_of : forall ni cw ms t, describe_st ni cw (AllOf ms) t = composite cw (descs_loop ni cw) ms (rel_all cw t) t.
Proof. reflexivity. Qed.

Lemma describe_any_of : forall ni cw ms t, describe_st ni cw (AnyOf ms) t = composite cw (descs_loop ni cw) ms (rel_any cw t) t.
Proof. reflexivity. Qed.

Lemma flip_flip : forall t, flip (flip t) = t.
Proof. intros [c n]. unfold flip. simpl. rewrite negb_involutive. reflexivity. Qed.

(* when every operand leaves the transformer as it found it, the loop yields the operands' stand-alone descriptions *)
Lemma descs_loop_pure : forall ni cw ms,
  Forall (fun m => forall t, snd (describe_st ni cw m t) = t) ms ->
  forall t, descs_loop ni cw ms t = (map (fun m => fst (describe_st ni cw m t)) ms, t).
Proof.
  intros ni cw ms H. induction H as [|m ms Hm Hms IH]; intro t; simpl; auto.
  specialize (Hm t). destruct (describe_st ni cw m t) as [s t1]. simpl in Hm. subst t1.
  rewrite IH. reflexivity.
Qed.


Lemma composite_layout : forall ni cw ms rel t,
  Forall (fun m => forall t, snd (describe_st ni cw m t) = t) ms ->
  composite cw (descs_loop ni cw) ms rel t = (layout cw ms rel (map (fun m => fst (describe_st ni cw m t)) ms), t).
Proof.
  intros ni cw ms rel t H. unfold composite, layout.
  pose proof (descs_loop_pure ni cw ms H) as E. rewrite !E.
  destruct (existsb (composite_operand cw) ms); auto.
  destruct (existsb has_newline (map (fun m => fst (describe_st ni cw m t)) ms)); rewrite ?E; auto.
  destruct (Nat.ltb sl_limit (List.length (join (fill sl_join_format [rel]) (map (fun m => fst (describe_st ni cw m t)) ms)))); rewrite ?E; auto.
  destruct (join (fill sl_join_format [rel]) (map (fun m => fst (describe_st ni cw m t)) ms)); rewrite ?E; auto.
Qed.

(* C17_transformer_preserved (for the NotFresh implementation of Not; whatever the relationship words are) *)
Lemma transformer_preserved : forall cw m t, snd (describe_st NotFresh cw m t) = t.
Proof.
  intro cw. induction m using matcher_ind'; intro tr; try reflexivity.
  - simpl. destruct (describe_st NotFresh cw m conjugated). reflexivity.
  - simpl. destruct (describe_st NotFresh cw m conjugated). reflexivity.
  - simpl. destruct (describe_st NotFresh cw m conjugated). reflexivity.
  - simpl. destruct vm as [m'|]; auto. destruct (describe_st NotFresh cw m' conjugated). reflexivity.
  - simpl. destruct vm as [m'|]; auto. destruct (describe_st NotFresh cw m' conjugated). reflexivity.
  - rewrite describe_all_of, composite_layout; auto.
  - rewrite describe_any_of, composite_layout; auto.
  - simpl. destruct (describe_st NotFresh cw m (flip tr)). reflexivity.
  - simpl. destruct d; auto.
Qed.

Lemma all_preserved : forall cw ms, Forall (fun m => forall t, snd (describe_st NotFresh cw m t) = t) ms.
Proof. intros cw ms. apply Forall_forall. intros m _. apply transformer_preserved. Qed.

(* C17_sibling_independent *)
Lemma sibling_independent : forall cw ms t,
  describe_st NotFresh cw (AllOf ms) t = (layout cw ms (rel_all cw t) (map (fun m => fst (describe_st NotFresh cw m t)) ms), t) /\
  describe_st NotFresh cw (AnyOf ms) t = (layout cw ms (rel_any cw t) (map (fun m => fst (describe_st NotFresh cw m t)) ms), t).
Proof.
  intros. rewrite describe_all_of, describe_any_of. split; apply composite_layout; apply all_preserved.
Qed.

Lemma describe_not : forall cw m t, describe_st NotFresh cw (Not m) t = (fst (describe_st NotFresh cw m (flip t)), t).
Proof. intros. simpl. destruct (describe_st NotFresh cw m (flip t)). reflexivity. Qed.

Lemma double_negation_wording : forall cw m t, describe_st NotFresh cw (Not (Not m)) t = describe_st NotFresh cw m t.
Proof.
  intros. rewrite !describe_not. simpl. rewrite flip_flip.
  pose proof (transformer_preserved cw m t) as H. destruct (describe_st NotFresh cw m t) as [s t']. simpl in *. subst. reflexivity.
Qed.

(* ------------------------------------------------------------------ negation: wording follows logic (De Morgan: F9b and F23 repaired) *)
(* the words of a composite follow De Morgan: under a negative transformer all_of uses the word of any_of and conversely *)
Definition de_morgan_words (cw : comp_impl) : Prop := cw_all_neg cw = cw_any cw /\ cw_any_neg cw = cw_all cw.

Lemma rel_all_flip : forall cw t, de_morgan_words cw -> rel_all cw (flip t) = rel_any cw t.
Proof. intros cw [c n] [Ha Hb]. unfold rel_all, rel_any, flip. simpl. destruct n; simpl; congruence. Qed.

Lemma rel_any_flip : forall cw t, de_morgan_words cw -> rel_any cw (flip t) = rel_all cw t.
Proof. intros cw [c n] [Ha Hb]. unfold rel_all, rel_any, flip. simpl. destruct n; simpl; congruence. Qed.

(* the isinstance test does not see a composite behind not_ ... *)
Lemma not_is_not_composite : forall ms, existsb is_composite (map Not ms) = false.
Proof. induction ms as [|m ms IH]; simpl; auto. Qed.

(* ... composites._is_composite does *)
Lemma through_not : forall ms, existsb is_composite_through (map Not ms) = existsb is_composite_through ms.
Proof. induction ms as [|m ms IH]; simpl; congruence. Qed.

Lemma composite_operand_not : forall cw ms, cw_see_through cw = true ->
  existsb (composite_operand cw) (map Not ms) = existsb (composite_operand cw) ms.
Proof.
  intros cw ms H. unfold composite_operand. rewrite H. apply through_not.
Qed.

Lemma layout_operands_irrelevant : forall cw ms ms' rel ds,
  existsb (composite_operand cw) ms = existsb (composite_operand cw) ms' -> layout cw ms rel ds = layout cw ms' rel ds.
Proof. intros cw ms ms' rel ds H. unfold layout. rewrite H. reflexivity. Qed.

(* the descriptions of the operands of not_(all_of ms) are those of the operands of any_of (map not_ ms) *)
Lemma negated_operands : forall cw ms t,
  map (fun m => fst (describe_st NotFresh cw m (flip t))) ms = map (fun m => fst (describe_st NotFresh cw (Not m) t)) ms.
Proof. intros. apply map_ext. intro m. rewrite describe_not. reflexivity. Qed.

Lemma mapped_operands : forall cw ms t,
  map (fun m => fst (describe_st NotFresh cw m t)) (map Not ms) = map (fun m => fst (describe_st NotFresh cw (Not m) t)) ms.
Proof. intros. rewrite map_map. reflexivity. Qed.

(* general form, whatever the composite-operand test: same relationship word, same operand descriptions; the test of the
   layout is applied to ms on one side and to map Not ms on the other *)
Lemma de_morgan_layout : forall cw ms t, de_morgan_words cw ->
  let ds := map (fun m => fst (describe_st NotFresh cw (Not m) t)) ms in
  describe_st NotFresh cw (Not (AllOf ms)) t = (layout cw ms (rel_any cw t) ds, t) /\
  describe_st NotFresh cw (AnyOf (map Not ms)) t = (layout cw (map Not ms) (rel_any cw t) ds, t) /\
  describe_st NotFresh cw (Not (AnyOf ms)) t = (layout cw ms (rel_all cw t) ds, t) /\
  describe_st NotFresh cw (AllOf (map Not ms)) t = (layout cw (map Not ms) (rel_all cw t) ds, t).
Proof.
  intros cw ms t W ds. unfold ds.
  destruct (sibling_independent cw ms (flip t)) as [Ha Ho].
  destruct (sibling_independent cw (map Not ms) t) as [Ha' Ho'].
  rewrite !describe_not, Ha, Ho, Ha', Ho'. cbn [fst].
  rewrite rel_all_flip, rel_any_flip, negated_operands, mapped_operands by exact W. repeat split; reflexivity.
Qed.

(* De Morgan in the wording, for every operand list, when the test looks through Not *)
Lemma de_morgan_wording : forall cw ms t, de_morgan_words cw -> cw_see_through cw = true ->
  describe_st NotFresh cw (Not (AllOf ms)) t = describe_st NotFresh cw (AnyOf (map Not ms)) t /\
  describe_st NotFresh cw (Not (AnyOf ms)) t = describe_st NotFresh cw (AllOf (map Not ms)) t.
Proof.
  intros cw ms t W Hs. destruct (de_morgan_layout cw ms t W) as (E1 & E2 & E3 & E4).
  rewrite E1, E2, E3, E4.
  pose proof (composite_operand_not cw ms Hs) as Hl. symmetry in Hl.
  split; f_equal; apply layout_operands_irrelevant; exact Hl.
Qed.

Lemma source_words_de_morgan : de_morgan_words comp_of_source.
Proof. split; reflexivity. Qed.

Lemma source_sees_through : cw_see_through comp_of_source = true.
Proof. reflexivity. Qed.

Lemma negation_follows_logic : forall m ms t v,
  (* not_(m) is worded as m under the flipped transformer and accepts the opposite *)
  fst (describe_st NotFresh comp_of_source (Not m) t) = fst (describe_st NotFresh comp_of_source m (flip t)) /\
  truth (matches (Not m) v) = rmap negb (truth (matches m v)) /\
  (* De Morgan, wording and logic *)
  describe_st NotFresh comp_of_source (Not (AllOf ms)) t = describe_st NotFresh comp_of_source (AnyOf (map Not ms)) t /\
  describe_st NotFresh comp_of_source (Not (AnyOf ms)) t = describe_st NotFresh comp_of_source (AllOf (map Not ms)) t /\
  truth (matches (Not (AllOf ms)) v) = truth (matches (AnyOf (map Not ms)) v) /\
  truth (matches (Not (AnyOf ms)) v) = truth (matches (AllOf (map Not ms)) v).
Proof.
  intros. destruct (de_morgan_wording comp_of_source ms t source_words_de_morgan source_sees_through) as [Da Do].
  split; [|split; [|split; [|split; [|split]]]].
  - rewrite describe_not. reflexivity.
  - apply not_exact.
  - exact Da.
  - exact Do.
  - apply de_morgan_all.
  - apply de_morgan_any.
Qed.

(* what the description of a negated composite is: the layout of the descriptions of the negated operands, joined by the word
   of the dual composite; an operand counts as a composite for the layout whether it is negated or not *)
Lemma negation_de_morgan_layout : forall ms t,
  let ds := map (fun m => fst (describe_st NotFresh comp_of_source (Not m) t)) ms in
  describe_st NotFresh comp_of_source (Not (AllOf ms)) t = (layout comp_of_source ms (rel_any comp_of_source t) ds, t) /\
  describe_st NotFresh comp_of_source (Not (AnyOf ms)) t = (layout comp_of_source ms (rel_all comp_of_source t) ds, t) /\
  existsb (composite_operand comp_of_source) (map Not ms) = existsb (composite_operand comp_of_source) ms.
Proof.
  intros ms t. destruct (de_morgan_layout comp_of_source ms t source_words_de_morgan) as (E1 & _ & E3 & _).
  split; [exact E1 | split; [exact E3 | apply composite_operand_not; exact source_sees_through]].
Qed.

(* a description-less wrapper (hide_result_details) changes neither the wording nor the layout of its parent *)
Lemma wrapper_transparent : forall cw m h t, describe_st NotFresh cw (Wrapper m None h) t = describe_st NotFresh cw m t.
Proof. reflexivity. Qed.

Lemma wrapper_seen_through : forall m h, composite_operand comp_of_source (Wrapper m None h) = composite_operand comp_of_source m.
Proof. reflexivity. Qed.

Lemma wrapper_and_not_transparent : forall m h t,
  describe_st NotFresh comp_of_source (Wrapper m None h) t = describe_st NotFresh comp_of_source m t /\
  composite_operand comp_of_source (Wrapper m None h) = composite_operand comp_of_source m /\
  composite_operand comp_of_source (Not m) = composite_operand comp_of_source m.
Proof. intros; repeat split. Qed.

Definition gt0 := Comparator (CCmp Gt) (VInt 0).
Definition lt10 := Comparator (CCmp Lt) (VInt 10).
Definition eq5 := EqualTo (VInt 5).

(* the wording of a negated matcher is the negative form of the same sentence: for a leaf, transform with the flag flipped *)
Lemma negated_leaf_wording : forall cw e t,
  fst (describe_st NotFresh cw (Not (EqualTo e)) t) = transform (flip t) (fill tpl_equal_to [jsonify e]).
Proof. reflexivity. Qed.

(* ------------------------------------------------------------------ pre-fix variant (NotMutates): what F9a is *)
Definition leak_operands : list matcher := [Not IsNone; Comparator (CCmp Gt) (VInt 0)].

(* all_of(is_not_none(), greater_than(0)): the second operand is worded in the negative although it is not negated *)
Lemma sibling_independent_mutating_refuted : exists ms t,
  fst (describe_st NotMutates comp_pre_f9b (AllOf ms) t) <>
    layout comp_pre_f9b ms (rel_all comp_pre_f9b t) (map (fun m => fst (describe_st NotMutates comp_pre_f9b m t)) ms) /\
  snd (describe_st NotMutates comp_pre_f9b (AllOf ms) t) <> t.
Proof.
  exists leak_operands, fresh. split; intro H; vm_compute in H; discriminate H.
Qed.

(* not_(not_(m)) is worded like not_(m) but accepts what m accepts *)
Lemma double_negation_mutating_refuted : exists m v,
  fst (describe_st NotMutates comp_pre_f9b (Not (Not m)) fresh) = fst (describe_st NotMutates comp_pre_f9b (Not m) fresh) /\
  accepts (Not (Not m)) v = true /\ accepts (Not m) v = false.
Proof. exists IsNone, VNone. repeat split; vm_compute; reflexivity. Qed.

(* ------------------------------------------------------------------ F9b: the description does not determine what was verified *)
(* pre-fix variant (comp_pre_f9b: one relationship word whatever the transformer): not_(all_of(a, b)) is worded like
   all_of(not_(a), not_(b)).  With the words of the source (comp_of_source) the same pair is told apart. *)
Lemma faithful_negated_composite_unfixed_refuted : exists m1 m2 v,
  describe NotFresh comp_pre_f9b m1 = describe NotFresh comp_pre_f9b m2 /\ accepts m1 v = true /\ accepts m2 v = false /\
  describe NotFresh comp_of_source m1 <> describe NotFresh comp_of_source m2.
Proof.
  exists (Not (AllOf [gt0; lt10])), (AllOf [Not gt0; Not lt10]), (VInt 20).
  repeat split; try (vm_compute; reflexivity). intro H. vm_compute in H. discriminate H.
Qed.

(* ------------------------------------------------------------------ F23: pre-fix variant comp_pre_f23 (the single-line layout tests
   the operand OBJECT: a composite behind not_ or behind hide_result_details() is not recognised) *)
(* De Morgan in the wording needed "no operand is itself a composite": not_(all_of(a, any_of(b, c))) was itemised,
   any_of(not_(a), not_(any_of(b, c))) fitted on one line *)
Lemma de_morgan_composite_operand_unfixed_refuted : exists ms,
  describe NotFresh comp_pre_f23 (Not (AllOf ms)) <> describe NotFresh comp_pre_f23 (AnyOf (map Not ms)) /\
  describe NotFresh comp_of_source (Not (AllOf ms)) = describe NotFresh comp_of_source (AnyOf (map Not ms)).
Proof.
  exists [gt0; AnyOf [lt10; eq5]]. split; [intro H; vm_compute in H; discriminate H | vm_compute; reflexivity].
Qed.

(* not_(composite) was joined on its parent's line without grouping:  a and (not b or not c)  read like  (a and not b) or not c *)
Lemma faithful_negated_operand_unfixed_refuted : exists m1 m2 v,
  describe NotFresh comp_pre_f23 m1 = describe NotFresh comp_pre_f23 m2 /\ accepts m1 v = true /\ accepts m2 v = false /\
  describe NotFresh comp_of_source m1 <> describe NotFresh comp_of_source m2.
Proof.
  exists (AnyOf [Not (AnyOf [Not gt0; lt10]); Not eq5]), (AllOf [gt0; Not (AllOf [lt10; eq5])]), (VInt 0).
  repeat split; try (vm_compute; reflexivity). intro H. vm_compute in H. discriminate H.
Qed.

(* so was a composite behind hide_result_details():  (1 or 2) and 3  read like  1 or (2 and 3) *)
Lemma faithful_wrapped_composite_unfixed_refuted : exists m1 m2 v,
  describe NotFresh comp_pre_f23 m1 = describe NotFresh comp_pre_f23 m2 /\ accepts m1 v = true /\ accepts m2 v = false /\
  describe NotFresh comp_of_source m1 <> describe NotFresh comp_of_source m2.
Proof.
  exists (any_of [AVal (VInt 1); AMat (hide_result_details (all_of [AVal (VInt 2); AVal (VInt 3)]))]),
         (all_of [AMat (hide_result_details (any_of [AVal (VInt 1); AVal (VInt 2)])); AVal (VInt 3)]), (VInt 1).
  repeat split; try (vm_compute; reflexivity). intro H. vm_compute in H. discriminate H.
Qed.

(* ------------------------------------------------------------------ still open *)
Lemma faithful_refuted_empty_composite : exists m1 m2 v,
  describe not_of_source comp_of_source m1 = describe not_of_source comp_of_source m2 /\ accepts m1 v = true /\ accepts m2 v = false.
Proof. exists (AllOf []), (AnyOf []), VNone. repeat split; vm_compute; reflexivity. Qed.

(* json.dumps turns every dict key into a string: {1: 2} and {"1": 2} are printed alike *)
Lemma faithful_refuted_dict_key : exists m1 m2 v,
  describe not_of_source comp_of_source m1 = describe not_of_source comp_of_source m2 /\ accepts m1 v = true /\ accepts m2 v = false.
Proof.
  exists (EqualTo (VDict [(KInt 1, VInt 2)])), (EqualTo (VDict [(KStr [49%N], VInt 2)])), (VDict [(KInt 1, VInt 2)]).
  repeat split; vm_compute; reflexivity.
Qed.

(* the scope of a container is not recoverable from a one-line description once the sentence is conjugated: inside has_item,
   has_entry "a" (any_of [equal_to 1; is_integer])  and  any_of [has_entry "a" (equal_to 1); is_integer]  both read
   `has entry "a" that is equal to 1 or is an integer`; the item 5 has no entry "a" but is an integer *)
Lemma faithful_refuted_container_scope : exists m1 m2 v,
  describe not_of_source comp_of_source m1 = describe not_of_source comp_of_source m2 /\ accepts m1 v = true /\ accepts m2 v = false.
Proof.
  exists (HasItem (AnyOf [HasEntry [VStr [97%N]] (Some (EqualTo (VInt 1))); IsValueOfType TyInt None])),
         (HasItem (HasEntry [VStr [97%N]] (Some (AnyOf [EqualTo (VInt 1); IsValueOfType TyInt None])))),
         (VList [VInt 5]).
  repeat split; vm_compute; reflexivity.
Qed.

(* ------------------------------------------------------------------ token-level faithfulness of flat expressions *)
Lemma single_line_lits : forall rel ls, rel = TAnd \/ rel = TOr -> toks_lits (single_line_toks rel ls) = ls.
Proof.
  intros rel ls Hrel. induction ls as [|l [|l' r] IH]; simpl; auto.
  simpl in IH. destruct Hrel; subst; simpl; rewrite IH; reflexivity.
Qed.

Lemma items_lits : forall rel ls first, rel = TAnd \/ rel = TOr -> toks_lits (items_toks rel ls first) = ls.
Proof.
  intros rel ls first Hrel. revert first. induction ls as [|l r IH]; intro first; simpl; auto.
  destruct first; destruct Hrel; subst; simpl; rewrite IH; reflexivity.
Qed.

Lemma single_line_or_and : forall ls, toks_has_or (single_line_toks TAnd ls) = false.
Proof. induction ls as [|l [|l' r] IH]; simpl; auto. Qed.

Lemma items_or_and : forall ls first, toks_has_or (items_toks TAnd ls first) = false.
Proof. induction ls as [|l r IH]; intro first; simpl; auto. destruct first; simpl; auto. Qed.

Lemma single_line_or_or : forall ls, toks_has_or (single_line_toks TOr ls) = match ls with _ :: _ :: _ => true | _ => false end.
Proof. destruct ls as [|l [|l' r]]; simpl; auto. Qed.

Lemma items_or_or : forall ls, toks_has_or (items_toks TOr ls true) = match ls with _ :: _ :: _ => true | _ => false end.
Proof. destruct ls as [|l [|l' r]]; simpl; auto. Qed.

(* the tokens determine the verdicts: reading them back gives the semantics of the expression *)
Lemma toks_sem_render : forall val single f, flat_nonempty f = true -> toks_sem val (render_flat single f) = flat_sem val f.
Proof.
  intros val single f Hne. unfold toks_sem. destruct f as [l|ls|ls]; simpl.
  - rewrite andb_true_r. reflexivity.
  - destruct single.
    + rewrite single_line_or_and, single_line_lits; auto.
    + simpl. rewrite items_or_and, items_lits; auto.
  - destruct single.
    + rewrite single_line_or_or, single_line_lits; auto.
      destruct ls as [|l [|l' r]]; simpl in *; try discriminate; rewrite ?andb_true_r, ?orb_false_r; reflexivity.
    + simpl. rewrite items_or_or, items_lits; auto.
      destruct ls as [|l [|l' r]]; simpl in *; try discriminate; rewrite ?andb_true_r, ?orb_false_r; reflexivity.
Qed.

Lemma faithful_partial : forall s1 s2 f1 f2,
  flat_nonempty f1 = true -> flat_nonempty f2 = true ->
  render_flat s1 f1 = render_flat s2 f2 ->
  forall val, flat_sem val f1 = flat_sem val f2.
Proof.
  intros s1 s2 f1 f2 H1 H2 E val.
  rewrite <- (toks_sem_render val s1 f1 H1), <- (toks_sem_render val s2 f2 H2), E. reflexivity.
Qed.

(* without the non-emptiness hypothesis it is false (the empty composites of F9b) *)
Lemma faithful_partial_needs_nonempty : exists s f1 f2 val, render_flat s f1 = render_flat s f2 /\ flat_sem val f1 <> flat_sem val f2.
Proof. exists false, (FAll []), (FAny []), (fun _ => true). split; [reflexivity | discriminate]. Qed.

(* ------------------------------------------------------------------ token-level faithfulness of nested expressions, not_ anywhere *)
Section FexprInd.
  Variable P : fexpr -> Prop.
  Hypothesis H_FL : forall l, P (FL l).
  Hypothesis H_FAllN : forall es, Forall P es -> P (FAllN es).
  Hypothesis H_FAnyN : forall es, Forall P es -> P (FAnyN es).
  Hypothesis H_FNotN : forall e, P e -> P (FNotN e).
  Fixpoint fexpr_ind' (e : fexpr) : P e :=
    match e with
    | FL l => H_FL l
    | FAllN es => H_FAllN es ((fix go (l : list fexpr) : Forall P l :=
                                 match l with [] => Forall_nil P | x :: r => Forall_cons x (fexpr_ind' x) (go r) end) es)
    | FAnyN es => H_FAnyN es ((fix go (l : list fexpr) : Forall P l :=
                                 match l with [] => Forall_nil P | x :: r => Forall_cons x (fexpr_ind' x) (go r) end) es)
    | FNotN e' => H_FNotN e' (fexpr_ind' e')
    end.
End FexprInd.

Lemma neg_lit_false : forall l, neg_lit false l = l.
Proof. intros [id [|]]; reflexivity. Qed.

Lemma lit_sem_neg : forall val b l, lit_sem val (neg_lit b l) = xorb b (lit_sem val l).
Proof. intros val b [id n]. simpl. apply xorb_assoc. Qed.

Lemma forallb_map' : forall {A B} (f : B -> bool) (g : A -> B) l, forallb f (map g l) = forallb (fun x => f (g x)) l.
Proof. induction l as [|x l IH]; simpl; congruence. Qed.

Lemma existsb_map' : forall {A B} (f : B -> bool) (g : A -> B) l, existsb f (map g l) = existsb (fun x => f (g x)) l.
Proof. induction l as [|x l IH]; simpl; congruence. Qed.

Lemma forallb_as_map : forall {A} (f : A -> bool) l, forallb f l = forallb (fun b => b) (map f l).
Proof. intros. rewrite forallb_map'. reflexivity. Qed.

Lemma existsb_as_map : forall {A} (f : A -> bool) l, existsb f l = existsb (fun b => b) (map f l).
Proof. intros. rewrite existsb_map'. reflexivity. Qed.

(* De Morgan over a list, with the negation as a flag *)
Lemma forallb_xorb : forall {A} (f : A -> bool) b l,
  forallb (fun x => xorb b (f x)) l = if b then negb (existsb f l) else forallb f l.
Proof.
  intros A f b l. destruct b.
  - induction l as [|x l IH]; cbn [forallb existsb]; auto. rewrite IH, negb_orb. destruct (f x); reflexivity.
  - induction l as [|x l IH]; cbn [forallb existsb]; auto. rewrite IH. destruct (f x); reflexivity.
Qed.

Lemma existsb_xorb : forall {A} (f : A -> bool) b l,
  existsb (fun x => xorb b (f x)) l = if b then negb (forallb f l) else existsb f l.
Proof.
  intros A f b l. destruct b.
  - induction l as [|x l IH]; cbn [forallb existsb]; auto. rewrite IH, negb_andb. destruct (f x); reflexivity.
  - induction l as [|x l IH]; cbn [forallb existsb]; auto. rewrite IH. destruct (f x); reflexivity.
Qed.

(* reading one line back *)
Lemma toks_sem_line_and : forall val ls, toks_sem val (single_line_toks TAnd ls) = forallb (lit_sem val) ls.
Proof. intros. unfold toks_sem. rewrite single_line_or_and, single_line_lits; auto. Qed.

Lemma toks_sem_line_or : forall val ls, ls <> [] -> toks_sem val (single_line_toks TOr ls) = existsb (lit_sem val) ls.
Proof.
  intros val ls Hne. unfold toks_sem. rewrite single_line_or_or, single_line_lits; auto.
  destruct ls as [|l [|l' r]]; [congruence | |]; simpl; rewrite ?andb_true_r, ?orb_false_r; reflexivity.
Qed.

(* reading an itemised list back *)
Lemma doc_items_or_and : forall ds first, existsb item_is_or (doc_items TAnd ds first) = false.
Proof. induction ds as [|d r IH]; intro first; simpl; auto. destruct first; simpl; auto. Qed.

Lemma doc_items_or_or : forall ds, existsb item_is_or (doc_items TOr ds true) = match ds with _ :: _ :: _ => true | _ => false end.
Proof. destruct ds as [|d [|d' r]]; simpl; auto. Qed.

Lemma doc_items_sems : forall val rel ds first,
  forallb (fun it => doc_sem val (snd it)) (doc_items rel ds first) = forallb (doc_sem val) ds /\
  existsb (fun it => doc_sem val (snd it)) (doc_items rel ds first) = existsb (doc_sem val) ds.
Proof.
  intros val rel ds. induction ds as [|d r IH]; intro first; simpl; auto.
  destruct (IH false) as [Ha He]. rewrite Ha, He. auto.
Qed.

Lemma doc_sem_items_and : forall val ds, doc_sem val (DItems (doc_items TAnd ds true)) = forallb (doc_sem val) ds.
Proof. intros. cbn [doc_sem]. rewrite doc_items_or_and. apply doc_items_sems. Qed.

Lemma doc_sem_items_or : forall val ds, ds <> [] -> doc_sem val (DItems (doc_items TOr ds true)) = existsb (doc_sem val) ds.
Proof.
  intros val ds Hne. cbn [doc_sem]. rewrite doc_items_or_or. destruct (doc_items_sems val TOr ds true) as [Ha He].
  destruct ds as [|d [|d' r]]; [congruence | | exact He].
  rewrite Ha. simpl. rewrite andb_true_r, orb_false_r. reflexivity.
Qed.

(* an operand that may be joined on its parent's line shows one literal, which reads as the operand under the flag *)
Lemma fexpr_lit_sem : forall val e b, fexpr_is_lit e = true ->
  exists l, fexpr_lit b e = Some l /\ lit_sem val l = xorb b (fsem val e).
Proof.
  intros val. induction e as [l | es | es | e IH]; intros b H; simpl in H; try discriminate.
  - exists (neg_lit b l). split; [reflexivity | apply lit_sem_neg].
  - destruct (IH (negb b) H) as (l & El & Hl). exists l. split; [exact El |].
    rewrite Hl. cbn [fsem]. destruct b, (fsem val e); reflexivity.
Qed.

Lemma fexpr_lits_sem : forall val b es, forallb fexpr_is_lit es = true ->
  map (lit_sem val) (fexpr_lits b es) = map (fun e => xorb b (fsem val e)) es.
Proof.
  intros val b es. induction es as [|e es IH]; intro H; simpl; auto.
  simpl in H. apply andb_true_iff in H. destruct H as [He Hes].
  destruct (fexpr_lit_sem val e b He) as (l & El & Hl). rewrite El. simpl. rewrite Hl, IH; auto.
Qed.

Lemma operand_sems : forall val single b es,
  Forall (fun e => forall b, fexpr_wf e = true -> doc_sem val (render_under single b e) = xorb b (fsem val e)) es ->
  forallb fexpr_wf es = true ->
  map (doc_sem val) (map (render_under single b) es) = map (fun e => xorb b (fsem val e)) es.
Proof.
  intros val single b es H. induction H as [|e es He Hes IH]; intro Hwf; simpl; auto.
  simpl in Hwf. apply andb_true_iff in Hwf. destruct Hwf as [Hwe Hwes]. rewrite He, IH; auto.
Qed.

Lemma map_nonempty : forall {A B} (g : A -> bool) (h : B -> bool) (l : list A) (l' : list B),
  map g l = map h l' -> l' <> [] -> l <> [].
Proof. intros A B g h l l' E Hne Hl. subst l. destruct l'; [congruence | discriminate E]. Qed.

(* the description of e under a transformer with negation flag b reads as: e negated iff b *)
Lemma doc_sem_render_under : forall val single e b, fexpr_wf e = true -> doc_sem val (render_under single b e) = xorb b (fsem val e).
Proof.
  intros val single. induction e using fexpr_ind'; intros b Hwf.
  - cbn [render_under doc_sem]. unfold toks_sem. cbn [toks_has_or toks_lits forallb fsem]. rewrite andb_true_r. apply lit_sem_neg.
  - simpl in Hwf. destruct es as [|e0 es0]; try discriminate.
    assert (Hne : e0 :: es0 <> []) by discriminate.
    cbn [render_under fsem]. destruct (forallb fexpr_is_lit (e0 :: es0) && single b (e0 :: es0)) eqn:E.
    + apply andb_true_iff in E. destruct E as [El _]. cbn [doc_sem].
      pose proof (fexpr_lits_sem val b _ El) as Hl.
      destruct b; cbn [tok_all].
      * rewrite toks_sem_line_or by (eapply map_nonempty; [exact Hl | exact Hne]).
        rewrite existsb_as_map, Hl, <- existsb_as_map, existsb_xorb. symmetry. apply xorb_true_l.
      * rewrite toks_sem_line_and, forallb_as_map, Hl, <- forallb_as_map, forallb_xorb. symmetry. apply xorb_false_l.
    + pose proof (operand_sems val single b _ H Hwf) as Hm.
      destruct b; cbn [tok_all].
      * rewrite doc_sem_items_or by (simpl; discriminate).
        rewrite existsb_as_map, Hm, <- existsb_as_map, existsb_xorb. symmetry. apply xorb_true_l.
      * rewrite doc_sem_items_and, forallb_as_map, Hm, <- forallb_as_map, forallb_xorb. symmetry. apply xorb_false_l.
  - simpl in Hwf. destruct es as [|e0 es0]; try discriminate.
    assert (Hne : e0 :: es0 <> []) by discriminate.
    cbn [render_under fsem]. destruct (forallb fexpr_is_lit (e0 :: es0) && single b (e0 :: es0)) eqn:E.
    + apply andb_true_iff in E. destruct E as [El _]. cbn [doc_sem].
      pose proof (fexpr_lits_sem val b _ El) as Hl.
      destruct b; cbn [tok_any].
      * rewrite toks_sem_line_and, forallb_as_map, Hl, <- forallb_as_map, forallb_xorb. symmetry. apply xorb_true_l.
      * rewrite toks_sem_line_or by (eapply map_nonempty; [exact Hl | exact Hne]).
        rewrite existsb_as_map, Hl, <- existsb_as_map, existsb_xorb. symmetry. apply xorb_false_l.
    + pose proof (operand_sems val single b _ H Hwf) as Hm.
      destruct b; cbn [tok_any].
      * rewrite doc_sem_items_and, forallb_as_map, Hm, <- forallb_as_map, forallb_xorb. symmetry. apply xorb_true_l.
      * rewrite doc_sem_items_or by (simpl; discriminate).
        rewrite existsb_as_map, Hm, <- existsb_as_map, existsb_xorb. symmetry. apply xorb_false_l.
  - cbn [render_under fsem]. simpl in Hwf. rewrite IHe by exact Hwf. destruct b, (fsem val e); reflexivity.
Qed.

(* C17_faithful_partial: expressions with not_ anywhere, under either setting of the transformer's negation flag *)
Lemma faithful_partial_negated : forall s1 s2 b1 b2 e1 e2,
  fexpr_wf e1 = true -> fexpr_wf e2 = true ->
  render_under s1 b1 e1 = render_under s2 b2 e2 ->
  forall val, xorb b1 (fsem val e1) = xorb b2 (fsem val e2).
Proof.
  intros s1 s2 b1 b2 e1 e2 H1 H2 E val.
  rewrite <- (doc_sem_render_under val s1 e1 b1 H1), <- (doc_sem_render_under val s2 e2 b2 H2), E. reflexivity.
Qed.

(* under MatcherDescriptionTransformer(): the description of a check determines its verdicts *)
Lemma faithful_partial_nested : forall s1 s2 e1 e2,
  fexpr_wf e1 = true -> fexpr_wf e2 = true ->
  render s1 e1 = render s2 e2 ->
  forall val, fsem val e1 = fsem val e2.
Proof.
  intros s1 s2 e1 e2 H1 H2 E val. unfold render in E.
  pose proof (faithful_partial_negated _ _ false false e1 e2 H1 H2 E val) as H.
  rewrite !xorb_false_l in H. exact H.
Qed.

(* not_(e) is described as e under the flipped flag, also at this level *)
Lemma render_not : forall single b e, render_under single b (FNotN e) = render_under single (negb b) e.
Proof. reflexivity. Qed.
