(* Proofs about Model/DepsPred.v: what a predicate dependency designates. *)
From Coq Require Import List Arith Bool.
Import ListNotations.
From LCC Require Import Model.Proj Model.Fixture Model.Deps Model.DepsPred Proofs.DepsP.

Lemma pred_yields_iff : forall self keys ext q,
  In q (pred_yields self keys ext) <-> In q keys /\ q <> self /\ In q ext.
Proof.
  intros self keys ext q; unfold pred_yields; rewrite filter_In, andb_true_iff, negb_true_iff, path_eqb_neq, path_mem_In.
  tauto.
Qed.

Lemma pred_never_self : forall self keys ext, ~ In self (pred_yields self keys ext).
Proof. intros self keys ext H; apply pred_yields_iff in H; destruct H as [_ [H _]]; apply H; reflexivity. Qed.

Lemma pred_yields_nodup : forall self keys ext, NoDup keys -> NoDup (pred_yields self keys ext).
Proof. intros; unfold pred_yields; apply NoDup_filter; assumption. Qed.

(* project order: the tests a predicate designates come in the order of all_tests, whatever the order of [ext] *)
Inductive subseq {A} : list A -> list A -> Prop :=
| sub_nil : forall l, subseq [] l
| sub_take : forall x a l, subseq a l -> subseq (x :: a) (x :: l)
| sub_skip : forall x a l, subseq a l -> subseq a (x :: l).
Lemma filter_subseq : forall {A} (f : A -> bool) l, subseq (filter f l) l.
Proof.
  intros A f l; induction l as [|x l IH]; simpl; [constructor|].
  destruct (f x); [apply sub_take|apply sub_skip]; exact IH.
Qed.
Lemma pred_yields_project_order : forall self keys ext, subseq (pred_yields self keys ext) keys.
Proof. intros; apply filter_subseq. Qed.

Lemma pred_yields_ext_order_irrelevant : forall self keys ext ext',
  (forall q, In q ext <-> In q ext') -> pred_yields self keys ext = pred_yields self keys ext'.
Proof.
  intros self keys ext ext' H; unfold pred_yields; apply filter_ext_in; intros q _.
  f_equal. destruct (path_mem q ext) eqn:A, (path_mem q ext') eqn:B; auto.
  - apply path_mem_In in A; apply H in A; apply path_mem_In in A; congruence.
  - apply path_mem_In in B; apply H in B; apply path_mem_In in B; congruence.
Qed.

(* ---------------- the generator ---------------- *)
Lemma walk_ok : forall self keys decl,
  snd (walk self keys decl) = false ->
  fst (walk self keys decl) = expand self keys decl /\ (forall p, In (DPath p) decl -> In p keys).
Proof.
  intros self keys decl; induction decl as [|d decl IH]; simpl; intros H; [split; [reflexivity|intros p []]|].
  destruct d as [p|ext].
  - destruct (path_mem p keys) eqn:M; [|discriminate].
    destruct (walk self keys decl) as [l e]; simpl in *.
    destruct (IH H) as [E K]; split; [rewrite E; reflexivity|].
    intros p' [Hp|Hp]; [inversion Hp; subst; apply path_mem_In; exact M|apply K; exact Hp].
  - destruct (walk self keys decl) as [l e]; simpl in *.
    destruct (IH H) as [E K]; split; [rewrite E; reflexivity|].
    intros p' [Hp|Hp]; [discriminate|apply K; exact Hp].
Qed.

Lemma walk_error : forall self keys decl,
  snd (walk self keys decl) = true ->
  exists d1 p d2, decl = d1 ++ DPath p :: d2 /\ ~ In p keys /\
    fst (walk self keys decl) = expand self keys d1 /\ (forall p', In (DPath p') d1 -> In p' keys).
Proof.
  intros self keys decl; induction decl as [|d decl IH]; simpl; intros H; [discriminate|].
  destruct d as [p|ext].
  - destruct (path_mem p keys) eqn:M.
    + destruct (walk self keys decl) as [l e]; simpl in *.
      destruct (IH H) as [d1 [p0 [d2 [E [N [F K]]]]]].
      exists (DPath p :: d1), p0, d2; repeat split; auto.
      * rewrite E; reflexivity.
      * rewrite F; reflexivity.
      * intros p' [Hp|Hp]; [inversion Hp; subst; apply path_mem_In; exact M|apply K; exact Hp].
    + exists [], p, decl; repeat split; auto.
      * apply path_mem_false; exact M.
      * intros p' [].
  - destruct (walk self keys decl) as [l e]; simpl in *.
    destruct (IH H) as [d1 [p0 [d2 [E [N [F K]]]]]].
    exists (DPred ext :: d1), p0, d2; repeat split; auto.
    + rewrite E; reflexivity.
    + rewrite F; reflexivity.
    + intros p' [Hp|Hp]; [discriminate|apply K; exact Hp].
Qed.

(* ---------------- what the path form contains ---------------- *)
Lemma expand_In : forall self keys decl q,
  In q (expand self keys decl) <->
  In (DPath q) decl \/ exists ext, In (DPred ext) decl /\ In q keys /\ q <> self /\ In q ext.
Proof.
  intros self keys decl q; unfold expand; rewrite in_flat_map; split.
  - intros [d [Hd Hq]]; destruct d as [p|ext]; simpl in Hq.
    + destruct Hq as [Hq|[]]; subst; left; exact Hd.
    + right; exists ext; split; [exact Hd|apply pred_yields_iff; exact Hq].
  - intros [H|[ext [Hd Hq]]].
    + exists (DPath q); split; [exact H|simpl; auto].
    + exists (DPred ext); split; [exact Hd|simpl; apply pred_yields_iff; exact Hq].
Qed.

(* a predicate never makes a test its own dependency (F26); only its own path does, and that is a cycle *)
Lemma self_dependency_only_by_path : forall self keys decl,
  In self (expand self keys decl) <-> In (DPath self) decl.
Proof.
  intros self keys decl; rewrite expand_In; split; [|auto].
  intros [H|[ext [_ [_ [N _]]]]]; [exact H|contradiction N; reflexivity].
Qed.

(* a predicate never designates an unknown test: "Cannot find dependency test" can only come from a path *)
Lemma expand_known : forall self keys decl q,
  In q (expand self keys decl) -> ~ In q keys -> In (DPath q) decl.
Proof.
  intros self keys decl q H N; apply expand_In in H; destruct H as [H|[ext [_ [K _]]]]; [exact H|contradiction].
Qed.

(* keys of tests_dict = keys looked up by the resolution *)
Lemma dict_find_keys : forall {V} (d : dict V) k, dict_find d k <> None <-> In k (map fst d).
Proof.
  intros V d k; induction d as [|[k' v] d IH]; simpl; [split; [intros H; contradiction H; reflexivity|intros []]|].
  destruct (path_eqb k k') eqn:E.
  - apply path_eqb_eq in E; subst; split; [auto|discriminate].
  - apply path_eqb_neq in E; rewrite IH; split; [auto|intros [H|H]; [contradiction E; auto|exact H]].
Qed.

(* hence, for a test whose declared dependencies are predicates (and known paths), the first check of the resolution loop —
   "Cannot find dependency test" — never fires on what they designate *)
Lemma expanded_dependencies_are_found : forall (all : dict test) self decl q,
  (forall p, In (DPath p) decl -> In p (map fst all)) ->
  In q (expand self (map fst all) decl) -> dict_find all q <> None.
Proof.
  intros all self decl q K H; apply dict_find_keys.
  apply expand_In in H; destruct H as [H|[ext [_ [Hk _]]]]; [apply K; exact H|exact Hk].
Qed.

(* ---------------- witnesses ---------------- *)
Example pred_witness :
  let keys := [[5; 7]; [5; 8]; [6; 9]; [6; 10]] in
  (* a predicate true of three tests, one of them the depending test itself, listed in another order, plus an unknown one *)
  expand [6; 9] keys [DPred [[6; 9]; [6; 10]; [5; 7]; [4; 4]]; DPath [5; 8]] = [[5; 7]; [6; 10]; [5; 8]] /\
  walk [6; 9] keys [DPred [[6; 10]; [5; 7]]; DPath [1; 1]; DPath [5; 8]] = ([[5; 7]; [6; 10]], true).
Proof. vm_compute; split; reflexivity. Qed.

(* the variant without the self-exclusion (the seeded change C14-l; the pre-F26 code compared objects instead of paths) makes
   a valid project cyclic *)
Definition pred_yields_no_self_exclusion (keys ext : list path) : list path := filter (fun q => path_mem q ext) keys.
Lemma no_self_exclusion_refuted :
  In [6; 9] (pred_yields_no_self_exclusion [[5; 7]; [6; 9]] [[6; 9]; [5; 7]]) /\
  ~ In [6; 9] (pred_yields [6; 9] [[5; 7]; [6; 9]] [[6; 9]; [5; 7]]).
Proof. split; [vm_compute; auto|apply pred_never_self]. Qed.
