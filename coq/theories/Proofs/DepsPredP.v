(* Proofs about Model/DepsPred.v: what a predicate dependency designates. *)
From Coq Require Import List Arith Bool.
Import ListNotations.
From LCC Require Import Model.Proj Model.Fixture Model.Deps Model.DepsPred Proofs.DepsP.

Lemma pred_yields_iff : forall self keys ext q,
  In q (pred_yields self keys ext) <-> In q keys /\ q <> self /\ In q ext.
Proof.
  intros self keys ext q; unfold pred_yields; rewrite filter_In, andb_true_iff, negb_true_iff, path_eqb_neq, path_mem_In.
  tauto.
Qed.

Lemma pred_never_self : forall self keys ext, ~ In self (pred_yields self keys ext).
Proof. intros self keys ext H; apply pred_yields_iff in H; destruct H as [_ [H _]]; apply H; reflexivity. Qed.

Lemma pred_yields_nodup : forall self keys ext, NoDup keys -> NoDup (pred_yields self keys ext).
Proof. intros; unfold pred_yields; apply NoDup_filter; assumption. Qed.

(* project order: the tests a predicate designates come in the order of all_tests, whatever the order of [ext] *)
Inductive subseq {A} : list A -> list A -> Prop :=
| sub_nil : forall l, subseq [] l
| sub_take : forall x a l, subseq a l -> subseq (x :: a) (x :: l)
| sub_skip : forall x a l, subseq a l -> subseq a (x :: l).
Lemma filter_subseq : forall {A} (f : A -> bool) l, subseq (filter f l) l.
Proof.
  intros A f l; induction l as [|x l IH]; simpl; [constructor|].
  destruct (f x); [apply sub_take|apply sub_skip]; exact IH.
Qed.
Lemma pred_yields_project_order : forall self keys ext, subseq (pred_yields self keys ext) keys.
Proof. intros; apply filter_subseq. Qed.

Lemma pred_yields_ext_order_irrelevant : forall self keys ext ext',
  (forall q, In q ext <-> In q ext') -> pred_yields self keys ext = pred_yields self keys ext'.
Proof.
  intros self keys ext ext' H; unfold pred_yields; apply filter_ext_in; intros q _.
  f_equal. destruct (path_mem q ext) eqn:A, (path_mem q ext') eqn:B; auto.
  - apply path_mem_In in A; apply H in A; apply path_mem_In in A; congruence.
  - apply path_mem_In in B; apply H in B; apply path_mem_In in B; congruence.
Qed.

(* ---------------- the generator ---------------- *)
Lemma walk_ok : forall self keys decl,
  snd (walk self keys decl) = false ->
  fst (walk self keys decl) = expand self keys decl /\ (forall p, In (DPath p) decl -> In p keys).
Proof.
  intros self keys decl; induction decl as [|d decl IH]; simpl; intros H; [split; [reflexivity|intros p []]|].
  destruct d as [p|ext].
  - destruct (path_mem p keys) eqn:M; [|discriminate].
    destruct (walk self keys decl) as [l e]; simpl in *.
    destruct (IH H) as [E K]; split; [rewrite E; reflexivity|].
    intros p' [Hp|Hp]; [inversion Hp; subst; apply path_mem_In; exact M|apply K; exact Hp].
  - destruct (walk self keys decl) as [l e]; simpl in *.
    destruct (IH H) as [E K]; split; [rewrite E; reflexivity|].
    intros p' [Hp|Hp]; [discriminate|apply K; exact Hp].
Qed.

Lemma walk_error : forall self keys decl,
  snd (walk self keys decl) = true ->
  exists d1 p d2, decl = d1 ++ DPath p :: d2 /\ ~ In p keys /\
    fst (walk self keys decl) = expand self keys d1 /\ (forall p', In (DPath p') d1 -> In p' keys).
Proof.
  intros self keys decl; induction decl as [|d decl IH]; simpl; intros H; [discriminate|].
  destruct d as [p|ext].
  - destruct (path_mem p keys) eqn:M.
    + destruct (walk self keys decl) as [l e]; simpl in *.
      destruct (IH H) as [d1 [p0 [d2 [E [N [F K]]]]]].
      exists (DPath p :: d1), p0, d2; repeat split; auto.
      * rewrite E; reflexivity.
      * rewrite F; reflexivity.
      * intros p' [Hp|Hp]; [inversion Hp; subst; apply path_mem_In; exact M|apply K; exact Hp].
    + exists [], p, decl; repeat split; auto.
      * apply path_mem_false; exact M.
      * intros p' [].
  - destruct (walk self keys decl) as [l e]; simpl in *.
    destruct (IH H) as [d1 [p0 [d2 [E [N [F K]]]]]].
    exists (DPred ext :: d1), p0, d2; repeat split; auto.
    + rewrite E; reflexivity.
    + rewrite F; reflexivity.
    + intros p' [Hp|Hp]; [discriminate|apply K; exact Hp].
Qed.

(* ---------------- what the path form contains ---------------- *)
Lemma expand_In : forall self keys decl q,
  In q (expand self keys decl) <->
  In (DPath q) decl \/ exists ext, In (DPred ext) decl /\ In q keys /\ q <> self /\ In q ext.
Proof.
  intros self keys decl q; unfold expand; rewrite in_flat_map; split.
  - intros [d [Hd Hq]]; destruct d as [p|ext]; simpl in Hq.
    + destruct Hq as [Hq|[]]; subst; left; exact Hd.
    + right; exists ext; split; [exact Hd|apply pred_yields_iff; exact Hq].
  - intros [H|[ext [Hd Hq]]].
    + exists (DPath q); split; [exact H|simpl; auto].
    + exists (DPred ext); split; [exact Hd|simpl; apply pred_yields_iff; exact Hq].
Qed.

(* a predicate never makes a test its own dependency (F26); only its own path does, and that is a cycle *)
Lemma self_dependency_only_by_path : forall self keys decl,
  In self (expand self keys decl) <-> In (DPath self) decl.
Proof.
  intros self keys decl; rewrite expand_In; split; [|auto].
  intros [H|[ext [_ [_ [N _]]]]]; [exact H|contradiction N; reflexivity].
Qed.

(* a predicate never designates an unknown test: "Cannot find dependency test" can only come from a path *)
Lemma expand_known : forall self keys decl q,
  In q (expand self keys decl) -> ~ In q keys -> In (DPath q) decl.
Proof.
  intros self keys decl q H N; apply expand_In in H; destruct H as [H|[ext [_ [K _]]]]; [exact H|contradiction].
Qed.

(* keys of tests_dict = keys looked up by the resolution *)
Lemma dict_find_keys : forall {V} (d : dict V) k, dict_find d k <> None <-> In k (map fst d).
Proof.
  intros V d k; induction d as [|[k' v] d IH]; simpl; [split; [intros H; contradiction H; reflexivity|intros []]|].
  destruct (path_eqb k k') eqn:E.
  - apply path_eqb_eq in E; subst; split; [auto|discriminate].
  - apply path_eqb_neq in E; rewrite IH; split; [auto|intros [H|H]; [contradiction E; auto|exact H]].
Qed.

(* hence, for a test whose declared dependencies are predicates (and known paths), the first check of the resolution loop —
   "Cannot find dependency test" — never fires on what they designate *)
Lemma expanded_dependencies_are_found : forall (all : dict test) self decl q,
  (forall p, In (DPath p) decl -> In p (map fst all)) ->
  In q (expand self (map fst all) decl) -> dict_find all q <> None.
Proof.
  intros all self decl q K H; apply dict_find_keys.
  apply expand_In in H; destruct H as [H|[ext [_ [Hk _]]]]; [apply K; exact H|exact Hk].
Qed.

(* ---------------- witnesses ---------------- *)
Example pred_witness :
  let keys := [[5; 7]; [5; 8]; [6; 9]; [6; 10]] in
  (* a predicate true of three tests, one of them the depending test itself, listed in another order, plus an unknown one *)
  expand [6; 9] keys [DPred [[6; 9]; [6; 10]; [5; 7]; [4; 4]]; DPath [5; 8]] = [[5; 7]; [6; 10]; [5; 8]] /\
  walk [6; 9] keys [DPred [[6; 10]; [5; 7]]; DPath [1; 1]; DPath [5; 8]] = ([[5; 7]; [6; 10]], true).
Proof. vm_compute; split; reflexivity. Qed.

(* the variant without the self-exclusion (the seeded change C14-l; the pre-F26 code compared objects instead of paths) makes
   a valid project cyclic *)
Definition pred_yields_no_self_exclusion (keys ext : list path) : list path := filter (fun q => path_mem q ext) keys.
Lemma no_self_exclusion_refuted :
  In [6; 9] (pred_yields_no_self_exclusion [[5; 7]; [6; 9]] [[6; 9]; [5; 7]]) /\
  ~ In [6; 9] (pred_yields [6; 9] [[5; 7]; [6; 9]] [[6; 9]; [5; 7]]).
Proof. split; [vm_compute; auto|apply pred_never_self]. Qed.

(* ================================================================ composition with the resolution of Model/Deps.v *)
From Coq Require Import Relations.
From LCC Require Import Proofs.FixtureP.

(* the test at path p, with its declared dependencies put in path form *)
Definition retest (keys : list path) (decl : path -> list ddep) (p : path) (t : test) : test :=
  mkTest (tt_name t) (tt_disabled t) (expand p keys (decl p)) (tt_args t) (tt_params t) (tt_body t).

Definition rerow (keys : list path) (decl : path -> list ddep) (x : path * bool * test) : path * bool * test :=
  (fst (fst x), snd (fst x), retest keys decl (fst (fst x)) (snd x)).

Lemma flat_map_map_fun : forall {A B C} (f : A -> list B) (g : B -> C) l,
  map g (flat_map f l) = flat_map (fun a => map g (f a)) l.
Proof. intros A B C f g l; induction l as [|a l IH]; simpl; [reflexivity|rewrite map_app, IH; reflexivity]. Qed.

Lemma flat_map_ext_in : forall {A B} (f g : A -> list B) l, (forall a, In a l -> f a = g a) -> flat_map f l = flat_map g l.
Proof.
  intros A B f g l; induction l as [|a l IH]; intros H; simpl; [reflexivity|].
  rewrite (H a (or_introl eq_refl)), IH; [reflexivity|intros; apply H; right; assumption].
Qed.

Lemma expand_subs_map : forall keys decl p subs,
  (fix go (l : list suite) : list suite :=
     match l with [] => [] | x :: r => expand_suite keys decl p x :: go r end) subs = map (expand_suite keys decl p) subs.
Proof. intros keys decl p subs; induction subs as [|x r IH]; simpl; [reflexivity|rewrite IH; reflexivity]. Qed.

Lemma expand_suite_rows : forall keys decl s prefix inh,
  suite_tests_with_path prefix inh (expand_suite keys decl prefix s) =
  map (rerow keys decl) (suite_tests_with_path prefix inh s).
Proof.
  intros keys decl s; induction s as [n d h i ts subs IH] using suite_ind2; intros prefix inh.
  simpl. rewrite expand_subs_map, map_app, map_map, map_map. f_equal.
  rewrite flat_map_map_fun, flat_map_concat_map, map_map, <- flat_map_concat_map.
  apply flat_map_ext_in; intros s Hs; apply IH; exact Hs.
Qed.

Lemma expand_project_rows : forall decl suites,
  all_tests_with_path (expand_project decl suites) = map (rerow (keys_of suites) decl) (all_tests_with_path suites).
Proof.
  intros decl suites; unfold all_tests_with_path, expand_project.
  rewrite flat_map_map_fun, flat_map_concat_map, map_map, <- flat_map_concat_map.
  apply flat_map_ext_in; intros s _; apply expand_suite_rows.
Qed.

(* find_last over rows whose value is rebuilt from the key *)
Lemma find_last_rebuild : forall {V W} (f : path -> V -> W) (l : list (path * V)) k,
  find_last (map (fun kv => (fst kv, f (fst kv) (snd kv))) l) k =
  match find_last l k with Some v => Some (f k v) | None => None end.
Proof.
  intros V W f l k; induction l as [|[k' v] l IH]; simpl; [reflexivity|].
  rewrite IH; destruct (find_last l k); [reflexivity|].
  destruct (path_eqb k k') eqn:E; [apply path_eqb_eq in E; subst; reflexivity|reflexivity].
Qed.

(* the table of the expanded project: same paths, every test with the path form of its declared dependencies *)
Lemma find_test_expand : forall decl suites p,
  find_test (expand_project decl suites) p =
  match find_test suites p with Some t => Some (retest (keys_of suites) decl p t) | None => None end.
Proof.
  intros decl suites p; unfold find_test; rewrite expand_project_rows, map_map.
  rewrite <- (find_last_rebuild (retest (keys_of suites) decl) (map (fun x => (fst (fst x), snd x)) (all_tests_with_path suites)) p).
  rewrite map_map; reflexivity.
Qed.

Lemma keys_of_find : forall suites p, In p (keys_of suites) <-> find_test suites p <> None.
Proof.
  intros suites p; unfold keys_of; rewrite <- dict_find_keys, tests_dict_find; reflexivity.
Qed.

(* An edge of the expanded project *)
Lemma dep_edge_expand : forall decl suites a d,
  DepEdge (find_test (expand_project decl suites)) a d <->
  find_test suites a <> None /\ In d (expand a (keys_of suites) (decl a)).
Proof.
  intros decl suites a d; unfold DepEdge; split.
  - intros [t [Ht Hd]]; rewrite find_test_expand in Ht.
    destruct (find_test suites a) as [t0|]; [|discriminate].
    inversion Ht; subst; simpl in Hd; split; [discriminate|exact Hd].
  - intros [Ha Hd]; destruct (find_test suites a) as [t0|] eqn:E; [|contradiction Ha; reflexivity].
    exists (retest (keys_of suites) decl a t0); split; [rewrite find_test_expand, E; reflexivity|exact Hd].
Qed.

(* THE COMPOSITION. A project whose dependencies are declared by paths and predicates is prepared by resolving the
   dependencies of its path form. If that fails with "Cannot find dependency test", some test NAMES, by its path, a test that
   does not exist: predicates are never the cause, whatever they hold for. *)
Theorem unknown_dependency_comes_from_a_path : forall decl suites e,
  resolve_tests_dependencies (expand_project decl suites) (expand_project decl suites) = Err e ->
  e = ValidationError RDepUnknown ->
  exists a d, find_test suites a <> None /\ In (DPath d) (decl a) /\ find_test suites d = None.
Proof.
  intros decl suites e H He.
  assert (C : sched_consistent (find_test (expand_project decl suites)) (find_test (expand_project decl suites))).
  { intros p t Hp; exists t; split; [exact Hp|reflexivity]. }
  destruct (resolve_tests_dependencies_sound _ _ _ C H) as [r [Er Inv]].
  rewrite He in Er; inversion Er; subst r; simpl in Inv.
  destruct Inv as [a [d [_ [Edge Hd]]]].
  apply dep_edge_expand in Edge; destruct Edge as [Ha Hin].
  rewrite find_test_expand in Hd.
  assert (Hd' : find_test suites d = None) by (destruct (find_test suites d); [discriminate|reflexivity]).
  exists a, d; split; [exact Ha|split; [|exact Hd']].
  apply (expand_known a (keys_of suites) (decl a) d Hin).
  intros K; apply keys_of_find in K; contradiction.
Qed.

(* ... and a project that declares its dependencies by predicates only is never rejected for an unknown dependency *)
Corollary predicates_only_never_unknown : forall decl suites,
  (forall a p, ~ In (DPath p) (decl a)) ->
  resolve_tests_dependencies (expand_project decl suites) (expand_project decl suites) <> Err (ValidationError RDepUnknown).
Proof.
  intros decl suites Hp H.
  destruct (unknown_dependency_comes_from_a_path decl suites _ H eq_refl) as [a [d [_ [Hd _]]]].
  exact (Hp a d Hd).
Qed.

(* a one-hop cycle a -> a of the expanded project can only come from a test naming its own path *)
Theorem self_edge_comes_from_a_path : forall decl suites a,
  DepEdge (find_test (expand_project decl suites)) a a -> In (DPath a) (decl a).
Proof.
  intros decl suites a H; apply dep_edge_expand in H; destruct H as [_ H].
  apply self_dependency_only_by_path in H; exact H.
Qed.
