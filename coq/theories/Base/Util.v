(* Small executable helpers shared by the models and the generated case files. No proofs. *)
From Coq Require Import List Arith Bool NArith ZArith.
Import ListNotations.

Fixpoint list_eqb {A} (eqb : A -> A -> bool) (l1 l2 : list A) : bool :=
  match l1, l2 with
  | [], [] => true
  | x :: r1, y :: r2 => eqb x y && list_eqb eqb r1 r2
  | _, _ => false
  end.

Definition option_eqb {A} (eqb : A -> A -> bool) (o1 o2 : option A) : bool :=
  match o1, o2 with
  | None, None => true
  | Some x, Some y => eqb x y
  | _, _ => false
  end.

Definition pair_eqb {A B} (ea : A -> A -> bool) (eb : B -> B -> bool) (p q : A * B) : bool :=
  ea (fst p) (fst q) && eb (snd p) (snd q).

(* indexes (from 0) of the elements satisfying f *)
Fixpoint find_indexes_from {A} (f : A -> bool) (l : list A) (i : nat) : list nat :=
  match l with
  | [] => []
  | x :: r => if f x then i :: find_indexes_from f r (S i) else find_indexes_from f r (S i)
  end.
Definition find_indexes {A} (f : A -> bool) (l : list A) : list nat := find_indexes_from f l 0.
