(* Model of lemoncheesecake/fixture.py: FixtureRegistry (static checks, schedules) and ScheduledFixtures (dynamic lookups).
   Executable definitions only; proofs are in Proofs/FixtureP.v.  Imported by the validation model (C14) and by the runner model.

   Python (fixture.py)                                   Gallina (this file)
   ----------------------------------------------------  ---------------------------------------------------------------
   exceptions raised / kinds of ValidationError          err, reason, result, bind, for_each
   FixtureRegistry._fixtures (dict, insertion order)     registry = list (name * fixture), keys unique; reg_find / reg_mem / reg_names
   FixtureRegistry.add_fixture                           reg_add        (isinstance(old, BuiltinFixture) is fx_builtin old)
   BuiltinFixture(name, value)                           builtin_fixture
   FixtureRegistry.get_fixture_dependencies              get_fixture_dependencies (fuel), fixture_deps (fuel = S (length reg))
     [p for p in params if p != "fixture_name"]          fparams
     OrderedSet / update / add                           oset_update / oset_add of Proj.v (duplicate-free list, first insertion order)
   FixtureRegistry.check_dependencies                    check_dependencies = forbidden names; then deps of every key; then direct checks
   FixtureRegistry.check_fixtures_in_test/suite/suites   check_fixtures_in_test / check_fixtures_in_suite / check_fixtures_in_suites
   Suite.has_enabled_tests, Test.is_enabled              has_enabled_tests inh s, test_enabled inh_dis t  (inh = some ancestor is disabled)
   get_fixtures_used_in_suite(_recursively)              get_fixtures_used_in_suite(_recursively) inh s include_disabled
   get_scheduled_fixtures_for_scope                      get_scheduled_fixtures_for_scope reg direct scope : result (list fixture)
                                                         (the `_fixtures` dict of the ScheduledFixtures built, in dict = setup order)
   get_fixtures_scheduled_for_pre_run/session/suite/test get_fixtures_scheduled_for_pre_run/session/suite/test
   ScheduledFixtures (+ parent chain)                    chain V = list (level V), innermost first; level = (fixtures, results)
     has_fixture / is_empty / get_fixture_names          sf_has_fixture / sf_is_empty / sf_names
     get_setup_teardown_pairs (order)                    sf_names (setups run in that order, teardowns reversed by the runner)
     get_fixture_result (assert / parent / LookupError)  get_fixture_result
     get_fixture_results                                 get_fixture_results
     _get_fixture_params                                 get_fixture_params ("fixture_name" receives the name itself: PName)
     _setup_fixture                                      setup_fixture_begin (asserts, computes the params) ; setup_fixture_end (stores the result)
     _teardown_fixture                                   teardown_fixture
   (what the runner does with them when nothing fails)   setup_all / teardown_all / dry_run_test / dry_run_suite / dry_run (end of file)

   Truthiness tests mirrored: `elif self._parent_scheduled_fixtures:` is an `is not None` test in effect (ScheduledFixtures defines neither
   __bool__ nor __len__): the empty chain is "no parent".  `if not suite.has_enabled_tests() and not (include_disabled and suite.get_tests())`: the list
   truthiness of get_tests() is has_tests (non-empty).
   KeyError models `self._fixtures[name]` on a missing key (never reached on a validated project: proved in Proofs/FixtureP.v). *)
From Coq Require Import List Arith Bool.
Import ListNotations.
From LCC Require Import Model.Proj.

(* ---------------------------------------------------------------- errors *)
(* which check raised the ValidationError (the message is not modelled) *)
Inductive reason :=
(* metadatapolicy.py, in the order of _check_compliance *)
| RPolUnknownProp | RPolForbiddenProp | RPolMissingProp | RPolBadValue | RPolUnknownTag | RPolForbiddenTag
(* suite/core.py *)
| RDepUnknown           (* "Cannot find dependency test" *)
| RDepCircular          (* "Got circular dependency on test" *)
| RDepNotScheduled      (* "is not going to be run" *)
(* fixture.py *)
| RFxBuiltinClash       (* "is a builtin fixture name" *)
| RFxForbiddenName      (* "Fixture name '%s' is forbidden" *)
| RFxCircular           (* "have circular dependency" *)
| RFxUnknownParam       (* "Fixture '%s' used by fixture '%s' does not exist" *)
| RFxPerThreadParam     (* "is incompatible with per-thread fixture" *)
| RFxScopeParam         (* "is incompatible with scope" *)
| RSuiteUnknownFx       (* "Suite '%s' uses an unknown fixture" *)
| RSuitePerThreadFx     (* "uses per-thread fixture '%s' which is not allowed" *)
| RSuiteScopeFx         (* "which has an incompatible scope" *)
| RTestUnknownFx.       (* "Unknown fixture '%s' used in test" *)

Inductive err :=
| ValidationError (r : reason)
| KeyError | LookupError | AssertionError
| OutOfFuel.

Inductive result (A : Type) := Ok (a : A) | Err (e : err).
Arguments Ok {A} a.
Arguments Err {A} e.

Definition bind {A B} (r : result A) (f : A -> result B) : result B :=
  match r with Ok a => f a | Err e => Err e end.

(* `for x in l: f(x)` where f may raise *)
Definition for_each {A} (f : A -> result unit) : list A -> result unit :=
  fix go (l : list A) : result unit :=
    match l with
    | [] => Ok tt
    | x :: r => match f x with Ok _ => go r | Err e => Err e end
    end.

(* ---------------------------------------------------------------- registry *)
Definition registry := list (name * fixture).

Fixpoint reg_find (reg : registry) (n : name) : option fixture :=
  match reg with
  | [] => None
  | (k, fx) :: r => if Nat.eqb n k then Some fx else reg_find r n
  end.
Definition reg_mem (reg : registry) (n : name) : bool := match reg_find reg n with Some _ => true | None => false end.
Definition reg_names (reg : registry) : list name := map fst reg.

(* dict[k] = v : replaces in place, or appends *)
Fixpoint reg_set (reg : registry) (n : name) (fx : fixture) : registry :=
  match reg with
  | [] => [(n, fx)]
  | (k, old) :: r => if Nat.eqb n k then (k, fx) :: r else (k, old) :: reg_set r n fx
  end.

Definition builtin_fixture (n : name) : fixture := mkFixture n ScPreRun [] false true false [] [].

Definition reg_add (reg : registry) (fx : fixture) : result registry :=
  match reg_find reg (fx_name fx) with
  | Some old => if fx_builtin old then Err (ValidationError RFxBuiltinClash) else Ok (reg_set reg (fx_name fx) fx)
  | None => Ok (reg_set reg (fx_name fx) fx)
  end.

Fixpoint reg_add_all (reg : registry) (l : list fixture) : result registry :=
  match l with
  | [] => Ok reg
  | fx :: r => match reg_add reg fx with Ok reg' => reg_add_all reg' r | Err e => Err e end
  end.

(* PreparedProject._build_fixture_registry *)
Definition initial_registry : registry :=
  [(n_cli_args, builtin_fixture n_cli_args); (n_project_dir, builtin_fixture n_project_dir)].
Definition build_registry (fixtures : list fixture) : result registry := reg_add_all initial_registry fixtures.

(* ---------------------------------------------------------------- get_fixture_dependencies *)
Definition fparams (fx : fixture) : list name := filter (fun p => negb (Nat.eqb p n_fixture_name)) (fx_params fx).

(* the loop `for param in fixture_params: ... dependencies.update(rec(param))` *)
Fixpoint deps_loop (rec : name -> result (list name)) (params : list name) (acc : list name) : result (list name) :=
  match params with
  | [] => Ok acc
  | p :: ps => match rec p with Ok d => deps_loop rec ps (oset_update acc d) | Err e => Err e end
  end.

Fixpoint get_fixture_dependencies (fuel : nat) (reg : registry) (n : name) (ref : list name) : result (list name) :=
  match fuel with
  | 0 => Err OutOfFuel
  | S fuel' =>
      match reg_find reg n with
      | None => Err KeyError
      | Some fx =>
          let fp := fparams fx in
          if existsb (fun r => name_mem r fp) ref then Err (ValidationError RFxCircular)
          else
            match deps_loop (fun p => if reg_mem reg p then get_fixture_dependencies fuel' reg p (n :: ref)
                                      else Err (ValidationError RFxUnknownParam)) fp [] with
            | Ok deps => Ok (oset_update deps fp)
            | Err e => Err e
            end
      end
  end.

(* the fuel that is always enough (Proofs/FixtureP.v: gfd_fuel_enough) *)
Definition fixture_deps (reg : registry) (n : name) : result (list name) :=
  get_fixture_dependencies (S (length reg)) reg n [].

(* ---------------------------------------------------------------- check_dependencies *)
Definition check_direct_dependency (fx : fixture) (dep : fixture) : result unit :=
  if fx_per_thread dep && negb (scope_eqb (fx_scope fx) ScTest) then Err (ValidationError RFxPerThreadParam)
  else if Nat.ltb (scope_level (fx_scope dep)) (scope_level (fx_scope fx)) then Err (ValidationError RFxScopeParam)
  else Ok tt.

(* `dependency_fixtures = [self._fixtures[param] for ...]` is built completely before the checks *)
Fixpoint lookup_all (reg : registry) (names : list name) : result (list fixture) :=
  match names with
  | [] => Ok []
  | n :: r => match reg_find reg n with
              | None => Err KeyError
              | Some fx => match lookup_all reg r with Ok l => Ok (fx :: l) | Err e => Err e end
              end
  end.

Definition check_direct_dependencies (reg : registry) (fx : fixture) : result unit :=
  bind (lookup_all reg (fparams fx)) (for_each (check_direct_dependency fx)).

Definition check_dependencies (reg : registry) : result unit :=
  if name_mem n_fixture_name (reg_names reg) then Err (ValidationError RFxForbiddenName)
  else
    bind (for_each (fun k => bind (fixture_deps reg k) (fun _ => Ok tt)) (reg_names reg)) (fun _ =>
    for_each (check_direct_dependencies reg) (map snd reg)).

(* ---------------------------------------------------------------- check_fixtures_in_* *)
Definition check_fixtures_in_test (reg : registry) (t : test) : result unit :=
  for_each (fun f => if reg_mem reg f then Ok tt else Err (ValidationError RTestUnknownFx)) (test_fixtures t).

Definition check_suite_fixture (reg : registry) (f : name) : result unit :=
  match reg_find reg f with
  | None => Err (ValidationError RSuiteUnknownFx)
  | Some fx =>
      if fx_per_thread fx then Err (ValidationError RSuitePerThreadFx)
      else if Nat.ltb (scope_level (fx_scope fx)) (scope_level ScSuite) then Err (ValidationError RSuiteScopeFx)
      else Ok tt
  end.

Fixpoint check_fixtures_in_suite (reg : registry) (s : suite) : result unit :=
  match s with
  | Suite _ _ _ _ ts subs =>
      bind (for_each (check_suite_fixture reg) (suite_fixtures s)) (fun _ =>
      bind (for_each (check_fixtures_in_test reg) ts) (fun _ =>
      for_each (check_fixtures_in_suite reg) subs))
  end.

Definition check_fixtures_in_suites (reg : registry) (l : list suite) : result unit :=
  for_each (check_fixtures_in_suite reg) l.

(* testtree.flatten_suites: pre-order *)
Fixpoint flatten_suite (s : suite) : list suite :=
  match s with Suite _ _ _ _ _ subs => s :: flat_map flatten_suite subs end.
Definition flatten_suites (l : list suite) : list suite := flat_map flatten_suite l.

(* ---------------------------------------------------------------- fixtures used *)
(* inh: an ancestor suite is disabled (_is_node_disabled walks up the parents) *)
Definition test_enabled (suite_disabled : bool) (t : test) : bool := negb (suite_disabled || tt_disabled t).
Definition has_enabled_tests (inh : bool) (s : suite) : bool :=
  existsb (test_enabled (inh || su_disabled s)) (su_tests s).

(* truthiness of suite.get_tests(): the suite has at least one direct test *)
Definition has_tests (s : suite) : bool := match su_tests s with [] => false | _ => true end.

(* `if not suite.has_enabled_tests() and not (include_disabled and suite.get_tests()): return OrderedSet()`  (fix F19: a suite
   without any direct test uses no fixture, even under --force-disabled) *)
Definition get_fixtures_used_in_suite (inh : bool) (s : suite) (include_disabled : bool) : list name :=
  if negb (has_enabled_tests inh s) && negb (include_disabled && has_tests s) then []
  else fold_left (fun acc t => if test_enabled (inh || su_disabled s) t || include_disabled
                               then oset_update acc (test_fixtures t) else acc)
                 (su_tests s) (suite_fixtures s).

Fixpoint get_fixtures_used_in_suite_recursively (inh : bool) (s : suite) (include_disabled : bool) : list name :=
  match s with
  | Suite _ d _ _ _ subs =>
      fold_left (fun acc sub => oset_update acc (get_fixtures_used_in_suite_recursively (inh || d) sub include_disabled))
                subs (get_fixtures_used_in_suite inh s include_disabled)
  end.

(* the OrderedSet built by get_fixtures_scheduled_for_pre_run / _for_session before the scope filter *)
Definition fixtures_used_in_suites (suites : list suite) (include_disabled : bool) : list name :=
  fold_left (fun acc s => oset_update acc (get_fixtures_used_in_suite_recursively false s include_disabled)) suites [].

(* ---------------------------------------------------------------- schedules *)
(* the OrderedSet `fixtures` of get_scheduled_fixtures_for_scope: for each direct fixture its dependencies, then itself *)
Fixpoint scheduled_names (reg : registry) (direct : list name) (acc : list name) : result (list name) :=
  match direct with
  | [] => Ok acc
  | f :: r => match fixture_deps reg f with
              | Ok d => scheduled_names reg r (oset_add f (oset_update acc d))
              | Err e => Err e
              end
  end.

(* [self._fixtures[name] for name in fixtures if self._fixtures[name].scope == scope] *)
Fixpoint select_scope (reg : registry) (sc : scope) (names : list name) : result (list fixture) :=
  match names with
  | [] => Ok []
  | n :: r => match reg_find reg n with
              | None => Err KeyError
              | Some fx => match select_scope reg sc r with
                           | Ok l => Ok (if scope_eqb (fx_scope fx) sc then fx :: l else l)
                           | Err e => Err e
                           end
              end
  end.

Definition get_scheduled_fixtures_for_scope (reg : registry) (direct : list name) (sc : scope) : result (list fixture) :=
  bind (scheduled_names reg direct []) (select_scope reg sc).

Definition get_fixtures_scheduled_for_pre_run (reg : registry) (suites : list suite) (include_disabled : bool) :=
  get_scheduled_fixtures_for_scope reg (fixtures_used_in_suites suites include_disabled) ScPreRun.
Definition get_fixtures_scheduled_for_session (reg : registry) (suites : list suite) (include_disabled : bool) :=
  get_scheduled_fixtures_for_scope reg (fixtures_used_in_suites suites include_disabled) ScSession.
Definition get_fixtures_scheduled_for_suite (reg : registry) (inh : bool) (s : suite) (include_disabled : bool) :=
  get_scheduled_fixtures_for_scope reg (get_fixtures_used_in_suite inh s include_disabled) ScSuite.
Definition get_fixtures_scheduled_for_test (reg : registry) (t : test) :=
  get_scheduled_fixtures_for_scope reg (test_fixtures t) ScTest.

(* ---------------------------------------------------------------- ScheduledFixtures, dynamic part *)
Section Scheduled.
  Variable V : Type.                              (* fixture values *)

  (* one ScheduledFixtures object: `_fixtures` in dict order and `_results` *)
  Definition level : Type := (list fixture * list (name * V))%type.
  (* an object with its chain of `_parent_scheduled_fixtures`, innermost first; [] is "no parent" *)
  Definition chain : Type := list level.

  Definition new_level (fxs : list fixture) : level := (fxs, []).
  Definition sf_names (l : level) : list name := map fx_name (fst l).
  Definition sf_has_fixture (l : level) (n : name) : bool := name_mem n (sf_names l).
  Definition sf_is_empty (l : level) : bool := match fst l with [] => true | _ => false end.

  Fixpoint results_find (rs : list (name * V)) (n : name) : option V :=
    match rs with
    | [] => None
    | (k, v) :: r => if Nat.eqb n k then Some v else results_find r n
    end.
  Definition results_remove (rs : list (name * V)) (n : name) : list (name * V) :=
    filter (fun kv => negb (Nat.eqb n (fst kv))) rs.
  Fixpoint find_fixture (fxs : list fixture) (n : name) : option fixture :=
    match fxs with
    | [] => None
    | fx :: r => if Nat.eqb n (fx_name fx) then Some fx else find_fixture r n
    end.

  Fixpoint get_fixture_result (c : chain) (n : name) : result V :=
    match c with
    | [] => Err LookupError
    | l :: parents =>
        if sf_has_fixture l n then
          match results_find (snd l) n with
          | Some v => Ok v
          | None => Err AssertionError           (* "it has not been previously executed" *)
          end
        else get_fixture_result parents n
    end.

  Fixpoint get_fixture_results (c : chain) (names : list name) : result (list (name * V)) :=
    match names with
    | [] => Ok []
    | n :: r => match get_fixture_result c n with
                | Ok v => match get_fixture_results c r with Ok l => Ok ((n, v) :: l) | Err e => Err e end
                | Err e => Err e
                end
    end.

  Inductive param_value := PName (n : name) | PVal (v : V).

  Fixpoint params_loop (c : chain) (n : name) (params : list name) : result (list (name * param_value)) :=
    match params with
    | [] => Ok []
    | p :: r =>
        if Nat.eqb p n_fixture_name then
          match params_loop c n r with Ok l => Ok ((p, PName n) :: l) | Err e => Err e end
        else
          match get_fixture_result c p with
          | Ok v => match params_loop c n r with Ok l => Ok ((p, PVal v) :: l) | Err e => Err e end
          | Err e => Err e
          end
    end.

  (* _get_fixture_params: c is the object itself followed by its parents *)
  Definition get_fixture_params (c : chain) (n : name) : result (list (name * param_value)) :=
    match c with
    | [] => Err KeyError
    | l :: _ => match find_fixture (fst l) n with
                | None => Err KeyError
                | Some fx => params_loop c n (fx_params fx)
                end
    end.

  (* _setup_fixture, up to the call of the user function: returns the fixture and its arguments *)
  Definition setup_fixture_begin (c : chain) (n : name) : result (fixture * list (name * param_value)) :=
    match c with
    | [] => Err KeyError
    | l :: _ =>
        match results_find (snd l) n with
        | Some _ => Err AssertionError             (* "it has already been executed" *)
        | None =>
            match find_fixture (fst l) n with
            | None => Err KeyError
            | Some fx => bind (get_fixture_params c n) (fun ps => Ok (fx, ps))
            end
        end
    end.

  (* _setup_fixture, after the user function returned v *)
  Definition setup_fixture_end (c : chain) (n : name) (v : V) : chain :=
    match c with
    | [] => []
    | l :: parents => (fst l, (n, v) :: results_remove (snd l) n) :: parents
    end.

  (* _teardown_fixture: the value to tear down and the object without it *)
  Definition teardown_fixture (c : chain) (n : name) : result (V * chain) :=
    match c with
    | [] => Err AssertionError
    | l :: parents =>
        match results_find (snd l) n with
        | None => Err AssertionError               (* "it has not been previously executed" *)
        | Some v => Ok (v, (fst l, results_remove (snd l) n) :: parents)
        end
    end.
End Scheduled.

Arguments new_level {V} fxs.
Arguments sf_names {V} l.
Arguments sf_has_fixture {V} l n.
Arguments sf_is_empty {V} l.
Arguments results_find {V} rs n.
Arguments get_fixture_result {V} c n.
Arguments get_fixture_results {V} c names.
Arguments PName {V} n.
Arguments PVal {V} v.
Arguments get_fixture_params {V} c n.
Arguments setup_fixture_begin {V} c n.
Arguments setup_fixture_end {V} c n v.
Arguments teardown_fixture {V} c n.

(* ---------------------------------------------------------------- a structural dry run
   Every ScheduledFixtures operation the runner performs when no user code fails, in the runner's order, with the
   fixture value abstracted to the fixture's name:
     run_suites:            pre_run schedule, setups in get_setup_teardown_pairs order
     _run_suites:           session schedule (parent: pre_run), setups in order (TestSessionSetupTask)
     build_suite_tasks:     per suite (pre-order) a suite schedule (parent: session); SuiteInitializationTask exists iff
                            has_enabled_tests or (force_disabled and the suite has direct tests) (fix F19): setups in order, then get_fixture_results(injected),
                            then get_fixture_results(setup_suite arguments)
     TestTask.run:          per test that is enabled or forced: test schedule (parent: the suite's), setups in order,
                            then _prepare_test_args: get_fixture_result for each argument that is not a parameter,
                            then the teardowns of the test fixtures in reverse order (_teardown_fixture: "has not been
                            previously executed" assertion).
     teardowns:             of the suite fixtures after the tests of the suite (SuiteTeardownTask), of the session fixtures
                            after all suites, of the pre_run fixtures at the very end; always in reverse setup order.
   Returns the first error.  C14_no_structural_failure: validated => Ok for both values of force_disabled. *)
Definition setup_all (c : chain name) : result (chain name) :=
  match c with
  | [] => Ok []
  | l :: _ =>
      fold_left (fun acc n => bind acc (fun c' => bind (setup_fixture_begin c' n) (fun _ => Ok (setup_fixture_end c' n n))))
                (sf_names l) (Ok c)
  end.

(* run_teardown_funcs: the teardowns of the level, in reverse order *)
Definition teardown_all (c : chain name) : result (chain name) :=
  match c with
  | [] => Ok []
  | l :: _ =>
      fold_left (fun acc n => bind acc (fun c' => bind (teardown_fixture c' n) (fun vc => Ok (snd vc))))
                (rev (sf_names l)) (Ok c)
  end.

Definition dry_run_test (reg : registry) (suite_chain : chain name) (t : test) : result unit :=
  bind (get_fixtures_scheduled_for_test reg t) (fun fxs =>
  bind (setup_all (new_level fxs :: suite_chain)) (fun c =>
  bind (get_fixture_results c (test_fixtures t)) (fun _ =>
  bind (teardown_all c) (fun _ => Ok tt)))).

Fixpoint dry_run_suite (reg : registry) (force_disabled : bool) (session_chain : chain name) (inh : bool) (s : suite)
  : result unit :=
  match s with
  | Suite _ d hk inj ts subs =>
      bind (get_fixtures_scheduled_for_suite reg inh s force_disabled) (fun fxs =>
      bind (if has_enabled_tests inh s || (force_disabled && has_tests s) then
              bind (setup_all (new_level fxs :: session_chain)) (fun c =>
              bind (get_fixture_results c (oset_update [] inj)) (fun _ =>
              bind (get_fixture_results c (match h_setup_suite hk with Some (args, _) => args | None => [] end)) (fun _ =>
              Ok c)))
            else Ok (new_level fxs :: session_chain)) (fun c =>
      bind (for_each (fun t => if test_enabled (inh || d) t || force_disabled then dry_run_test reg c t else Ok tt) ts) (fun _ =>
      (* SuiteTeardownTask: only when the initialisation task exists *)
      bind (if has_enabled_tests inh s || (force_disabled && has_tests s) then bind (teardown_all c) (fun _ => Ok tt) else Ok tt) (fun _ =>
      for_each (dry_run_suite reg force_disabled session_chain (inh || d)) subs))))
  end.

Definition dry_run (reg : registry) (suites : list suite) (force_disabled : bool) : result unit :=
  bind (get_fixtures_scheduled_for_pre_run reg suites force_disabled) (fun pre =>
  bind (setup_all [new_level pre]) (fun c0 =>
  bind (get_fixtures_scheduled_for_session reg suites force_disabled) (fun ses =>
  bind (setup_all (new_level ses :: c0)) (fun c1 =>
  bind (for_each (dry_run_suite reg force_disabled c1 false) suites) (fun _ =>
  bind (teardown_all c1) (fun _ =>                  (* TestSessionTeardownTask *)
  bind (teardown_all c0) (fun _ => Ok tt))))))).    (* run_suites: teardown of the pre_run fixtures *)
