(* C09 — ElementTree element trees and the primitives the GENERATED xml_save_* / xml_load_* definitions are built from
   (gen/TablesCodec.v, translated from lemoncheesecake/reporting/backends/xml.py by harness/tables_codec.py).

   Python (xml.etree.ElementTree)             Gallina
   -----------------------------------------  ------------------------------------------------------------
   Element(tag), make_xml_node/make_xml_child  Elem tag attrs text children   (tail is never read back: not modelled; indent_xml only
                                                touches tails and the text of elements that have children, which no unserializer reads)
   e.attrib[k]                                xattr k e            (KeyError when absent)
   e.attrib.get(k, None)                      xattr_opt k e
   k in e.attrib                              xhas_attr k e
   e.text                                     xtext e : option str
   e.tag                                      xtag e
   for c in e                                 xchildren e
   e.findall(t) / e.find(t)                   xfindall t e / xfind t e        (direct children with that tag / the first one or None)
   None.text  (find returned None)            Err AttributeError   (req_elem)
   a value whose computation raised TypeError raised_TypeError     (format_time_as_iso8601(None): round(None, 3); an attribute set to None)
     while the tree was being built            -- the serializers stay total functions; xml_tree_result turns the marker into Err TypeError
   None stored where the normal form wants     Err NotNormalForm    (req_some; since fix F04 the mandatory texts are read through
     a value (a str, a time)                                        `e.text or ""`, so this only remains for JSON null times)
   e.text or ""                               or_empty (xtext e)   (None and "" both give "")
   truthiness `if x:` on Optional[str]        truthy_ostr (None and "" are false)   -- NOT the same as `is not None` = is_some
   truthiness on Optional[float]              truthy_otime (None and 0.0 are false)
   ET.tostring + file write + ET.parse        MODELLED, not verified: xml_write_check / xml_norm (validated against the real library by the check)
   No proofs in this file. *)
From Coq Require Import List NArith ZArith Bool.
Import ListNotations.
From LCC Require Import Base.Util Model.Report Model.Time Model.Json.

Inductive xml := Elem (tag : str) (attrs : list (str * str)) (text : option str) (children : list xml).

Definition xtag (e : xml) := match e with Elem t _ _ _ => t end.
Definition xattrs (e : xml) := match e with Elem _ a _ _ => a end.
Definition xtext (e : xml) := match e with Elem _ _ t _ => t end.
Definition xchildren (e : xml) := match e with Elem _ _ _ c => c end.

Definition xattr (k : str) (e : xml) : res str := of_option KeyError (assoc k (xattrs e)).
Definition xattr_opt (k : str) (e : xml) : option str := assoc k (xattrs e).
Definition xhas_attr (k : str) (e : xml) : bool := has_key k (xattrs e).
Definition has_tag (k : str) (c : xml) : bool := str_eqb (xtag c) k.
Definition xfindall (k : str) (e : xml) : list xml := filter (has_tag k) (xchildren e).
Definition xfind (k : str) (e : xml) : option xml := hd_error (xfindall k e).
Definition req_elem (o : option xml) : res xml := of_option AttributeError o.
Definition req_some {A} (o : option A) : res A := of_option NotNormalForm o.

Fixpoint xml_depth (e : xml) : nat :=
  match e with Elem _ _ _ c => S (fold_right (fun x acc => Nat.max (xml_depth x) acc) 0 c) end.

Fixpoint xml_eqb (a b : xml) {struct a} : bool :=
  match a, b with
  | Elem t at_ tx c, Elem t' at' tx' c' =>
      str_eqb t t' && list_eqb (pair_eqb str_eqb str_eqb) at_ at' && option_eqb str_eqb tx tx' &&
      (fix go (l l' : list xml) : bool :=
         match l, l' with
         | [], [] => true
         | x :: r, y :: r' => xml_eqb x y && go r r'
         | _, _ => false
         end) c c'
  end.

(* ---------------- values that raise while the tree is built ---------------- *)
(* 0x110000 is not a code point: no Python string contains it *)
Definition poison : N := 1114112%N.
Definition raised_TypeError : str := [poison].
Definition req_str (o : option str) : str := match o with Some s => s | None => raised_TypeError end.
Definition fmt_otime (tc : textcodec) (o : option Z) : str :=
  match o with Some t => tfmt tc t | None => raised_TypeError end.

Definition or_empty (o : option str) : str := match o with Some (c :: s) => c :: s | _ => [] end.
Definition truthy_str (s : str) : bool := match s with [] => false | _ => true end.
Definition truthy_ostr (o : option str) : bool := match o with Some (_ :: _) => true | _ => false end.
Definition truthy_otime (o : option Z) : bool := match o with Some t => negb (Z.eqb t 0) | None => false end.

Definition str_poisoned (s : str) : bool := existsb (N.eqb poison) s.
Fixpoint xml_poisoned (e : xml) : bool :=
  match e with
  | Elem t a tx c =>
      existsb (fun kv => str_poisoned (snd kv)) a ||
      match tx with Some s => str_poisoned s | None => false end ||
      existsb xml_poisoned c
  end.
(* what serialize_report_as_xml_tree returns or raises *)
Definition xml_tree_result (e : xml) : res xml := if xml_poisoned e then Err TypeError else Ok e.

(* ---------------- the text layer: ET.tostring -> file -> ET.parse  (modelled) ---------------- *)
(* XML 1.0 Char production *)
Definition xml_char (c : N) : bool :=
  (N.eqb c 9 || N.eqb c 10 || N.eqb c 13 || (N.leb 32 c && N.leb c 55295) ||
   (N.leb 57344 c && N.leb c 65533) || (N.leb 65536 c && N.leb c 1114111))%N.
Definition surrogate (c : N) : bool := (N.leb 55296 c && N.leb c 57343)%N.
Definition str_chars_ok (s : str) : bool := forallb xml_char s.
Definition str_has_surrogate (s : str) : bool := existsb surrogate s.

(* open(filename, "w").write(text) with the UTF-8 locale: a lone surrogate anywhere raises UnicodeEncodeError *)
Fixpoint xml_has_surrogate (e : xml) : bool :=
  match e with
  | Elem t a tx c =>
      str_has_surrogate t || existsb (fun kv => str_has_surrogate (fst kv) || str_has_surrogate (snd kv)) a ||
      match tx with Some s => str_has_surrogate s | None => false end ||
      existsb xml_has_surrogate c
  end.

(* end-of-line normalisation of character data by the parser: CR LF -> LF, CR -> LF *)
Fixpoint norm_eol (s : str) : str :=
  match s with
  | [] => []
  | c :: r =>
      if N.eqb c 13 then
        match r with
        | c' :: r' => if N.eqb c' 10 then norm_eol r else 10%N :: norm_eol r
        | [] => [10%N]
        end
      else c :: norm_eol r
  end.
(* text of a LEAF element after write + parse: "" is written as <x /> and comes back as None *)
Definition norm_text (o : option str) : option str :=
  match o with
  | Some [] => None
  | Some s => Some (norm_eol s)
  | None => None
  end.
Definition text_chars_ok (o : option str) : bool := match o with Some s => str_chars_ok s | None => true end.

(* ET.parse (ET.tostring tree): attribute values are preserved (&#9; &#10; &#13; are written as character references),
   leaf texts are normalised, any character outside Char makes the document ill-formed (ParseError).
   The text of an element that has children is replaced by indentation: modelled as None (never read). *)
Fixpoint xml_norm (e : xml) : res xml :=
  match e with
  | Elem t a tx c =>
      if forallb (fun kv => str_chars_ok (snd kv)) a && text_chars_ok tx then
        c' <- (fix go (l : list xml) : res (list xml) :=
                 match l with
                 | [] => Ok []
                 | x :: r => y <- xml_norm x ;; ys <- go r ;; Ok (y :: ys)
                 end) c ;;
        Ok (Elem t a (match c with [] => norm_text tx | _ => None end) c')
      else Err ReportLoadingError
  end.

(* what xml_norm returns on a tree whose strings are all XML Chars and whose texts hold no CR: only "" -> None in leaf elements
   (used by the proofs; xml_norm itself is the model of the text layer) *)
Fixpoint xml_strip (e : xml) : xml :=
  match e with
  | Elem t a tx c =>
      Elem t a (match c with [] => match tx with Some [] => None | x => x end | _ => None end) (map xml_strip c)
  end.
