(* Model of lemoncheesecake/filter.py (as fixed by /repo commit ce19080 = fixes/F07-*.patch: a negated --property value selects
   nodes lacking the key; an empty pattern is an ordinary non-negated pattern), the pruning of testtree.py and
   cli/utils.py:load_suites_from_project.

     Python                                                   Gallina
     -----------------------------------------------------    ------------------------------------------
     BaseTreeNode.hierarchy (root first, node last)           hier = list meta  /  phier = list (meta * bool)
     BaseTreeNode.path = ".".join(names)                       path_of
     hierarchy_paths / _descriptions                           hierarchy_paths / hierarchy_descriptions
     hierarchy_tags / hierarchy_links (OrderedSet.update)      hierarchy_tags / hierarchy_links  (oset_update)
     hierarchy_properties (dict.update, later nodes win)       hierarchy_properties (dict_update, dict_set, dict_get)
     _NEGATION_FLAGS = "-^~"                                   neg_flag
     bool(fnmatch.filter(values, pat))                         any_match
     BaseTreeNodeFilter._match_values                          match_values (values are `value or ""`: or_empty)
     BaseTreeNodeFilter._match_key_values                      match_key_values
     BaseTreeNodeFilter._match_values_lists                    match_values_lists (reduce(list(x)+list(y)) = flatten_links)
     _do_paths/_do_descriptions/_do_tags/_do_properties/_do_links   do_paths do_descs do_tags do_props do_links
     BaseTreeNodeFilter.__call__ / __bool__                    base_call / base_bool
     suite.core._is_node_disabled / Test.is_disabled           is_disabled
     TestFilter.__call__ / __bool__                            test_call / test_bool
     _iter_grepable / _grep                                    iter_grepable / grep_steps
     ResultFilter.__call__ (TestResult branch) / criteria      result_call (do_statuses do_enabled_r do_disabled_r do_grep)
     FromTestsFilter.__init__/__call__                         from_tests_call
     _set_common_filter_criteria, _make_test_filter,           set_common / make_test_filter
       make_result_filter, _make_from_report_filter,           make_result_filter / from_report_paths
       make_test_filter
     BaseSuite.is_empty / filter, filter_suites                is_empty / suite_filter / filter_suites
     flatten_tests (+ paths)                                   tests_h / selected_paths
     cli.utils.load_suites_from_project                        load_suites

   Truthiness tests reproduced: `if not patterns` (empty list), `value or ""` (None and "" both give ""),
   `pattern and pattern[0] in FLAGS` (empty pattern is not negated; F07), `if self.statuses` (empty set),
   `if cli_args.grep` (None and "" = no grep), `if log.details` (None and "" skipped), `node.disabled` (False / True / reason string:
   a bool here), `if test_filter:` (Filter.__bool__), any((from_report, passed, ...)) (from_report: None and "" are false).
   Not modelled: argparse itself (the namespace is the input), load_report (the loaded report is an input, Model/Report.v normal
   form; loading is C09), `re` (the regular expression search is the parameter `re_search`), StepFilter and the
   setup/teardown/session branches of ResultFilter.__call__ (not reachable from make_test_filter, which only filters
   report.all_tests()).
   No proofs in this file. *)
From Coq Require Import List NArith Bool.
Import ListNotations.
From LCC Require Import Base.Util Model.Report Model.Glob.

(* ------------------------------------------------------------------ trees *)
Definition hier := list meta.
Definition pnode := (meta * bool)%type.               (* metadata, truthiness of .disabled *)
Definition phier := list pnode.
Inductive psuite := PSuite (m : meta) (dis : bool) (tests : list pnode) (subs : list psuite).

Definition c_dot : N := 46.
Fixpoint join_dot (l : list str) : str :=
  match l with
  | [] => []
  | x :: r => match r with [] => x | _ :: _ => x ++ c_dot :: join_dot r end
  end.
Definition path_of (h : hier) : str := join_dot (map m_name h).

(* non-empty prefixes, shortest first *)
Fixpoint prefixes {A} (l : list A) : list (list A) :=
  match l with
  | [] => []
  | x :: r => [x] :: map (cons x) (prefixes r)
  end.

Definition hierarchy_paths (h : hier) : list str := map path_of (prefixes h).
Definition hierarchy_descriptions (h : hier) : list str := map m_description h.

(* OrderedSet: add keeps the first occurrence *)
Definition oset_add {A} (eqb : A -> A -> bool) (s : list A) (x : A) : list A :=
  if existsb (eqb x) s then s else s ++ [x].
Definition oset_update {A} (eqb : A -> A -> bool) (s : list A) (l : list A) : list A := fold_left (oset_add eqb) l s.

Definition hierarchy_tags (h : hier) : list str := fold_left (fun s n => oset_update str_eqb s (m_tags n)) h [].

Definition link := (str * option str)%type.
Definition link_eqb : link -> link -> bool := pair_eqb str_eqb (option_eqb str_eqb).
Definition hierarchy_links (h : hier) : list link := fold_left (fun s n => oset_update link_eqb s (m_links n)) h [].

(* dict in insertion order *)
Definition dict := list (str * str).
Fixpoint dict_set (d : dict) (k v : str) : dict :=
  match d with
  | [] => [(k, v)]
  | (k', v') :: r => if str_eqb k' k then (k', v) :: r else (k', v') :: dict_set r k v
  end.
Fixpoint dict_get (d : dict) (k : str) : option str :=
  match d with
  | [] => None
  | (k', v') :: r => if str_eqb k' k then Some v' else dict_get r k
  end.
Definition dict_update (d : dict) (kvs : list (str * str)) : dict := fold_left (fun d kv => dict_set d (fst kv) (snd kv)) kvs d.
Definition hierarchy_properties (h : hier) : dict := fold_left (fun d n => dict_update d (m_properties n)) h [].

(* ------------------------------------------------------------------ BaseTreeNodeFilter *)
Definition neg_flag (c : N) : bool := N.eqb c 45 || N.eqb c 94 || N.eqb c 126.      (* "-^~" *)

Definition or_empty (v : option str) : str := match v with Some s => s | None => [] end.
Definition any_match (values : list str) (pat : str) : bool := existsb (fun v => fnmatch v pat) values.

(* one pattern of _match_values: `pattern and pattern[0] in FLAGS` *)
Definition value_pattern_holds (values : list str) (p : str) : bool :=
  match p with
  | c :: q => if neg_flag c then negb (any_match values q) else any_match values p
  | [] => any_match values p
  end.

Definition match_values (values : list (option str)) (patterns : list str) : bool :=
  match patterns with
  | [] => true
  | _ :: _ => existsb (value_pattern_holds (map or_empty values)) patterns
  end.

(* one (key, value) pattern of _match_key_values, after F07 *)
Definition key_pattern_holds (d : dict) (kv : str * str) : bool :=
  let '(k, v) := kv in
  match v with
  | c :: q =>
      if neg_flag c
      then match dict_get d k with None => true | Some x => negb (fnmatch x q) end
      else match dict_get d k with None => false | Some x => fnmatch x v end
  | [] => match dict_get d k with None => false | Some x => fnmatch x v end
  end.

Definition match_key_values (d : dict) (patterns : list (str * str)) : bool :=
  match patterns with
  | [] => true
  | _ :: _ => existsb (key_pattern_holds d) patterns
  end.

Definition flatten_links (l : list link) : list (option str) := flat_map (fun x => [Some (fst x); snd x]) l.
Definition match_values_lists (l : list link) (patterns : list str) : bool := match_values (flatten_links l) patterns.

Record base_filter := mkBase {
  f_paths : list str;
  f_descs : list (list str);
  f_tags : list (list str);
  f_props : list (list (str * str));
  f_links : list (list str) }.

Definition do_paths (f : base_filter) (h : hier) : bool := match_values (map Some (hierarchy_paths h)) (f_paths f).
Definition do_descs (f : base_filter) (h : hier) : bool :=
  forallb (match_values (map Some (hierarchy_descriptions h))) (f_descs f).
Definition do_tags (f : base_filter) (h : hier) : bool := forallb (match_values (map Some (hierarchy_tags h))) (f_tags f).
Definition do_props (f : base_filter) (h : hier) : bool := forallb (match_key_values (hierarchy_properties h)) (f_props f).
Definition do_links (f : base_filter) (h : hier) : bool := forallb (match_values_lists (hierarchy_links h)) (f_links f).

Definition base_call (f : base_filter) (h : hier) : bool :=
  do_paths f h && do_descs f h && do_tags f h && do_props f h && do_links f h.

Definition nonempty {A} (l : list A) : bool := match l with [] => false | _ :: _ => true end.
Definition base_bool (f : base_filter) : bool :=
  nonempty (f_paths f) || nonempty (f_descs f) || nonempty (f_tags f) || nonempty (f_props f) || nonempty (f_links f).

(* ------------------------------------------------------------------ TestFilter *)
Record test_filter := mkTestFilter { tf_base : base_filter; tf_enabled : bool; tf_disabled : bool }.

Definition is_disabled (h : phier) : bool := existsb snd h.

Definition test_call (f : test_filter) (h : phier) : bool :=
  base_call (tf_base f) (map fst h) &&
  ((if tf_enabled f then negb (is_disabled h) else true) && (if tf_disabled f then is_disabled h else true)).

Definition test_bool (f : test_filter) : bool := base_bool (tf_base f) || (tf_enabled f || tf_disabled f).

(* ------------------------------------------------------------------ ResultFilter on test results *)
Definition iter_grepable_log (l : steplog) : list str :=
  match l with
  | LLog _ message _ => [message]
  | LCheck description _ details _ =>
      description :: match details with Some ((_ :: _) as d) => [d] | _ => [] end
  | LAttachment description filename _ _ => [filename; description]
  | LUrl description url _ => [url; description]
  end.
Definition iter_grepable (steps : list step) : list str :=
  flat_map (fun s => st_description s :: flat_map iter_grepable_log (st_logs s)) steps.
Definition grep_steps (search : str -> bool) (steps : list step) : bool := existsb search (iter_grepable steps).

Record result_filter := mkResultFilter {
  rf_base : base_filter;
  rf_statuses : list str;                 (* a set; only membership is used *)
  rf_enabled : bool;
  rf_disabled : bool;
  rf_grep : option (str -> bool) }.       (* compiled pattern: pattern.search *)

Definition status_in (st : option str) (l : list str) : bool :=
  match st with Some s => existsb (str_eqb s) l | None => false end.
Definition status_is_disabled (st : option str) : bool :=
  match st with Some s => str_eqb s s_disabled | None => false end.

Definition result_criteria (f : result_filter) (r : result) : bool :=
  (match rf_statuses f with [] => true | _ :: _ => status_in (r_status r) (rf_statuses f) end) &&
  ((if rf_enabled f then negb (status_is_disabled (r_status r)) else true) &&
   ((if rf_disabled f then status_is_disabled (r_status r) else true) &&
    (match rf_grep f with None => true | Some g => grep_steps g (r_steps r) end))).

(* h = hierarchy of the TestResult (suite results' metadata, then the test's own) *)
Definition result_call (f : result_filter) (h : hier) (t : test_result) : bool :=
  base_call (rf_base f) h && result_criteria f (t_result t).

(* report.all_tests() with hierarchies: flatten_tests = tests of each suite in pre-order *)
Fixpoint rtests_h (anc : hier) (s : suite_result) : list (hier * test_result) :=
  match s with
  | SuiteResult m _ _ _ _ ts subs =>
      map (fun t => ((anc ++ [m]) ++ [t_meta t], t)) ts ++ flat_map (rtests_h (anc ++ [m])) subs
  end.
Definition report_tests_h (r : report) : list (hier * test_result) := flat_map (rtests_h []) (rp_suites r).

(* ------------------------------------------------------------------ option handling *)
Record cli_args := mkArgs {
  a_path : list str;
  a_desc : list (list str);
  a_tag : list (list str);
  a_property : list (list (str * str));
  a_link : list (list str);
  a_passed : bool; a_failed : bool; a_skipped : bool; a_non_passed : bool;
  a_disabled : bool; a_enabled : bool;
  a_grep : option str;
  a_from_report : bool }.                 (* truthiness of cli_args.from_report *)

Inductive err := EExclusive | ENoTests | ENoMatch.
Inductive res (A : Type) := Ok (a : A) | Err (e : err).
Arguments Ok {A} a. Arguments Err {A} e.

Definition args_base (a : cli_args) : base_filter := mkBase (a_path a) (a_desc a) (a_tag a) (a_property a) (a_link a).

(* _make_test_filter (its own UserError on --passed/--failed/--skipped cannot be reached from make_test_filter) *)
Definition make_plain_test_filter (a : cli_args) : res test_filter :=
  if a_disabled a && a_enabled a then Err EExclusive
  else Ok (mkTestFilter (args_base a) (a_enabled a) (a_disabled a)).

Definition grep_truthy (g : option str) : option str := match g with Some ((_ :: _) as p) => Some p | _ => None end.

(* make_result_filter(cli_args, only_executed_tests=False) *)
Definition make_result_filter (re_search : str -> str -> bool) (a : cli_args) : res result_filter :=
  if a_disabled a && a_enabled a then Err EExclusive
  else Ok (mkResultFilter (args_base a)
             ((if a_passed a then [s_passed] else []) ++ (if a_failed a then [s_failed] else []) ++
              (if a_skipped a then [s_skipped] else []) ++ (if a_non_passed a then [s_failed; s_skipped] else []))
             (a_enabled a) (a_disabled a)
             (match grep_truthy (a_grep a) with Some p => Some (re_search p) | None => None end)).

(* FromTestsFilter: the paths of the report tests accepted by the result filter *)
Definition from_report_paths (f : result_filter) (rep : report) : list str :=
  map (fun ht => path_of (fst ht)) (filter (fun ht => result_call f (fst ht) (snd ht)) (report_tests_h rep)).
Definition from_tests_call (paths : list str) (h : phier) : bool := existsb (str_eqb (path_of (map fst h))) paths.

Inductive any_filter := FTest (f : test_filter) | FFromTests (paths : list str).

Definition uses_report (a : cli_args) : bool :=
  a_from_report a || a_passed a || a_failed a || a_skipped a || a_non_passed a ||
  match grep_truthy (a_grep a) with Some _ => true | None => false end.

Definition make_test_filter (re_search : str -> str -> bool) (a : cli_args) (rep : report) : res any_filter :=
  if uses_report a
  then match make_result_filter re_search a with
       | Ok f => Ok (FFromTests (from_report_paths f rep))
       | Err e => Err e
       end
  else match make_plain_test_filter a with
       | Ok f => Ok (FTest f)
       | Err e => Err e
       end.

Definition filter_call (f : any_filter) (h : phier) : bool :=
  match f with FTest tf => test_call tf h | FFromTests paths => from_tests_call paths h end.
Definition filter_bool (f : any_filter) : bool :=
  match f with FTest tf => test_bool tf | FFromTests _ => true end.

(* ------------------------------------------------------------------ pruning (testtree.py) *)
Fixpoint is_empty (s : psuite) : bool :=
  match s with
  | PSuite _ _ ts subs => match ts with [] => forallb is_empty subs | _ :: _ => false end
  end.

(* keep receives the hierarchy of the test, test included *)
Fixpoint suite_filter (keep : phier -> bool) (anc : phier) (s : psuite) : psuite :=
  match s with
  | PSuite m d ts subs =>
      PSuite m d (filter (fun t => keep ((anc ++ [(m, d)]) ++ [t])) ts)
             (filter (fun x => negb (is_empty x)) (map (suite_filter keep (anc ++ [(m, d)])) subs))
  end.
Definition filter_suites (keep : phier -> bool) (anc : phier) (l : list psuite) : list psuite :=
  filter (fun x => negb (is_empty x)) (map (suite_filter keep anc) l).

(* flatten_tests with hierarchies *)
Fixpoint tests_h (anc : phier) (s : psuite) : list phier :=
  match s with
  | PSuite m d ts subs =>
      map (fun t => (anc ++ [(m, d)]) ++ [t]) ts ++ flat_map (tests_h (anc ++ [(m, d)])) subs
  end.
Definition all_tests_h (anc : phier) (l : list psuite) : list phier := flat_map (tests_h anc) l.
Definition selected_paths (l : list psuite) : list str := map (fun h => path_of (map fst h)) (all_tests_h [] l).

(* cli/utils.py: load_suites_from_project, after project.load_suites() *)
Definition load_suites (suites : list psuite) (f : any_filter) : res (list psuite) :=
  if forallb is_empty suites then Err ENoTests
  else if filter_bool f
       then match filter_suites (filter_call f) [] suites with
            | [] => Err ENoMatch
            | (_ :: _) as l => Ok l
            end
       else Ok suites.

(* the whole path used by `lcc run/show`: make_test_filter then load_suites_from_project *)
Definition lcc_select (re_search : str -> str -> bool) (a : cli_args) (rep : report) (suites : list psuite)
  : res (list psuite) :=
  match make_test_filter re_search a rep with
  | Ok f => load_suites suites f
  | Err e => Err e
  end.

(* ------------------------------------------------------------------ observation used by the correspondence *)
Inductive otree := ONode (name : str) (tests : list str) (subs : list otree).
Fixpoint observe (s : psuite) : otree :=
  match s with PSuite m _ ts subs => ONode (m_name m) (map (fun t => m_name (fst t)) ts) (map observe subs) end.
Fixpoint otree_eqb (a b : otree) : bool :=
  match a, b with
  | ONode n1 t1 s1, ONode n2 t2 s2 =>
      str_eqb n1 n2 && list_eqb str_eqb t1 t2 &&
      (fix go (l1 l2 : list otree) : bool :=
         match l1, l2 with
         | [], [] => true
         | x :: r1, y :: r2 => otree_eqb x y && go r1 r2
         | _, _ => false
         end) s1 s2
  end.

(* the regular expression search restricted to what the correspondence uses: a pattern made of characters without meaning in
   `re` and without case (digits, `_`, space) is found iff it is a substring *)
Fixpoint is_prefix (p s : str) : bool :=
  match p, s with
  | [], _ => true
  | _ :: _, [] => false
  | a :: p', b :: s' => N.eqb a b && is_prefix p' s'
  end.
Fixpoint substring (p s : str) : bool :=
  is_prefix p s || match s with [] => false | _ :: s' => substring p s' end.
