(* C20 — statistics, message-template variables and console summary of a report (faithful model, no proofs).

   Python (lemoncheesecake/...)                                  Gallina
   ------------------------------------------------------------  ---------------------------------------------
   raise TypeError / KeyError / IndexError                        vres, VErr TypeError | KeyError | IndexError
   BaseTreeNode.path  (".".join of the hierarchy names)           path_str ; suites_with_path ; tests_with_path
   reporting/report.py  _get_duration                             get_duration
                        Result.duration / `duration or 0`         result_duration / dur_or_0
                        ReportStats.__init__                      by0, (mkStats 0 by0 None 0)
                        ReportStats.from_results                  from_results   (bump_status = `tests_nb_by_status[s] += 1`)
                        ReportStats.from_report                   from_report
                        ReportStats.from_suites                   from_suites      (F13 repaired; from_suites_unfixed = before)
                        ReportStats.tests_enabled_nb              enabled_nb
                        flatten_results                           suites_results  (= flat_map suite_results o flatten_suites)
                        Report.nb_tests / Report.parallelized     nb_tests / parallelized
                        Report.build_message +
                          _report_message_variables               message_ints (integer variables; "n/a" of duration; F14 repaired;
                                                                  message_ints_unfixed = before)
                        _percent, successful_tests_percentage     pct  (integer arithmetic `val * 100 // of if of else 0`, F18
                                                                  repaired) ; message_pcts ; summary_pct
   testtree.py          BaseSuite.filter / SuiteResult.filter     filter_suite
                        SuiteResult.is_empty                      suite_is_empty
                        filter_suites                             filter_suites
   filter.py            ResultFilter(statuses, enabled, disabled) rfilter, rf_apply, rf_truthy  (__call__ / __bool__ restricted to
                                                                  the criteria that are functions of the result's status)
   reporting/backends/console.py
                        _make_test_status_label                   status_label
                        print_report_as_test_run                  console_short
                        _print_summary (numbers only)             summary_of

   Truthiness tests modelled as what they are:
     `if test.status:`            status neither None nor ""                    -> status_truthy
     `result.duration or 0`       None or 0.0 -> 0                                -> dur_or_0
     `if suite.suite_setup:`      Result has no __bool__/__len__: `is not None`   -> opt_list (Report.v suite_results)
     `if of else 0` (_percent)    of = 0                                          -> pct
     `if results and not parallelized`  empty list                                  -> from_suites
     `if stats.tests_nb_by_status["skipped"]:`  zero test                         -> nz
     `if test_filter:`            ResultFilter.__bool__                           -> the `truthy` argument / rf_truthy
     `if self.statuses else True` empty set                                       -> rf_apply
   Times are integer milliseconds; the float subtraction `end_time - start_time` is modelled as Z subtraction.

   The definitions named `..._unfixed` describe the code BEFORE the repairs F13 / F14 (DESIGN.md section 6); they are tied to
   nothing and are only what the `C20_..._unfixed_refuted` witnesses of Props/C20.v are stated about. *)
From Coq Require Import List NArith ZArith Bool.
Import ListNotations.
From LCC Require Import Base.Util Model.Report.

Inductive verr := TypeError | KeyError | IndexError.
Inductive vres (A : Type) := VOk (a : A) | VErr (e : verr).
Arguments VOk {A} a.
Arguments VErr {A} e.

(* ---------------- paths ---------------- *)
Fixpoint join_dot (l : list str) : str :=
  match l with
  | [] => []
  | [x] => x
  | x :: l' => x ++ [46%N] ++ join_dot l'
  end.
Definition path_str (names : list str) : str := join_dot names.

Fixpoint flatten_suite_p (prefix : list str) (s : suite_result) : list (list str * suite_result) :=
  match s with
  | SuiteResult m _ _ _ _ _ subs =>
      let p := prefix ++ [m_name m] in (p, s) :: flat_map (flatten_suite_p p) subs
  end.
(* flatten_suites with the hierarchy (list of names) of every suite *)
Definition suites_with_path (l : list suite_result) : list (list str * suite_result) := flat_map (flatten_suite_p []) l.
(* flatten_tests with test.path *)
Definition tests_of_p (ps : list str * suite_result) : list (str * test_result) :=
  map (fun t => (path_str (fst ps ++ [m_name (t_meta t)]), t)) (s_tests_of (snd ps)).
Definition tests_with_path (r : report) : list (str * test_result) :=
  flat_map tests_of_p (suites_with_path (rp_suites r)).

(* ---------------- durations ---------------- *)
Definition get_duration (s e : option Z) : option Z :=
  match s, e with Some a, Some b => Some (b - a)%Z | _, _ => None end.
Definition result_duration (r : result) : option Z := get_duration (r_start r) (r_end r).
Definition dur_or_0 (r : result) : Z := match result_duration r with Some d => d | None => 0%Z end.

(* ---------------- ReportStats ---------------- *)
Record by_status := mkBy { n_passed : nat; n_failed : nat; n_skipped : nat; n_disabled : nat }.
Definition by0 := mkBy 0 0 0 0.
Record stats := mkStats {
  st_tests_nb : nat;
  st_by : by_status;
  st_duration : option Z;
  st_duration_cumulative : Z }.

Definition status_truthy (o : option str) : option str :=
  match o with Some ((_ :: _) as st) => Some st | _ => None end.

(* stats.tests_nb_by_status[status] += 1 ; the dict has exactly the keys of Result.STATUSES *)
Definition bump_status (st : str) (c : by_status) : vres by_status :=
  if str_eqb st s_passed then VOk (mkBy (S (n_passed c)) (n_failed c) (n_skipped c) (n_disabled c))
  else if str_eqb st s_failed then VOk (mkBy (n_passed c) (S (n_failed c)) (n_skipped c) (n_disabled c))
  else if str_eqb st s_skipped then VOk (mkBy (n_passed c) (n_failed c) (S (n_skipped c)) (n_disabled c))
  else if str_eqb st s_disabled then VOk (mkBy (n_passed c) (n_failed c) (n_skipped c) (S (n_disabled c)))
  else VErr KeyError.

(* for test in tests: if test.status: by_status[test.status] += 1 *)
Fixpoint count_by_status (tests : list result) (c : by_status) : vres by_status :=
  match tests with
  | [] => VOk c
  | t :: rest =>
      match status_truthy (r_status t) with
      | None => count_by_status rest c
      | Some st => match bump_status st c with
                   | VOk c' => count_by_status rest c'
                   | VErr e => VErr e
                   end
      end
  end.

Definition is_test (kr : rkind * result) : bool := match fst kr with KTest => true | _ => false end.

Definition from_results (results : list (rkind * result)) (duration : option Z) : vres stats :=
  let cumul := fold_left (fun acc kr => (acc + dur_or_0 (snd kr))%Z) results 0%Z in
  let tests := map snd (filter is_test results) in
  match count_by_status tests by0 with
  | VOk c => VOk (mkStats (length tests) c duration cumul)
  | VErr e => VErr e
  end.

Definition is_nil {A} (l : list A) : bool := match l with [] => true | _ => false end.
Definition is_none {A} (o : option A) : bool := match o with None => true | _ => false end.
Definition report_duration (r : report) : option Z := get_duration (rp_start r) (rp_end r).
Definition from_report (r : report) : vres stats := from_results (all_results r) (report_duration r).

Definition suites_results (suites : list suite_result) : list (rkind * result) :=
  flat_map suite_results (flatten_suites suites).

(* _get_duration(results[0].start_time, results[-1].end_time) if results and not parallelized else None *)
Definition suites_duration (results : list (rkind * result)) (parallel : bool) : option Z :=
  if parallel then None
  else match results with
       | [] => None
       | first :: _ => get_duration (r_start (snd first)) (r_end (snd (last results first)))
       end.
Definition from_suites (suites : list suite_result) (parallel : bool) : vres stats :=
  let results := suites_results suites in from_results results (suites_duration results parallel).

(* BEFORE F13: results[-1].end_time - results[0].start_time if not parallelized else None
   (IndexError on an empty selection, TypeError as soon as one of the two times is None) *)
Definition from_suites_unfixed (suites : list suite_result) (parallel : bool) : vres stats :=
  let results := suites_results suites in
  if parallel then from_results results None
  else match results with
       | [] => VErr IndexError
       | first :: _ =>
           match r_end (snd (last results first)), r_start (snd first) with
           | Some e, Some s => from_results results (Some (e - s)%Z)
           | _, _ => VErr TypeError
           end
       end.

Definition enabled_nb (c : by_status) : nat := n_passed c + n_failed c + n_skipped c.

Definition nb_tests (r : report) : nat := length (all_tests r).
Definition parallelized (r : report) : bool := (1 <? rp_nb_threads r)%Z && (1 <? nb_tests r).

(* ---------------- Report.build_message: the variables, all evaluated (in dict order) ----------------
   start_time / end_time: time.asctime(time.localtime(None)) is the CURRENT time, no error: these two texts depend on the clock
               when the time is missing and are not modelled (no outcome in them);
   duration:   humanize_duration(report.duration) if report.duration is not None else "n/a"; then the integer variables. *)
Record msg_ints := mkMsg {
  mv_duration : option Z;   (* milliseconds, before humanize_duration; None: the duration variable reads "n/a" *)
  mv_total : nat; mv_enabled : nat;
  mv_passed : nat; mv_failed : nat; mv_skipped : nat; mv_disabled : nat }.

Definition message_ints (r : report) : vres msg_ints :=
  match from_report r with
  | VErr e => VErr e
  | VOk s =>
      let c := st_by s in
      VOk (mkMsg (report_duration r) (st_tests_nb s) (enabled_nb c) (n_passed c) (n_failed c) (n_skipped c) (n_disabled c))
  end.

(* BEFORE F14: `duration` was humanize_duration(report.end_time - report.start_time): every variable being evaluated whatever
   the template uses, build_message raised TypeError as soon as one of the two times was None *)
Definition message_ints_unfixed (r : report) : vres msg_ints :=
  match from_report r with
  | VErr e => VErr e
  | VOk _ => match rp_end r, rp_start r with
             | Some _, Some _ => message_ints r
             | _, _ => VErr TypeError
             end
  end.

(* ---------------- filtering suites (lcc report with a filter) ---------------- *)
Definition filter_opt {A} (f : A -> bool) (o : option A) : option A :=
  match o with Some x => if f x then Some x else None | None => None end.

Fixpoint suite_is_empty (s : suite_result) : bool :=
  match s with
  | SuiteResult _ _ _ su td ts subs => is_nil ts && forallb suite_is_empty subs && is_none su && is_none td
  end.

Fixpoint filter_suite (f : result -> bool) (s : suite_result) : suite_result :=
  match s with
  | SuiteResult m a e su td ts subs =>
      SuiteResult m a e (filter_opt f su) (filter_opt f td)
                  (filter (fun t => f (t_result t)) ts)
                  (filter (fun x => negb (suite_is_empty x)) (map (filter_suite f) subs))
  end.
Definition filter_suites (f : result -> bool) (l : list suite_result) : list suite_result :=
  filter (fun x => negb (suite_is_empty x)) (map (filter_suite f) l).

Record rfilter := mkFilter { f_statuses : list str; f_enabled : bool; f_disabled : bool }.
Definition rf_truthy (f : rfilter) : bool := negb (is_nil (f_statuses f)) || f_enabled f || f_disabled f.
Definition status_is (st : str) (r : result) : bool :=
  match r_status r with Some x => str_eqb x st | None => false end.
Definition rf_apply (f : rfilter) (r : result) : bool :=
  (is_nil (f_statuses f) || existsb (fun st => status_is st r) (f_statuses f))
  && (negb (f_enabled f) || negb (status_is s_disabled r))
  && (negb (f_disabled f) || status_is s_disabled r).

(* ---------------- console ---------------- *)
Inductive label := LOK | LKO | LDash.
Definition status_label (o : option str) : label :=
  match o with
  | None => LDash
  | Some st => if str_eqb st s_passed then LOK
               else if str_eqb st s_skipped || str_eqb st s_disabled then LDash
               else LKO
  end.

Definition nz (n : nat) : option nat := match n with 0 => None | _ => Some n end.
Record summary := mkSummary {
  sm_duration : option Z;        (* None prints "n/a" *)
  sm_tests : nat; sm_passed : nat; sm_failed : nat;
  sm_skipped : option nat;       (* the line is printed only when the number is not zero *)
  sm_disabled : option nat }.
Definition summary_of (s : stats) : summary :=
  let c := st_by s in
  mkSummary (st_duration s) (st_tests_nb s) (n_passed c) (n_failed c) (nz (n_skipped c)) (nz (n_disabled c)).

Inductive console_out :=
| CNoTest                                              (* "No test found or no matching test in the report" *)
| COut (lines : list (list label)) (s : stats).        (* one list of labels per displayed suite, then the summary *)

Definition console_short (truthy : bool) (f : result -> bool) (r : report) : vres console_out :=
  let suites := filter_suites f (rp_suites r) in
  let shown := filter (fun s => negb (is_nil (s_tests_of s))) (flatten_suites suites) in
  match shown with
  | [] => VOk CNoTest
  | _ => match (if truthy then from_suites suites (parallelized r) else from_report r) with
         | VErr e => VErr e
         | VOk s => VOk (COut (map (fun s => map (fun t => status_label (r_status (t_result t))) (s_tests_of s)) shown) s)
         end
  end.

(* ---------------- percentages ----------------
   _percent:                      "%d%%" % (val * 100 // of if of else 0)
   successful_tests_percentage:   passed * 100 // tests_enabled_nb if tests_enabled_nb else 0     (printed with %d)
   Integer arithmetic on non-negative numbers: `//` is the floor division of Z. *)
Definition pct (val of : nat) : Z :=
  match of with 0 => 0%Z | _ => (Z.of_nat val * 100 / Z.of_nat of)%Z end.

Record pcts := mkPcts { p_passed : Z; p_failed : Z; p_skipped : Z; p_disabled : Z }.
Definition message_pcts (m : msg_ints) : pcts :=
  mkPcts (pct (mv_passed m) (mv_enabled m)) (pct (mv_failed m) (mv_enabled m))
         (pct (mv_skipped m) (mv_enabled m)) (pct (mv_disabled m) (mv_total m)).
Definition summary_pct (s : stats) : Z := pct (n_passed (st_by s)) (enabled_nb (st_by s)).
