(* Model of the test dependency resolution of lemoncheesecake/suite/core.py. Executable definitions only; proofs in Proofs/DepsP.v.

   Python                                               Gallina
   ---------------------------------------------------  ------------------------------------------------------------
   testtree.flatten_tests_as_dict(suites)                tests_dict : list suite -> dict test   ({t.path: t ...}: a later test with
                                                         the same path replaces the value at the first position)
   _normalize_test_dependencies (path form only)         the `dict_find all d` of resolve_loop: it is a *generator*, so the
                                                         "Cannot find dependency test" error of dependency k is raised only
                                                         after dependencies 1..k-1 have been completely processed
   _resolve_test_dependencies(test, sched, all, ref)     resolve_test_dependencies fuel sched all path deps ref
                                                         (test is given by its path and its `dependencies`)
   resolve_tests_dependencies(scheduled, all)            resolve_tests_dependencies : result (list (path * list path))
                                                         (test.resolved_dependencies of every scheduled test, as paths)

   Callable dependencies (`depends_on(lambda test: ...)`) are in Model/DepsPred.v, which produces the path form tt_deps used here.
   Termination of the Python recursion: ref_tests grows by one *new* path of `all_tests` at every level, hence the fuel
   S (length all) is enough (Proofs/DepsP.v: resolve_fuel_enough). *)
From Coq Require Import List Arith Bool.
Import ListNotations.
From LCC Require Import Model.Proj Model.Fixture.

(* ---------------------------------------------------------------- dict keyed by path *)
Definition dict (V : Type) := list (path * V).

Fixpoint dict_find {V} (d : dict V) (k : path) : option V :=
  match d with
  | [] => None
  | (k', v) :: r => if path_eqb k k' then Some v else dict_find r k
  end.
Definition dict_mem {V} (d : dict V) (k : path) : bool := match dict_find d k with Some _ => true | None => false end.

Fixpoint dict_set {V} (d : dict V) (k : path) (v : V) : dict V :=
  match d with
  | [] => [(k, v)]
  | (k', v') :: r => if path_eqb k k' then (k', v) :: r else (k', v') :: dict_set r k v
  end.
Definition dict_of {V} (l : list (path * V)) : dict V := fold_left (fun d kv => dict_set d (fst kv) (snd kv)) l [].

Definition path_mem (p : path) (l : list path) : bool := existsb (path_eqb p) l.

(* flatten_tests_as_dict *)
Definition tests_dict (suites : list suite) : dict test :=
  dict_of (map (fun x => (fst (fst x), snd x)) (all_tests_with_path suites)).

(* ---------------------------------------------------------------- _resolve_test_dependencies *)
(* the `for dep_test in _normalize_test_dependencies(test, all_tests)` loop; ref' already contains the test's own path;
   rec is the recursive call on the dependency *)
Fixpoint resolve_loop (rec : path -> test -> result (list path)) (sched all : dict test) (ref' : list path)
         (deps : list path) (acc : list path) : result (list path) :=
  match deps with
  | [] => Ok acc
  | d :: r =>
      match dict_find all d with
      | None => Err (ValidationError RDepUnknown)
      | Some dt =>
          if path_mem d ref' then Err (ValidationError RDepCircular)
          else if negb (dict_mem sched d) then Err (ValidationError RDepNotScheduled)
          else match rec d dt with
               | Ok _ => resolve_loop rec sched all ref' r (acc ++ [d])
               | Err e => Err e
               end
      end
  end.

Fixpoint resolve_test_dependencies (fuel : nat) (sched all : dict test) (p : path) (deps : list path) (ref : list path)
  : result (list path) :=
  match fuel with
  | 0 => Err OutOfFuel
  | S fuel' =>
      resolve_loop (fun d dt => resolve_test_dependencies fuel' sched all d (tt_deps dt) (p :: ref))
                   sched all (p :: ref) deps []
  end.

Definition resolve_fuel (all : dict test) : nat := S (length all).

(* resolve_tests_dependencies *)
Fixpoint resolve_all (sched all : dict test) (todo : dict test) : result (list (path * list path)) :=
  match todo with
  | [] => Ok []
  | (p, t) :: r =>
      match resolve_test_dependencies (resolve_fuel all) sched all p (tt_deps t) [] with
      | Ok deps => match resolve_all sched all r with Ok l => Ok ((p, deps) :: l) | Err e => Err e end
      | Err e => Err e
      end
  end.

Definition resolve_tests_dependencies (scheduled_suites all_suites : list suite) : result (list (path * list path)) :=
  let sched := tests_dict scheduled_suites in
  let all := tests_dict all_suites in
  resolve_all sched all sched.
