(* Model of lemoncheesecake/project.py: PreparedProject.create (what `lcc check` and `lcc run` do before anything executes).

   Python (PreparedProject.create)                          Gallina
   -------------------------------------------------------  ----------------------------------------------------
   all_suites = project.load_suites(); suites               p_all_suites / p_suites of Proj.project
   project.metadata_policy.check_suites_compliance(suites)  Policy.check_suites_compliance (xp_policy, xp_metadata)
   resolve_tests_dependencies(suites, all_suites)            Deps.resolve_tests_dependencies
   cls._build_fixture_registry(project, cli_args)            Fixture.build_registry   (cli_args, project_dir, then load_fixtures();
                                                             "is a builtin fixture name" is raised here, before check_dependencies)
   fixture_registry.check_dependencies()                     Fixture.check_dependencies
   fixture_registry.check_fixtures_in_suites(suites)         Fixture.check_fixtures_in_suites
   return cls(project, suites, fixture_registry, cli_args)   Ok (mkPrepared registry resolved_dependencies)

   The first failing step determines the error (bind). cli/commands/check.py: `lcc check` = load_project + this + print. *)
From Coq Require Import List Arith Bool.
Import ListNotations.
From LCC Require Import Model.Proj Model.Fixture Model.Deps Model.Policy.

(* a project together with what Proj.v does not carry: the metadata policy and the metadata of its nodes *)
Record xproject := mkXProject {
  xp_proj : project;
  xp_policy : policy;
  xp_metadata : metadata_map }.

Record prepared := mkPrepared {
  pp_registry : registry;
  pp_resolved : list (path * list path) }.     (* test.resolved_dependencies of every scheduled test *)

Definition validate (x : xproject) : result prepared :=
  let p := xp_proj x in
  bind (check_suites_compliance (xp_policy x) (xp_metadata x) (p_suites p)) (fun _ =>
  bind (resolve_tests_dependencies (p_suites p) (p_all_suites p)) (fun resolved =>
  bind (build_registry (p_fixtures p)) (fun reg =>
  bind (check_dependencies reg) (fun _ =>
  bind (check_fixtures_in_suites reg (p_suites p)) (fun _ =>
  Ok (mkPrepared reg resolved)))))).

(* a project without policy and metadata (for the runner model) *)
Definition plain (p : project) : xproject := mkXProject p empty_policy no_metadata_map.
