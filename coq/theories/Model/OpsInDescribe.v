(* The sentence recorded by check_that_in / require_that_in / assert_that_in for one (key path, matcher) pair.
   operations._HasEntry.build_description(_):  key_matcher.build_description() + " " +
                                                value_matcher.build_description(MatcherDescriptionTransformer())
   (KeyPathMatcher.build_description: " -> ".join(map(jsonify, path)); the transformer received is ignored; `if self.value_matcher:`
   is always true here), then operations._log_match_result with hint None: "Expect %s".  No proofs in this file. *)
From Coq Require Import List Bool NArith ZArith.
Import ListNotations.
From LCC Require Import Base.Util Model.PyVal Model.Matcher gen.TablesMatchers Model.Describe Model.OpsIn.

Definition space : str := [32%N].

Definition in_matcher_description (ni : not_impl) (cw : comp_impl) (y : list pyval * matcher) : str :=
  join path_sep (map jsonify (fst y)) ++ space ++ describe ni cw (snd y).

Definition in_log_description (ni : not_impl) (cw : comp_impl) (y : list pyval * matcher) : str :=
  fill tpl_expect [in_matcher_description ni cw y].
