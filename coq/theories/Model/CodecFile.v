(* C09 — file level: save_report_into_file / load_report_from_file of both backends and reporting/loader.py.
   HAND-WRITTEN model of glue code (the translator pins the AST of these Python functions: any edit breaks the tie).

   Python                                                  Gallina
   ------------------------------------------------------  ----------------------------------------------
   content of report.js / report.xml                       file  (FJson prefix json | FXml tree): the text layer is modelled
   json_.save_report_into_file                             json_save_file      (json.dumps never fails on str data: ensure_ascii)
   json_.load_report_from_file                             json_load_file      (prefix stripped, json.loads = json_norm, report_version checks)
   xml.save_report_into_file (indent, tostring, write)     xml_save_file       (TypeError while building the tree; UnicodeEncodeError
                                                                                when the text holds a lone surrogate; backend.atomic_write
                                                                                then removes its temporary file and re-raises)
   xml.load_report_from_file (ET.parse, root/version)      xml_load_file       (ParseError -> ReportLoadingError)
   loader.load_report_from_file(path, backends)            loader_load         (first backend that does not raise ReportLoadingError;
                                                                                any other exception propagates; IOError not modelled)
   get_reporting_backends() restricted to unserializers    default_backends = [BXml; BJson]
   No proofs in this file. *)
From Coq Require Import List NArith ZArith Bool.
Import ListNotations.
From LCC Require Import Base.Util Model.Report Model.Time Model.Json Model.Xml gen.TablesCodec.
Local Open Scope Z_scope.

Inductive file :=
| FJson (js_prefix : bool) (j : json)
| FXml (x : xml).

Section Files.
Variable tc : textcodec.

(* report_version >= 2.0 on what json.loads returned (None was excluded before) *)
Definition json_version_ge2 (v : json) : res bool :=
  match v with
  | JNum z => Ok (2 <=? z)
  | JFloat m e => Ok (if e <? 0 then 2 * 10 ^ (- e) <=? m else 2 <=? m * 10 ^ e)
  | JBool b => Ok false
  | _ => Err TypeError
  end.

Definition json_save_file (now : Z) (r : report) : res file := Ok (FJson true (json_save_report tc now r)).

Definition json_load_file (f : file) : res report :=
  match f with
  | FXml _ => Err ReportLoadingError                           (* json.loads raises ValueError on XML text *)
  | FJson _ j0 =>
      let j := json_norm j0 in
      match j with
      | JObj _ =>
          match jget_or_null K_report_version j with
          | JNull => Err ReportLoadingError
          | v => ge <- json_version_ge2 v ;; if ge then Err ReportLoadingError else json_load_report tc j
          end
      | _ => Err AttributeError                                (* js.get on a list / str / number *)
      end
  end.

(* float("1.1"): digits [. digits]; None = ValueError.  Returns (mantissa, number of decimals). *)
Fixpoint split_dot (s acc : str) : str * option str :=
  match s with
  | [] => (rev acc, None)
  | c :: r => if N.eqb c 46 then (rev acc, Some r) else split_dot r (c :: acc)
  end.
Definition parse_version (s : str) : option (Z * Z) :=
  match split_dot s [] with
  | ([], _) => None
  | (a, None) => option_map (fun n => (n, 0)) (num_of 0 a)
  | (a, Some []) => option_map (fun n => (n, 0)) (num_of 0 a)
  | (a, Some b) => option_map (fun n => (n, Z.of_nat (length b))) (num_of 0 (a ++ b))
  end.

Definition xml_save_file (now : Z) (r : report) : res file :=
  let t := xml_save_report tc now r in
  if xml_poisoned t then Err TypeError
  else if xml_has_surrogate t then Err UnicodeEncodeError
  else Ok (FXml t).

Definition xml_load_file (f : file) : res report :=
  match f with
  | FJson _ _ => Err ReportLoadingError                        (* ET.parse raises ParseError on JSON text *)
  | FXml t =>
      root <- xml_norm t ;;
      if negb (str_eqb (xtag root) K_lemoncheesecake__report) then Err ReportLoadingError else
      v <- xattr K_report__version root ;;
      match parse_version v with
      | None => Err ValueError
      | Some (m, d) => if 2 * 10 ^ d <=? m then Err ReportLoadingError else xml_load_report tc root
      end
  end.

Inductive backend := BJson | BXml.
Definition backend_save (b : backend) := match b with BJson => json_save_file | BXml => xml_save_file end.
Definition backend_load (b : backend) := match b with BJson => json_load_file | BXml => xml_load_file end.

Fixpoint loader_load (bs : list backend) (f : file) : res report :=
  match bs with
  | [] => Err ReportLoadingError
  | b :: rest =>
      match backend_load b f with
      | Err ReportLoadingError => loader_load rest f
      | x => x
      end
  end.
Definition default_backends : list backend := [BXml; BJson].

(* save with a backend, load through reporting.loader *)
Definition save_then_load (b : backend) (now : Z) (r : report) : res report :=
  f <- backend_save b now r ;; loader_load default_backends f.
End Files.

(* ---------------- which reports the XML backend can carry (boolean, evaluated by the check as well) ---------------- *)
(* element text of a mandatory field: no CR, only XML Chars ("" is written as an empty element, read back as None and
   restored by `text or ""`) *)
Definition text_safe (s : str) : bool := str_chars_ok s && negb (existsb (N.eqb 13) s).
(* attribute value: only XML Chars ("" and CR are fine) *)
Definition attr_safe (s : str) : bool := str_chars_ok s.
(* optional attribute written under `if x:` (result.status): "" is lost *)
Definition oattr_safe (o : option str) : bool := match o with Some s => truthy_str s && str_chars_ok s | None => true end.
(* optional attribute written under `if x is not None:` (status_details, link name) *)
Definition oattr_any (o : option str) : bool := match o with Some s => str_chars_ok s | None => true end.
(* optional element text read back as it is (check.details): None and "" are the same element *)
Definition otext_safe (o : option str) : bool := match o with Some s => truthy_str s && text_safe s | None => true end.

Definition log_safe (l : steplog) : bool :=
  match l with
  | LLog level message _ => attr_safe level && text_safe message
  | LCheck d _ details _ => attr_safe d && otext_safe details
  | LAttachment d f _ _ => attr_safe d && text_safe f
  | LUrl d u _ => attr_safe d && text_safe u
  end.
Definition step_safe (s : step) : bool :=
  attr_safe (st_description s) && is_some (st_start s) && forallb log_safe (st_logs s).
Definition result_safe (r : result) : bool :=
  is_some (r_start r) && oattr_safe (r_status r) && oattr_any (r_status_details r) && forallb step_safe (r_steps r).
Definition oresult_safe (o : option result) : bool := match o with Some r => result_safe r | None => true end.
Definition meta_safe (m : meta) : bool :=
  attr_safe (m_name m) && attr_safe (m_description m) && forallb text_safe (m_tags m) &&
  forallb (fun kv => attr_safe (fst kv) && text_safe (snd kv)) (m_properties m) &&
  forallb (fun l => text_safe (fst l) && oattr_any (snd l)) (m_links m).
Definition test_safe (t : test_result) : bool := meta_safe (t_meta t) && result_safe (t_result t).
Fixpoint suite_safe (s : suite_result) : bool :=
  match s with
  | SuiteResult m st en su td tests subs =>
      meta_safe m && is_some st && oresult_safe su && oresult_safe td && forallb test_safe tests && forallb suite_safe subs
  end.
Definition xml_safeb (r : report) : bool :=
  text_safe (rp_title r) && forallb (fun kv => attr_safe (fst kv) && text_safe (snd kv)) (rp_info r) &&
  is_some (rp_start r) && oresult_safe (rp_session_setup r) && oresult_safe (rp_session_teardown r) &&
  forallb suite_safe (rp_suites r).

(* ---------------- which reports the JSON text layer carries unchanged: no string holds a high surrogate immediately followed
   by a low surrogate (two separate code points in a Python str) ---------------- *)
Definition opt_all (p : str -> bool) (o : option str) : bool := match o with Some s => p s | None => true end.
Definition log_all (p : str -> bool) (l : steplog) : bool :=
  match l with
  | LLog level message _ => p level && p message
  | LCheck d _ details _ => p d && opt_all p details
  | LAttachment d f _ _ => p d && p f
  | LUrl d u _ => p d && p u
  end.
Definition step_all p (s : step) : bool := p (st_description s) && forallb (log_all p) (st_logs s).
Definition result_all p (r : result) : bool :=
  opt_all p (r_status r) && opt_all p (r_status_details r) && forallb (step_all p) (r_steps r).
Definition oresult_all p (o : option result) : bool := match o with Some r => result_all p r | None => true end.
Definition meta_all p (m : meta) : bool :=
  p (m_name m) && p (m_description m) && forallb p (m_tags m) &&
  forallb (fun kv => p (fst kv) && p (snd kv)) (m_properties m) &&
  forallb (fun l => p (fst l) && opt_all p (snd l)) (m_links m).
Definition test_all p (t : test_result) : bool := meta_all p (t_meta t) && result_all p (t_result t).
Fixpoint suite_all p (s : suite_result) : bool :=
  match s with
  | SuiteResult m _ _ su td tests subs =>
      meta_all p m && oresult_all p su && oresult_all p td && forallb (test_all p) tests && forallb (suite_all p) subs
  end.
Definition report_all p (r : report) : bool :=
  p (rp_title r) && forallb (fun kv => p (fst kv) && p (snd kv)) (rp_info r) &&
  oresult_all p (rp_session_setup r) && oresult_all p (rp_session_teardown r) && forallb (suite_all p) (rp_suites r).
Definition json_safeb (r : report) : bool := report_all pairfree r.
Definition json_safe (r : report) : Prop := json_safeb r = true /\ unique_keys r.
Definition codec_json_ok (tc : textcodec) : Prop := forall z, pairfree (tfmt tc z) = true.

(* the codec must produce attribute values the XML text layer can carry *)
Definition codec_xml_ok (tc : textcodec) : Prop :=
  (forall z, str_chars_ok (tfmt tc z) = true) /\ (forall z, str_chars_ok (ifmt tc z) = true).

Definition xml_safe (r : report) : Prop := xml_safeb r = true /\ unique_keys r.
