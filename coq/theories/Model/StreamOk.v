(* The grammar of a delivered event stream (DESIGN.md Appendix A.1) as executable boolean checkers.  No proofs in this file.

     stream_ok m s       rules 1-5 of A.1 (+ the checkable part of rule 6), for any interleaving of threads
     contiguous s        the events of one result (its Start / steps / logs / End, or its single Skipped / Disabled event) form
                         one contiguous block of the stream
     sequential_ok m s   stream_ok m s && contiguous s      (n = 1 runs, and every replay)

   m : mode says which relaxations of A.1 apply:
     m_unfinished = false   (a finished live run) every bracket is closed: at a result's End no step of that result is open, at
                            SuiteTeardownStart every test of the suite is over and its setup is over, at SuiteEnd everything
                            in the subtree is over, at SessionTeardownStart every suite is over, the stream ends with SessionEnd;
     m_unfinished = true    (replay of the snapshot of a running session, A.1 rule 1 and 5) any End may be missing and an open
                            step may be abandoned by a later StepStart of the same (location, thread); what IS present must
                            still be in order: nothing for a node after its End, nothing inside a suite after its (or an
                            ancestor's) SuiteEnd, setup before tests before teardown;
     m_empty_steps = false  (live run, A.1 rule 5) a StepStart is never immediately followed by its own StepEnd;
     m_empty_steps = true   (replay of a loaded report) empty steps may occur.
   live_mode = (false, false); replay_mode = (true, true); finished_replay_mode = (false, true).

   Rules, per event (state = phase, session setup/teardown state, every suite ever started with its state, every test ever
   started with its state, the open step of each (location, thread)):
     SessionStart            only as the very first event;       SessionEnd: only once, nothing after it.
     SessionSetupStart       before any suite started, once;     steps of the session setup only while it is open and no suite started.
     SessionTeardownStart    once; afterwards no suite or test event at all; (finished) every suite is ended, setup is closed.
     SuiteStart s            s never started before; every ancestor started and not ended; no session teardown yet.
     SuiteSetupStart s       s open (and ancestors); no setup/teardown of s yet; no test of s started yet.
     SuiteTeardownStart s    s open; no teardown yet; (finished) setup closed, every test of s ended or bypassed.
     SuiteEnd s              s open, ancestors open; (finished) setup/teardown closed, every test and sub-suite below s over.
     TestStart/Skipped/Disabled t   t never seen before; parent suite open (and ancestors); parent's teardown not started;
                             (finished) parent's setup closed.
     TestEnd t               t started and not ended; parent as above; (finished) no step of t open.
     StepStart loc d th      the result at loc is open (same parent conditions); suite setup steps only before the suite's
                             first test; (finished) no step open for (loc, th).
     StepEnd loc d th        the step open for (loc, th) has description d; (no empty steps) something was logged in it.
     log-like loc d th       the step open for (loc, th) has description d.
   Not checkable from the stream alone (A.1 rule 6): "a result bracket that contains no step was not emitted, except when a
   spawned thread forced the Start out"; "in task order" of sequential_ok (the task list is not in the stream). *)
From Coq Require Import List NArith ZArith Bool.
Import ListNotations.
From LCC Require Import Base.Util Model.Report Model.Events.

Record mode := mkMode { m_unfinished : bool; m_empty_steps : bool }.
Definition live_mode := mkMode false false.
Definition replay_mode := mkMode true true.
Definition finished_replay_mode := mkMode false true.   (* replay of a report in which everything has ended: every bracket closed *)

Inductive phase := PNotStarted | PRunning | PEnded.
Inductive rstate := RNone | ROpen | RClosed.
Inductive tstate := TStarted | TEnded | TBypassed.
Record sstate := mkS { ss_ended : bool; ss_setup : rstate; ss_teardown : rstate }.

Record cstate := mkC {
  c_phase : phase;
  c_setup : rstate;
  c_teardown : rstate;
  c_suites : list (path * sstate);                 (* newest binding first; lookup = first match *)
  c_tests : list (path * tstate);
  c_steps : list ((location * tid) * option (str * bool)) }.   (* open step: (description, something logged) ; None = closed *)

Definition init_cstate := mkC PNotStarted RNone RNone [] [] [].

Fixpoint lookup {K V} (eqb : K -> K -> bool) (k : K) (l : list (K * V)) : option V :=
  match l with
  | [] => None
  | (k', v) :: r => if eqb k' k then Some v else lookup eqb k r
  end.

Definition key_eqb (a b : location * tid) : bool := location_eqb (fst a) (fst b) && Z.eqb (snd a) (snd b).
Definition rstate_eqb (a b : rstate) : bool :=
  match a, b with RNone, RNone | ROpen, ROpen | RClosed, RClosed => true | _, _ => false end.

(* p is a prefix of q (or equal) *)
Fixpoint has_prefix (p q : path) : bool :=
  match p, q with
  | [], _ => true
  | a :: p', b :: q' => str_eqb a b && has_prefix p' q'
  | _ :: _, [] => false
  end.

Fixpoint parent_of (p : path) : path :=
  match p with [] => [] | [_] => [] | a :: r => a :: parent_of r end.

(* every non-empty prefix of p is a suite that was started and is not ended *)
Fixpoint prefixes_open (sm : list (path * sstate)) (done : path) (p : path) : bool :=
  match p with
  | [] => true
  | a :: r => match lookup path_eqb (done ++ [a]) sm with
              | Some s => negb (ss_ended s) && prefixes_open sm (done ++ [a]) r
              | None => false
              end
  end.
Definition suite_open (c : cstate) (p : path) : bool :=
  match p with [] => false | _ :: _ => prefixes_open (c_suites c) [] p end.

Definition no_test_of (c : cstate) (q : path) : bool :=
  forallb (fun kv => negb (path_eqb (parent_of (fst kv)) q)) (c_tests c).

(* finished-run closure conditions *)
Definition tests_over (c : cstate) (inside : path -> bool) : bool :=
  forallb (fun kv => negb (inside (fst kv)) ||
                     match lookup path_eqb (fst kv) (c_tests c) with Some TStarted => false | _ => true end) (c_tests c).
Definition suites_over (c : cstate) (inside : path -> bool) : bool :=
  forallb (fun kv => negb (inside (fst kv)) ||
                     match lookup path_eqb (fst kv) (c_suites c) with
                     | Some s => ss_ended s && negb (rstate_eqb (ss_setup s) ROpen) && negb (rstate_eqb (ss_teardown s) ROpen)
                     | None => true end) (c_suites c).
Definition no_open_step (c : cstate) (loc : location) : bool :=
  forallb (fun kv => negb (location_eqb (fst (fst kv)) loc) ||
                     match lookup key_eqb (fst kv) (c_steps c) with Some (Some _) => false | _ => true end) (c_steps c).

Definition set_phase c x := mkC x (c_setup c) (c_teardown c) (c_suites c) (c_tests c) (c_steps c).
Definition set_setup c x := mkC (c_phase c) x (c_teardown c) (c_suites c) (c_tests c) (c_steps c).
Definition set_teardown c x := mkC (c_phase c) (c_setup c) x (c_suites c) (c_tests c) (c_steps c).
Definition put_suite c p s := mkC (c_phase c) (c_setup c) (c_teardown c) ((p, s) :: c_suites c) (c_tests c) (c_steps c).
Definition put_test c p s := mkC (c_phase c) (c_setup c) (c_teardown c) (c_suites c) ((p, s) :: c_tests c) (c_steps c).
Definition put_step c k s := mkC (c_phase c) (c_setup c) (c_teardown c) (c_suites c) (c_tests c) ((k, s) :: c_steps c).

Definition guard (b : bool) (c : cstate) : option cstate := if b then Some c else None.

(* the suite addressed by a suite event, when it is open together with all its ancestors *)
Definition open_suite (c : cstate) (p : path) : option sstate :=
  if suite_open c p && rstate_eqb (c_teardown c) RNone then lookup path_eqb p (c_suites c) else None.

(* is the result at loc open, so that step events may occur there *)
Definition result_open (m : mode) (c : cstate) (loc : location) : bool :=
  match loc with
  | LocSessionSetup => rstate_eqb (c_setup c) ROpen && match c_suites c with [] => true | _ => false end
  | LocSessionTeardown => rstate_eqb (c_teardown c) ROpen
  | LocSuiteSetup p =>
      match open_suite c p with
      | Some s => rstate_eqb (ss_setup s) ROpen && rstate_eqb (ss_teardown s) RNone && no_test_of c p
      | None => false
      end
  | LocSuiteTeardown p =>
      match open_suite c p with Some s => rstate_eqb (ss_teardown s) ROpen | None => false end
  | LocTest p =>
      match open_suite c (parent_of p) with
      | Some s => rstate_eqb (ss_teardown s) RNone
                  && match lookup path_eqb p (c_tests c) with Some TStarted => true | _ => false end
      | None => false
      end
  end.

Definition step_event (m : mode) (c : cstate) (loc : location) (d : str) (th : tid) (kind : nat) : option cstate :=
  (* kind: 0 = StepStart, 1 = StepEnd, 2 = log-like *)
  if negb (result_open m c loc) then None else
  let cur := match lookup key_eqb (loc, th) (c_steps c) with Some (Some x) => Some x | _ => None end in
  match kind with
  | 0 => match cur with
         | Some _ => guard (m_unfinished m) (put_step c (loc, th) (Some (d, false)))
         | None => Some (put_step c (loc, th) (Some (d, false)))
         end
  | 1 => match cur with
         | Some (d', logged) => guard (str_eqb d' d && (m_empty_steps m || logged)) (put_step c (loc, th) None)
         | None => None
         end
  | _ => match cur with
         | Some (d', _) => guard (str_eqb d' d) (put_step c (loc, th) (Some (d', true)))
         | None => None
         end
  end.

Definition new_test (m : mode) (c : cstate) (n : node) (st : tstate) : option cstate :=
  match open_suite c (n_parent n) with
  | Some s =>
      guard (rstate_eqb (ss_teardown s) RNone
             && (m_unfinished m || negb (rstate_eqb (ss_setup s) ROpen))
             && match lookup path_eqb (node_path n) (c_tests c) with None => true | Some _ => false end)
            (put_test c (node_path n) st)
  | None => None
  end.

Definition check_event (m : mode) (c : cstate) (e : event) : option cstate :=
  let fin := negb (m_unfinished m) in
  match e with
  | ESessionStart _ => match c_phase c with PNotStarted => Some (set_phase c PRunning) | _ => None end
  | _ =>
    match c_phase c with
    | PRunning =>
      match e with
      | ESessionStart _ => None
      | ESessionEnd _ =>
          guard (m_unfinished m ||
                 (negb (rstate_eqb (c_setup c) ROpen) && negb (rstate_eqb (c_teardown c) ROpen)
                  && suites_over c (fun _ => true) && tests_over c (fun _ => true)))
                (set_phase c PEnded)
      | ESessionSetupStart _ =>
          guard (rstate_eqb (c_setup c) RNone && rstate_eqb (c_teardown c) RNone
                 && match c_suites c with [] => true | _ => false end) (set_setup c ROpen)
      | ESessionSetupEnd _ =>
          guard (rstate_eqb (c_setup c) ROpen && (m_unfinished m || no_open_step c LocSessionSetup)) (set_setup c RClosed)
      | ESessionTeardownStart _ =>
          guard (rstate_eqb (c_teardown c) RNone
                 && (m_unfinished m || (negb (rstate_eqb (c_setup c) ROpen) && suites_over c (fun _ => true))))
                (set_teardown c ROpen)
      | ESessionTeardownEnd _ =>
          guard (rstate_eqb (c_teardown c) ROpen && (m_unfinished m || no_open_step c LocSessionTeardown)) (set_teardown c RClosed)
      | ESuiteStart n _ =>
          let p := node_path n in
          guard (rstate_eqb (c_teardown c) RNone
                 && (m_unfinished m || negb (rstate_eqb (c_setup c) ROpen))
                 && match n_parent n with [] => true | _ :: _ => suite_open c (n_parent n) end
                 && match lookup path_eqb p (c_suites c) with None => true | Some _ => false end)
                (put_suite c p (mkS false RNone RNone))
      | ESuiteEnd n _ =>
          let p := node_path n in
          match open_suite c p with
          | Some s =>
              guard (m_unfinished m ||
                     (negb (rstate_eqb (ss_setup s) ROpen) && negb (rstate_eqb (ss_teardown s) ROpen)
                      && tests_over c (has_prefix p)
                      && suites_over c (fun q => has_prefix p q && negb (path_eqb p q))))
                    (put_suite c p (mkS true (ss_setup s) (ss_teardown s)))
          | None => None
          end
      | ESuiteSetupStart n _ =>
          let p := node_path n in
          match open_suite c p with
          | Some s => guard (rstate_eqb (ss_setup s) RNone && rstate_eqb (ss_teardown s) RNone && no_test_of c p)
                            (put_suite c p (mkS false ROpen (ss_teardown s)))
          | None => None
          end
      | ESuiteSetupEnd n _ =>
          let p := node_path n in
          match open_suite c p with
          | Some s => guard (rstate_eqb (ss_setup s) ROpen && (m_unfinished m || no_open_step c (LocSuiteSetup p)))
                            (put_suite c p (mkS false RClosed (ss_teardown s)))
          | None => None
          end
      | ESuiteTeardownStart n _ =>
          let p := node_path n in
          match open_suite c p with
          | Some s => guard (rstate_eqb (ss_teardown s) RNone
                             && (m_unfinished m || (negb (rstate_eqb (ss_setup s) ROpen)
                                                    && tests_over c (fun q => path_eqb (parent_of q) p))))
                            (put_suite c p (mkS false (ss_setup s) ROpen))
          | None => None
          end
      | ESuiteTeardownEnd n _ =>
          let p := node_path n in
          match open_suite c p with
          | Some s => guard (rstate_eqb (ss_teardown s) ROpen && (m_unfinished m || no_open_step c (LocSuiteTeardown p)))
                            (put_suite c p (mkS false (ss_setup s) RClosed))
          | None => None
          end
      | ETestStart n _ => new_test m c n TStarted
      | ETestSkipped n _ _ | ETestDisabled n _ _ => new_test m c n TBypassed
      | ETestEnd n _ =>
          let p := node_path n in
          guard (result_open m c (LocTest p) && (m_unfinished m || no_open_step c (LocTest p))) (put_test c p TEnded)
      | EStepStart loc d th _ => step_event m c loc d th 0
      | EStepEnd loc d th _ => step_event m c loc d th 1
      | ELog loc d th _ _ _ | ECheck loc d th _ _ _ _ | ELogAttachment loc d th _ _ _ _ | ELogUrl loc d th _ _ _ =>
          step_event m c loc d th 2
      end
    | _ => None
    end
  end.

Fixpoint check_all (m : mode) (c : cstate) (l : list event) : option cstate :=
  match l with
  | [] => Some c
  | e :: r => match check_event m c e with Some c' => check_all m c' r | None => None end
  end.

Definition stream_ok (m : mode) (l : list event) : bool :=
  match check_all m init_cstate l with
  | Some c => match c_phase c with
              | PEnded => true
              | PRunning => m_unfinished m
              | PNotStarted => false
              end
  | None => false
  end.

(* index of the first event the grammar rejects (for diagnostics), None if the whole stream is accepted *)
Fixpoint first_rejected (m : mode) (c : cstate) (l : list event) (i : nat) : option nat :=
  match l with
  | [] => None
  | e :: r => match check_event m c e with Some c' => first_rejected m c' r (S i) | None => Some i end
  end.

(* ---------------- contiguity ---------------- *)
(* the result an event belongs to *)
Definition event_result (e : event) : option location :=
  match e with
  | ESessionSetupStart _ | ESessionSetupEnd _ => Some LocSessionSetup
  | ESessionTeardownStart _ | ESessionTeardownEnd _ => Some LocSessionTeardown
  | ESuiteSetupStart n _ | ESuiteSetupEnd n _ => Some (LocSuiteSetup (node_path n))
  | ESuiteTeardownStart n _ | ESuiteTeardownEnd n _ => Some (LocSuiteTeardown (node_path n))
  | ETestStart n _ | ETestEnd n _ | ETestSkipped n _ _ | ETestDisabled n _ _ => Some (LocTest (node_path n))
  | EStepStart loc _ _ _ | EStepEnd loc _ _ _ | ELog loc _ _ _ _ _ | ECheck loc _ _ _ _ _ _
  | ELogAttachment loc _ _ _ _ _ _ | ELogUrl loc _ _ _ _ _ => Some loc
  | _ => None
  end.

(* cur = the result whose block is being read; seen = every result whose block was entered so far *)
Fixpoint contiguous_from (cur : option location) (seen : list location) (l : list event) : bool :=
  match l with
  | [] => true
  | e :: r =>
      match event_result e with
      | None => contiguous_from None seen r
      | Some loc =>
          if match cur with Some x => location_eqb x loc | None => false end
          then contiguous_from cur seen r
          else if existsb (location_eqb loc) seen then false
               else contiguous_from (Some loc) (loc :: seen) r
      end
  end.
Definition contiguous (l : list event) : bool := contiguous_from None [] l.

Definition sequential_ok (m : mode) (l : list event) : bool := stream_ok m l && contiguous l.
