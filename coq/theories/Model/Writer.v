(* lemoncheesecake/reporting/writer.py : ReportWriter, as a state machine over the live (in-memory) report.
   No proofs in this file.

   Python                                                   Gallina
   -------------------------------------------------------- ---------------------------------------------------------
   Report() + ReportWriter(report)                          init_wstate
   live SuiteResult (rank, _tests dict by name in insertion lsuite: children in INSERTION order together with their rank
     order, _suites list in insertion order)
   ReportWriter.active_steps  {thread_id: Step}             w_active : list (tid * (location * nat)); a Step object is named by
                                                            the location of the result that owns it and its index in _steps
                                                            (steps are only ever appended, results are never replaced: see below)
   testtree.find_suite(report._suites, hierarchy)           upd_suite p f   (first suite with the name at each level; LookupError;
                                                            find_suite(()) returns None -> the attribute access that follows
                                                            raises AttributeError)
   testtree.find_test                                       upd_test inside upd_suite (KeyError is turned into LookupError)
   Report.get(location) / ReportLocation.get                upd_result none_err loc f   (none_err = what the caller does with a None
                                                            result: `result.add_step` -> AttributeError, `assert result` -> AssertionError)
   ReportWriter._initialize_result / _finalize_result       initialize_result / finalize_result (status := "passed" if
                                                            Result.is_successful() else "failed"; is_successful tests `if self.status:`)
   ReportWriter._add_step_log                               add_step_log (three asserts, in the code's order)
   ReportWriter.on_<event>                                  apply w e
   _initialize_test_result: result.rank = (test.rank,        the key stored with each test is Events.n_rank of the event's node, i.e.
     position of the test in its suite)                     Events.test_key rank position (order-isomorphic to the Python pair)
   accessors get_suites()/get_tests() (sorted by rank,      normalize : wstate -> report   (Report.v normal form; title, info,
     stable) + Report() defaults                            nb_threads, saving_time are the Report() defaults: no handler sets them)
   aggregate = feed a stream to a fresh writer              aggregate : list event -> res report

   Truthiness tests modelled: `if suite.parent_suite:` (None test: a node object is always true) = `n_parent = []`;
   `assert not step.end_time` = truthy_time (None and 0.0 pass the assert); `if self.status:` in is_successful (Report.v).

   Deliberately outside the model (apply returns Err Unmodelled, never a made-up value): events that would REPLACE an object the
   report already holds, because object identity then matters (active_steps could point to a detached Step): a second
   SuiteStart for a name already present among its siblings (Python appends a shadowed duplicate), a TestStart/TestSkipped/
   TestDisabled for a test name already in its suite's dict (Python overwrites the dict entry in place), a second
   SetupStart/TeardownStart for the same suite/session (Python overwrites the Result). A run never fires these (C07), a replay
   never does for reports with pairwise distinct sibling names. *)
From Coq Require Import List NArith ZArith Bool.
Import ListNotations.
From LCC Require Import Base.Util Model.Report Model.Events.

(* ---------------- live report ---------------- *)
Inductive lsuite :=
| LSuite (m : meta) (rank : Z) (start end_ : option Z) (setup teardown : option result)
         (tests : list (Z * test_result))      (* (rank, test) in dict insertion order *)
         (subs : list lsuite).                 (* insertion order *)

Definition ls_meta (s : lsuite) := match s with LSuite m _ _ _ _ _ _ _ => m end.
Definition ls_name (s : lsuite) := m_name (ls_meta s).
Definition ls_rank (s : lsuite) := match s with LSuite _ r _ _ _ _ _ _ => r end.
Definition ls_setup (s : lsuite) := match s with LSuite _ _ _ _ x _ _ _ => x end.
Definition ls_teardown (s : lsuite) := match s with LSuite _ _ _ _ _ x _ _ => x end.
Definition ls_tests (s : lsuite) := match s with LSuite _ _ _ _ _ _ t _ => t end.
Definition ls_subs (s : lsuite) := match s with LSuite _ _ _ _ _ _ _ u => u end.
Definition set_ls_end (s : lsuite) (e : option Z) := match s with LSuite m r a _ x y t u => LSuite m r a e x y t u end.
Definition set_ls_setup (s : lsuite) (x : option result) := match s with LSuite m r a e _ y t u => LSuite m r a e x y t u end.
Definition set_ls_teardown (s : lsuite) (y : option result) := match s with LSuite m r a e x _ t u => LSuite m r a e x y t u end.
Definition set_ls_tests (s : lsuite) (t : list (Z * test_result)) := match s with LSuite m r a e x y _ u => LSuite m r a e x y t u end.
Definition set_ls_subs (s : lsuite) (u : list lsuite) := match s with LSuite m r a e x y t _ => LSuite m r a e x y t u end.

Definition sref := (location * nat)%type.      (* a Step object: owner result's location, index in its _steps *)

Record wstate := mkW {
  w_start : option Z;
  w_end : option Z;
  w_setup : option result;
  w_teardown : option result;
  w_suites : list lsuite;
  w_active : list (tid * sref) }.

Definition init_wstate : wstate := mkW None None None None [] [].

Definition set_w_start w x := mkW x (w_end w) (w_setup w) (w_teardown w) (w_suites w) (w_active w).
Definition set_w_end w x := mkW (w_start w) x (w_setup w) (w_teardown w) (w_suites w) (w_active w).
Definition set_w_setup w x := mkW (w_start w) (w_end w) x (w_teardown w) (w_suites w) (w_active w).
Definition set_w_teardown w x := mkW (w_start w) (w_end w) (w_setup w) x (w_suites w) (w_active w).
Definition set_w_suites w x := mkW (w_start w) (w_end w) (w_setup w) (w_teardown w) x (w_active w).
Definition set_w_active w x := mkW (w_start w) (w_end w) (w_setup w) (w_teardown w) (w_suites w) x.

(* ---------------- lookups (testtree.find_suite / find_test) ---------------- *)
(* Every update function also returns a by-product X of the visited object (used by on_step_start to name the new Step). *)
Definition put {A B X} (g : A -> B) (x : res (A * X)) : res (B * X) :=
  match x with Ok (a, o) => Ok (g a, o) | Err e => Err e end.
Definition drop {A} (x : res (A * unit)) : res A := match x with Ok (a, _) => Ok a | Err e => Err e end.
Definition pure {A} (x : res A) : res (A * unit) := match x with Ok a => Ok (a, tt) | Err e => Err e end.

Fixpoint upd_first {X} (n : str) (g : lsuite -> res (lsuite * X)) (l : list lsuite) : res (list lsuite * X) :=
  match l with
  | [] => Err LookupError
  | s :: r => if str_eqb (ls_name s) n
              then put (fun s' => s' :: r) (g s)
              else put (fun r' => s :: r') (upd_first n g r)
  end.

(* apply f to the suite found by hierarchy p and put the result back *)
Fixpoint upd_suite {X} (p : path) (f : lsuite -> res (lsuite * X)) (l : list lsuite) : res (list lsuite * X) :=
  match p with
  | [] => Err AttributeError
  | n :: rest =>
      match rest with
      | [] => upd_first n f l
      | _ :: _ => upd_first n (fun s => put (set_ls_subs s) (upd_suite rest f (ls_subs s))) l
      end
  end.

Fixpoint upd_test {X} (n : str) (f : result -> res (result * X)) (l : list (Z * test_result)) : res (list (Z * test_result) * X) :=
  match l with
  | [] => Err LookupError
  | rt :: r => if str_eqb (m_name (t_meta (snd rt))) n
               then put (fun x => (fst rt, mkTest (t_meta (snd rt)) x) :: r) (f (t_result (snd rt)))
               else put (fun r' => rt :: r') (upd_test n f r)
  end.

Fixpoint split_last (p : path) : option (path * str) :=
  match p with
  | [] => None
  | n :: rest => match split_last rest with
                 | None => Some ([], n)
                 | Some (q, l) => Some (n :: q, l)
                 end
  end.

Definition upd_opt_result {X} (none_err : err) (f : result -> res (result * X)) (o : option result) : res (option result * X) :=
  match o with None => Err none_err | Some r => put Some (f r) end.

(* Report.get(location), then f on the Result found *)
Definition upd_result {X} (none_err : err) (loc : location) (f : result -> res (result * X)) (w : wstate) : res (wstate * X) :=
  match loc with
  | LocSessionSetup => put (set_w_setup w) (upd_opt_result none_err f (w_setup w))
  | LocSessionTeardown => put (set_w_teardown w) (upd_opt_result none_err f (w_teardown w))
  | LocSuiteSetup p =>
      put (set_w_suites w) (upd_suite p (fun s => put (set_ls_setup s) (upd_opt_result none_err f (ls_setup s))) (w_suites w))
  | LocSuiteTeardown p =>
      put (set_w_suites w) (upd_suite p (fun s => put (set_ls_teardown s) (upd_opt_result none_err f (ls_teardown s))) (w_suites w))
  | LocTest p =>
      match split_last p with
      | None => Err AttributeError
      | Some (q, n) =>
          put (set_w_suites w) (upd_suite q (fun s => put (set_ls_tests s) (upd_test n f (ls_tests s))) (w_suites w))
      end
  end.

(* the suite-level handlers *)
Definition on_suite (p : path) (f : lsuite -> res lsuite) (w : wstate) : res wstate :=
  drop (put (set_w_suites w) (upd_suite p (fun s => pure (f s)) (w_suites w))).

(* ---------------- results and steps ---------------- *)
Definition initialize_result (t : Z) : result := mkResult (Some t) None None None [].

Definition finalize_result (t : Z) (r : result) : result :=
  mkResult (r_start r) (Some t) (Some (if result_successful r then s_passed else s_failed)) (r_status_details r) (r_steps r).

Definition set_steps (r : result) (l : list step) : result :=
  mkResult (r_start r) (r_end r) (r_status r) (r_status_details r) l.

Fixpoint upd_nth {A} (i : nat) (f : A -> res A) (l : list A) : res (list A) :=
  match l, i with
  | [], _ => Err Unmodelled
  | x :: r, O => bind (f x) (fun x' => Ok (x' :: r))
  | x :: r, S j => bind (upd_nth j f r) (fun r' => Ok (x :: r'))
  end.

(* act on the Step object named by ref *)
Definition upd_step (ref : sref) (f : step -> res step) (w : wstate) : res wstate :=
  drop (upd_result Unmodelled (fst ref) (fun r => pure (bind (upd_nth (snd ref) f (r_steps r)) (fun l => Ok (set_steps r l)))) w).

Fixpoint lookup_active (t : tid) (l : list (tid * sref)) : option sref :=
  match l with
  | [] => None
  | (t', r) :: rest => if Z.eqb t' t then Some r else lookup_active t rest
  end.
Fixpoint set_active (t : tid) (r : sref) (l : list (tid * sref)) : list (tid * sref) :=
  match l with
  | [] => [(t, r)]
  | (t', r') :: rest => if Z.eqb t' t then (t, r) :: rest else (t', r') :: set_active t r rest
  end.

(* ReportWriter._add_step_log *)
Definition add_step_log (loc : location) (thread : tid) (log : steplog) (w : wstate) : res wstate :=
  bind (upd_result AssertionError loc (fun r => Ok (r, tt)) w) (fun _ =>      (* assert result *)
  match lookup_active thread (w_active w) with
  | None => Err AssertionError                                               (* assert step *)
  | Some ref =>
      upd_step ref (fun st => if truthy_time (st_end st) then Err AssertionError    (* assert not step.end_time *)
                              else Ok (mkStep (st_description st) (st_start st) (st_end st) (st_logs st ++ [log]))) w
  end).

(* ---------------- suites and tests ---------------- *)
Definition name_taken (n : str) (l : list lsuite) : bool := existsb (fun s => str_eqb (ls_name s) n) l.
Definition test_taken (n : str) (l : list (Z * test_result)) : bool :=
  existsb (fun rt => str_eqb (m_name (t_meta (snd rt))) n) l.

Definition add_suite (new : lsuite) (l : list lsuite) : res (list lsuite) :=
  if name_taken (ls_name new) l then Err Unmodelled else Ok (l ++ [new]).

(* BaseSuite.add_test on a fresh name *)
Definition add_test (nd : node) (r : result) (s : lsuite) : res lsuite :=
  if test_taken (m_name (n_meta nd)) (ls_tests s) then Err Unmodelled
  else Ok (set_ls_tests s (ls_tests s ++ [(n_rank nd, mkTest (n_meta nd) r)])).

Definition set_fresh (o : option result) (t : Z) : res (option result) :=
  match o with Some _ => Err Unmodelled | None => Ok (Some (initialize_result t)) end.

Definition finalize_opt (t : Z) (o : option result) : res (option result) :=
  match o with None => Err AttributeError | Some r => Ok (Some (finalize_result t r)) end.

(* ---------------- the event handlers ---------------- *)
Definition apply (w : wstate) (e : event) : res wstate :=
  match e with
  | ESessionStart t => Ok (set_w_start w (Some t))
  | ESessionEnd t => Ok (set_w_end w (Some t))
  | ESessionSetupStart t => bind (set_fresh (w_setup w) t) (fun o => Ok (set_w_setup w o))
  | ESessionSetupEnd t => bind (finalize_opt t (w_setup w)) (fun o => Ok (set_w_setup w o))
  | ESessionTeardownStart t => bind (set_fresh (w_teardown w) t) (fun o => Ok (set_w_teardown w o))
  | ESessionTeardownEnd t => bind (finalize_opt t (w_teardown w)) (fun o => Ok (set_w_teardown w o))
  | ESuiteStart n t =>
      let new := LSuite (n_meta n) (n_rank n) (Some t) None None None [] [] in
      match n_parent n with
      | [] => bind (add_suite new (w_suites w)) (fun l => Ok (set_w_suites w l))       (* `if suite.parent_suite:` else branch *)
      | _ :: _ => on_suite (n_parent n) (fun s => bind (add_suite new (ls_subs s)) (fun u => Ok (set_ls_subs s u))) w
      end
  | ESuiteEnd n t => on_suite (node_path n) (fun s => Ok (set_ls_end s (Some t))) w
  | ESuiteSetupStart n t =>
      on_suite (node_path n) (fun s => bind (set_fresh (ls_setup s) t) (fun o => Ok (set_ls_setup s o))) w
  | ESuiteSetupEnd n t =>
      on_suite (node_path n) (fun s => bind (finalize_opt t (ls_setup s)) (fun o => Ok (set_ls_setup s o))) w
  | ESuiteTeardownStart n t =>
      on_suite (node_path n) (fun s => bind (set_fresh (ls_teardown s) t) (fun o => Ok (set_ls_teardown s o))) w
  | ESuiteTeardownEnd n t =>
      on_suite (node_path n) (fun s => bind (finalize_opt t (ls_teardown s)) (fun o => Ok (set_ls_teardown s o))) w
  | ETestStart n t => on_suite (n_parent n) (add_test n (initialize_result t)) w
  | ETestEnd n t => drop (upd_result AttributeError (LocTest (node_path n)) (fun r => Ok (finalize_result t r, tt)) w)
  | ETestSkipped n reason t => on_suite (n_parent n) (add_test n (mkResult (Some t) (Some t) (Some s_skipped) reason [])) w
  | ETestDisabled n reason t => on_suite (n_parent n) (add_test n (mkResult (Some t) (Some t) (Some s_disabled) reason [])) w
  | EStepStart loc d thread t =>
      bind (upd_result AttributeError loc
              (fun r => Ok (set_steps r (r_steps r ++ [mkStep d (Some t) None []]), length (r_steps r))) w)
           (fun wi => Ok (set_w_active (fst wi) (set_active thread (loc, snd wi) (w_active w))))
  | EStepEnd loc _ thread t =>
      match lookup_active thread (w_active w) with
      | None => Err AttributeError
      | Some ref => upd_step ref (fun st => Ok (mkStep (st_description st) (st_start st) (Some t) (st_logs st))) w
      end
  | ELog loc _ thread _ _ _ | ECheck loc _ thread _ _ _ _ | ELogAttachment loc _ thread _ _ _ _ | ELogUrl loc _ thread _ _ _ =>
      match event_steplog e with
      | Some log => add_step_log loc thread log w
      | None => Err Unmodelled
      end
  end.

Fixpoint apply_all (w : wstate) (l : list event) : res wstate :=
  match l with
  | [] => Ok w
  | e :: r => bind (apply w e) (fun w' => apply_all w' r)
  end.

(* ---------------- normal form of the live report ---------------- *)
Fixpoint insert_by {A} (key : A -> Z) (x : A) (l : list A) : list A :=
  match l with
  | [] => [x]
  | y :: r => if Z.leb (key x) (key y) then x :: l else y :: insert_by key x r
  end.
(* sorted(l, key=...) : stable *)
Definition sort_by {A} (key : A -> Z) (l : list A) : list A := fold_right (insert_by key) [] l.

Fixpoint norm_suite (s : lsuite) : suite_result :=
  match s with
  | LSuite m rk a e x y tests subs =>
      SuiteResult m a e x y (map snd (sort_by fst tests))
                  (map snd (sort_by fst (map (fun u => (ls_rank u, norm_suite u)) subs)))
  end.

Definition default_title : str := [84; 101; 115; 116; 32; 82; 101; 112; 111; 114; 116]%N.   (* Report.DEFAULT_TITLE "Test Report" *)

Definition normalize (w : wstate) : report :=
  mkReport default_title [] (w_start w) (w_end w) None 1 (w_setup w) (w_teardown w)
           (map snd (sort_by fst (map (fun u => (ls_rank u, norm_suite u)) (w_suites w)))).

Definition aggregate (l : list event) : res report :=
  bind (apply_all init_wstate l) (fun w => Ok (normalize w)).
