(* Events fired through lemoncheesecake.events.EventManager (events.py), as data.
   Shared by the writer model (Writer.v), the replay model (Replay.v), the stream grammar (StreamOk.v) and, later, the
   execution model (C07).  No proofs in this file.

   Python (events.py / report.py)                         Gallina
   ------------------------------------------------------ -------------------------------------------
   Event.__init__: self.time = event_time or time.time()  event_time now t      (truthiness test: None and 0.0 give `now`)
   ReportLocation.in_test_session_setup() ...             LocSessionSetup | LocSessionTeardown | LocSuiteSetup p
                                                          | LocSuiteTeardown p | LocTest p    (p = tuple of names from the top)
   event.suite / event.test (what a listener reads of it)  node: parent hierarchy (names), metadata (name, description, tags,
                                                          properties, links), rank
   TestSessionStartEvent(report, t) ...                   ESessionStart t ...   (the `report` attribute is not data for listeners
                                                          modelled here)
   StepStartEvent(location, description, thread_id, t)    EStepStart loc description thread t
   StepEndEvent(location, step, thread_id, t)             EStepEnd loc step thread t        (`step` is the step description)
   LogEvent / CheckEvent / LogAttachmentEvent / LogUrlEvent   ELog / ECheck / ELogAttachment / ELogUrl (SteppedEvent: location,
                                                          step description, thread id, payload, time)
   Times are integer milliseconds (DESIGN section 3); every event carries the time *after* Event.__init__'s defaulting.

   Also here: the error monad `res` (Report.v already uses the name `result` for lemoncheesecake's Result). *)
From Coq Require Import List NArith ZArith Bool.
Import ListNotations.
From LCC Require Import Base.Util Model.Report.

(* ---------------- Python exceptions as values ---------------- *)
Inductive err :=
| LookupError        (* testtree.find_suite / find_test *)
| AssertionError     (* ReportWriter._add_step_log *)
| AttributeError     (* attribute access on None (e.g. a StepEnd without active step, a SetupEnd without SetupStart) *)
| ValueError         (* replay: unknown test status *)
| Unmodelled.        (* a situation the model deliberately does not describe (named where it is returned) *)

Inductive res (A : Type) := Ok (a : A) | Err (e : err).
Arguments Ok {A} a.
Arguments Err {A} e.
Definition bind {A B} (x : res A) (f : A -> res B) : res B := match x with Ok a => f a | Err e => Err e end.

Definition err_eqb (a b : err) : bool :=
  match a, b with
  | LookupError, LookupError | AssertionError, AssertionError | AttributeError, AttributeError
  | ValueError, ValueError | Unmodelled, Unmodelled => true
  | _, _ => false
  end.

(* ---------------- nodes and locations ---------------- *)
Definition path := list str.          (* normalize_node_hierarchy: names from the top-level suite down *)
Definition path_eqb : path -> path -> bool := list_eqb str_eqb.
Definition tid := Z.                  (* threading.current_thread().ident *)

(* what listeners read from event.suite / event.test: node.parent_suite's hierarchy, the node's own metadata, its rank.
   The hierarchy of the node itself is node_path.
   n_rank is the key the report sorts the node by among its siblings:
     - suite node: since the repair F24 ReportWriter sorts sibling suites by (suite.rank, declared position: among the parent's
       sub-suites, or given by the runner to a top-level suite); for LIVE streams n_rank is that pair as the order-isomorphic
       integer  suite.rank * rank_base + position;  in the replay of a loaded report (ranks 0, sequential stream) the arrival
       order of sibling suites is their position order, and n_rank = suite.rank = 0 gives the same list by the stable sort;
     - test node: since the fix "the report must keep the declaration order of tests sharing the same rank" ReportWriter sets
       result.rank = (test.rank, position of the test in test.parent_suite.get_tests()) and Python compares these pairs
       lexicographically; n_rank is that pair as the order-isomorphic integer  test.rank * rank_base + position
       (position < rank_base is checked by the harnesses that print events; position = 0 for a test without parent suite).
   Only the order of the keys matters: the rank is not part of the report's normal form. *)
Definition rank_base : Z := 1048576.      (* 2^20 *)
Definition test_key (rank position : Z) : Z := (rank * rank_base + position)%Z.
Record node := mkNode { n_parent : path; n_meta : meta; n_rank : Z }.
Definition node_path (n : node) : path := n_parent n ++ [m_name (n_meta n)].

Inductive location :=
| LocSessionSetup
| LocSessionTeardown
| LocSuiteSetup (p : path)
| LocSuiteTeardown (p : path)
| LocTest (p : path).

Definition location_eqb (a b : location) : bool :=
  match a, b with
  | LocSessionSetup, LocSessionSetup | LocSessionTeardown, LocSessionTeardown => true
  | LocSuiteSetup p, LocSuiteSetup q | LocSuiteTeardown p, LocSuiteTeardown q | LocTest p, LocTest q => path_eqb p q
  | _, _ => false
  end.

(* ---------------- events ---------------- *)
Inductive event :=
| ESessionStart (time : Z)
| ESessionEnd (time : Z)
| ESessionSetupStart (time : Z)
| ESessionSetupEnd (time : Z)
| ESessionTeardownStart (time : Z)
| ESessionTeardownEnd (time : Z)
| ESuiteStart (suite : node) (time : Z)
| ESuiteEnd (suite : node) (time : Z)
| ESuiteSetupStart (suite : node) (time : Z)
| ESuiteSetupEnd (suite : node) (time : Z)
| ESuiteTeardownStart (suite : node) (time : Z)
| ESuiteTeardownEnd (suite : node) (time : Z)
| ETestStart (test : node) (time : Z)
| ETestEnd (test : node) (time : Z)
| ETestSkipped (test : node) (reason : option str) (time : Z)
| ETestDisabled (test : node) (reason : option str) (time : Z)
| EStepStart (loc : location) (description : str) (thread : tid) (time : Z)
| EStepEnd (loc : location) (step : str) (thread : tid) (time : Z)
| ELog (loc : location) (step : str) (thread : tid) (level message : str) (time : Z)
| ECheck (loc : location) (step : str) (thread : tid) (description : str) (is_successful : bool) (details : option str) (time : Z)
| ELogAttachment (loc : location) (step : str) (thread : tid) (filename description : str) (as_image : bool) (time : Z)
| ELogUrl (loc : location) (step : str) (thread : tid) (url description : str) (time : Z).

(* Python truthiness of an Optional[float] time: None and 0.0 are false *)
Definition truthy_time (t : option Z) : bool :=
  match t with Some t => negb (Z.eqb t 0) | None => false end.

(* Event.__init__: `self.time = event_time or time.time()`; `now` is what time.time() returns *)
Definition event_time (now : Z) (t : option Z) : Z :=
  match t with Some t => if Z.eqb t 0 then now else t | None => now end.

(* accessors used by the grammar checkers *)
Definition event_clock (e : event) : Z :=
  match e with
  | ESessionStart t | ESessionEnd t | ESessionSetupStart t | ESessionSetupEnd t
  | ESessionTeardownStart t | ESessionTeardownEnd t => t
  | ESuiteStart _ t | ESuiteEnd _ t | ESuiteSetupStart _ t | ESuiteSetupEnd _ t
  | ESuiteTeardownStart _ t | ESuiteTeardownEnd _ t => t
  | ETestStart _ t | ETestEnd _ t | ETestSkipped _ _ t | ETestDisabled _ _ t => t
  | EStepStart _ _ _ t | EStepEnd _ _ _ t | ELog _ _ _ _ _ t | ECheck _ _ _ _ _ _ t
  | ELogAttachment _ _ _ _ _ _ t | ELogUrl _ _ _ _ _ t => t
  end.

(* the StepLog object a log-like event turns into (ReportWriter.on_log / on_check / on_log_attachment / on_log_url) *)
Definition event_steplog (e : event) : option steplog :=
  match e with
  | ELog _ _ _ level message t => Some (LLog level message t)
  | ECheck _ _ _ d ok details t => Some (LCheck d ok details t)
  | ELogAttachment _ _ _ filename d as_image t => Some (LAttachment d filename as_image t)
  | ELogUrl _ _ _ url d t => Some (LUrl d url t)
  | _ => None
  end.

(* ---------------- executable equalities (used by the correspondence case files) ---------------- *)
Definition ostr_eqb := option_eqb str_eqb.
Definition oZ_eqb := option_eqb Z.eqb.
Definition meta_eqb (a b : meta) : bool :=
  str_eqb (m_name a) (m_name b) && str_eqb (m_description a) (m_description b) && list_eqb str_eqb (m_tags a) (m_tags b)
  && list_eqb (pair_eqb str_eqb str_eqb) (m_properties a) (m_properties b)
  && list_eqb (pair_eqb str_eqb ostr_eqb) (m_links a) (m_links b).
Definition node_eqb (a b : node) : bool :=
  path_eqb (n_parent a) (n_parent b) && meta_eqb (n_meta a) (n_meta b) && Z.eqb (n_rank a) (n_rank b).
Definition steplog_eqb (a b : steplog) : bool :=
  match a, b with
  | LLog l m t, LLog l' m' t' => str_eqb l l' && str_eqb m m' && Z.eqb t t'
  | LCheck d ok x t, LCheck d' ok' x' t' => str_eqb d d' && Bool.eqb ok ok' && ostr_eqb x x' && Z.eqb t t'
  | LAttachment d f i t, LAttachment d' f' i' t' => str_eqb d d' && str_eqb f f' && Bool.eqb i i' && Z.eqb t t'
  | LUrl d u t, LUrl d' u' t' => str_eqb d d' && str_eqb u u' && Z.eqb t t'
  | _, _ => false
  end.
Definition step_eqb (a b : step) : bool :=
  str_eqb (st_description a) (st_description b) && oZ_eqb (st_start a) (st_start b) && oZ_eqb (st_end a) (st_end b)
  && list_eqb steplog_eqb (st_logs a) (st_logs b).
Definition result_eqb (a b : result) : bool :=
  oZ_eqb (r_start a) (r_start b) && oZ_eqb (r_end a) (r_end b) && ostr_eqb (r_status a) (r_status b)
  && ostr_eqb (r_status_details a) (r_status_details b) && list_eqb step_eqb (r_steps a) (r_steps b).
Definition test_eqb (a b : test_result) : bool := meta_eqb (t_meta a) (t_meta b) && result_eqb (t_result a) (t_result b).
Fixpoint suite_eqb (a b : suite_result) {struct a} : bool :=
  match a, b with
  | SuiteResult m s e su td ts us, SuiteResult m' s' e' su' td' ts' us' =>
      meta_eqb m m' && oZ_eqb s s' && oZ_eqb e e' && option_eqb result_eqb su su' && option_eqb result_eqb td td'
      && list_eqb test_eqb ts ts'
      && (fix go (l l' : list suite_result) : bool :=
            match l, l' with
            | [], [] => true
            | x :: r, y :: r' => suite_eqb x y && go r r'
            | _, _ => false
            end) us us'
  end.
Definition report_eqb (a b : report) : bool :=
  str_eqb (rp_title a) (rp_title b) && list_eqb (pair_eqb str_eqb str_eqb) (rp_info a) (rp_info b)
  && oZ_eqb (rp_start a) (rp_start b) && oZ_eqb (rp_end a) (rp_end b) && oZ_eqb (rp_saving a) (rp_saving b)
  && Z.eqb (rp_nb_threads a) (rp_nb_threads b) && option_eqb result_eqb (rp_session_setup a) (rp_session_setup b)
  && option_eqb result_eqb (rp_session_teardown a) (rp_session_teardown b) && list_eqb suite_eqb (rp_suites a) (rp_suites b).

Definition event_eqb (a b : event) : bool :=
  match a, b with
  | ESessionStart t, ESessionStart t' | ESessionEnd t, ESessionEnd t'
  | ESessionSetupStart t, ESessionSetupStart t' | ESessionSetupEnd t, ESessionSetupEnd t'
  | ESessionTeardownStart t, ESessionTeardownStart t' | ESessionTeardownEnd t, ESessionTeardownEnd t' => Z.eqb t t'
  | ESuiteStart n t, ESuiteStart n' t' | ESuiteEnd n t, ESuiteEnd n' t'
  | ESuiteSetupStart n t, ESuiteSetupStart n' t' | ESuiteSetupEnd n t, ESuiteSetupEnd n' t'
  | ESuiteTeardownStart n t, ESuiteTeardownStart n' t' | ESuiteTeardownEnd n t, ESuiteTeardownEnd n' t'
  | ETestStart n t, ETestStart n' t' | ETestEnd n t, ETestEnd n' t' => node_eqb n n' && Z.eqb t t'
  | ETestSkipped n r t, ETestSkipped n' r' t' | ETestDisabled n r t, ETestDisabled n' r' t' =>
      node_eqb n n' && ostr_eqb r r' && Z.eqb t t'
  | EStepStart l d th t, EStepStart l' d' th' t' | EStepEnd l d th t, EStepEnd l' d' th' t' =>
      location_eqb l l' && str_eqb d d' && Z.eqb th th' && Z.eqb t t'
  | ELog l d th lv m t, ELog l' d' th' lv' m' t' =>
      location_eqb l l' && str_eqb d d' && Z.eqb th th' && str_eqb lv lv' && str_eqb m m' && Z.eqb t t'
  | ECheck l d th x ok y t, ECheck l' d' th' x' ok' y' t' =>
      location_eqb l l' && str_eqb d d' && Z.eqb th th' && str_eqb x x' && Bool.eqb ok ok' && ostr_eqb y y' && Z.eqb t t'
  | ELogAttachment l d th f x i t, ELogAttachment l' d' th' f' x' i' t' =>
      location_eqb l l' && str_eqb d d' && Z.eqb th th' && str_eqb f f' && str_eqb x x' && Bool.eqb i i' && Z.eqb t t'
  | ELogUrl l d th u x t, ELogUrl l' d' th' u' x' t' =>
      location_eqb l l' && str_eqb d d' && Z.eqb th th' && str_eqb u u' && str_eqb x x' && Z.eqb t t'
  | _, _ => false
  end.

Definition res_eqb {A} (eqb : A -> A -> bool) (a b : res A) : bool :=
  match a, b with Ok x, Ok y => eqb x y | Err e, Err e' => err_eqb e e' | _, _ => false end.
