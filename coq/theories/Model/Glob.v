(* Model of fnmatch.fnmatch / fnmatch.filter (CPython 3.12, Lib/fnmatch.py) on POSIX, as used by lemoncheesecake/filter.py.

     Python                                   Gallina
     ------------------------------------     ---------------------------------------
     os.path.normcase (posixpath)             identity (not represented)
     fnmatch.translate: the scanning loop     parse_glob  (str -> pattern)
       `[` ... `]` recognition (optional `!`,   parse_glob / find_close
        optional leading `]`, first `]` after)
       range chunking of the bracket body     parse_items
     re.compile(translate(pat)).match(name)   glob_match (parse_glob pat) name
     fnmatch.fnmatch(name, pat)               fnmatch name pat
     bool(fnmatch.filter(values, pat))        existsb (fun v => fnmatch v pat) values   (used in Model/Filter.v)

   The abstract pattern type `pattern` is what the theorems quantify over: literals, `?`, `*`, `[seq]`, `[!seq]` where seq is a
   list of single characters and ranges lo-hi (a range with lo > hi matches nothing, as after CPython's "remove empty ranges").
   `translate` compresses consecutive `*`; that is not observable through matching and is not reproduced.
   The regular expression engine itself is not modelled: a class [..] is "code point in the listed characters/ranges",
   `.` under (?s) is any code point, `(?>.*?fixed)` + `\Z` is modelled as ordinary (backtracking) wildcard matching.

   Excluded bracket form (outside the modelled fragment; excluded from the generators): a NON-negated set whose first item is a
   reversed range immediately followed by `!`, e.g. `[b-a!x]`. CPython removes the empty range and then re-reads the remaining
   text `!x` as a negated set (probe: fnmatch("y", "[b-a!x]") is True). parse_glob treats the `!` as an ordinary member.

   No proofs in this file. *)
From Coq Require Import List NArith Bool.
Import ListNotations.
From LCC Require Import Base.Util Model.Report.

Inductive setitem := SChar (c : N) | SRange (lo hi : N).
Inductive patom := PLit (c : N) | PAny | PStar | PSet (neg : bool) (items : list setitem).
Definition pattern := list patom.

Definition c_star : N := 42.      (* '*' *)
Definition c_qmark : N := 63.     (* '?' *)
Definition c_lbrack : N := 91.    (* '[' *)
Definition c_rbrack : N := 93.    (* ']' *)
Definition c_bang : N := 33.      (* '!' *)
Definition c_hyphen : N := 45.    (* '-' *)

(* ------------------------------------------------------------------ matching *)
Definition item_match (c : N) (it : setitem) : bool :=
  match it with
  | SChar d => N.eqb c d
  | SRange lo hi => N.leb lo c && N.leb c hi
  end.

(* one pattern element against one character; PStar never matches "one character" *)
Definition atom_match (a : patom) (c : N) : bool :=
  match a with
  | PLit d => N.eqb c d
  | PAny => true
  | PStar => false
  | PSet neg items => xorb neg (existsb (item_match c) items)
  end.

Definition is_star (a : patom) : bool := match a with PStar => true | _ => false end.

Fixpoint glob_match (p : pattern) (s : str) : bool :=
  match p with
  | [] => match s with [] => true | _ :: _ => false end
  | PStar :: p' =>
      (fix star (s : str) : bool :=
         glob_match p' s || match s with [] => false | _ :: s' => star s' end) s
  | a :: p' =>
      match s with
      | [] => false
      | c :: s' => atom_match a c && glob_match p' s'
      end
  end.

(* ------------------------------------------------------------------ parsing (fnmatch.translate) *)
(* the body of a bracket expression (after the optional `!`): `c-h` is a range whenever a character follows the hyphen;
   this is what translate's chunking (k = i+1 / i+2, find('-', k, j), k = k+3) computes *)
Fixpoint parse_items (b : str) : list setitem :=
  match b with
  | [] => []
  | c :: r =>
      match r with
      | d :: h :: r' =>
          if N.eqb d c_hyphen then SRange c h :: parse_items r' else SChar c :: parse_items r
      | _ => SChar c :: parse_items r
      end
  end.

(* split at the first `]` : Some (before, after) *)
Fixpoint split_rbrack (s : str) : option (str * str) :=
  match s with
  | [] => None
  | c :: r =>
      if N.eqb c c_rbrack then Some ([], r)
      else match split_rbrack r with
           | Some (a, b) => Some (c :: a, b)
           | None => None
           end
  end.

(* `r` is what follows a `[`.  j skips an optional `!`, then an optional `]`, then runs to the next `]`.
   Result: Some (negated, body, rest after the closing bracket) or None when there is no closing bracket. *)
Definition find_close (r : str) : option (bool * str * str) :=
  let '(neg, r1) := match r with
                    | c :: r' => if N.eqb c c_bang then (true, r') else (false, r)
                    | [] => (false, r)
                    end in
  match r1 with
  | c :: r2 =>
      if N.eqb c c_rbrack
      then match split_rbrack r2 with
           | Some (a, b) => Some (neg, c :: a, b)
           | None => None
           end
      else match split_rbrack r1 with
           | Some (a, b) => Some (neg, a, b)
           | None => None
           end
  | [] => None
  end.

(* fuel = length of the pattern is always enough (each step consumes at least one character) *)
Fixpoint parse_glob_fuel (fuel : nat) (s : str) : pattern :=
  match fuel with
  | O => []
  | S fuel' =>
      match s with
      | [] => []
      | c :: r =>
          if N.eqb c c_star then PStar :: parse_glob_fuel fuel' r
          else if N.eqb c c_qmark then PAny :: parse_glob_fuel fuel' r
          else if N.eqb c c_lbrack then
            match find_close r with
            | Some (neg, body, rest) => PSet neg (parse_items body) :: parse_glob_fuel fuel' rest
            | None => PLit c :: parse_glob_fuel fuel' r
            end
          else PLit c :: parse_glob_fuel fuel' r
      end
  end.

Definition parse_glob (s : str) : pattern := parse_glob_fuel (length s) s.

(* fnmatch.fnmatch(name, pat) *)
Definition fnmatch (name pat : str) : bool := glob_match (parse_glob pat) name.
