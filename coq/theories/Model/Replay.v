(* lemoncheesecake/reporting/replay.py : replay_report_events, as the list of events fired (in order) plus the exception that
   interrupted it, if any.  The input is a loaded report in normal form (Report.v: children already in get_suites()/get_tests()
   order, ranks 0).  No proofs in this file.

   Python                                   Gallina
   ---------------------------------------- ----------------------------------------------------------------
   _replay_step(location, step, mgr)        replay_step now th loc st
   _replay_steps_events                     replay_steps
   _replay_test_events                      replay_test       (ValueError "Unknown test status" -> (events so far, Some ValueError))
   _replay_suite_events                     replay_suite
   replay_report_events                     replay now th r  : list event * option err
   threading.current_thread().ident         th   (one thread id for the whole replay)
   time.time() inside Event.__init__        now  (Events.event_time: `event_time or time.time()`)

   Truthiness tests in the code, modelled as such (Events.truthy_time: None and 0.0 are false):
     `if test.end_time:` `if suite.suite_setup.end_time:` `if suite.end_time:` `if report.end_time:` ...   -> truthy_time
     `if suite.suite_setup:` / `if report.test_session_setup:`  (a Result object is always true)          -> Some _
     `test.status in ("passed", "failed", None)`, `== "skipped"`, `== "disabled"`                          -> replay_test
   Start times are passed as they are to the event constructors, so a missing (None) or zero start time becomes `now`.

   F10 (DESIGN section 6), FIXED behaviour modelled here: _replay_step fires StepEndEvent only `if step.end_time:`
   (fixes/F10-replay-unfinished-step.patch).  Before the fix the event was always fired with event_time=None turned into
   time.time() by Event.__init__, so an unfinished step came back finished: replay_step_unfixed describes that, and
   Props/C18.v shows the identity theorem is false of it. *)
From Coq Require Import List NArith ZArith Bool.
Import ListNotations.
From LCC Require Import Base.Util Model.Report Model.Events.

Definition emit := (list event * option err)%type.
(* run a, then b unless a raised *)
Definition seq (a b : emit) : emit :=
  match snd a with
  | Some _ => a
  | None => (fst a ++ fst b, snd b)
  end.
Definition fire (l : list event) : emit := (l, None).
Fixpoint seq_all {A} (f : A -> emit) (l : list A) : emit :=
  match l with
  | [] => fire []
  | x :: r => seq (f x) (seq_all f r)
  end.
(* the same with the position of each element *)
Fixpoint seq_all_from {A} (f : Z -> A -> emit) (i : Z) (l : list A) : emit :=
  match l with
  | [] => fire []
  | x :: r => seq (f i x) (seq_all_from f (Z.succ i) r)
  end.

Definition replay_log (now : Z) (th : tid) (loc : location) (d : str) (l : steplog) : event :=
  match l with
  | LLog level message t => ELog loc d th level message (event_time now (Some t))
  | LAttachment description filename as_image t => ELogAttachment loc d th filename description as_image (event_time now (Some t))
  | LUrl description url t => ELogUrl loc d th url description (event_time now (Some t))
  | LCheck description ok details t => ECheck loc d th description ok details (event_time now (Some t))
  end.

Definition replay_step (now : Z) (th : tid) (loc : location) (st : step) : list event :=
  EStepStart loc (st_description st) th (event_time now (st_start st))
  :: map (replay_log now th loc (st_description st)) (st_logs st)
  ++ (if truthy_time (st_end st) then [EStepEnd loc (st_description st) th (event_time now (st_end st))] else []).

(* the code before the F10 fix: the StepEnd event is fired unconditionally *)
Definition replay_step_unfixed (now : Z) (th : tid) (loc : location) (st : step) : list event :=
  EStepStart loc (st_description st) th (event_time now (st_start st))
  :: map (replay_log now th loc (st_description st)) (st_logs st)
  ++ [EStepEnd loc (st_description st) th (event_time now (st_end st))].

Section Replay.
  Variable step_events : Z -> tid -> location -> step -> list event.
  Variable now : Z.
  Variable th : tid.

  Definition replay_steps (loc : location) (l : list step) : list event := flat_map (step_events now th loc) l.

  (* Start, steps, End-if-ended of a setup / teardown Result *)
  Definition replay_phase (loc : location) (start_ev end_ev : Z -> event) (o : option result) : list event :=
    match o with
    | None => []
    | Some r => start_ev (event_time now (r_start r)) :: replay_steps loc (r_steps r)
                ++ (if truthy_time (r_end r) then [end_ev (event_time now (r_end r))] else [])
    end.

  (* pos = position of the test in suite.get_tests(): event.test is the loaded TestResult (rank 0), whose sort key for the
     writer is (0, pos) = Events.test_key 0 pos *)
  Definition replay_test (parent : path) (pos : Z) (t : test_result) : emit :=
    let nd := mkNode parent (t_meta t) (test_key 0 pos) in
    let r := t_result t in
    let started :=
      fire (ETestStart nd (event_time now (r_start r)) :: replay_steps (LocTest (node_path nd)) (r_steps r)
            ++ (if truthy_time (r_end r) then [ETestEnd nd (event_time now (r_end r))] else [])) in
    match r_status r with
    | None => started
    | Some st =>
        if str_eqb st s_passed || str_eqb st s_failed then started
        else if str_eqb st s_skipped then fire [ETestSkipped nd (r_status_details r) (event_time now (r_start r))]
        else if str_eqb st s_disabled then fire [ETestDisabled nd (r_status_details r) (event_time now (r_start r))]
        else ([], Some ValueError)
    end.

  Fixpoint replay_suite (parent : path) (s : suite_result) : emit :=
    match s with
    | SuiteResult m start end_ setup teardown tests subs =>
        let nd := mkNode parent m 0 in
        let p := node_path nd in
        seq (fire (ESuiteStart nd (event_time now start)
                   :: replay_phase (LocSuiteSetup p) (ESuiteSetupStart nd) (ESuiteSetupEnd nd) setup))
       (seq (seq_all_from (replay_test p) 0 tests)
       (seq ((fix go (l : list suite_result) : emit :=
                match l with [] => fire [] | x :: r => seq (replay_suite p x) (go r) end) subs)
            (fire (replay_phase (LocSuiteTeardown p) (ESuiteTeardownStart nd) (ESuiteTeardownEnd nd) teardown
                   ++ (if truthy_time end_ then [ESuiteEnd nd (event_time now end_)] else [])))))
    end.

  Definition replay (r : report) : emit :=
    seq (fire (ESessionStart (event_time now (rp_start r))
               :: replay_phase LocSessionSetup ESessionSetupStart ESessionSetupEnd (rp_session_setup r)))
   (seq (seq_all (replay_suite []) (rp_suites r))
        (fire (replay_phase LocSessionTeardown ESessionTeardownStart ESessionTeardownEnd (rp_session_teardown r)
               ++ (if truthy_time (rp_end r) then [ESessionEnd (event_time now (rp_end r))] else [])))).
End Replay.

(* replay_report_events (fixed, F10) *)
Definition replay_report_events (now : Z) (th : tid) (r : report) : emit := replay replay_step now th r.
(* replay_report_events as it was before the fix *)
Definition replay_report_events_unfixed (now : Z) (th : tid) (r : report) : emit := replay replay_step_unfixed now th r.

(* ---------------- the reports C18 is about (executable, so that the harness can evaluate it on generated reports) ----------------
   `replayable r` = r is a report a ReportWriter can have produced and a serializer can have saved, possibly in the middle of a run:
     - every start time is present; no time is 0.0 (the epoch itself is indistinguishable from "missing" for the truthiness tests);
     - sibling suites have pairwise distinct names, tests have distinct names within their suite;
     - a setup / teardown / test result that was started is either in progress (no end time, no status) or ended with
       status = "passed" if all its logs are successful else "failed"; it has no status details;
     - a skipped / disabled test has start = end, no step, any status details;
     - steps and suites and the report itself may have no end time, anywhere (snapshots of a running session, steps of several
       threads open at the same time). *)
Definition end_ok (t : option Z) : bool := match t with Some t => negb (Z.eqb t 0) | None => true end.
Definition log_time (l : steplog) : Z :=
  match l with LLog _ _ t | LCheck _ _ _ t | LAttachment _ _ _ t | LUrl _ _ t => t end.
Definition step_ok (st : step) : bool :=
  truthy_time (st_start st) && end_ok (st_end st) && forallb (fun l => negb (Z.eqb (log_time l) 0)) (st_logs st).
Definition opt_is_none {A} (o : option A) : bool := match o with None => true | Some _ => false end.
Definition computed_status (r : result) : option str :=
  match r_end r with
  | None => None
  | Some _ => Some (if forallb step_successful (r_steps r) then s_passed else s_failed)
  end.
Definition result_ok (r : result) : bool :=
  truthy_time (r_start r) && end_ok (r_end r) && opt_is_none (r_status_details r)
  && forallb step_ok (r_steps r) && option_eqb str_eqb (r_status r) (computed_status r).
Definition bypassed (r : result) : bool :=
  match r_status r with Some st => str_eqb st s_skipped || str_eqb st s_disabled | None => false end.
Definition test_ok (t : test_result) : bool :=
  let r := t_result t in
  if bypassed r
  then truthy_time (r_start r) && option_eqb Z.eqb (r_end r) (r_start r) && match r_steps r with [] => true | _ => false end
  else result_ok r.
Definition opt_result_ok (o : option result) : bool := match o with None => true | Some r => result_ok r end.
Fixpoint distinct (l : list str) : bool :=
  match l with [] => true | x :: r => negb (existsb (str_eqb x) r) && distinct r end.
Fixpoint suite_ok (s : suite_result) : bool :=
  match s with
  | SuiteResult m start end_ setup teardown tests subs =>
      truthy_time start && end_ok end_ && opt_result_ok setup && opt_result_ok teardown
      && forallb test_ok tests && distinct (map (fun t => m_name (t_meta t)) tests)
      && distinct (map (fun u => m_name (s_meta_of u)) subs) && forallb suite_ok subs
  end.
Definition replayable (r : report) : bool :=
  truthy_time (rp_start r) && end_ok (rp_end r) && opt_result_ok (rp_session_setup r) && opt_result_ok (rp_session_teardown r)
  && distinct (map (fun u => m_name (s_meta_of u)) (rp_suites r)) && forallb suite_ok (rp_suites r).

(* `finished r` = nothing is in progress: the report, every suite, every result that was started and every step has an end time
   (skipped / disabled tests count as ended). *)
Definition step_ended (st : step) : bool := truthy_time (st_end st).
Definition result_ended (r : result) : bool := truthy_time (r_end r) && forallb step_ended (r_steps r).
Definition opt_result_ended (o : option result) : bool := match o with Some r => result_ended r | None => true end.
Definition test_ended (t : test_result) : bool := bypassed (t_result t) || result_ended (t_result t).
Fixpoint suite_ended (s : suite_result) : bool :=
  match s with
  | SuiteResult _ _ e su td tests subs =>
      truthy_time e && opt_result_ended su && opt_result_ended td && forallb test_ended tests && forallb suite_ended subs
  end.
Definition finished (r : report) : bool :=
  truthy_time (rp_end r) && opt_result_ended (rp_session_setup r) && opt_result_ended (rp_session_teardown r)
  && forallb suite_ended (rp_suites r).

(* what a ReportWriter can rebuild of a report: everything except the attributes no event carries *)
Definition tree (r : report) : report :=
  mkReport [84; 101; 115; 116; 32; 82; 101; 112; 111; 114; 116]%N [] (rp_start r) (rp_end r) None 1
           (rp_session_setup r) (rp_session_teardown r) (rp_suites r).
