(* C20 — lcc diff (lemoncheesecake/cli/commands/diff.py: compute_diff), faithful, no proofs.

   Python                                                          Gallina
   --------------------------------------------------------------  ------------------------------------------------------
   a test as seen by compute_diff: (test.path, test.status)         dtest = str * option str
   next(t for t in report_2_tests if t.path == p) ... StopIteration find_remove p l = None
   report_2_tests.remove(report_2_test)                             the list returned by find_remove
       (TestResult has no __eq__: `remove` deletes the object found by `next`, i.e. the first test with that path)
   diff.removed.append(report_1_test)                               d_removed (report-1 order)
   diff.status_changed[s1][s2].append(report_2_test)                d_changed : flat list of (s1, s2, path of the report-2 test)
                                                                    in processing order; the nested defaultdict is its grouping
                                                                    by (s1, s2): changed_group
   diff.added.extend(report_2_tests)                                d_added (what is left of report 2, in order)
   Diff.is_empty()                                                  diff_is_empty
   DiffCommand.run_cmd: list(filter(test_filter, report.all_tests())) diff_reports (the filter is a predicate on results)
   `!=` on statuses is str/None equality.                           status_eqb *)
From Coq Require Import List NArith ZArith Bool.
Import ListNotations.
From LCC Require Import Base.Util Model.Report Model.Stats.

Definition dtest : Type := str * option str.
Definition status_eqb : option str -> option str -> bool := option_eqb str_eqb.

Fixpoint find_remove (p : str) (l : list dtest) : option (dtest * list dtest) :=
  match l with
  | [] => None
  | t :: l' => if str_eqb (fst t) p then Some (t, l')
               else match find_remove p l' with
                    | Some (x, rest) => Some (x, t :: rest)
                    | None => None
                    end
  end.

Record diff := mkDiff {
  d_added : list dtest;
  d_removed : list dtest;
  d_changed : list (option str * option str * str) }.

Fixpoint compute_diff (l1 l2 : list dtest) : diff :=
  match l1 with
  | [] => mkDiff l2 [] []
  | t1 :: l1' =>
      match find_remove (fst t1) l2 with
      | None => let d := compute_diff l1' l2 in mkDiff (d_added d) (t1 :: d_removed d) (d_changed d)
      | Some (t2, l2') =>
          let d := compute_diff l1' l2' in
          if status_eqb (snd t2) (snd t1) then d
          else mkDiff (d_added d) (d_removed d) ((snd t1, snd t2, fst t2) :: d_changed d)
      end
  end.

Definition diff_is_empty (d : diff) : bool := is_nil (d_added d) && is_nil (d_removed d) && is_nil (d_changed d).

(* status_changed[s1][s2] *)
Definition changed_group (d : diff) (s1 s2 : option str) : list str :=
  map snd (filter (fun c => status_eqb (fst (fst c)) s1 && status_eqb (snd (fst c)) s2) (d_changed d)).

Definition dtests (f : result -> bool) (r : report) : list dtest :=
  map (fun pt => (fst pt, r_status (t_result (snd pt))))
      (filter (fun pt => f (t_result (snd pt))) (tests_with_path r)).

Definition diff_reports (f : result -> bool) (r1 r2 : report) : diff := compute_diff (dtests f r1) (dtests f r2).
