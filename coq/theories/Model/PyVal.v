(* A fragment of Python's value domain and of the operators the matchers of lemoncheesecake.matching apply to it.
   Floats, tuples, sets, bytes and user classes are excluded (stated in the evidence of C16/C17).

   Python                                   | here
   -----------------------------------------+---------------------------------------------------------
   None / bool / int / str / list / dict    | VNone / VBool / VInt / VStr (code points) / VList / VDict (insertion order)
   dict keys (hashable part of the domain)  | key : KNone / KBool / KInt / KStr ;  hash-and-eq  = key_eqb  (True == 1)
   a == b                                   | py_eq a b          (total on this domain; True == 1, 1 == True, [1] == [True])
   a != b                                   | negb (py_eq a b)
   a < b, a <= b, a > b, a >= b             | py_cmp Lt/Le/Gt/Ge a b : result bool   (Err TypeError on unorderable operands)
   x in c                                   | py_in x c : result bool  (list: ==, str: substring or TypeError, dict: key or
                                            |                           TypeError "unhashable", otherwise TypeError)
   iter(c)                                  | py_iter c : result (list pyval)  (list items, characters, dict keys, else TypeError)
   len(c)                                   | py_len c : result Z
   c[k] under except (TypeError,IndexError) | py_getitem c k : option pyval   (None = KeyError after KeyPathMatcher.get_entry)
   type(v)                                  | type_of v
   json.dumps(v, ensure_ascii=False)        | jsonify v          (helpers/text.py: jsonify)
   str(int)                                 | dec_Z
   raise E                                  | Err E
   No proofs in this file. *)
From Coq Require Import String Ascii.
From Coq Require Import List Bool NArith ZArith.
Import ListNotations.
From LCC Require Import Base.Util.

Definition str := list N.

(* literal strings of the model are written as Coq strings and converted to code points *)
Definition str_of (x : String.string) : str := map N_of_ascii (list_ascii_of_string x).

Inductive err := TypeError | IndexError | KeyError | AbortTest | AssertionError | OtherError.
Inductive result (A : Type) := Ok (a : A) | Err (e : err).
Arguments Ok {A} a.
Arguments Err {A} e.

Definition err_eqb (a b : err) : bool :=
  match a, b with
  | TypeError, TypeError | IndexError, IndexError | KeyError, KeyError | AbortTest, AbortTest
  | AssertionError, AssertionError | OtherError, OtherError => true
  | _, _ => false
  end.

Definition bind {A B} (r : result A) (f : A -> result B) : result B :=
  match r with Ok a => f a | Err e => Err e end.

Inductive key := KNone | KBool (b : bool) | KInt (z : Z) | KStr (s : str).

Inductive pyval :=
| VNone
| VBool (b : bool)
| VInt (z : Z)
| VStr (s : str)
| VList (l : list pyval)
| VDict (d : list (key * pyval)).

Definition b2z (b : bool) : Z := if b then 1%Z else 0%Z.

Definition str_eqb (a b : str) : bool := list_eqb N.eqb a b.

(* equality of dict keys: hash equal and ==  (True and 1 are the same key) *)
Definition key_eqb (a b : key) : bool :=
  match a, b with
  | KNone, KNone => true
  | KBool x, KBool y => Bool.eqb x y
  | KBool x, KInt y => Z.eqb (b2z x) y
  | KInt x, KBool y => Z.eqb x (b2z y)
  | KInt x, KInt y => Z.eqb x y
  | KStr x, KStr y => str_eqb x y
  | _, _ => false
  end.

Definition key_to_val (k : key) : pyval :=
  match k with KNone => VNone | KBool b => VBool b | KInt z => VInt z | KStr s => VStr s end.

(* None = unhashable (list, dict) *)
Definition val_to_key (v : pyval) : option key :=
  match v with
  | VNone => Some KNone | VBool b => Some (KBool b) | VInt z => Some (KInt z) | VStr s => Some (KStr s)
  | VList _ | VDict _ => None
  end.

Fixpoint dict_get {A} (k : key) (d : list (key * A)) : option A :=
  match d with
  | [] => None
  | (k', v) :: r => if key_eqb k k' then Some v else dict_get k r
  end.

(* a == b *)
Fixpoint py_eq (a b : pyval) : bool :=
  match a, b with
  | VNone, VNone => true
  | VBool x, VBool y => Bool.eqb x y
  | VBool x, VInt y => Z.eqb (b2z x) y
  | VInt x, VBool y => Z.eqb x (b2z y)
  | VInt x, VInt y => Z.eqb x y
  | VStr x, VStr y => str_eqb x y
  | VList xs, VList ys =>
      (fix go (xs ys : list pyval) : bool :=
         match xs, ys with
         | [], [] => true
         | x :: xs', y :: ys' => py_eq x y && go xs' ys'
         | _, _ => false
         end) xs ys
  | VDict d1, VDict d2 =>
      Nat.eqb (List.length d1) (List.length d2) &&
      (fix all (d : list (key * pyval)) : bool :=
         match d with
         | [] => true
         | (k, v) :: r => match dict_get k d2 with Some v' => py_eq v v' | None => false end && all r
         end) d1
  | _, _ => false
  end.

Inductive cmp_op := Lt | Le | Gt | Ge.

Definition cmp_Z (op : cmp_op) (a b : Z) : bool :=
  match op with Lt => Z.ltb a b | Le => Z.leb a b | Gt => Z.ltb b a | Ge => Z.leb b a end.

(* three-way lexicographic comparison of strings by code point *)
Fixpoint str_compare (a b : str) : comparison :=
  match a, b with
  | [], [] => Eq
  | [], _ :: _ => Datatypes.Lt
  | _ :: _, [] => Datatypes.Gt
  | x :: a', y :: b' => match N.compare x y with Eq => str_compare a' b' | c => c end
  end.

Definition cmp_of_comparison (op : cmp_op) (c : comparison) : bool :=
  match op, c with
  | Lt, Datatypes.Lt => true
  | Le, Datatypes.Lt | Le, Eq => true
  | Gt, Datatypes.Gt => true
  | Ge, Datatypes.Gt | Ge, Eq => true
  | _, _ => false
  end.

(* a <op> b ; list_richcompare: the first pair of items that are not == decides (with <op> itself, which may raise),
   otherwise the lengths are compared *)
Fixpoint py_cmp (op : cmp_op) (a b : pyval) : result bool :=
  match a, b with
  | VBool x, VBool y => Ok (cmp_Z op (b2z x) (b2z y))
  | VBool x, VInt y => Ok (cmp_Z op (b2z x) y)
  | VInt x, VBool y => Ok (cmp_Z op x (b2z y))
  | VInt x, VInt y => Ok (cmp_Z op x y)
  | VStr x, VStr y => Ok (cmp_of_comparison op (str_compare x y))
  | VList xs, VList ys =>
      (fix go (xs ys : list pyval) : result bool :=
         match xs, ys with
         | x :: xs', y :: ys' => if py_eq x y then go xs' ys' else py_cmp op x y
         | _, _ => Ok (cmp_Z op (Z.of_nat (List.length xs)) (Z.of_nat (List.length ys)))
         end) xs ys
  | _, _ => Err TypeError
  end.

(* needle in haystack for strings *)
Fixpoint str_prefix (p s : str) : bool :=
  match p, s with
  | [], _ => true
  | x :: p', y :: s' => N.eqb x y && str_prefix p' s'
  | _ :: _, [] => false
  end.

Fixpoint str_contains (needle s : str) : bool :=
  str_prefix needle s || match s with [] => false | _ :: s' => str_contains needle s' end.

Definition str_suffix (p s : str) : bool := str_prefix (rev p) (rev s).

Definition py_in (x c : pyval) : result bool :=
  match c with
  | VList l => Ok (existsb (fun y => py_eq x y) l)       (* item is x or item == x ; identity implies == on this domain *)
  | VStr s => match x with VStr n => Ok (str_contains n s) | _ => Err TypeError end
  | VDict d => match val_to_key x with
               | Some k => Ok (match dict_get k d with Some _ => true | None => false end)
               | None => Err TypeError
               end
  | _ => Err TypeError
  end.

Definition py_iter (c : pyval) : result (list pyval) :=
  match c with
  | VList l => Ok l
  | VStr s => Ok (map (fun ch => VStr [ch]) s)
  | VDict d => Ok (map (fun kv => key_to_val (fst kv)) d)
  | _ => Err TypeError
  end.

Definition py_len (c : pyval) : result Z :=
  match c with
  | VList l => Ok (Z.of_nat (List.length l))
  | VStr s => Ok (Z.of_nat (List.length s))
  | VDict d => Ok (Z.of_nat (List.length d))
  | _ => Err TypeError
  end.

(* sequence index: int or bool, negative counts from the end *)
Definition seq_index {A} (l : list A) (i : Z) : option A :=
  let n := Z.of_nat (List.length l) in
  let j := if Z.ltb i 0 then (i + n)%Z else i in
  if Z.ltb j 0 then None else nth_error l (Z.to_nat j).

(* d[key] with TypeError/IndexError/KeyError all meaning "no entry" (KeyPathMatcher.get_entry) *)
Definition py_getitem (c k : pyval) : option pyval :=
  match c with
  | VDict d => match val_to_key k with Some kk => dict_get kk d | None => None end
  | VList l => match k with VInt i => seq_index l i | VBool b => seq_index l (b2z b) | _ => None end
  | VStr s => match k with
              | VInt i => option_map (fun ch => VStr [ch]) (seq_index s i)
              | VBool b => option_map (fun ch => VStr [ch]) (seq_index s (b2z b))
              | _ => None
              end
  | _ => None
  end.

Inductive pytype := TNone | TBool | TInt | TStr | TList | TDict.

Definition type_of (v : pyval) : pytype :=
  match v with VNone => TNone | VBool _ => TBool | VInt _ => TInt | VStr _ => TStr | VList _ => TList | VDict _ => TDict end.

Definition pytype_eqb (a b : pytype) : bool :=
  match a, b with
  | TNone, TNone | TBool, TBool | TInt, TInt | TStr, TStr | TList, TList | TDict, TDict => true
  | _, _ => false
  end.

(* ------------------------------------------------------------------ text *)
Fixpoint dec_digits (fuel : nat) (n : N) (acc : str) : str :=
  match fuel with
  | O => acc
  | S f => let acc' := (48 + N.modulo n 10)%N :: acc in
           if N.eqb (N.div n 10) 0 then acc' else dec_digits f (N.div n 10) acc'
  end.
Definition dec_N (n : N) : str := dec_digits (S (N.size_nat n)) n [].
Definition dec_Z (z : Z) : str :=
  match z with
  | Z0 => [48%N]
  | Zpos p => dec_N (Npos p)
  | Zneg p => 45%N :: dec_N (Npos p)
  end.

Definition hex_digit (n : N) : N := if N.ltb n 10 then (48 + n)%N else (87 + n)%N.

(* json.dumps string escaping with ensure_ascii=False *)
Definition json_esc (c : N) : str :=
  if N.eqb c 34 then [92; 34]%N
  else if N.eqb c 92 then [92; 92]%N
  else if N.eqb c 10 then [92; 110]%N
  else if N.eqb c 13 then [92; 114]%N
  else if N.eqb c 9 then [92; 116]%N
  else if N.eqb c 8 then [92; 98]%N
  else if N.eqb c 12 then [92; 102]%N
  else if N.ltb c 32 then [92; 117; 48; 48; hex_digit (N.div c 16); hex_digit (N.modulo c 16)]%N
  else [c].

Definition json_str (s : str) : str := 34%N :: flat_map json_esc s ++ [34%N].

Definition s_null := str_of "null".
Definition s_true := str_of "true".
Definition s_false := str_of "false".
Definition s_comma := str_of ", ".
Definition s_colon := str_of ": ".

Fixpoint join (sep : str) (l : list str) : str :=
  match l with
  | [] => []
  | [x] => x
  | x :: r => x ++ sep ++ join sep r
  end.

Definition json_key (k : key) : str :=
  match k with
  | KNone => json_str s_null
  | KBool b => json_str (if b then s_true else s_false)
  | KInt z => json_str (dec_Z z)
  | KStr s => json_str s
  end.

Fixpoint jsonify (v : pyval) : str :=
  match v with
  | VNone => s_null
  | VBool b => if b then s_true else s_false
  | VInt z => dec_Z z
  | VStr s => json_str s
  | VList l => 91%N :: join s_comma ((fix go (l : list pyval) : list str :=
                                        match l with [] => [] | x :: r => jsonify x :: go r end) l) ++ [93%N]
  | VDict d => 123%N :: join s_comma ((fix go (d : list (key * pyval)) : list str :=
                                         match d with
                                         | [] => []
                                         | (k, x) :: r => (json_key k ++ s_colon ++ jsonify x) :: go r
                                         end) d) ++ [125%N]
  end.

Definition jsonify_items (l : list pyval) : str := join s_comma (map jsonify l).

(* equality of values as data (used only by the case files to compare observations, not Python's ==) *)
Definition key_same (a b : key) : bool :=
  match a, b with
  | KNone, KNone => true
  | KBool x, KBool y => Bool.eqb x y
  | KInt x, KInt y => Z.eqb x y
  | KStr x, KStr y => str_eqb x y
  | _, _ => false
  end.
