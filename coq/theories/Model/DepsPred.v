(* Declared dependencies of a test: lcc.depends_on accepts test paths AND predicates (callables over Test objects).
   Model of suite/core.py:_normalize_test_dependencies. Executable definitions only; proofs in Proofs/DepsPredP.v.

   A predicate can only be observed through the tests of the project it is applied to, so it is modelled by its EXTENSION: the list
   of test paths it holds for (possibly containing the depending test itself, or paths that are no test of the project).

   Python                                                        Gallina
   ------------------------------------------------------------  ---------------------------------------------------------
   for test_dep in test.dependencies:                             walk self keys known decl
     callable: for other in all_tests.values():                     DPred ext: the keys of all_tests, in dict order, that are not
                 if other.path != test.path and test_dep(other)       the test's own path and belong to ext
     else:     yield all_tests[test_dep]  (KeyError -> Validation)  DPath p: [p] when p is a key, else stop with the error flag
   (a generator: what was yielded before the error has already been processed by the caller)

   expand self keys decl is the path-form dependency list (tt_deps of Model/Proj.v) that the rest of the model works with:
   Model/Deps.v (resolution) and Model/Graph.v (edges) take it from there. *)
From Coq Require Import List Arith Bool.
Import ListNotations.
From LCC Require Import Model.Proj Model.Fixture Model.Deps.

Inductive ddep := DPath (p : path) | DPred (ext : list path).

Definition pred_yields (self : path) (keys : list path) (ext : list path) : list path :=
  filter (fun q => negb (path_eqb q self) && path_mem q ext) keys.

(* the dependencies yielded before the generator ends or raises, and whether it raised ("Cannot find dependency test") *)
Fixpoint walk (self : path) (keys : list path) (decl : list ddep) : list path * bool :=
  match decl with
  | [] => ([], false)
  | DPath p :: r => if path_mem p keys then let '(l, e) := walk self keys r in (p :: l, e) else ([], true)
  | DPred ext :: r => let '(l, e) := walk self keys r in (pred_yields self keys ext ++ l, e)
  end.

(* the path form: an unknown path stays in the list, so that the resolution of Model/Deps.v reports it when it gets there *)
Definition normalize (self : path) (keys : list path) (d : ddep) : list path :=
  match d with DPath p => [p] | DPred ext => pred_yields self keys ext end.
Definition expand (self : path) (keys : list path) (decl : list ddep) : list path := flat_map (normalize self keys) decl.

(* a whole project: the declared dependencies are given per test path; the keys are those of flatten_tests_as_dict *)
Definition keys_of (suites : list suite) : list path := map fst (tests_dict suites).

Definition expand_test (keys : list path) (decl : path -> list ddep) (prefix : path) (t : test) : test :=
  mkTest (tt_name t) (tt_disabled t) (expand (prefix ++ [tt_name t]) keys (decl (prefix ++ [tt_name t])))
         (tt_args t) (tt_params t) (tt_body t).
Fixpoint expand_suite (keys : list path) (decl : path -> list ddep) (prefix : path) (s : suite) {struct s} : suite :=
  match s with
  | Suite n dis hk inj tests subs =>
      Suite n dis hk inj (map (expand_test keys decl (prefix ++ [n])) tests)
            ((fix go (l : list suite) : list suite :=
                match l with [] => [] | x :: r => expand_suite keys decl (prefix ++ [n]) x :: go r end) subs)
  end.
Definition expand_project (decl : path -> list ddep) (suites : list suite) : list suite :=
  map (expand_suite (keys_of suites) decl []) suites.
