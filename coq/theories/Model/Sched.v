(* Layer 1 of the run model (DESIGN.md 4.2): the dependency-aware dispatch loop of lemoncheesecake/task.py
   (run_tasks, pop_runnable_tasks, handle_task, run_task, skip_task, skip_all_tasks) together with
   RunContext.is_task_to_be_skipped (runner.py), over an arbitrary task graph.

   What a task *does* when it runs is abstract here: the environment chooses the result of a running task among the
   results the code can produce (MFinish) and raises context flags (MFlag); the theorems quantify over all such choices,
   all thread counts n >= 1 and all interleavings (= all move sequences accepted by [step]).

   Python                                   | here
   -----------------------------------------+------------------------------------------------------------
   tasks (list), t.get_on_success/completion| graph = list task, dependencies are indexes in the list
   remaining_tasks / completed_tasks        | remaining / completed
   ThreadPool job queue (FIFO)              | poolq : list (task index * job)
   worker threads executing handle_task     | running : list (task index * mode), at most n
   completed_tasks_queue (FIFO)             | complq
   task.result                              | results (association list)
   pop_runnable_tasks                       | pop_runnable
   handle_task's decision                   | decide  (dependency results first, then ctx_skip; `is not None` test)
   RunContext.is_task_to_be_skipped         | ctx_skip
   KeyboardInterrupt in the main loop       | MInterrupt (enable_task_abort; skip_all_tasks: skip jobs, still in dependency order)
   a worker thread killed by BaseException  | MDie (the job never reaches the completion queue)
   No proofs in this file. *)
From Coq Require Import List Arith Bool.
Import ListNotations.
From LCC Require Import Base.Util Model.Proj.

Inductive kind := KSessionSetup | KSuiteBegin | KSuiteInit | KTest | KSuiteTeardown | KSuiteEnd | KSessionTeardown.
Definition kind_eqb (a b : kind) : bool :=
  match a, b with
  | KSessionSetup, KSessionSetup | KSuiteBegin, KSuiteBegin | KSuiteInit, KSuiteInit | KTest, KTest
  | KSuiteTeardown, KSuiteTeardown | KSuiteEnd, KSuiteEnd | KSessionTeardown, KSessionTeardown => true
  | _, _ => false
  end.

Record task := mkTask {
  t_kind : kind;
  t_path : path;              (* suite path, or test path for KTest, [] for the session tasks *)
  t_succ : list nat;          (* get_on_success_dependencies, in list order *)
  t_compl : list nat }.       (* get_on_completion_dependencies *)
Definition graph := list task.
Definition all_deps (t : task) : list nat := t_compl t ++ t_succ t.     (* get_all_dependencies *)

(* skip / failure reasons (the strings of the code, as a datatype) *)
Inductive reason :=
| RTaskFailed (t : nat)       (* TaskFailure text of task t: "test '<p>' failed" / "suite '<p>' setup failed" / "test session setup failed" *)
| RManuallyStopped            (* "tests have been manually stopped" *)
| RHandler (empty : bool)     (* str(exception) of the pending event-handler failure; empty = the text is "" *)
| RAbortedAll                 (* "tests have been aborted" *)
| RAbortedSuite               (* "the tests of this test suite have been aborted" *)
| RStopOnFailure              (* "tests have been aborted on --stop-on-failure" *)
| RInterrupted.               (* "tests have been interrupted by the user" *)
Definition reason_eqb (a b : reason) : bool :=
  match a, b with
  | RTaskFailed x, RTaskFailed y => Nat.eqb x y
  | RManuallyStopped, RManuallyStopped | RAbortedAll, RAbortedAll | RAbortedSuite, RAbortedSuite
  | RStopOnFailure, RStopOnFailure | RInterrupted, RInterrupted => true
  | RHandler x, RHandler y => Bool.eqb x y
  | _, _ => false
  end.

Inductive tres := ResSuccess | ResFailure (r : reason) | ResSkipped (r : option reason) | ResException.
Definition tres_eqb (a b : tres) : bool :=
  match a, b with
  | ResSuccess, ResSuccess | ResException, ResException => true
  | ResFailure x, ResFailure y => reason_eqb x y
  | ResSkipped x, ResSkipped y => option_eqb reason_eqb x y
  | _, _ => false
  end.

Inductive job := JHandle | JSkip (r : reason).          (* apply_async(handle_task) / apply_async(skip_task, reason) *)
Inductive mode := Run | Skip (r : option reason).         (* what handle_task decided *)
Definition mode_eqb (a b : mode) : bool :=
  match a, b with Run, Run => true | Skip x, Skip y => option_eqb reason_eqb x y | _, _ => false end.

(* RunContext / TaskContext / session state read by is_task_to_be_skipped *)
Record ctx := mkCtx {
  c_tasks_aborted : bool;
  c_pending : option bool;           (* pending handler failure; Some true = its text is empty *)
  c_aborted_session : bool;
  c_aborted_suites : list path;
  c_has_failures : bool }.           (* session._failures non-empty *)
Definition ctx0 : ctx := mkCtx false None false [] false.

Inductive flag := FTasksAborted | FPending (empty : bool) | FAbortedSession | FAbortedSuite (p : path) | FFailure.
Definition raise_flag (c : ctx) (f : flag) : ctx :=
  match f with
  | FTasksAborted => mkCtx true (c_pending c) (c_aborted_session c) (c_aborted_suites c) (c_has_failures c)
  | FPending e => mkCtx (c_tasks_aborted c) (match c_pending c with Some x => Some x | None => Some e end)
                        (c_aborted_session c) (c_aborted_suites c) (c_has_failures c)
  | FAbortedSession => mkCtx (c_tasks_aborted c) (c_pending c) true (c_aborted_suites c) (c_has_failures c)
  | FAbortedSuite p => mkCtx (c_tasks_aborted c) (c_pending c) (c_aborted_session c) (p :: c_aborted_suites c) (c_has_failures c)
  | FFailure => mkCtx (c_tasks_aborted c) (c_pending c) (c_aborted_session c) (c_aborted_suites c) true
  end.

Inductive mainpc := PLoop | PDrain | PDone.

Record st := mkSt {
  remaining : list nat;
  poolq : list (nat * job);
  running : list (nat * mode);
  complq : list nat;
  completed : list nat;
  results : list (nat * tres);
  cx : ctx;
  pc : mainpc;
  dead : list nat }.          (* jobs whose worker thread died (BaseException): never completed *)

Definition mem (x : nat) (l : list nat) : bool := existsb (Nat.eqb x) l.
Definition remove_all (xs l : list nat) : list nat := filter (fun x => negb (mem x xs)) l.
Definition get_task (g : graph) (i : nat) : task := nth i g (mkTask KSuiteBegin [] [] []).
Definition result_of (s : st) (i : nat) : option tres :=
  match find (fun p => Nat.eqb (fst p) i) (results s) with Some p => Some (snd p) | None => None end.

(* pop_runnable_tasks(remaining, completed, n) *)
Definition runnable (g : graph) (done : list nat) (i : nat) : bool :=
  forallb (fun d => mem d done) (all_deps (get_task g i)).
Definition pop_runnable (g : graph) (rem done : list nat) (n : nat) : list nat :=
  firstn n (filter (runnable g done) rem).

(* handle_task, first part: the first on-success dependency whose result is not Success decides *)
Fixpoint dep_skip (s : st) (deps : list nat) : option (option reason) :=
  match deps with
  | [] => None
  | d :: r =>
      match result_of s d with
      | Some ResSuccess => dep_skip s r
      | Some (ResFailure x) => Some (Some x)
      | Some (ResSkipped x) => Some x
      | Some ResException => Some None
      | None => Some None                      (* isinstance(None, TaskResultSuccess) is False; reason None *)
      end
  end.

Fixpoint parent_path (p : path) : path :=
  match p with [] => [] | [_] => [] | x :: r => x :: parent_path r end.

(* RunContext.is_task_to_be_skipped, in the code's order *)
Definition ctx_skip (stop_on_failure : bool) (c : ctx) (t : task) : option reason :=
  if c_tasks_aborted c then Some RManuallyStopped
  else match c_pending c with
       | Some e => Some (RHandler e)
       | None =>
           if c_aborted_session c then Some RAbortedAll
           else if kind_eqb (t_kind t) KTest && existsb (path_eqb (parent_path (t_path t))) (c_aborted_suites c)
                then Some RAbortedSuite
           else if stop_on_failure && c_has_failures c then Some RStopOnFailure
           else None
       end.
(* handle_task: `if skip_reason is not None:` — the reason may be the empty string (RHandler true) and still skips *)

Definition decide (g : graph) (sof : bool) (s : st) (i : nat) (j : job) : mode :=
  match j with
  | JSkip r => Skip (Some r)
  | JHandle =>
      match dep_skip s (t_succ (get_task g i)) with
      | Some r => Skip r
      | None => match ctx_skip sof (cx s) (get_task g i) with
                | Some r => Skip (Some r)
                | None => Run
                end
      end
  end.

(* results a task can end with *)
Definition can_fail (k : kind) : bool :=      (* kinds whose run raises TaskFailure *)
  match k with KSessionSetup | KSuiteInit | KTest => true | _ => false end.
Definition result_allowed (g : graph) (i : nat) (m : mode) (r : tres) : bool :=
  match m, r with
  | Run, ResSuccess => true
  | Run, ResFailure (RTaskFailed j) => Nat.eqb i j && can_fail (t_kind (get_task g i))
  | Skip x, ResSkipped y => option_eqb reason_eqb x y
  | _, ResException => true
  | _, _ => false
  end.

(* `while len(completed_tasks) != len(tasks)`: the loop ends when everything is completed *)
Definition pc_after (g : graph) (done : list nat) (otherwise : mainpc) : mainpc :=
  if Nat.eqb (length done) (length g) then PDone else otherwise.

Inductive move :=
| MMain (t : nat)                    (* main: t = completed_tasks_queue.get(); completed.add(t); dispatch the runnable tasks *)
| MTake (t : nat) (m : mode)         (* a free worker takes the head job of the pool queue; handle_task decides m *)
| MFinish (t : nat) (r : tres)       (* the worker running t stores the result and puts t on the completion queue *)
| MFlag (f : flag)                   (* user code / handler raises a context flag *)
| MInterrupt                         (* KeyboardInterrupt in the main loop *)
| MDie (t : nat).                    (* the worker thread running t is killed by a BaseException *)

Definition init (g : graph) (n : nat) : st :=
  let all := seq 0 (length g) in
  let p := pop_runnable g all [] n in
  mkSt (remove_all p all) (map (fun i => (i, JHandle)) p) [] [] [] [] ctx0
       (pc_after g [] PLoop) [].

Definition remove_running (t : nat) (l : list (nat * mode)) := filter (fun p => negb (Nat.eqb (fst p) t)) l.
Definition running_mode (s : st) (t : nat) : option mode :=
  match find (fun p => Nat.eqb (fst p) t) (running s) with Some p => Some (snd p) | None => None end.

Definition step (g : graph) (n : nat) (sof : bool) (s : st) (m : move) : option st :=
  match m with
  | MMain t =>
      match pc s, complq s with
      | PLoop, t' :: q =>
          if Nat.eqb t t' then
            let done := t :: completed s in
            let p := pop_runnable g (remaining s) done n in
            Some (mkSt (remove_all p (remaining s)) (poolq s ++ map (fun i => (i, JHandle)) p) (running s) q done
                       (results s) (cx s) (pc_after g done PLoop) (dead s))
          else None
      | PDrain, t' :: q =>
          (* skip_all_tasks: the completed task is recorded and the tasks that became runnable are submitted to be skipped *)
          if Nat.eqb t t' then
            let done := t :: completed s in
            let p := pop_runnable g (remaining s) done (length g) in
            Some (mkSt (remove_all p (remaining s)) (poolq s ++ map (fun i => (i, JSkip RInterrupted)) p) (running s) q done
                       (results s) (cx s) (pc_after g done PDrain) (dead s))
          else None
      | _, _ => None
      end
  | MTake t md =>
      match poolq s with
      | (t', j) :: q =>
          if Nat.eqb t t' && Nat.ltb (length (running s)) n && mode_eqb md (decide g sof s t j) then
            Some (mkSt (remaining s) q ((t, md) :: running s) (complq s) (completed s) (results s) (cx s) (pc s) (dead s))
          else None
      | [] => None
      end
  | MFinish t r =>
      match running_mode s t with
      | Some md =>
          if result_allowed g t md r then
            Some (mkSt (remaining s) (poolq s) (remove_running t (running s)) (complq s ++ [t]) (completed s)
                       ((t, r) :: results s) (cx s) (pc s) (dead s))
          else None
      | None => None
      end
  | MFlag f => Some (mkSt (remaining s) (poolq s) (running s) (complq s) (completed s) (results s)
                          (raise_flag (cx s) f) (pc s) (dead s))
  | MInterrupt =>
      (* except KeyboardInterrupt: context.enable_task_abort(); skip_all_tasks(...): the runnable remaining tasks are
         submitted to be skipped, the others will be as their dependencies complete *)
      match pc s with
      | PLoop =>
          let p := pop_runnable g (remaining s) (completed s) (length g) in
          Some (mkSt (remove_all p (remaining s)) (poolq s ++ map (fun i => (i, JSkip RInterrupted)) p) (running s) (complq s)
                     (completed s) (results s) (raise_flag (cx s) FTasksAborted)
                     (pc_after g (completed s) PDrain) (dead s))
      | _ => None
      end
  | MDie t =>
      match running_mode s t with
      | Some _ => Some (mkSt (remaining s) (poolq s) (remove_running t (running s)) (complq s) (completed s)
                             (results s) (cx s) (pc s) (t :: dead s))
      | None => None
      end
  end.

Fixpoint run (g : graph) (n : nat) (sof : bool) (s : st) (ms : list move) : option st :=
  match ms with
  | [] => Some s
  | m :: r => match step g n sof s m with Some s' => run g n sof s' r | None => None end
  end.

(* index of the first move that [step] rejects (used by the correspondence check) *)
Fixpoint first_rejected (g : graph) (n : nat) (sof : bool) (s : st) (ms : list move) (i : nat) : option nat :=
  match ms with
  | [] => None
  | m :: r => match step g n sof s m with Some s' => first_rejected g n sof s' r (S i) | None => Some i end
  end.

Definition finished (g : graph) (s : st) : bool :=
  match pc s with PDone => Nat.eqb (length (completed s)) (length g) | _ => false end.

(* ---------------- well-formed graphs ---------------- *)
(* every dependency is an earlier or later task of the graph (closed) and the graph is acyclic: there is a rank function
   decreasing along dependencies. Executable check used on the implementation's graphs: depth-bounded reachability. *)
Definition closed_b (g : graph) : bool :=
  forallb (fun t => forallb (fun d => Nat.ltb d (length g)) (all_deps t)) g.

Fixpoint reaches (g : graph) (fuel : nat) (from target : nat) : bool :=
  match fuel with
  | O => false
  | S f => existsb (fun d => Nat.eqb d target || reaches g f d target) (all_deps (get_task g from))
  end.
Definition acyclic_b (g : graph) : bool :=
  forallb (fun i => negb (reaches g (length g) i i)) (seq 0 (length g)).

(* ---------------- certificate of well-formedness: a topological order ---------------- *)
(* index of the first occurrence of x in l (length l when absent) *)
Fixpoint index_of (x : nat) (l : list nat) : nat :=
  match l with [] => 0 | y :: r => if Nat.eqb x y then 0 else S (index_of x r) end.

(* every task appears in the order, and each dependency of a task appears strictly before it *)
Fixpoint topo_ok_from (g : graph) (before : list nat) (order : list nat) : bool :=
  match order with
  | [] => true
  | x :: r => forallb (fun d => mem d before) (all_deps (get_task g x)) && negb (mem x before) &&
              topo_ok_from g (x :: before) r
  end.
Definition wf_b (g : graph) (order : list nat) : bool :=
  closed_b g && topo_ok_from g [] order && forallb (fun i => mem i order) (seq 0 (length g)).

(* Kahn's algorithm with fuel: repeatedly take the first task all of whose dependencies are done *)
Fixpoint toposort_go (g : graph) (fuel : nat) (todo done_rev : list nat) : list nat :=
  match fuel with
  | O => rev done_rev
  | S f =>
      match find (fun i => forallb (fun d => mem d done_rev) (all_deps (get_task g i))) todo with
      | Some i => toposort_go g f (filter (fun j => negb (Nat.eqb j i)) todo) (i :: done_rev)
      | None => rev done_rev
      end
  end.
Definition toposort (g : graph) : list nat := toposort_go g (length g) (seq 0 (length g)) [].
