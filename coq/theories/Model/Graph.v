(* Layer 2 of the run model: runner.build_tasks / build_suite_tasks (DESIGN.md appendix C.3) — the task graph of a project.
   The list order, the kinds and both dependency lists are those of the code:
     per suite:  Begin ; Init? ; Tests (get_tests order) ; Teardown? ; tasks of each sub-suite ; End
                 (Teardown waits on completion of Init and of the tests; End on Begin, the tests, Teardown, sub-suite Ends)
     globally :  SessionSetup? ; suites ; SessionTeardown?
   then the extra on-success edges of tests that depend on other tests (second pass of build_tasks).
   Which fixtures are scheduled per scope comes from the fixture registry; here it is the parameter [sinfo]
   (instantiated from Model/Fixture.v by the callers). No proofs in this file. *)
From Coq Require Import List Arith Bool.
Import ListNotations.
From LCC Require Import Base.Util Model.Proj Model.Sched.

Record sinfo := mkSinfo {
  si_session : bool;              (* get_fixtures_scheduled_for_session(...) is not empty *)
  si_suite : bool -> suite -> bool }.   (* get_fixtures_scheduled_for_suite(suite, ...) is not empty; first argument:
                                           an enclosing suite is disabled *)

Definition is_some {A} (o : option A) : bool := match o with Some _ => true | None => false end.
Definition non_empty {A} (l : list A) : bool := match l with [] => false | _ => true end.
Definition opt_to_list {A} (o : option A) : list A := match o with Some x => [x] | None => [] end.

(* Suite.has_enabled_tests: a direct test that is not disabled (itself or through an enclosing suite) *)
Definition has_enabled_tests (inh : bool) (s : suite) : bool :=
  existsb (fun t => negb (inh || su_disabled s || tt_disabled t)) (su_tests s).

(* build_suite_initialization_task returns a task *)
Definition needs_init (si : sinfo) (force : bool) (inh : bool) (p : path) (s : suite) : bool :=
  (has_enabled_tests inh s || (force && non_empty (su_tests s))) &&
  (si_suite si inh s || non_empty (su_injected s) ||
   is_some (h_setup_suite (su_hooks s)) || is_some (h_teardown_suite (su_hooks s))).

Fixpoint suite_tasks (si : sinfo) (force : bool) (ss : option nat) (parent_begin : option nat)
         (prefix : path) (inh : bool) (base : nat) (s : suite) {struct s} : list task :=
  match s with
  | Suite n d h inj ts subs =>
      let p := prefix ++ [n] in
      let begin_id := base in
      let init := needs_init si force inh p s in
      let init_id := S base in
      let first_test := if init then S (S base) else S base in
      let test_ids := seq first_test (length ts) in
      let after_tests := first_test + length ts in
      let sub_base := if init then S after_tests else after_tests in
      let test_dep := if init then init_id else begin_id in
      let subs_tasks :=
        (fix go (l : list suite) (b : nat) : list (list task) :=
           match l with
           | [] => []
           | x :: r => let tx := suite_tasks si force ss (Some begin_id) p (inh || d) b x in tx :: go r (b + length tx)
           end) subs sub_base in
      let sub_end_ids :=
        (fix ends (l : list (list task)) (b : nat) : list nat :=
           match l with [] => [] | tx :: r => (b + length tx - 1) :: ends r (b + length tx) end) subs_tasks sub_base in
      [mkTask KSuiteBegin p (opt_to_list ss ++ opt_to_list parent_begin) []] ++
      (if init then [mkTask KSuiteInit p [begin_id] []] else []) ++
      map (fun t => mkTask KTest (p ++ [tt_name t]) [test_dep] []) ts ++
      (if init then [mkTask KSuiteTeardown p [] (init_id :: test_ids)] else []) ++
      concat subs_tasks ++
      [mkTask KSuiteEnd p (begin_id :: test_ids ++ (if init then [after_tests] else []) ++ sub_end_ids) []]
  end.

Fixpoint suites_tasks (si : sinfo) (force : bool) (ss : option nat) (base : nat) (l : list suite) : list (list task) :=
  match l with
  | [] => []
  | s :: r => let tx := suite_tasks si force ss None [] false base s in tx :: suites_tasks si force ss (base + length tx) r
  end.

Fixpoint block_ends (l : list (list task)) (b : nat) : list nat :=
  match l with [] => [] | tx :: r => (b + length tx - 1) :: block_ends r (b + length tx) end.

(* first pass *)
Definition build_tasks_structural (si : sinfo) (force : bool) (suites : list suite) : list task :=
  let ss := if si_session si then Some 0 else None in
  let base := if si_session si then 1 else 0 in
  let blocks := suites_tasks si force ss base suites in
  (if si_session si then [mkTask KSessionSetup [] [] []] else []) ++
  concat blocks ++
  (if si_session si then [mkTask KSessionTeardown [] [] (block_ends blocks base)] else []).

(* lookup_test_task(tasks, path): index of the first test task with that path *)
Fixpoint lookup_test_task (g : list task) (p : path) (i : nat) : option nat :=
  match g with
  | [] => None
  | t :: r => if kind_eqb (t_kind t) KTest && path_eqb (t_path t) p then Some i else lookup_test_task r p (S i)
  end.

(* second pass: test.resolved_dependencies (the direct dependencies, in declaration order) become on-success edges.
   [deps_of p] = the dependency paths of the test at path p. A dependency that has no task is an error (LookupError). *)
Fixpoint map_opt {A B} (f : A -> option B) (l : list A) : option (list B) :=
  match l with
  | [] => Some []
  | x :: r => match f x, map_opt f r with Some y, Some ys => Some (y :: ys) | _, _ => None end
  end.

Definition add_test_deps (deps_of : path -> list path) (g : list task) : option (list task) :=
  map_opt (fun t =>
             match t_kind t with
             | KTest => match map_opt (fun p => lookup_test_task g p 0) (deps_of (t_path t)) with
                        | Some ids => Some (mkTask KTest (t_path t) (t_succ t ++ ids) (t_compl t))
                        | None => None
                        end
             | _ => Some t
             end) g.

(* dependency paths of every test of the scheduled suites *)
Definition deps_table (suites : list suite) : list (path * list path) :=
  map (fun x => (fst (fst x), tt_deps (snd x))) (all_tests_with_path suites).
Definition deps_lookup (tbl : list (path * list path)) (p : path) : list path :=
  match find (fun e => path_eqb (fst e) p) tbl with Some e => snd e | None => [] end.

Definition build_tasks (si : sinfo) (force : bool) (suites : list suite) : option graph :=
  add_test_deps (deps_lookup (deps_table suites)) (build_tasks_structural si force suites).

(* comparison with the implementation's graph *)
Definition task_eqb (a b : task) : bool :=
  kind_eqb (t_kind a) (t_kind b) && path_eqb (t_path a) (t_path b) &&
  list_eqb Nat.eqb (t_succ a) (t_succ b) && list_eqb Nat.eqb (t_compl a) (t_compl b).
Definition graph_eqb (a b : graph) : bool := list_eqb task_eqb a b.
