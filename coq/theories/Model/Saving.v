(* lemoncheesecake/reporting/savingstrategy.py and FileReportSession (reporting/backend.py), with the listener order of
   Session.create (session.py) and EventType.handle (events.py).  No proofs in this file.

   The DATA of the source (which events are wired to `_handle_event`, which event classes each strategy tests, the strategy-name
   table, the default strategy) is not written here: it is a value of type `tables`, regenerated from the source on every run by
   harness/tables_saving.py into gen/TablesSaving.v (`T : tables`).  The theorems of Props/C10.v are about that value.

   Python                                                         Gallina
   -------------------------------------------------------------- -------------------------------------------------------------
   Event classes (events.py), Event.get_name()                    ekind, kind_of
   _is_end_of_result_event(event)                                 end_of_result T e : option location   (first matching `isinstance` row)
   save_at_each_suite_strategy / _test_ / _failed_test_ / _log_   strategy_fn T (SFun FSuite | FTest | FFailedTest | FLog)
   SaveAtInterval(interval).__call__                              strategy_fn T (SInterval seconds): last_saved + interval < time.time()
                                                                  (times are integer milliseconds; the clock value read is an INPUT: `now`)
   make_report_saving_strategy(expression)                        make_strategy T expr : res (option strat)   (None = "at_end_of_tests";
                                                                  unknown expression = ValueError; the regex ^every[_ ](\d+)s$ is modelled
                                                                  for ASCII digits and no trailing newline, anything else non-ASCII-digit
                                                                  that Python's \d / $ would still accept is Err Unmodelled)
   FileReportSession.__init__ (last_saved_time = time.time())     init_fsess strat t0
   FileReportSession._save                                        save_now: file := snapshot of the report, last_saved_time := clock
   FileReportSession._handle_event                                file_on_event, kinds in t_handle_kinds T:
       `self.saving_strategy and self.saving_strategy(...)`         None (at_end_of_tests) is falsy; functions and SaveAtInterval objects are truthy
   FileReportSession.on_test_session_end                          file_on_event, KSessionEnd: unconditional save
   (any other event kind: FileReportSession has no on_<kind>)     file_on_event: nothing
   Session.create: add_listener(ReportWriter(report)) first,      session_listeners = [LWriter; LFile]
     then the backend sessions; EventType.handle: `for handler     handle_event: listeners in subscription order, the first exception stops the
     in self._handlers: handler(event)`                            loop (AsyncEventManager._handler_loop then stops consuming: run stops at Err)
   save_at_each_failed_test_strategy: `if location:` (a           a ReportLocation / Result object has neither __bool__ nor __len__: always true;
     ReportLocation), `result and result.status == "failed"`       result None (setup absent) is falsy.  report.get(location) raising LookupError
                                                                  cannot happen: the writer has just handled the same End event and the
                                                                  result is there, finalized (Proofs/SavingP.v end_of_result_found) --
                                                                  the unreachable branch is modelled as `false`.

   The "report" the strategies and the save see is the writer's live state (`wstate`); what is written to the file is its
   normal form (`normalize`, Writer.v) -- the text layer (dump/load) is C09's and is not modelled here. *)
From Coq Require Import List NArith ZArith Bool.
Import ListNotations.
From LCC Require Import Base.Util Model.Report Model.Events Model.Writer.

(* ---------------- event kinds ---------------- *)
Inductive ekind :=
| KSessionStart | KSessionEnd | KSessionSetupStart | KSessionSetupEnd | KSessionTeardownStart | KSessionTeardownEnd
| KSuiteStart | KSuiteEnd | KSuiteSetupStart | KSuiteSetupEnd | KSuiteTeardownStart | KSuiteTeardownEnd
| KTestStart | KTestEnd | KTestSkipped | KTestDisabled
| KStepStart | KStepEnd | KLog | KCheck | KLogAttachment | KLogUrl.

Definition ekind_index (k : ekind) : nat :=
  match k with
  | KSessionStart => 0 | KSessionEnd => 1 | KSessionSetupStart => 2 | KSessionSetupEnd => 3 | KSessionTeardownStart => 4
  | KSessionTeardownEnd => 5 | KSuiteStart => 6 | KSuiteEnd => 7 | KSuiteSetupStart => 8 | KSuiteSetupEnd => 9
  | KSuiteTeardownStart => 10 | KSuiteTeardownEnd => 11 | KTestStart => 12 | KTestEnd => 13 | KTestSkipped => 14
  | KTestDisabled => 15 | KStepStart => 16 | KStepEnd => 17 | KLog => 18 | KCheck => 19 | KLogAttachment => 20 | KLogUrl => 21
  end.
Definition ekind_eqb (a b : ekind) : bool := Nat.eqb (ekind_index a) (ekind_index b).
Definition kind_in (k : ekind) (l : list ekind) : bool := existsb (ekind_eqb k) l.

Definition kind_of (e : event) : ekind :=
  match e with
  | ESessionStart _ => KSessionStart | ESessionEnd _ => KSessionEnd
  | ESessionSetupStart _ => KSessionSetupStart | ESessionSetupEnd _ => KSessionSetupEnd
  | ESessionTeardownStart _ => KSessionTeardownStart | ESessionTeardownEnd _ => KSessionTeardownEnd
  | ESuiteStart _ _ => KSuiteStart | ESuiteEnd _ _ => KSuiteEnd
  | ESuiteSetupStart _ _ => KSuiteSetupStart | ESuiteSetupEnd _ _ => KSuiteSetupEnd
  | ESuiteTeardownStart _ _ => KSuiteTeardownStart | ESuiteTeardownEnd _ _ => KSuiteTeardownEnd
  | ETestStart _ _ => KTestStart | ETestEnd _ _ => KTestEnd
  | ETestSkipped _ _ _ => KTestSkipped | ETestDisabled _ _ _ => KTestDisabled
  | EStepStart _ _ _ _ => KStepStart | EStepEnd _ _ _ _ => KStepEnd
  | ELog _ _ _ _ _ _ => KLog | ECheck _ _ _ _ _ _ _ => KCheck
  | ELogAttachment _ _ _ _ _ _ _ => KLogAttachment | ELogUrl _ _ _ _ _ _ => KLogUrl
  end.

(* event.suite / event.test *)
Definition event_node (e : event) : option node :=
  match e with
  | ESuiteStart n _ | ESuiteEnd n _ | ESuiteSetupStart n _ | ESuiteSetupEnd n _ | ESuiteTeardownStart n _ | ESuiteTeardownEnd n _
  | ETestStart n _ | ETestEnd n _ | ETestSkipped n _ _ | ETestDisabled n _ _ => Some n
  | _ => None
  end.

(* ---------------- the data of the source ---------------- *)
(* ReportLocation.in_xxx constructors used by _is_end_of_result_event *)
Inductive locctor := InSessionSetup | InSessionTeardown | InSuiteSetup | InSuiteTeardown | InTest.
(* the four strategy functions *)
Inductive sfun := FSuite | FTest | FFailedTest | FLog.
Inductive strat := SFun (f : sfun) | SInterval (seconds : Z).

Record tables := mkTables {
  t_handle_kinds : list ekind;                 (* FileReportSession: `on_<kind> = _handle_event` *)
  t_end_of_result : list (ekind * locctor);    (* _is_end_of_result_event: `if isinstance(event, K): return ReportLocation.in_x(...)`, in order *)
  t_suite_kinds : list ekind;                  (* save_at_each_suite_strategy: isinstance(event, ...) *)
  t_log_kinds : list ekind;                    (* save_at_each_log_strategy: isinstance(event, SteppedEvent) = the concrete subclasses *)
  t_names : list (str * option sfun);          (* static_expressions of make_report_saving_strategy *)
  t_default : str }.                           (* DEFAULT_REPORT_SAVING_STRATEGY *)

(* ---------------- read-only lookups in the live report (Report.get) ---------------- *)
Fixpoint find_first (n : str) (l : list lsuite) : option lsuite :=
  match l with
  | [] => None
  | s :: r => if str_eqb (ls_name s) n then Some s else find_first n r
  end.

Fixpoint get_suite (p : path) (l : list lsuite) : option lsuite :=
  match p with
  | [] => None
  | n :: rest => match find_first n l with
                 | None => None
                 | Some s => match rest with [] => Some s | _ :: _ => get_suite rest (ls_subs s) end
                 end
  end.

Fixpoint get_test (n : str) (l : list (Z * test_result)) : option result :=
  match l with
  | [] => None
  | rt :: r => if str_eqb (m_name (t_meta (snd rt))) n then Some (t_result (snd rt)) else get_test n r
  end.

Definition get_result (loc : location) (w : wstate) : option result :=
  match loc with
  | LocSessionSetup => w_setup w
  | LocSessionTeardown => w_teardown w
  | LocSuiteSetup p => match get_suite p (w_suites w) with Some s => ls_setup s | None => None end
  | LocSuiteTeardown p => match get_suite p (w_suites w) with Some s => ls_teardown s | None => None end
  | LocTest p => match split_last p with
                 | None => None
                 | Some (q, n) => match get_suite q (w_suites w) with Some s => get_test n (ls_tests s) | None => None end
                 end
  end.

(* ---------------- strategies ---------------- *)
Definition mk_loc (c : locctor) (e : event) : option location :=
  match c, event_node e with
  | InSessionSetup, _ => Some LocSessionSetup
  | InSessionTeardown, _ => Some LocSessionTeardown
  | InSuiteSetup, Some n => Some (LocSuiteSetup (node_path n))
  | InSuiteTeardown, Some n => Some (LocSuiteTeardown (node_path n))
  | InTest, Some n => Some (LocTest (node_path n))
  | _, None => None                (* event.suite / event.test on an event that has none: not reachable with the generated table *)
  end.

Fixpoint lookup_kind {B} (k : ekind) (l : list (ekind * B)) : option B :=
  match l with
  | [] => None
  | (k', b) :: r => if ekind_eqb k k' then Some b else lookup_kind k r
  end.

Definition end_of_result (T : tables) (e : event) : option location :=
  match lookup_kind (kind_of e) (t_end_of_result T) with
  | Some c => mk_loc c e
  | None => None
  end.

(* strategy(event, report, last_saved_time), the clock read by SaveAtInterval being `now` (milliseconds) *)
Definition strategy_fn (T : tables) (s : strat) (e : event) (w : wstate) (last_saved now : Z) : bool :=
  match s with
  | SFun FSuite => kind_in (kind_of e) (t_suite_kinds T)
  | SFun FTest => match end_of_result T e with Some _ => true | None => false end
  | SFun FFailedTest =>
      match end_of_result T e with
      | Some loc => match get_result loc w with
                    | Some r => match r_status r with Some st => str_eqb st s_failed | None => false end
                    | None => false
                    end
      | None => false
      end
  | SFun FLog => kind_in (kind_of e) (t_log_kinds T)
  | SInterval n => Z.ltb (last_saved + n * 1000) now
  end.

(* --- make_report_saving_strategy --- *)
Fixpoint assoc_str {B} (k : str) (l : list (str * B)) : option B :=
  match l with
  | [] => None
  | (k', b) :: r => if str_eqb k k' then Some b else assoc_str k r
  end.

Definition is_digit (c : N) : bool := N.leb 48 c && N.leb c 57.
Fixpoint digits_value (acc : Z) (l : str) : Z :=
  match l with [] => acc | c :: r => digits_value (acc * 10 + Z.of_N (c - 48)) r end.
Definition s_every : str := [101; 118; 101; 114; 121]%N.       (* "every" *)
Fixpoint strip_prefix (p l : str) : option str :=
  match p, l with
  | [], _ => Some l
  | a :: p', b :: l' => if N.eqb a b then strip_prefix p' l' else None
  | _ :: _, [] => None
  end.
(* ^every[_ ](\d+)s$ *)
Definition parse_every (expr : str) : res (option Z) :=
  if existsb (fun c => N.ltb 127 c || N.eqb c 10) expr then Err Unmodelled else
  match strip_prefix s_every expr with
  | Some (sep :: rest) =>
      if N.eqb sep 95 || N.eqb sep 32 then
        match rev rest with
        | 115%N :: rdigits =>
            let ds := rev rdigits in
            match ds with
            | [] => Ok None
            | _ :: _ => if forallb is_digit ds then Ok (Some (digits_value 0 ds)) else Ok None
            end
        | _ => Ok None
        end
      else Ok None
  | _ => Ok None
  end.

Definition make_strategy (T : tables) (expr : str) : res (option strat) :=
  match assoc_str expr (t_names T) with
  | Some None => Ok None
  | Some (Some f) => Ok (Some (SFun f))
  | None => match parse_every expr with
            | Ok (Some n) => Ok (Some (SInterval n))
            | Ok None => Err ValueError
            | Err x => Err x
            end
  end.

(* ---------------- FileReportSession ---------------- *)
Record fsess := mkFS {
  fs_strategy : option strat;
  fs_last : Z;                         (* last_saved_time (ms) *)
  fs_file : option wstate;             (* what the last save wrote: the report as it was then (None: no save yet) *)
  fs_saves : list (nat * report) }.    (* every save so far, oldest first: (number of events handled incl. this one, snapshot) *)

Definition init_fsess (s : option strat) (t0 : Z) : fsess := mkFS s t0 None [].

(* _save: backend.save_report(path, report); last_saved_time = time.time() *)
Definition save_now (f : fsess) (w : wstate) (count : nat) (now_after : Z) : fsess :=
  mkFS (fs_strategy f) now_after (Some w) (fs_saves f ++ [(count, normalize w)]).

(* the clock values the session reads while handling one event: by the interval strategy, and by _save after saving *)
Record clock := mkClock { c_call : Z; c_saved : Z }.

Definition must_save (T : tables) (f : fsess) (e : event) (w : wstate) (c : clock) : bool :=
  match fs_strategy f with
  | None => false
  | Some s => strategy_fn T s e w (fs_last f) (c_call c)
  end.

Definition file_on_event (T : tables) (f : fsess) (e : event) (w : wstate) (count : nat) (c : clock) : fsess :=
  if ekind_eqb (kind_of e) KSessionEnd then save_now f w count (c_saved c)
  else if kind_in (kind_of e) (t_handle_kinds T) then
    (if must_save T f e w c then save_now f w count (c_saved c) else f)
  else f.

(* ---------------- the handler thread: listeners in subscription order ---------------- *)
Inductive listener := LWriter | LFile.
Definition session_listeners : list listener := [LWriter; LFile].

Record sstate := mkSS { ss_writer : wstate; ss_file : fsess; ss_count : nat }.   (* ss_count: events handled so far *)

Definition init_sstate (s : option strat) (t0 : Z) : sstate := mkSS init_wstate (init_fsess s t0) 0.

Definition call_listener (T : tables) (l : listener) (e : event) (c : clock) (s : sstate) : res sstate :=
  match l with
  | LWriter => bind (apply (ss_writer s) e) (fun w' => Ok (mkSS w' (ss_file s) (ss_count s)))
  | LFile => Ok (mkSS (ss_writer s) (file_on_event T (ss_file s) e (ss_writer s) (S (ss_count s)) c) (ss_count s))
  end.

Fixpoint call_all (T : tables) (ls : list listener) (e : event) (c : clock) (s : sstate) : res sstate :=
  match ls with
  | [] => Ok s
  | l :: r => bind (call_listener T l e c s) (call_all T r e c)
  end.

(* EventManager.handle_event for one event, with an arbitrary subscription order (the session's is session_listeners) *)
Definition handle_event_with (T : tables) (ls : list listener) (s : sstate) (ec : event * clock) : res sstate :=
  bind (call_all T ls (fst ec) (snd ec) s) (fun s' => Ok (mkSS (ss_writer s') (ss_file s') (S (ss_count s')))).

Definition handle_event (T : tables) := handle_event_with T session_listeners.

Fixpoint run_with (T : tables) (ls : list listener) (s : sstate) (l : list (event * clock)) : res sstate :=
  match l with
  | [] => Ok s
  | ec :: r => bind (handle_event_with T ls s ec) (fun s' => run_with T ls s' r)
  end.
Definition run (T : tables) := run_with T session_listeners.

(* the report file as a reader sees it between two events (the text layer being C09's): the last saved snapshot *)
Definition file_snapshot (s : sstate) : option report :=
  match fs_file (ss_file s) with Some w => Some (normalize w) | None => None end.

(* ---------------- events that respect the bracket discipline of a run (what C10_monotone assumes) ---------------- *)
(* `admissible w e`: the event does not touch an item that the report already shows as finished: nothing after SessionEnd,
   nothing inside an ended suite (at any depth of the path), no step / End for a result that has its end time, no log / StepEnd
   for a step that has its end time, SessionStart only once.  A delivered stream satisfies it by the stream grammar (C07,
   DESIGN A.1: rules 1, 3, 4, 5); the correspondence check evaluates it on every event of every real run. *)
Definition is_none {A} (o : option A) : bool := match o with None => true | Some _ => false end.

Definition ls_end (s : lsuite) : option Z := match s with LSuite _ _ _ e _ _ _ _ => e end.

Fixpoint path_open (p : path) (l : list lsuite) : bool :=
  match p with
  | [] => true
  | n :: rest => match find_first n l with
                 | None => true                     (* the writer raises LookupError: nothing changes *)
                 | Some s => is_none (ls_end s)
                             && match rest with [] => true | _ :: _ => path_open rest (ls_subs s) end
                 end
  end.

Definition loc_path (loc : location) : path :=
  match loc with
  | LocSessionSetup | LocSessionTeardown => []
  | LocSuiteSetup p | LocSuiteTeardown p => p
  | LocTest p => match split_last p with Some (q, _) => q | None => [] end
  end.

Definition result_open (loc : location) (w : wstate) : bool :=
  path_open (loc_path loc) (w_suites w)
  && match get_result loc w with Some r => is_none (r_end r) | None => true end.

Definition step_open (ref : sref) (w : wstate) : bool :=
  result_open (fst ref) w
  && match get_result (fst ref) w with
     | Some r => match nth_error (r_steps r) (snd ref) with Some st => is_none (st_end st) | None => true end
     | None => true
     end.

Definition active_open (thread : tid) (w : wstate) : bool :=
  match lookup_active thread (w_active w) with Some ref => step_open ref w | None => true end.

Definition admissible (w : wstate) (e : event) : bool :=
  is_none (w_end w) &&
  match e with
  | ESessionStart _ => is_none (w_start w)
  | ESessionEnd _ | ESessionSetupStart _ | ESessionTeardownStart _ => true
  | ESessionSetupEnd _ => result_open LocSessionSetup w
  | ESessionTeardownEnd _ => result_open LocSessionTeardown w
  | ESuiteStart n _ => path_open (n_parent n) (w_suites w)
  | ESuiteEnd n _ | ESuiteSetupStart n _ | ESuiteTeardownStart n _ => path_open (node_path n) (w_suites w)
  | ESuiteSetupEnd n _ => result_open (LocSuiteSetup (node_path n)) w
  | ESuiteTeardownEnd n _ => result_open (LocSuiteTeardown (node_path n)) w
  | ETestStart n _ | ETestSkipped n _ _ | ETestDisabled n _ _ => path_open (n_parent n) (w_suites w)
  | ETestEnd n _ => result_open (LocTest (node_path n)) w
  | EStepStart loc _ _ _ => result_open loc w
  | EStepEnd _ _ thread _ | ELog _ _ thread _ _ _ | ECheck _ _ thread _ _ _ _
  | ELogAttachment _ _ thread _ _ _ _ | ELogUrl _ _ thread _ _ _ => active_open thread w
  end.

Fixpoint all_admissible (w : wstate) (l : list event) : bool :=
  match l with
  | [] => true
  | e :: r => admissible w e && match apply w e with Ok w' => all_admissible w' r | Err _ => true end
  end.

(* ---------------- comparing a model snapshot with a loaded file ---------------- *)
(* title, info, nb_threads are set once by the project before the run (project.py _setup_report, Session.create) and saving_time
   is stamped by the serializer: they are taken from the observed report, everything the events build is compared *)
Definition with_header (h r : report) : report :=
  mkReport (rp_title h) (rp_info h) (rp_start r) (rp_end r) (rp_saving h) (rp_nb_threads h) (rp_session_setup r)
           (rp_session_teardown r) (rp_suites r).
