(* C20 — the JUnit export (lemoncheesecake/reporting/backends/junit.py), outcome-carrying part only (faithful, no proofs).

   Python                                                   Gallina
   -------------------------------------------------------  ------------------------------------------------------------
   _serialize_test_result(test)                              junit_children (children of <testcase>, in document order)
       if test.status == "skipped": <skipped/>                 status_is s_skipped
       elif test.status == "failed": for step / for log:       status_is s_failed   (F12 repaired: was a plain `else`,
                                                               junit_children_unfixed = before)
         isinstance(log, Check) and is_successful is False     LCheck _ false _ _  -> JFailure
         isinstance(log, Log) and level == "error"             LLog "error" _ _    -> JError
   _serialize_suite_result(suite)                            junit_suite  (name=suite.path, tests, failures, skipped, testcases)
       min(t.start_time for t in tests) -> format_time_...     TypeError as soon as one start_time is None
                                                               (None < float, None < None, round(None, 3) all raise TypeError)
   serialize_report_as_xml_tree(report)                      junit_report
       stats = ReportStats.from_report(report)                 KeyError path of Stats.from_report
       attrib["tests"] = by_status["passed"]  (sic)            jr_tests
       attrib["failures"] = by_status["failed"]                jr_failures
       if report.end_time is not None: end - start             TypeError when start_time is None
       for suite in all_suites(): if suite.get_tests(): ...    suites with at least one test (`if list:` = non-empty)
   Not modelled: the `time`/`timestamp` attribute strings, the `message` attribute of failure/error, testcase `time`.

   junit_children_unfixed describes the code BEFORE the repair F12 (DESIGN.md section 6); it is tied to nothing and is only what
   C20_junit_iff_unfixed_refuted of Props/C20.v is stated about. *)
From Coq Require Import List NArith ZArith Bool.
Import ListNotations.
From LCC Require Import Base.Util Model.Report Model.Stats.

Inductive jchild := JFailure | JError | JSkipped.

Definition log_children (l : steplog) : list jchild :=
  match l with
  | LCheck _ false _ _ => [JFailure]
  | LLog level _ _ => if str_eqb level s_error then [JError] else []
  | _ => []
  end.

Definition steps_children (r : result) : list jchild :=
  flat_map (fun s => flat_map log_children (st_logs s)) (r_steps r).

Definition junit_children (r : result) : list jchild :=
  if status_is s_skipped r then [JSkipped]
  else if status_is s_failed r then steps_children r
  else [].

(* BEFORE F12: the failure/error children were emitted for every test that is not skipped, whatever its status *)
Definition junit_children_unfixed (r : result) : list jchild :=
  if status_is s_skipped r then [JSkipped] else steps_children r.

Record jcase := mkCase { jc_name : str; jc_children : list jchild }.
Record jsuite := mkJSuite {
  js_name : str; js_tests : nat; js_failures : nat; js_skipped : nat; js_cases : list jcase }.
Record jreport := mkJReport { jr_tests : nat; jr_failures : nat; jr_has_time : bool; jr_suites : list jsuite }.

Definition junit_suite (ps : list str * suite_result) : vres jsuite :=
  let tests := s_tests_of (snd ps) in
  if existsb (fun t => is_none (r_start (t_result t))) tests then VErr TypeError
  else VOk (mkJSuite (path_str (fst ps))
                     (length tests)
                     (length (filter (fun t => status_is s_failed (t_result t)) tests))
                     (length (filter (fun t => status_is s_skipped (t_result t)) tests))
                     (map (fun t => mkCase (m_name (t_meta t)) (junit_children (t_result t))) tests)).

Fixpoint vmap {A B} (f : A -> vres B) (l : list A) : vres (list B) :=
  match l with
  | [] => VOk []
  | x :: l' => match f x with
               | VErr e => VErr e
               | VOk y => match vmap f l' with VErr e => VErr e | VOk ys => VOk (y :: ys) end
               end
  end.

Definition junit_shown (r : report) : list (list str * suite_result) :=
  filter (fun ps => negb (is_nil (s_tests_of (snd ps)))) (suites_with_path (rp_suites r)).

Definition junit_report (r : report) : vres jreport :=
  match from_report r with
  | VErr e => VErr e
  | VOk s =>
      if negb (is_none (rp_end r)) && is_none (rp_start r) then VErr TypeError
      else match vmap junit_suite (junit_shown r) with
           | VErr e => VErr e
           | VOk js => VOk (mkJReport (n_passed (st_by s)) (n_failed (st_by s)) (negb (is_none (rp_end r))) js)
           end
  end.
