(* Model of the matcher classes of lemoncheesecake/matching (matches side) and of matching/operations.py.

   Result details are abstracted to what the operations look at:  DNone (description is None), DEmpty (""), DText (non-empty).

   Python (class / function)                       | here
   ------------------------------------------------+-----------------------------------------------------------
   value.py  EqualTo(expected)                     | EqualTo e                (DISPLAY_DETAILS_WHEN_EQUAL = True, the default)
   value.py  _Comparator (not_equal_to, >, >=,<,<=)| Comparator CNe e / Comparator (CCmp op) e
   value.py  IsBetween(min, max)  (int bounds)     | IsBetween lo hi          (min <= actual <= max, chained: 2nd test only if 1st true)
   value.py  IsNone                                | IsNone
   value.py  HasLength(matcher)                    | HasLength m
   string.py StartsWith/EndsWith/ContainsString    | StartsWith s / EndsWith s / ContainsString s   (expected is a str)
   list_.py  HasItem / HasItems / HasOnlyItems /   | HasItem m / HasItems l / HasOnlyItems l /
             HasAllItems / IsIn (expected a list)  | HasAllItems m / IsIn l
   dict_.py  HasEntry(KeyPathMatcher(path), vm)    | HasEntry path vm         (`if self.value_matcher:` = is not None: Matcher has no __bool__)
   types_.py IsValueOfType(types, name, vm)        | IsValueOfType t vm       (float excluded; is_list = [list, tuple], no tuples here)
   composites.py AllOf / AnyOf / Anything / Not    | AllOf ms / AnyOf ms / Anything w / Not m
   matcher.py MatcherWrapper                       | Wrapper m descr hide     (override_description / hide_result_details)
   composites.py is_(x)                            | is_ a                    (a : AVal v | AMat m)
   public constructors equal_to ... is_not         | equal_to ... (Section "public constructors")
   Matcher.matches(actual)                         | matches m v : result (bool * details)      (Err = the exception that escapes)
   bool(MatchResult)                               | truth
   (specification) the denoted truth value         | sem m v : result bool   (and_sc / or_sc / and_all)
   operations._format_result_details               | format_result_details impl
   operations._log_match_result (+ log_check)      | log_match_result
   operations.check_that/require_that/assert_that  | check_that / require_that / assert_that : list check * outcome
   check_that_in / require_that_in / assert_that_in are in Model/OpsIn.v.
   Not modelled: match_pattern, is_text, is_json, is_float, has_entry with a custom EntryMatcher.
   No proofs in this file. *)
From Coq Require Import List Bool NArith ZArith.
Import ListNotations.
From LCC Require Import Base.Util Model.PyVal.

Inductive details := DNone | DEmpty | DText.

Definition details_eqb (a b : details) : bool :=
  match a, b with DNone, DNone | DEmpty, DEmpty | DText, DText => true | _, _ => false end.

(* `if result.description` *)
Definition details_truthy (d : details) : bool := match d with DText => true | _ => false end.

Inductive cmp_kind := CNe | CCmp (op : cmp_op).
Inductive tyname := TyInt | TyBool | TyStr | TyDict | TyList.
Inductive anyw := WAnything | WSomething | WExist | WPresent.

Inductive matcher :=
| EqualTo (e : pyval)
| Comparator (c : cmp_kind) (e : pyval)
| IsBetween (lo hi : Z)
| IsNone
| HasLength (m : matcher)
| StartsWith (s : str)
| EndsWith (s : str)
| ContainsString (s : str)
| HasItem (m : matcher)
| HasItems (l : list pyval)
| HasOnlyItems (l : list pyval)
| HasAllItems (m : matcher)
| IsIn (l : list pyval)
| HasEntry (path : list pyval) (vm : option matcher)
| IsValueOfType (t : tyname) (vm : option matcher)
| AllOf (ms : list matcher)
| AnyOf (ms : list matcher)
| Anything (w : anyw)
| Not (m : matcher)
| Wrapper (m : matcher) (descr : option str) (hide : bool).

Definition mres := result (bool * details).

Definition truth (r : mres) : result bool :=
  match r with Ok (b, _) => Ok b | Err e => Err e end.

Definition has_type (t : tyname) (v : pyval) : bool :=
  match t, v with
  | TyInt, VInt _ | TyBool, VBool _ | TyStr, VStr _ | TyDict, VDict _ | TyList, VList _ => true
  | _, _ => false
  end.

(* [f(x) for x in l], left to right, first exception escapes *)
Fixpoint map_result {A B} (f : A -> result B) (l : list A) : result (list B) :=
  match l with
  | [] => Ok []
  | x :: r => bind (f x) (fun y => bind (map_result f r) (fun ys => Ok (y :: ys)))
  end.

(* list.remove(value): the first item == value *)
Fixpoint remove_first (v : pyval) (l : list pyval) : list pyval :=
  match l with
  | [] => []
  | x :: r => if py_eq x v then r else x :: remove_first v r
  end.

(* HasOnlyItems.matches loop: (expected left, extra seen?) *)
Fixpoint only_items_loop (items expected : list pyval) (extra : bool) : list pyval * bool :=
  match items with
  | [] => (expected, extra)
  | x :: r => if existsb (fun e => py_eq x e) expected
              then only_items_loop r (remove_first x expected) extra
              else only_items_loop r expected true
  end.

(* KeyPathMatcher.get_entry ; None = KeyError *)
Fixpoint get_entry (path : list pyval) (d : pyval) : option pyval :=
  match path with
  | [] => Some d
  | k :: r => match py_getitem d k with Some d' => get_entry r d' | None => None end
  end.

Fixpoint matches (m : matcher) (v : pyval) {struct m} : mres :=
  match m with
  | EqualTo e => Ok (py_eq v e, DText)
  | Comparator CNe e => Ok (negb (py_eq v e), DText)
  | Comparator (CCmp op) e => bind (py_cmp op v e) (fun b => Ok (b, DText))
  | IsBetween lo hi =>
      bind (py_cmp Le (VInt lo) v) (fun b1 =>
        if b1 then bind (py_cmp Le v (VInt hi)) (fun b2 => Ok (b2, DText)) else Ok (false, DText))
  | IsNone => Ok (match v with VNone => true | _ => false end, DText)
  | HasLength m' => bind (py_len v) (fun n => matches m' (VInt n))
  | StartsWith s => Ok (match v with VStr a => str_prefix s a | _ => false end, DText)
  | EndsWith s => Ok (match v with VStr a => str_suffix s a | _ => false end, DText)
  | ContainsString s => Ok (match v with VStr a => str_contains s a | _ => false end, DText)
  | HasItem m' =>
      bind (py_iter v) (fun items =>
        (fix go (items : list pyval) : mres :=
           match items with
           | [] => Ok (false, DText)                               (* HasItemMatchResult.not_found() *)
           | x :: r => match matches m' x with
                       | Err e => Err e
                       | Ok (true, _) => Ok (true, DText)          (* found(index, item) *)
                       | Ok (false, _) => go r
                       end
           end) items)
  | HasItems l =>
      bind (map_result (fun e => py_in e v) l) (fun present => Ok (forallb (fun b => b) present, DText))
  | HasOnlyItems l =>
      bind (py_iter v) (fun items =>
        let '(rest, extra) := only_items_loop items l false in
        Ok (match rest with [] => negb extra | _ => false end, DText))
  | HasAllItems m' =>
      bind (py_iter v) (fun items =>
        (fix go (items : list pyval) (failed : bool) : mres :=
           match items with
           | [] => if failed then Ok (false, DText) else Ok (true, DNone)     (* MatchResult.success() *)
           | x :: r => match matches m' x with
                       | Err e => Err e
                       | Ok (b, _) => go r (failed || negb b)
                       end
           end) items false)
  | IsIn l => Ok (existsb (fun y => py_eq v y) l, DText)
  | HasEntry path vm =>
      match get_entry path v with
      | None => Ok (false, DText)                                   (* 'No entry ...' *)
      | Some value => match vm with Some m' => matches m' value | None => Ok (true, DText) end
      end
  | IsValueOfType t vm =>
      if has_type t v
      then match vm with Some m' => matches m' v | None => Ok (true, DText) end
      else Ok (false, DText)
  | AllOf ms =>
      (fix go (ms : list matcher) : mres :=
         match ms with
         | [] => Ok (true, DText)                                   (* details: "got:" + evaluated items, never empty *)
         | m' :: r => match matches m' v with
                      | Err e => Err e
                      | Ok (false, _) => Ok (false, DText)          (* break *)
                      | Ok (true, _) => go r
                      end
         end) ms
  | AnyOf ms =>
      (fix go (ms : list matcher) (some_details : bool) : mres :=
         match ms with
         | [] => Ok (false, if some_details then DText else DEmpty) (* ", ".join(OrderedSet(d for d in ... if d)) *)
         | m' :: r => match matches m' v with
                      | Err e => Err e
                      | Ok (true, d) => Ok (true, d)                (* return match *)
                      | Ok (false, d) => go r (some_details || details_truthy d)
                      end
         end) ms false
  | Anything _ => Ok (true, DText)
  | Not m' => match matches m' v with Err e => Err e | Ok (b, d) => Ok (negb b, d) end
  | Wrapper m' _ hide => match matches m' v with Err e => Err e | Ok (b, d) => Ok (b, if hide then DNone else d) end
  end.

(* ------------------------------------------------------------------ reference semantics (specification side of C16)
   The truth value a matcher expression denotes, written with the PyVal operators and the connectives only: no details,
   no accumulators.  and_sc / or_sc are Python's `and` / `or` over an already-ordered list of operands (an operand that
   raises is only reached if the operands before it did not decide); and_all is `all([...])` over a fully evaluated list. *)
Definition rmap {A B} (f : A -> B) (r : result A) : result B :=
  match r with Ok a => Ok (f a) | Err e => Err e end.

Fixpoint and_sc (l : list (result bool)) : result bool :=
  match l with
  | [] => Ok true
  | Ok true :: r => and_sc r
  | Ok false :: _ => Ok false
  | Err e :: _ => Err e
  end.

Fixpoint or_sc (l : list (result bool)) : result bool :=
  match l with
  | [] => Ok false
  | Ok false :: r => or_sc r
  | Ok true :: _ => Ok true
  | Err e :: _ => Err e
  end.

Fixpoint and_all (l : list (result bool)) : result bool :=
  match l with
  | [] => Ok true
  | Err e :: _ => Err e
  | Ok b :: r => rmap (andb b) (and_all r)
  end.

Fixpoint sem (m : matcher) (v : pyval) {struct m} : result bool :=
  match m with
  | EqualTo e => Ok (py_eq v e)
  | Comparator CNe e => Ok (negb (py_eq v e))
  | Comparator (CCmp op) e => py_cmp op v e
  | IsBetween lo hi => and_sc [py_cmp Le (VInt lo) v; py_cmp Le v (VInt hi)]
  | IsNone => Ok (match v with VNone => true | _ => false end)
  | HasLength m' => bind (py_len v) (fun n => sem m' (VInt n))
  | StartsWith s => Ok (match v with VStr a => str_prefix s a | _ => false end)
  | EndsWith s => Ok (match v with VStr a => str_suffix s a | _ => false end)
  | ContainsString s => Ok (match v with VStr a => str_contains s a | _ => false end)
  | HasItem m' => bind (py_iter v) (fun items => or_sc (map (sem m') items))
  | HasItems l => rmap (forallb (fun b => b)) (map_result (fun e => py_in e v) l)
  | HasOnlyItems l =>
      rmap (fun items => let '(rest, extra) := only_items_loop items l false in
                         match rest with [] => negb extra | _ => false end) (py_iter v)
  | HasAllItems m' => bind (py_iter v) (fun items => and_all (map (sem m') items))
  | IsIn l => Ok (existsb (fun y => py_eq v y) l)
  | HasEntry path vm =>
      match get_entry path v with
      | None => Ok false
      | Some value => match vm with Some m' => sem m' value | None => Ok true end
      end
  | IsValueOfType t vm =>
      if has_type t v then match vm with Some m' => sem m' v | None => Ok true end else Ok false
  | AllOf ms => and_sc (map (fun m' => sem m' v) ms)
  | AnyOf ms => or_sc (map (fun m' => sem m' v) ms)
  | Anything _ => Ok true
  | Not m' => rmap negb (sem m' v)
  | Wrapper m' _ _ => sem m' v
  end.

(* ------------------------------------------------------------------ public constructors *)
Inductive arg := AVal (v : pyval) | AMat (m : matcher).

Definition is_ (a : arg) : matcher := match a with AVal v => EqualTo v | AMat m => m end.

Definition equal_to (v : pyval) := EqualTo v.
Definition not_equal_to (v : pyval) := Comparator CNe v.
Definition greater_than (v : pyval) := Comparator (CCmp Gt) v.
Definition greater_than_or_equal_to (v : pyval) := Comparator (CCmp Ge) v.
Definition less_than (v : pyval) := Comparator (CCmp Lt) v.
Definition less_than_or_equal_to (v : pyval) := Comparator (CCmp Le) v.
Definition is_between (lo hi : Z) := IsBetween lo hi.
Definition is_none := IsNone.
Definition not_ (a : arg) := Not (is_ a).
Definition is_not_none := not_ (AMat is_none).
Definition has_length (a : arg) := HasLength (is_ a).
(* `is_(x) if x is not None else None`: passing the value None is the same as passing nothing *)
Definition opt_arg (a : option arg) : option matcher :=
  match a with
  | None | Some (AVal VNone) => None
  | Some a' => Some (is_ a')
  end.
Definition is_type (t : tyname) (a : option arg) := IsValueOfType t (opt_arg a).
Definition is_integer := is_type TyInt.
Definition is_bool := is_type TyBool.
Definition is_str := is_type TyStr.
Definition is_dict := is_type TyDict.
Definition is_list := is_type TyList.
Definition is_true := is_bool (Some (AVal (VBool true))).
Definition is_false := is_bool (Some (AVal (VBool false))).
Definition starts_with (s : str) := StartsWith s.
Definition ends_with (s : str) := EndsWith s.
Definition contains_string (s : str) := ContainsString s.
Definition has_item (a : arg) := HasItem (is_ a).
Definition has_items (l : list pyval) := HasItems l.
Definition has_only_items (l : list pyval) := HasOnlyItems l.
Definition has_all_items (a : arg) := HasAllItems (is_ a).
Definition is_in (l : list pyval) := IsIn l.
(* wrap_key_matcher: a list key is a path, anything else a one-element path *)
Definition has_entry (k : pyval) (a : option arg) :=
  HasEntry (match k with VList p => p | _ => [k] end) (opt_arg a).
Definition all_of (l : list arg) := AllOf (map is_ l).
Definition any_of (l : list arg) := AnyOf (map is_ l).
Definition anything := Anything WAnything.
Definition something := Anything WSomething.
Definition existing := Anything WExist.
Definition present := Anything WPresent.
Definition hide_result_details (m : matcher) := Wrapper m None true.
Definition override_description (m : matcher) (d : str) := Wrapper m (Some d) false.

(* ------------------------------------------------------------------ operations.py *)
(* how _format_result_details capitalises: details[0] (IndexError on "") or details[:1] ; read off the source by
   harness/tables_matchers.py into gen/TablesMatchers.v *)
Inductive frd_impl := FrdIndex0 | FrdSlice.

(* how composites.Not.build_description negates (used by Model/Describe.v; read off the source the same way):
   NotMutates: `transformation.negative = True` on the transformer object it received, which its caller goes on using;
   NotFresh:   a new MatcherDescriptionTransformer(conjugate=..., negative=not ...) for the negated matcher only *)
Inductive not_impl := NotMutates | NotFresh.

Definition format_result_details (impl : frd_impl) (d : details) : result details :=
  match d with
  | DNone => Ok DNone
  | DEmpty => match impl with FrdIndex0 => Err IndexError | FrdSlice => Ok DEmpty end
  | DText => Ok DText
  end.

Record check := { ck_ok : bool; ck_details : details }.

Inductive outcome := Returns (ok : bool) | Raises (e : err).

Definition op_obs := (list check * outcome)%type.

(* _log_match_result: the arguments of log_check are evaluated first, so an exception there records nothing *)
Definition log_match_result (impl : frd_impl) (ok : bool) (d : details) (quiet : bool) : result check :=
  bind (if quiet then Ok DNone else format_result_details impl d) (fun d' => Ok {| ck_ok := ok; ck_details := d' |}).

Definition check_that (impl : frd_impl) (v : pyval) (m : matcher) (quiet : bool) : op_obs :=
  match matches m v with
  | Err e => ([], Raises e)
  | Ok (ok, d) => match log_match_result impl ok d quiet with
                  | Err e => ([], Raises e)
                  | Ok c => ([c], Returns ok)
                  end
  end.

Definition require_that (impl : frd_impl) (v : pyval) (m : matcher) (quiet : bool) : op_obs :=
  match matches m v with
  | Err e => ([], Raises e)
  | Ok (ok, d) => match log_match_result impl ok d quiet with
                  | Err e => ([], Raises e)
                  | Ok c => ([c], if ok then Returns true else Raises AbortTest)
                  end
  end.

Definition assert_that (impl : frd_impl) (v : pyval) (m : matcher) (quiet : bool) : op_obs :=
  match matches m v with
  | Err e => ([], Raises e)
  | Ok (true, _) => ([], Returns true)
  | Ok (false, d) => match log_match_result impl false d quiet with
                     | Err e => ([], Raises e)
                     | Ok c => ([c], Raises AbortTest)
                     end
  end.

(* ------------------------------------------------------------------ comparison helpers for the case files *)
Definition mres_eqb (a b : mres) : bool :=
  match a, b with
  | Ok (x, d), Ok (y, e) => Bool.eqb x y && details_eqb d e
  | Err x, Err y => err_eqb x y
  | _, _ => false
  end.

Definition check_eqb (a b : check) : bool := Bool.eqb (ck_ok a) (ck_ok b) && details_eqb (ck_details a) (ck_details b).

Definition outcome_eqb (a b : outcome) : bool :=
  match a, b with
  | Returns x, Returns y => Bool.eqb x y
  | Raises x, Raises y => err_eqb x y
  | _, _ => false
  end.

Definition op_obs_eqb (a b : op_obs) : bool := list_eqb check_eqb (fst a) (fst b) && outcome_eqb (snd a) (snd b).
