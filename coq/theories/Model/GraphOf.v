(* The task graph of a project: Model/Graph.v instantiated with the fixture schedules of Model/Fixture.v
   (what runner._run_suites computes before run_tasks). No proofs in this file. *)
From Coq Require Import List Arith Bool.
Import ListNotations.
From LCC Require Import Base.Util Model.Proj Model.Sched Model.Graph Model.Fixture.

Definition nonempty_ok {A} (r : result (list A)) : bool := match r with Ok (_ :: _) => true | _ => false end.

Definition sinfo_of (reg : registry) (suites : list suite) (force : bool) : sinfo :=
  mkSinfo (nonempty_ok (get_fixtures_scheduled_for_session reg suites force))
          (fun inh s => nonempty_ok (get_fixtures_scheduled_for_suite reg inh s force)).

Definition graph_of_project (p : project) (force : bool) : option graph :=
  match build_registry (p_fixtures p) with
  | Ok reg => build_tasks (sinfo_of reg (p_suites p) force) force (p_suites p)
  | Err _ => None
  end.
