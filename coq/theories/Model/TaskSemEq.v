(* Executable equalities on the vocabulary of Model/TaskSem.v, and the comparison used by the correspondence check. *)
From Coq Require Import List Arith Bool.
Import ListNotations.
From LCC Require Import Base.Util Model.Proj Model.Sched Model.Fixture Model.TaskSem.

Definition npath_eqb : list nat -> list nat -> bool := list_eqb Nat.eqb.

Definition owner_eqb (a b : owner) : bool :=
  match a, b with
  | OBody p, OBody q | OSetupTest p, OSetupTest q | OTeardownTest p, OTeardownTest q
  | OSetupSuite p, OSetupSuite q | OTeardownSuite p, OTeardownSuite q => npath_eqb p q
  | OFxSetup f, OFxSetup g | OFxTeardown f, OFxTeardown g => Nat.eqb f g
  | _, _ => false
  end.

Definition loc_eqb (a b : loc) : bool :=
  match a, b with
  | LSessionSetup, LSessionSetup | LSessionTeardown, LSessionTeardown => true
  | LSuiteSetup p, LSuiteSetup q | LSuiteTeardown p, LSuiteTeardown q | LTest p, LTest q => npath_eqb p q
  | _, _ => false
  end.

Definition stepd_eqb (a b : stepd) : bool :=
  match a, b with
  | SdSetupSession, SdSetupSession | SdTeardownSession, SdTeardownSession | SdSetupSuite, SdSetupSuite
  | SdTeardownSuite, SdTeardownSuite | SdSetupTest, SdSetupTest | SdTeardownTest, SdTeardownTest => true
  | SdTest n, SdTest m => Nat.eqb n m
  | SdUser o tp n, SdUser o' tp' n' => owner_eqb o o' && npath_eqb tp tp' && Nat.eqb n n'
  | _, _ => false
  end.
Definition ostepd_eqb := option_eqb stepd_eqb.

Definition msg_eqb (a b : msg) : bool :=
  match a, b with
  | MUser o tp n, MUser o' tp' n' => owner_eqb o o' && npath_eqb tp tp' && Nat.eqb n n'
  | MAbortTest, MAbortTest | MAbortSuite, MAbortSuite | MAbortAll, MAbortAll | MUnexpected, MUnexpected => true
  | _, _ => false
  end.

Definition revt_eqb (a b : revt) : bool :=
  match a, b with
  | RSessionSetupStart, RSessionSetupStart | RSessionSetupEnd, RSessionSetupEnd
  | RSessionTeardownStart, RSessionTeardownStart | RSessionTeardownEnd, RSessionTeardownEnd => true
  | RSuiteStart p, RSuiteStart q | RSuiteEnd p, RSuiteEnd q | RSuiteSetupStart p, RSuiteSetupStart q
  | RSuiteSetupEnd p, RSuiteSetupEnd q | RSuiteTeardownStart p, RSuiteTeardownStart q
  | RSuiteTeardownEnd p, RSuiteTeardownEnd q | RTestStart p, RTestStart q | RTestEnd p, RTestEnd q
  | RTestDisabled p, RTestDisabled q => npath_eqb p q
  | RTestSkipped p r, RTestSkipped q r' => npath_eqb p q && option_eqb reason_eqb r r'
  | RStepStart l d th, RStepStart l' d' th' | RStepEnd l d th, RStepEnd l' d' th' =>
      loc_eqb l l' && ostepd_eqb d d' && npath_eqb th th'
  | RLog l d th lv m, RLog l' d' th' lv' m' =>
      loc_eqb l l' && ostepd_eqb d d' && npath_eqb th th' && Nat.eqb lv lv' && msg_eqb m m'
  | RCheck l d th ok m, RCheck l' d' th' ok' m' =>
      loc_eqb l l' && ostepd_eqb d d' && npath_eqb th th' && Bool.eqb ok ok' && msg_eqb m m'
  | RUrl l d th m, RUrl l' d' th' m' | RAttach l d th m, RAttach l' d' th' m' =>
      loc_eqb l l' && ostepd_eqb d d' && npath_eqb th th' && msg_eqb m m'
  | _, _ => false
  end.

Definition inst_eqb (a b : inst) : bool :=
  match a, b with
  | IGlobal, IGlobal | IAbsent, IAbsent => true
  | ISuite p, ISuite q | ITest p, ITest q => npath_eqb p q
  | _, _ => false
  end.

Definition flag_eqb (a b : flag) : bool :=
  match a, b with
  | FTasksAborted, FTasksAborted | FAbortedSession, FAbortedSession | FFailure, FFailure => true
  | FPending x, FPending y => Bool.eqb x y
  | FAbortedSuite p, FAbortedSuite q => npath_eqb p q
  | _, _ => false
  end.

Definition raise_kind_eqb (a b : raise_kind) : bool :=
  match a, b with
  | ExcException, ExcException | ExcAbortTest, ExcAbortTest | ExcAbortSuite, ExcAbortSuite
  | ExcAbortAllTests, ExcAbortAllTests | ExcUserError, ExcUserError | ExcBase, ExcBase => true
  | _, _ => false
  end.

Definition atom_eqb (a b : atom) : bool :=
  match a, b with
  | AtFire e, AtFire e' => revt_eqb e e'
  | AtFlag f, AtFlag f' => flag_eqb f f'
  | AtMark o tp n, AtMark o' tp' n' => owner_eqb o o' && npath_eqb tp tp' && Nat.eqb n n'
  | AtUse o tp f i, AtUse o' tp' f' i' => owner_eqb o o' && npath_eqb tp tp' && Nat.eqb f f' && inst_eqb i i'
  | AtRaise o tp k, AtRaise o' tp' k' => owner_eqb o o' && npath_eqb tp tp' && raise_kind_eqb k k'
  | AtSpawn c, AtSpawn c' | AtJoin c, AtJoin c' => npath_eqb c c'
  | AtBegin o, AtBegin o' | AtEnd o, AtEnd o' => owner_eqb o o'
  | AtStatus b, AtStatus b' => Bool.eqb b b'
  | _, _ => false
  end.
Definition atoms_eqb := list_eqb atom_eqb.

(* what the harness extracted for one task from the implementation's trace *)
Record observed := mkObs {
  ob_task : nat;
  ob_mode : mode;
  ob_setup_mode : option mode;
  ob_main : list atom;
  ob_children : list (owner * tpath * list atom);
  ob_result : option tres }.           (* None: the worker died before finishing *)

Definition child_matches (model : list (owner * tpath * list atom)) (c : owner * tpath * list atom) : bool :=
  match find (fun m => owner_eqb (fst (fst m)) (fst (fst c)) && npath_eqb (snd (fst m)) (snd (fst c))) model with
  | Some m => atoms_eqb (snd m) (snd c)
  | None => false
  end.

Definition observed_ok (pr : project) (reg : registry) (force : bool) (g : graph) (ob : observed) : bool :=
  match task_sem pr reg force (get_task g (ob_task ob)) (ob_mode ob) (ob_setup_mode ob) with
  | None => false
  | Some o =>
      atoms_eqb (to_main o) (ob_main ob) &&
      Nat.eqb (length (to_children o)) (length (ob_children ob)) &&
      forallb (child_matches (to_children o)) (ob_children ob) &&
      option_eqb tres_eqb (predicted_result (ob_task ob) (ob_mode ob) o) (ob_result ob)
  end.

Definition run_ok (pr : project) (force : bool) (g : graph) (obs : list observed) : list nat :=
  match build_registry (p_fixtures pr) with
  | Ok reg => find_indexes (fun ob => negb (observed_ok pr reg force g ob)) obs
  | Err _ => seq 0 (length obs)
  end.
